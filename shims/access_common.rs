// Stand-ins shared by the access-control units (C20, C24, C50). ASSUMED contracts.
// ---- ordered sets: std::collections::BTreeSet API subset, viewed as a mathematical set of keys ----
#[verifier::external_body]
#[verifier::reject_recursive_types(K)]
pub struct BTreeSet<K> { p: core::marker::PhantomData<K> }
impl<K> View for BTreeSet<K> { type V = Set<K>; uninterp spec fn view(&self) -> Set<K>; }
impl<K> Default for BTreeSet<K> { #[verifier::external_body] fn default() -> (r: BTreeSet<K>) ensures r@ == Set::<K>::empty() { unimplemented!() } }
// Borrow-style lookups (`BTreeSet<String>::contains(&str)`): the borrowed form denotes one key
pub trait KvxKey<K> { spec fn as_key(&self) -> K; }
impl<K> KvxKey<K> for K { open spec fn as_key(&self) -> K { *self } }
impl KvxKey<String> for str { uninterp spec fn as_key(&self) -> String; }
impl<K> BTreeSet<K> {
    #[verifier::external_body] pub fn default() -> (r: BTreeSet<K>) ensures r@ == Set::<K>::empty() { unimplemented!() }
    #[verifier::external_body] pub fn new() -> (r: BTreeSet<K>) ensures r@ == Set::<K>::empty() { unimplemented!() }
    #[verifier::external_body] pub fn is_empty(&self) -> (r: bool) ensures r == (self@ =~= Set::<K>::empty()) { unimplemented!() }
    // number of members: nothing is assumed about it beyond emptiness (the view is not known to be finite)
    #[verifier::external_body] pub fn len(&self) -> (r: usize) ensures (r == 0) == (self@ =~= Set::<K>::empty()) { unimplemented!() }
    #[verifier::external_body] pub fn contains<Q: ?Sized + KvxKey<K>>(&self, k: &Q) -> (r: bool) ensures r == self@.contains(k.as_key()) { unimplemented!() }
    #[verifier::external_body] pub fn insert(&mut self, k: K) -> (r: bool) ensures final(self)@ == old(self)@.insert(k), r == !old(self)@.contains(k) { unimplemented!() }
    #[verifier::external_body] pub fn append(&mut self, o: &mut BTreeSet<K>) ensures final(self)@ == old(self)@.union(old(o)@), final(o)@ == Set::<K>::empty() { unimplemented!() }
    #[verifier::external_body] pub fn is_disjoint(&self, o: &BTreeSet<K>) -> (r: bool) ensures r == self@.disjoint(o@) { unimplemented!() }
    #[verifier::external_body] pub fn is_subset(&self, o: &BTreeSet<K>) -> (r: bool) ensures r == self@.subset_of(o@) { unimplemented!() }
    #[verifier::external_body] pub fn clone(&self) -> (r: BTreeSet<K>) ensures r@ == self@ { unimplemented!() }
    #[verifier::external_body] pub fn extend<const N: usize>(&mut self, a: [K; N]) ensures final(self)@ == old(self)@.union(a@.to_set()) { unimplemented!() }
    // kanidm's `btreeset![a, b, ..]` macro (server/lib/src/macros.rs: new + insert of each element) is redirected here (R3)
    #[verifier::external_body] pub fn kvx_from_array<const N: usize>(a: [K; N]) -> (r: BTreeSet<K>) ensures r@ == a@.to_set() { unimplemented!() }
    // `a.extend(b.iter().cloned())` is redirected here (R3)
    #[verifier::external_body] pub fn kvx_extend_from(&mut self, o: &BTreeSet<K>) ensures final(self)@ == old(self)@.union(o@) { unimplemented!() }
    // `&a & &b` (std::ops::BitAnd for &BTreeSet; a generic BitAnd impl trips an internal error of this Verus) is redirected here (R3)
    #[verifier::external_body] pub fn kvx_bitand(&self, o: &BTreeSet<K>) -> (r: BTreeSet<K>) ensures r@ == self@.intersect(o@) { unimplemented!() }
    // `&a - &b` / `a.sub(&b)` (std::ops::Sub for &BTreeSet): set difference
    // `a.intersection(b).next().is_some()`: only non-emptiness of the intersection is observed
    #[verifier::external_body] pub fn intersection(&self, o: &BTreeSet<K>) -> (r: KvxIntersection<K>) ensures r.nonempty() == !self@.disjoint(o@) { unimplemented!() }
    #[verifier::external_body] pub fn sub(&self, o: &BTreeSet<K>) -> (r: BTreeSet<K>) ensures r@ == self@.difference(o@) { unimplemented!() }
}
// `for c in NAMES.iter() { set.remove(c.as_str()); }` (a loop over a stand-in set is not iterable in Verus) is redirected here (R3):
// removes from a set of borrowed class names every name that is in NAMES
impl<'a> BTreeSet<&'a str> {
    #[verifier::external_body] pub fn kvx_remove_all(&mut self, names: &BTreeSet<String>)
        ensures forall|c: &'a str| #[trigger] final(self)@.contains(c) <==> (old(self)@.contains(c) && !names@.contains(c.as_key())) { unimplemented!() }
}
#[verifier::external_body]
#[verifier::reject_recursive_types(K)]
pub struct KvxIntersection<K> { p: core::marker::PhantomData<K> }
impl<K> KvxIntersection<K> {
    pub uninterp spec fn nonempty(&self) -> bool;
    #[verifier::external_body] pub fn next(&mut self) -> (r: Option<&K>) ensures r is Some == old(self).nonempty() { unimplemented!() }
}
// hashbrown::HashMap API subset, viewed as a finite map
#[verifier::external_body]
#[verifier::reject_recursive_types(K)]
#[verifier::reject_recursive_types(V)]
pub struct HashMap<K, V> { p: core::marker::PhantomData<(K, V)> }
impl<K, V> View for HashMap<K, V> { type V = Map<K, V>; uninterp spec fn view(&self) -> Map<K, V>; }
impl<K, V> HashMap<K, V> {
    #[verifier::external_body] pub fn get(&self, k: &K) -> (r: Option<&V>)
        ensures r is Some == self@.contains_key(*k), r is Some ==> *r->Some_0 == self@[*k] { unimplemented!() }
}
// ---- entry class names: the schema name of a class, as the String stored in the class attribute ----
pub uninterp spec fn ec_str(ec: EntryClass) -> &'static str;
pub open spec fn ec_string(ec: EntryClass) -> String { ec_str(ec).as_key() }
impl vstd::std_specs::convert::FromSpecImpl<EntryClass> for &'static str {
    open spec fn obeys_from_spec() -> bool { true }
    open spec fn from_spec(v: EntryClass) -> &'static str { ec_str(v) }
}
impl From<EntryClass> for &'static str {
    #[verifier::external_body] fn from(v: EntryClass) -> (r: &'static str) { unimplemented!() }
}
impl EntryClass { #[verifier::external_body] pub fn to_string(&self) -> (r: String) ensures r == ec_string(*self) { unimplemented!() } }
// ---- entries: opaque, observed through uninterpreted views (accessor contracts read off server/lib/src/entry.rs) ----
pub struct EntrySealed; pub struct EntryCommitted; pub struct EntryInit; pub struct EntryNew; pub struct EntryInvalid;
#[verifier::external_body]
#[verifier::reject_recursive_types(V)]
#[verifier::reject_recursive_types(S)]
pub struct Entry<V, S> { p: core::marker::PhantomData<(V, S)> }
pub type EntrySealedCommitted = Entry<EntrySealed, EntryCommitted>;
pub type EntryInvalidNew = Entry<EntryInvalid, EntryNew>;
impl<V, S> Entry<V, S> {
    pub uninterp spec fn uuid_opt(&self) -> Option<Uuid>;              // the uuid attribute, if any
    pub uninterp spec fn classes(&self) -> Option<Set<String>>;        // the class attribute's values
    pub uninterp spec fn refer(&self, a: Attribute) -> Option<Uuid>;   // single-valued reference attributes
    #[verifier::external_body] pub fn get_ava_as_iutf8(&self, a: Attribute) -> (r: Option<&BTreeSet<String>>)
        ensures a == Attribute::Class ==> (r is Some == self.classes() is Some) && (r is Some ==> r->Some_0@ == self.classes()->Some_0) { unimplemented!() }
    pub uninterp spec fn refers(&self, a: Attribute) -> Option<Set<Uuid>>;   // multi-valued reference attributes
    pub uninterp spec fn matches_filter(&self, f: &Filter<FilterValidResolved>) -> bool;   // Entry::entry_match_no_index (C01's reference semantics)
    #[verifier::external_body] pub fn get_ava_refer(&self, a: Attribute) -> (r: Option<&BTreeSet<Uuid>>)
        ensures r is Some == self.refers(a) is Some, r is Some ==> r->Some_0@ == self.refers(a)->Some_0 { unimplemented!() }
    #[verifier::external_body] pub fn entry_match_no_index(&self, f: &Filter<FilterValidResolved>) -> (r: bool) ensures r == self.matches_filter(f) { unimplemented!() }
    pub uninterp spec fn scopemap_groups(&self) -> Option<Set<Uuid>>;   // the groups named by the OAuth2 scope map of a client entry
    #[verifier::external_body] pub fn get_ava_as_oauthscopemaps(&self, a: Attribute) -> (r: Option<&KvxScopeMap>)
        ensures r is Some == self.scopemap_groups() is Some, r is Some ==> r->Some_0.groups() == self.scopemap_groups()->Some_0 { unimplemented!() }
    #[verifier::external_body] pub fn get_uuid2rdn(&self) -> (r: String) { unimplemented!() }
    #[verifier::external_body] pub fn get_display_id(&self) -> (r: String) { unimplemented!() }
    #[verifier::external_body] pub fn get_ava_single_refer(&self, a: Attribute) -> (r: Option<Uuid>) ensures r == self.refer(a) { unimplemented!() }
    // get_ava_set(Class): the class value set, observed only through `contains(&PartialValue)` on iutf8 partial values
    #[verifier::external_body] pub fn get_ava_set(&self, a: Attribute) -> (r: Option<&ValueSet>)
        ensures a == Attribute::Class ==> (r is Some == self.classes() is Some) && (r is Some ==> r->Some_0.iutf8_view() == self.classes()->Some_0) { unimplemented!() }
    // `get_ava_set(Class).map(|c| c.contains(&X.into())).unwrap_or(false)` is redirected here (R3): dyn ValueSetT is outside the dialect
    #[verifier::external_body] pub fn kvx_has_class(&self, ec: EntryClass) -> (r: bool)
        ensures r == (self.classes() matches Some(c) && c.contains(ec_string(ec))) { unimplemented!() }
}
impl<V> Entry<V, EntryCommitted> {
    pub open spec fn uuid(&self) -> Uuid { self.uuid_opt()->Some_0 }
    #[verifier::external_body] pub fn get_uuid(&self) -> (r: Uuid) ensures r == self.uuid() { unimplemented!() }
}
impl Entry<EntryInit, EntryNew> {
    #[verifier::external_body] pub fn get_uuid(&self) -> (r: Option<Uuid>) ensures r == self.uuid_opt() { unimplemented!() }
}
pub struct Arc<T> { pub v: T }
impl<T> core::ops::Deref for Arc<T> { type Target = T; fn deref(&self) -> (r: &T) ensures *r == self.v { &self.v } }
// ---- identities ----
pub struct IdentUser { pub entry: Arc<EntrySealedCommitted> }
pub struct Source { pub o: u8 }
pub struct Limits { pub o: u8 }
// BTreeMap<Uuid, BTreeSet<String>> of an OAuth2 scope map: only `keys().any(f)` is used
#[verifier::external_body] pub struct KvxScopeMap { p: u8 }
#[verifier::external_body] pub struct KvxUuidKeys<'a> { p: core::marker::PhantomData<&'a Uuid> }
impl KvxScopeMap {
    pub uninterp spec fn groups(&self) -> Set<Uuid>;
    #[verifier::external_body] pub fn keys(&self) -> (r: KvxUuidKeys<'_>) ensures r.keyset() == self.groups() { unimplemented!() }
}
impl<'a> KvxUuidKeys<'a> {
    pub uninterp spec fn keyset(&self) -> Set<Uuid>;
    // Iterator::any: true only if the closure accepted some key (soundness direction, as vstd specifies `any`)
    #[verifier::external_body] pub fn any<F: Fn(&'a Uuid) -> bool>(self, f: F) -> (r: bool)
        requires forall|k: &'a Uuid| f.requires((k,))
        ensures r ==> exists|k: &'a Uuid| self.keyset().contains(*k) && #[trigger] f.ensures((k,), true) { unimplemented!() }
}
// dyn ValueSetT stand-in (only `contains` of an iutf8 partial value is used by the access code)
#[verifier::external_body] pub struct ValueSet { p: u8 }
pub enum PartialValue { Iutf8(String), Other(u64) }
impl ValueSet {
    pub uninterp spec fn iutf8_view(&self) -> Set<String>;
    #[verifier::external_body] pub fn contains(&self, pv: &PartialValue) -> (r: bool)
        ensures pv matches PartialValue::Iutf8(s) ==> r == self.iutf8_view().contains(*s) { unimplemented!() }
}
impl vstd::std_specs::convert::FromSpecImpl<EntryClass> for PartialValue {
    open spec fn obeys_from_spec() -> bool { true }
    open spec fn from_spec(v: EntryClass) -> PartialValue { PartialValue::Iutf8(ec_string(v)) }
}
impl From<EntryClass> for PartialValue {
    #[verifier::external_body] fn from(v: EntryClass) -> (r: PartialValue) { unimplemented!() }
}
// ---- access control profiles (server/access/profiles.rs): the receiver/target conditions are the real enums; filters are opaque ----
pub struct FilterValidResolved;
#[verifier::external_body]
#[verifier::reject_recursive_types(S)]
pub struct Filter<S> { p: core::marker::PhantomData<S> }
// access/profiles.rs: the profile header (who it applies to, which entries it targets) — real types
pub struct FilterValid;
//@extract AccessControlReceiver
//@extract AccessControlTarget
//@extract AccessControlProfile
