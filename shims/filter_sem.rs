// ---- opaque leaf types: an attribute name and a value to compare with ----
#[verifier::external_body] pub struct Attribute { _p: u8 }
impl Clone for Attribute { #[verifier::external_body] fn clone(&self) -> (r: Attribute) ensures r == *self { unimplemented!() } }
#[verifier::external_body] pub struct PartialValue { _p: u8 }
impl PartialValue {
    pub uninterp spec fn eq_key(&self) -> Seq<char>;
    #[verifier::external_body] pub fn get_idx_eq_key(&self) -> (r: String) ensures r@ == self.eq_key() { unimplemented!() }
    pub uninterp spec fn sub_key(&self) -> Option<Seq<char>>;
    #[verifier::external_body] pub fn get_idx_sub_key(&self) -> (r: Option<String>) ensures (r is Some) == (self.sub_key() is Some), r is Some ==> r->Some_0@ == self.sub_key()->Some_0 { unimplemented!() }
}
// the filter term type itself: real, extracted from /repo
//@extract FilterResolved
// ---- ghost model: the stored entries and the reference (per-entry) meaning of a filter ----
#[verifier::external_body] pub struct EntryView { _p: u8 }
// leaf predicates of Entry::entry_match_no_index_inner (value-set comparisons): uninterpreted
pub uninterp spec fn leaf_eq(a: Attribute, v: PartialValue, e: EntryView) -> bool;
pub uninterp spec fn leaf_cnt(a: Attribute, v: PartialValue, e: EntryView) -> bool;
pub uninterp spec fn leaf_stw(a: Attribute, v: PartialValue, e: EntryView) -> bool;
pub uninterp spec fn leaf_enw(a: Attribute, v: PartialValue, e: EntryView) -> bool;
pub uninterp spec fn leaf_pres(a: Attribute, e: EntryView) -> bool;
pub uninterp spec fn leaf_lt(a: Attribute, v: PartialValue, e: EntryView) -> bool;
// the statement's reference semantics: ordinary boolean meaning, AndNot is complement, Invalid and Inclusion match nothing
// (exactly the arms of Entry::entry_match_no_index_inner)
pub open spec fn sem(f: FilterResolved, e: EntryView) -> bool
    decreases f
{
    match f {
        FilterResolved::Eq(a, v, _) => leaf_eq(a, v, e),
        FilterResolved::Cnt(a, v, _) => leaf_cnt(a, v, e),
        FilterResolved::Stw(a, v, _) => leaf_stw(a, v, e),
        FilterResolved::Enw(a, v, _) => leaf_enw(a, v, e),
        FilterResolved::Pres(a, _) => leaf_pres(a, e),
        FilterResolved::LessThan(a, v, _) => leaf_lt(a, v, e),
        FilterResolved::Or(l, _) => exists|i: int| 0 <= i < l@.len() && sem(#[trigger] l@[i], e),
        FilterResolved::And(l, _) => forall|i: int| 0 <= i < l@.len() ==> sem(#[trigger] l@[i], e),
        FilterResolved::Invalid(_) => false,
        FilterResolved::Inclusion(_, _) => false,
        FilterResolved::AndNot(b, _) => !sem(*b, e),
    }
}
