// R3b: LazyLock statics of server/access/protected.rs as accessors; contents are read from each static's own initializer on every run
#[verifier::external_body] pub fn kvx_static_PROTECTED_ENTRY_CLASSES() -> (r: &'static BTreeSet<String>) ensures r@ == protected_entry_classes() { unimplemented!() }
pub open spec fn protected_entry_classes() -> Set<String> {
//@static_list PROTECTED_ENTRY_CLASSES set![{}] each=ec_string(%)
}
#[verifier::external_body] pub fn kvx_static_PROTECTED_MOD_ENTRY_CLASSES() -> (r: &'static BTreeSet<String>) ensures r@ == protected_mod_entry_classes() { unimplemented!() }
pub open spec fn protected_mod_entry_classes() -> Set<String> {
//@static_list PROTECTED_MOD_ENTRY_CLASSES set![{}] each=ec_string(%)
}
#[verifier::external_body] pub fn kvx_static_PROTECTED_MOD_PRES_ENTRY_CLASSES() -> (r: &'static BTreeSet<String>) ensures r@ == protected_mod_pres_entry_classes() { unimplemented!() }
pub open spec fn protected_mod_pres_entry_classes() -> Set<String> {
//@static_list PROTECTED_MOD_PRES_ENTRY_CLASSES set![{}] each=ec_string(%)
}
#[verifier::external_body] pub fn kvx_static_PROTECTED_MOD_REM_ENTRY_CLASSES() -> (r: &'static BTreeSet<String>) ensures r@ == protected_mod_rem_entry_classes() { unimplemented!() }
pub open spec fn protected_mod_rem_entry_classes() -> Set<String> {
//@static_list PROTECTED_MOD_REM_ENTRY_CLASSES set![{}] each=ec_string(%)
}
#[verifier::external_body] pub fn kvx_static_LOCKED_ENTRY_CLASSES() -> (r: &'static BTreeSet<String>) ensures r@ == locked_entry_classes() { unimplemented!() }
pub open spec fn locked_entry_classes() -> Set<String> {
//@static_list LOCKED_ENTRY_CLASSES set![{}] each=ec_string(%)
}
// migration class lists: internal migrations are outside the user-facing properties; contents unconstrained
#[verifier::external_body] pub fn kvx_static_MIGRATION_IGNORE_CLASSES() -> (r: &'static BTreeSet<String>) { unimplemented!() }
#[verifier::external_body] pub fn kvx_static_MIGRATION_ENTRY_CLASSES() -> (r: &'static BTreeSet<String>) { unimplemented!() }
