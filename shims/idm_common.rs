// Stand-ins shared by the idm validity units (C32, C36, C49). ASSUMED contracts, read off the accessors in
// server/lib/src/entry.rs: each getter returns the entry's stored value for that attribute, if any.
pub mod time { pub use super::OffsetDateTime; }
pub enum Attribute { AccountValidFrom, AccountExpire, UserAuthTokenSession, OAuth2Session, ApiTokenSession, Class, Name, DisplayName, RadiusSecret, Other(u64) }
pub struct Cid { pub ts: Duration, pub s_uuid: Uuid }
pub enum SessionState { RevokedAt(Cid), ExpiresAt(OffsetDateTime), NeverExpires }
pub struct Session { pub state: SessionState }
pub struct Oauth2Session { pub parent: Option<Uuid>, pub state: SessionState, pub issued_at: OffsetDateTime, pub rs_uuid: Uuid }
pub struct ApiToken { pub opaque: u64 }
pub struct EntrySealed; pub struct EntryCommitted; pub struct EntryReduced;
#[verifier::external_body]
#[verifier::reject_recursive_types(V)]
#[verifier::reject_recursive_types(S)]
pub struct Entry<V, S> { v: core::marker::PhantomData<(V,S)> }
impl<V,S> Entry<V,S> {
    pub uninterp spec fn uuid(&self) -> Uuid;
    pub uninterp spec fn datetime(&self, a: Attribute) -> Option<OffsetDateTime>;
    pub uninterp spec fn sessions(&self, a: Attribute) -> Option<Map<Uuid, Session>>;
    pub uninterp spec fn oauth2sessions(&self, a: Attribute) -> Option<Map<Uuid, Oauth2Session>>;
    pub uninterp spec fn apitokens(&self, a: Attribute) -> Option<Map<Uuid, ApiToken>>;
    #[verifier::external_body]
    pub fn get_uuid(&self) -> (r: Uuid) ensures r == self.uuid() { unimplemented!() }
    #[verifier::external_body]
    pub fn get_ava_single_datetime(&self, a: Attribute) -> (r: Option<OffsetDateTime>) ensures r == self.datetime(a) { unimplemented!() }
    #[verifier::external_body]
    pub fn get_ava_as_session_map(&self, a: Attribute) -> (r: Option<&BTreeMap<Uuid, Session>>)
        ensures r is Some == self.sessions(a) is Some, r is Some ==> r->Some_0@ == self.sessions(a)->Some_0 { unimplemented!() }
    #[verifier::external_body]
    pub fn get_ava_as_oauth2session_map(&self, a: Attribute) -> (r: Option<&BTreeMap<Uuid, Oauth2Session>>)
        ensures r is Some == self.oauth2sessions(a) is Some, r is Some ==> r->Some_0@ == self.oauth2sessions(a)->Some_0 { unimplemented!() }
    #[verifier::external_body]
    pub fn get_ava_as_apitoken_map(&self, a: Attribute) -> (r: Option<&BTreeMap<Uuid, ApiToken>>)
        ensures r is Some == self.apitokens(a) is Some, r is Some ==> r->Some_0@ == self.apitokens(a)->Some_0 { unimplemented!() }
}
// ---- specification vocabulary (from the statements of C32 / C36 / C49) ----
// the account's validity window, inclusive at both ends
pub open spec fn within_valid(ct: Duration, from: Option<OffsetDateTime>, to: Option<OffsetDateTime>) -> bool {
    (from matches Some(f) ==> f.unix_ns <= ct.ns()) && (to matches Some(t) ==> ct.ns() <= t.unix_ns)
}
pub open spec fn entry_within_valid<V, S>(ct: Duration, e: &Entry<V, S>) -> bool {
    within_valid(ct, e.datetime(Attribute::AccountValidFrom), e.datetime(Attribute::AccountExpire))
}
pub open spec fn time_ok(ct: Duration) -> bool { ct.wf() && ct.ns() < 0x1000_0000_0000_0000_0000_0000 }
pub open spec fn odt_ok(t: OffsetDateTime) -> bool { -0x1000_0000_0000_0000_0000_0000 < t.unix_ns < 0x1000_0000_0000_0000_0000_0000 }
