// Iterator::all redirected (R3) with the std semantics in both directions, through the closure's own contract
pub trait KvxAll<'b, T: 'b>: Sized {
    #[verifier::prophetic] spec fn kvx_all_items(&self) -> Seq<&'b T>;
    fn kvx_all<F: Fn(&'b T) -> bool>(self, f: F) -> (r: bool)
        requires forall|i: int| 0 <= i < self.kvx_all_items().len() ==> f.requires((#[trigger] self.kvx_all_items()[i],)),
        ensures self.kvx_all_items().len() >= 0,
                r ==> forall|i: int| 0 <= i < self.kvx_all_items().len() ==> f.ensures((#[trigger] self.kvx_all_items()[i],), true),
                !r ==> exists|i: int| 0 <= i < self.kvx_all_items().len() && f.ensures((#[trigger] self.kvx_all_items()[i],), false);
}
impl<'b, T> KvxAll<'b, T> for core::slice::Iter<'b, T> {
    #[verifier::prophetic] open spec fn kvx_all_items(&self) -> Seq<&'b T> { self.remaining() }
    #[verifier::external_body] fn kvx_all<F: Fn(&'b T) -> bool>(self, f: F) -> (r: bool) { unimplemented!() }
}
// `slice.iter().all(f)` on a slice, stated over the slice's own view
#[verifier::external_body] pub fn kvx_slice_all<T, F: Fn(&T) -> bool>(s: &[T], f: F) -> (r: bool)
    requires forall|i: int| 0 <= i < s@.len() ==> f.requires((&#[trigger] s@[i],)),
    ensures r ==> forall|i: int| 0 <= i < s@.len() ==> f.ensures((&#[trigger] s@[i],), true),
            !r ==> exists|i: int| 0 <= i < s@.len() && f.ensures((&#[trigger] s@[i],), false) { unimplemented!() }
