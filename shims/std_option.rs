// Faithful specifications (from the std documentation) of Option combinators that vstd does not cover.
pub assume_specification<T, P: FnOnce(&T) -> bool>[ Option::<T>::filter ](o: Option<T>, p: P) -> (r: Option<T>)
    ensures o is None ==> r is None,
            o matches Some(x) ==> ((r == Some(x) && p.ensures((&x,), true)) || (r is None && p.ensures((&x,), false)));
pub assume_specification<T, F: FnOnce(T) -> bool>[ Option::<T>::is_some_and ](o: Option<T>, f: F) -> (r: bool)
    ensures o is None ==> !r, o matches Some(x) ==> f.ensures((x,), r);

pub assume_specification<T, E, U, F: FnOnce(T) -> Result<U, E>>[ Result::<T, E>::and_then ](r: Result<T, E>, f: F) -> (o: Result<U, E>)
    ensures r matches Err(e) ==> o == Err::<U, E>(e), r matches Ok(t) ==> f.ensures((t,), o);
pub assume_specification<T, E>[ Result::<T, E>::unwrap_or ](r: Result<T, E>, d: T) -> (o: T)
    ensures o == (match r { Ok(t) => t, Err(_) => d });
// Result::inspect_err (std documentation): calls f with a reference to the error, returns the result unchanged
pub assume_specification<T, E, F: FnOnce(&E)>[ Result::<T, E>::inspect_err ](r: Result<T, E>, f: F) -> (o: Result<T, E>)
    requires r matches Err(e) ==> f.requires((&e,)),
    ensures o == r;
// Result::or_else (std documentation): calls op on the error, otherwise returns the Ok value unchanged
pub assume_specification<T, E, F, O: FnOnce(E) -> Result<T, F>>[ Result::<T, E>::or_else ](r: Result<T, E>, op: O) -> (o: Result<T, F>)
    requires r matches Err(e) ==> op.requires((e,)),
    ensures r matches Ok(t) ==> o == Ok::<T, F>(t), r matches Err(e) ==> op.ensures((e,), o);
// Option::or_else (std documentation): the option itself if Some, otherwise the result of f
pub assume_specification<T, F: FnOnce() -> Option<T>>[ Option::<T>::or_else ](o: Option<T>, f: F) -> (r: Option<T>)
    requires o is None ==> f.requires(()),
    ensures o matches Some(x) ==> r == Some(x), o is None ==> f.ensures((), r);
