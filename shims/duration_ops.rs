// Executable API subset of core::time::Duration used by the extracted code. Every function is a
// *verified* thin implementation against the spec below (no external_body); the specs are the
// documented std behaviour and are proved equal to the real std methods by kani/shim_duration.rs.
impl Duration {
    pub const MAX: Duration = Duration { secs: 0xffff_ffff_ffff_ffff, nanos: 999_999_999 };
    pub fn from_secs(secs: u64) -> (r: Duration)
        ensures r == (Duration { secs: secs, nanos: 0 }), r.wf(),
    { Duration { secs, nanos: 0 } }
    pub fn from_nanos(n: u64) -> (r: Duration)
        ensures r.secs == n / 1_000_000_000, r.nanos == n % 1_000_000_000, r.wf(), r.ns() == n,
    { Duration { secs: n / 1_000_000_000, nanos: (n % 1_000_000_000) as u32 } }
    pub fn new(secs: u64, nanos: u32) -> (r: Duration)
        requires secs + nanos / 1_000_000_000 <= u64::MAX,
        ensures r.secs == secs + nanos / 1_000_000_000, r.nanos == nanos % 1_000_000_000, r.wf(),
    { Duration { secs: secs + (nanos / 1_000_000_000) as u64, nanos: nanos % 1_000_000_000 } }
    pub fn as_secs(&self) -> (r: u64) ensures r == self.secs { self.secs }
    pub fn subsec_nanos(&self) -> (r: u32) ensures r == self.nanos { self.nanos }
}
impl vstd::std_specs::ops::AddSpecImpl<Duration> for Duration {
    open spec fn obeys_add_spec() -> bool { true }
    // std panics on overflow of the seconds ("overflow when adding durations")
    open spec fn add_req(self, rhs: Duration) -> bool { dur_add_req(self, rhs) }
    open spec fn add_spec(self, rhs: Duration) -> Duration { dur_add(self, rhs) }
}
pub open spec fn dur_add_req(a: Duration, b: Duration) -> bool {
    a.wf() && b.wf() && a.secs + b.secs + (if a.nanos + b.nanos >= 1_000_000_000 { 1int } else { 0int }) <= u64::MAX
}
pub open spec fn dur_add(a: Duration, b: Duration) -> Duration {
    if a.nanos + b.nanos >= 1_000_000_000 { Duration { secs: (a.secs + b.secs + 1) as u64, nanos: (a.nanos + b.nanos - 1_000_000_000) as u32 } }
    else { Duration { secs: (a.secs + b.secs) as u64, nanos: (a.nanos + b.nanos) as u32 } }
}
impl core::ops::Add for Duration {
    type Output = Duration;
    fn add(self, rhs: Duration) -> (r: Duration) {
        if self.nanos + rhs.nanos >= 1_000_000_000 { Duration { secs: self.secs + rhs.secs + 1, nanos: self.nanos + rhs.nanos - 1_000_000_000 } }
        else { Duration { secs: self.secs + rhs.secs, nanos: self.nanos + rhs.nanos } }
    }
}
pub proof fn lemma_duration_add_ns(a: Duration, b: Duration)
    requires dur_add_req(a, b),
    ensures dur_add(a, b).wf(), dur_add(a, b).ns() == a.ns() + b.ns(),
{
    assert((a.secs + b.secs + 1) * 1_000_000_000 == a.secs * 1_000_000_000 + b.secs * 1_000_000_000 + 1_000_000_000) by(nonlinear_arith);
    assert((a.secs + b.secs) * 1_000_000_000 == a.secs * 1_000_000_000 + b.secs * 1_000_000_000) by(nonlinear_arith);
}
