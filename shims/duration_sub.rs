// core::time::Duration - Duration (std panics when rhs > self: "overflow when subtracting durations").
// Verified thin implementation against the spec.
impl vstd::std_specs::ops::SubSpecImpl<Duration> for Duration {
    open spec fn obeys_sub_spec() -> bool { true }
    open spec fn sub_req(self, rhs: Duration) -> bool { self.wf() && rhs.wf() && (rhs.secs < self.secs || (rhs.secs == self.secs && rhs.nanos <= self.nanos)) }
    open spec fn sub_spec(self, rhs: Duration) -> Duration { dur_sub(self, rhs) }
}
pub open spec fn dur_sub(a: Duration, b: Duration) -> Duration {
    if a.nanos >= b.nanos { Duration { secs: (a.secs - b.secs) as u64, nanos: (a.nanos - b.nanos) as u32 } }
    else { Duration { secs: (a.secs - b.secs - 1) as u64, nanos: (a.nanos + 1_000_000_000 - b.nanos) as u32 } }
}
impl core::ops::Sub for Duration {
    type Output = Duration;
    fn sub(self, rhs: Duration) -> (r: Duration) {
        if self.nanos >= rhs.nanos { Duration { secs: self.secs - rhs.secs, nanos: self.nanos - rhs.nanos } }
        else { Duration { secs: self.secs - rhs.secs - 1, nanos: self.nanos + 1_000_000_000 - rhs.nanos } }
    }
}
