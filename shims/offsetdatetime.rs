// Stand-in for time::OffsetDateTime: an instant, totally ordered by its position on the UTC time line
// (time's Ord compares the instants, independent of the stored offset). unix_ns = nanoseconds since the epoch.
#[derive(Clone, Copy, PartialEq, Eq, PartialOrd, Ord)]
pub struct OffsetDateTime { pub unix_ns: i128 }
impl vstd::std_specs::cmp::PartialEqSpecImpl for OffsetDateTime {
    open spec fn obeys_eq_spec() -> bool { true }
    open spec fn eq_spec(&self, other: &OffsetDateTime) -> bool { self.unix_ns == other.unix_ns }
}
impl vstd::std_specs::cmp::PartialOrdSpecImpl for OffsetDateTime {
    open spec fn obeys_partial_cmp_spec() -> bool { true }
    open spec fn partial_cmp_spec(&self, other: &OffsetDateTime) -> Option<Ordering> {
        if self.unix_ns < other.unix_ns { Some(Ordering::Less) } else if self.unix_ns == other.unix_ns { Some(Ordering::Equal) } else { Some(Ordering::Greater) }
    }
}
impl vstd::std_specs::cmp::OrdSpecImpl for OffsetDateTime {
    open spec fn obeys_cmp_spec() -> bool { true }
    open spec fn cmp_spec(&self, other: &OffsetDateTime) -> Ordering {
        if self.unix_ns < other.unix_ns { Ordering::Less } else if self.unix_ns == other.unix_ns { Ordering::Equal } else { Ordering::Greater }
    }
}
