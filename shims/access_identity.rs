// Identity observers (server/identity.rs get_memberof / get_uuid read the identity's own entry): ASSUMED
impl Identity {
    pub uninterp spec fn memberof(&self) -> Option<Set<Uuid>>;
    pub uninterp spec fn uuid(&self) -> Uuid;
    #[verifier::external_body] pub fn get_memberof(&self) -> (r: Option<&BTreeSet<Uuid>>)
        ensures r is Some == self.memberof() is Some, r is Some ==> r->Some_0@ == self.memberof()->Some_0 { unimplemented!() }
    #[verifier::external_body] pub fn get_uuid(&self) -> (r: Uuid) ensures r == self.uuid() { unimplemented!() }
}
pub open spec fn is_user(i: &Identity) -> bool { i.origin is User }
pub open spec fn read_only(i: &Identity) -> bool { !(i.scope is ReadWrite) }
