// time::OffsetDateTime + core::time::Duration, and UNIX_EPOCH. Verified thin implementation (no external_body):
// adding a Duration moves the instant forward by exactly its length in nanoseconds. time panics on overflow of its
// year range; callers here stay below 2^96 ns, far inside both ranges.
impl OffsetDateTime {
    pub const UNIX_EPOCH: OffsetDateTime = OffsetDateTime { unix_ns: 0 };
}
impl vstd::std_specs::ops::AddSpecImpl<Duration> for OffsetDateTime {
    open spec fn obeys_add_spec() -> bool { true }
    open spec fn add_req(self, rhs: Duration) -> bool { rhs.wf() && -0x1000_0000_0000_0000_0000_0000 < self.unix_ns < 0x1000_0000_0000_0000_0000_0000 }
    open spec fn add_spec(self, rhs: Duration) -> OffsetDateTime { OffsetDateTime { unix_ns: (self.unix_ns + rhs.ns()) as i128 } }
}
impl core::ops::Add<Duration> for OffsetDateTime {
    type Output = OffsetDateTime;
    fn add(self, rhs: Duration) -> (r: OffsetDateTime) {
        assert(rhs.ns() == rhs.secs * 1_000_000_000 + rhs.nanos);
        assert(rhs.secs * 1_000_000_000 <= 0xffff_ffff_ffff_ffff * 1_000_000_000) by(nonlinear_arith) requires rhs.secs <= 0xffff_ffff_ffff_ffff;
        OffsetDateTime { unix_ns: self.unix_ns + (rhs.secs as i128) * 1_000_000_000i128 + rhs.nanos as i128 }
    }
}
