// std::collections::BTreeMap API subset as a stand-in viewed as a finite map (ASSUMED: documented std semantics).
#[verifier::external_body]
#[verifier::reject_recursive_types(K)]
#[verifier::reject_recursive_types(V)]
pub struct BTreeMap<K, V> { p: core::marker::PhantomData<(K, V)> }
impl<K, V> View for BTreeMap<K, V> { type V = Map<K, V>; uninterp spec fn view(&self) -> Map<K, V>; }
// borrowed-form lookups (`BTreeMap<KeyId, _>::get_mut(&str)`): the borrowed form denotes one key
pub trait KvxMapKey<K> { spec fn as_key(&self) -> K; }
impl<K> KvxMapKey<K> for K { open spec fn as_key(&self) -> K { *self } }
impl<K, V> BTreeMap<K, V> {
    #[verifier::external_body] pub fn default() -> (r: BTreeMap<K, V>) ensures r@ == Map::<K, V>::empty() { unimplemented!() }
    #[verifier::external_body] pub fn get<Q: ?Sized + KvxMapKey<K>>(&self, k: &Q) -> (r: Option<&V>)
        ensures r is Some == self@.contains_key(k.as_key()), r is Some ==> *r->Some_0 == self@[k.as_key()] { unimplemented!() }
    #[verifier::external_body] pub fn get_mut<Q: ?Sized + KvxMapKey<K>>(&mut self, k: &Q) -> (r: Option<&mut V>)
        ensures r is Some == old(self)@.contains_key(k.as_key()),
                r is Some ==> *r->Some_0 == old(self)@[k.as_key()] && final(self)@ == old(self)@.insert(k.as_key(), *final(r->Some_0)),
                r is None ==> final(self)@ == old(self)@ { unimplemented!() }
    #[verifier::external_body] pub fn insert(&mut self, k: K, v: V) -> (r: Option<V>) ensures final(self)@ == old(self)@.insert(k, v) { unimplemented!() }
    #[verifier::external_body] pub fn remove<Q: ?Sized + KvxMapKey<K>>(&mut self, k: &Q) -> (r: Option<V>) ensures final(self)@ == old(self)@.remove(k.as_key()) { unimplemented!() }
    #[verifier::external_body] pub fn contains_key<Q: ?Sized + KvxMapKey<K>>(&self, k: &Q) -> (r: bool) ensures r == self@.contains_key(k.as_key()) { unimplemented!() }
    #[verifier::external_body] pub fn is_empty(&self) -> (r: bool) ensures r == (self@.dom() =~= Set::<K>::empty()) { unimplemented!() }
}
