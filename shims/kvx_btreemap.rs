// std::collections::BTreeMap API subset as a stand-in viewed as a finite map (ASSUMED: documented std semantics).
#[verifier::external_body]
#[verifier::reject_recursive_types(K)]
#[verifier::reject_recursive_types(V)]
pub struct BTreeMap<K, V> { p: core::marker::PhantomData<(K, V)> }
impl<K, V> View for BTreeMap<K, V> { type V = Map<K, V>; uninterp spec fn view(&self) -> Map<K, V>; }
// borrowed-form lookups (`BTreeMap<KeyId, _>::get_mut(&str)`): the borrowed form denotes one key
pub trait KvxMapKey<K> { spec fn as_key(&self) -> K; }
impl<K> KvxMapKey<K> for K { open spec fn as_key(&self) -> K { *self } }
impl<K, V> BTreeMap<K, V> {
    #[verifier::external_body] pub fn default() -> (r: BTreeMap<K, V>) ensures r@ == Map::<K, V>::empty() { unimplemented!() }
    #[verifier::external_body] pub fn get<Q: ?Sized + KvxMapKey<K>>(&self, k: &Q) -> (r: Option<&V>)
        ensures r is Some == self@.contains_key(k.as_key()), r is Some ==> *r->Some_0 == self@[k.as_key()] { unimplemented!() }
    #[verifier::external_body] pub fn get_mut<Q: ?Sized + KvxMapKey<K>>(&mut self, k: &Q) -> (r: Option<&mut V>)
        ensures r is Some == old(self)@.contains_key(k.as_key()),
                r is Some ==> *r->Some_0 == old(self)@[k.as_key()] && final(self)@ == old(self)@.insert(k.as_key(), *final(r->Some_0)),
                r is None ==> final(self)@ == old(self)@ { unimplemented!() }
    #[verifier::external_body] pub fn insert(&mut self, k: K, v: V) -> (r: Option<V>) ensures final(self)@ == old(self)@.insert(k, v) { unimplemented!() }
    #[verifier::external_body] pub fn remove<Q: ?Sized + KvxMapKey<K>>(&mut self, k: &Q) -> (r: Option<V>) ensures final(self)@ == old(self)@.remove(k.as_key()) { unimplemented!() }
    #[verifier::external_body] pub fn contains_key<Q: ?Sized + KvxMapKey<K>>(&self, k: &Q) -> (r: bool) ensures r == self@.contains_key(k.as_key()) { unimplemented!() }
    #[verifier::external_body] pub fn is_empty(&self) -> (r: bool) ensures r == (self@.dom() =~= Set::<K>::empty()) { unimplemented!() }
}
impl<K, V> BTreeMap<K, V> {
    #[verifier::external_body] pub fn new() -> (r: BTreeMap<K, V>) ensures r@ == Map::<K, V>::empty() { unimplemented!() }
    // derived / std Clone: an equal map (for element types whose clone is the identity)
    #[verifier::external_body] pub fn clone(&self) -> (r: BTreeMap<K, V>) ensures r@ == self@ { unimplemented!() }
    // BTreeMap::retain (std documentation): keeps exactly the pairs for which the predicate returns true. The predicate's own contract
    // (f.ensures, CHECKED where the closure is written) is what the result is stated through. ASSUMED: the predicate does not change
    // the value through its `&mut V` parameter (true of every predicate that ignores it).
    #[verifier::external_body] pub fn retain<F: FnMut(&K, &mut V) -> bool>(&mut self, f: F)
        requires forall|k: &K, v: &mut V| #[trigger] f.requires((k, v)),
        ensures forall|k: K| #[trigger] final(self)@.contains_key(k) ==> (old(self)@.contains_key(k) && final(self)@[k] == old(self)@[k] && exists|kr: &K, v: &mut V| *kr == k && #[trigger] f.ensures((kr, v), true)),
                forall|k: K| old(self)@.contains_key(k) && !(#[trigger] final(self)@.contains_key(k)) ==> exists|kr: &K, v: &mut V| *kr == k && #[trigger] f.ensures((kr, v), false) { unimplemented!() }
}
impl<K, V> BTreeMap<K, V> {
    #[verifier::external_body] pub fn len(&self) -> (r: usize) ensures r == self@.dom().len() { unimplemented!() }
}
// first_key_value / last_key_value (std documentation): the pair with the minimum / maximum key of the ordered map
impl<K: Ord + vstd::std_specs::cmp::OrdSpec, V> BTreeMap<K, V> {
    #[verifier::external_body] pub fn first_key_value(&self) -> (r: Option<(&K, &V)>)
        ensures r is None == (self@.dom() =~= Set::<K>::empty()),
                r matches Some(p) ==> self@.contains_key(*p.0) && *p.1 == self@[*p.0] && forall|k: K| #[trigger] self@.contains_key(k) ==> !(k.cmp_spec(p.0) is Less) { unimplemented!() }
    #[verifier::external_body] pub fn last_key_value(&self) -> (r: Option<(&K, &V)>)
        ensures r is None == (self@.dom() =~= Set::<K>::empty()),
                r matches Some(p) ==> self@.contains_key(*p.0) && *p.1 == self@[*p.0] && forall|k: K| #[trigger] self@.contains_key(k) ==> !(k.cmp_spec(p.0) is Greater) { unimplemented!() }
}
// Entry API, `map.entry(k).or_insert(v);` as a statement (std documentation: inserts v if the key is absent, else leaves the map
// unchanged). The map after the statement is an uninterpreted function of the entry object that the consuming call resolves; an
// entry that is dropped unused leaves it unconstrained (a weaker, still sound, fact). or_insert returns nothing here, so code that
// goes on to write through the returned reference does not type-check (undecided), rather than being mis-specified.
#[verifier::external_body] #[verifier::reject_recursive_types(K)] #[verifier::reject_recursive_types(V)]
pub struct KvxEntry<'a, K, V> { p: core::marker::PhantomData<&'a mut (K, V)> }
impl<'a, K, V> KvxEntry<'a, K, V> {
    pub uninterp spec fn key(&self) -> K;
    pub uninterp spec fn before(&self) -> Map<K, V>;
    pub uninterp spec fn after(&self) -> Map<K, V>;
    #[verifier::external_body] pub fn or_insert(self, v: V)
        ensures self.after() == (if self.before().contains_key(self.key()) { self.before() } else { self.before().insert(self.key(), v) }) { unimplemented!() }
}
impl<K, V> BTreeMap<K, V> {
    #[verifier::external_body] pub fn entry(&mut self, k: K) -> (r: KvxEntry<'_, K, V>)
        ensures r.key() == k, r.before() == old(self)@, final(self)@ == r.after() { unimplemented!() }
}
