// `String` as an opaque ordered key: only equality and the total order are used by the code under contract
// (BTreeSet<String>::contains, BTreeMap<String,_>::get). std's String order is a total order; which one is irrelevant here.
#[derive(PartialEq, Eq, PartialOrd, Ord)]
pub struct String(pub u64);
impl Clone for String { fn clone(&self) -> (r: String) ensures r == *self { String(self.0) } }
impl vstd::std_specs::cmp::PartialEqSpecImpl for String {
    open spec fn obeys_eq_spec() -> bool { true }
    open spec fn eq_spec(&self, o: &String) -> bool { self.0 == o.0 }
}
impl vstd::std_specs::cmp::PartialOrdSpecImpl for String {
    open spec fn obeys_partial_cmp_spec() -> bool { true }
    open spec fn partial_cmp_spec(&self, o: &String) -> Option<Ordering> {
        if self.0 < o.0 { Some(Ordering::Less) } else if self.0 == o.0 { Some(Ordering::Equal) } else { Some(Ordering::Greater) } }
}
impl vstd::std_specs::cmp::OrdSpecImpl for String {
    open spec fn obeys_cmp_spec() -> bool { true }
    open spec fn cmp_spec(&self, o: &String) -> Ordering {
        if self.0 < o.0 { Ordering::Less } else if self.0 == o.0 { Ordering::Equal } else { Ordering::Greater } }
}
