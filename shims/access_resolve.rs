// ---- which profiles are handed to the per-entry checks: resolve_access_conditions (access/mod.rs) ----
pub struct OperationError { pub o: u8 }
pub struct IdxMeta { pub o: u8 }
pub struct ResolveFilterCacheReadTxn<'a> { pub o: &'a u8 }
// Filter::resolve (filter.rs): substitutes the identity into the profile's target filter; an uninterpreted function of (filter, identity)
pub uninterp spec fn resolved_filter(f: Filter<FilterValid>, ident: &Identity) -> Filter<FilterValidResolved>;
impl Filter<FilterValid> {
    #[verifier::external_body] pub fn resolve(&self, ev: &Identity, idxmeta: Option<&IdxMeta>, rsv_cache: Option<&mut ResolveFilterCacheReadTxn<'_>>) -> (r: Result<Filter<FilterValidResolved>, OperationError>)
        ensures r matches Ok(f) ==> f == resolved_filter(*self, ev) { unimplemented!() }
}
// "an access control profile matching that user": the profile's receiver names a group the identity is a member of
pub open spec fn receiver_matches_user(rcv: &AccessControlReceiver, ident: &Identity) -> bool {
    rcv matches AccessControlReceiver::Group(g) && ident.memberof() matches Some(m) && !m.disjoint(g@)
}
pub open spec fn conditions_resolved(ident: &Identity, rcv: &AccessControlReceiver, tgt: &AccessControlTarget, rc: AccessControlReceiverCondition, tc: AccessControlTargetCondition) -> bool {
    &&& (rc is GroupChecked ==> receiver_matches_user(rcv, ident))
    &&& (rc is EntryManager ==> rcv is EntryManager)
    &&& (tgt matches AccessControlTarget::Scope(f) && tc == AccessControlTargetCondition::Scope(resolved_filter(*f, ident)))
}
//@extract resolve_access_conditions
