// Stand-in for uuid::Uuid: a 128-bit value ordered as the big-endian integer of its 16 bytes
// (uuid::Uuid derives Ord on [u8;16], which is the same order). Kani harness kani/shim_uuid.rs.
#[derive(Clone, Copy, PartialEq, Eq, PartialOrd, Ord)]
pub struct Uuid(pub u128);
impl vstd::std_specs::cmp::PartialEqSpecImpl for Uuid {
    open spec fn obeys_eq_spec() -> bool { true }
    open spec fn eq_spec(&self, other: &Uuid) -> bool { self.0 == other.0 }
}
impl vstd::std_specs::cmp::PartialOrdSpecImpl for Uuid {
    open spec fn obeys_partial_cmp_spec() -> bool { true }
    open spec fn partial_cmp_spec(&self, other: &Uuid) -> Option<Ordering> {
        if self.0 < other.0 { Some(Ordering::Less) }
        else if self.0 == other.0 { Some(Ordering::Equal) } else { Some(Ordering::Greater) }
    }
}
impl vstd::std_specs::cmp::OrdSpecImpl for Uuid {
    open spec fn obeys_cmp_spec() -> bool { true }
    open spec fn cmp_spec(&self, other: &Uuid) -> Ordering {
        if self.0 < other.0 { Ordering::Less }
        else if self.0 == other.0 { Ordering::Equal } else { Ordering::Greater }
    }
}
impl Uuid {
    pub fn as_u128(&self) -> (r: u128) ensures r == self.0 { self.0 }
    pub fn from_u128(v: u128) -> (r: Uuid) ensures r.0 == v { Uuid(v) }
}
