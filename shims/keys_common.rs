// Shared stand-ins for the key-object units (C34). ASSUMED; cryptographic operations are opaque.
pub use core::ops::Bound::{Included, Unbounded};
pub use core::ops::Bound;
// `active.range((Unbounded, Included(t))).next_back()`: the entry with the greatest key <= t
#[verifier::external_body]
#[verifier::reject_recursive_types(V)]
pub struct KvxRange<'a, V> { p: core::marker::PhantomData<&'a V> }
impl<'a, V> KvxRange<'a, V> {
    pub uninterp spec fn upper(&self) -> Option<u64>;
    pub uninterp spec fn src(&self) -> Map<u64, V>;
    #[verifier::external_body] pub fn next_back(&mut self) -> (r: Option<(&'a u64, &'a V)>)
        ensures
            old(self).upper() matches Some(t) ==> (
                (r matches Some(kv) ==> (*kv.0 <= t && old(self).src().contains_key(*kv.0) && old(self).src()[*kv.0] == *kv.1
                    && forall|k: u64| #[trigger] old(self).src().contains_key(k) && k <= t ==> k <= *kv.0))
                && (r is None ==> forall|k: u64| #[trigger] old(self).src().contains_key(k) ==> k > t)) { unimplemented!() }
}
impl<V> BTreeMap<u64, V> {
    #[verifier::external_body] pub fn range(&self, b: (Bound<u64>, Bound<u64>)) -> (r: KvxRange<'_, V>)
        ensures r.src() == self@, b.0 is Unbounded ==> (b.1 matches Bound::Included(t) ==> r.upper() == Some(t)) { unimplemented!() }
}
pub assume_specification<T: Clone>[ <[T]>::to_vec ](s: &[T]) -> (r: Vec<T>) ensures r@.len() == s@.len();
// ---- key identifiers (server/keys/mod.rs) ----
#[verifier::external_body] pub struct KeyId { p: u8 }
pub uninterp spec fn kid_from(s: &str) -> KeyId;       // KeyId::from(&str): the id truncated to KID_LEN characters
impl KvxMapKey<KeyId> for str { uninterp spec fn as_key(&self) -> KeyId; }   // Borrow<str> lookup: the key whose id is this string
impl KeyId {
    #[verifier::external_body] pub fn as_str(&self) -> (r: &str) ensures r.as_key() == *self { unimplemented!() }
    #[verifier::external_body] pub fn clone(&self) -> (r: KeyId) ensures r == *self { unimplemented!() }
}
impl vstd::std_specs::convert::FromSpecImpl<&str> for KeyId { open spec fn obeys_from_spec() -> bool { true } open spec fn from_spec(s: &str) -> KeyId { kid_from(s) } }
impl From<&str> for KeyId { #[verifier::external_body] fn from(s: &str) -> (r: KeyId) { unimplemented!() } }
pub uninterp spec fn kid_from_string(s: String) -> KeyId;
impl vstd::std_specs::convert::FromSpecImpl<String> for KeyId { open spec fn obeys_from_spec() -> bool { true } open spec fn from_spec(s: String) -> KeyId { kid_from_string(s) } }
impl From<String> for KeyId { #[verifier::external_body] fn from(s: String) -> (r: KeyId) { unimplemented!() } }
pub struct Cid { pub ts: Duration, pub s_uuid: Uuid }
impl Cid { pub fn clone(&self) -> (r: Cid) ensures r == *self { Cid { ts: self.ts, s_uuid: self.s_uuid } } }
pub struct Zeroizing<T> { pub v: T }
impl<T> vstd::std_specs::convert::FromSpecImpl<T> for Zeroizing<T> { open spec fn obeys_from_spec() -> bool { true } open spec fn from_spec(v: T) -> Zeroizing<T> { Zeroizing { v } } }
impl<T> From<T> for Zeroizing<T> { fn from(v: T) -> (r: Zeroizing<T>) { Zeroizing { v } } }
// ---- compact_jwt / crypto_glue objects: opaque values; verification / decryption results are unconstrained ----
pub struct JwtError { pub o: u8 }
pub trait JwsVerifiable { type Verified; spec fn kid_spec(&self) -> Option<&str>; fn kid(&self) -> (r: Option<&str>) ensures r == self.kid_spec(); }
pub trait JwsSignable { type Signed; }
pub trait JwsVerifier { fn get_kid(&self) -> &str; }
#[verifier::external_body] pub struct JwsEs256Signer { p: u8 }
#[verifier::external_body] pub struct JwsEs256Verifier { p: u8 }
impl JwsEs256Signer {
    #[verifier::external_body] pub fn generate_es256() -> (r: Result<JwsEs256Signer, JwtError>) { unimplemented!() }
    #[verifier::external_body] pub fn from_es256_der(der: &[u8]) -> (r: Result<JwsEs256Signer, JwtError>) { unimplemented!() }
    #[verifier::external_body] pub fn get_verifier(&self) -> (r: Result<JwsEs256Verifier, JwtError>) { unimplemented!() }
    #[verifier::external_body] pub fn private_key_to_der(&self) -> (r: Result<Zeroizing<Vec<u8>>, JwtError>) { unimplemented!() }
    #[verifier::external_body] pub fn get_kid(&self) -> (r: &str) { unimplemented!() }
    #[verifier::external_body] pub fn get_legacy_kid(&self) -> (r: &str) { unimplemented!() }
    #[verifier::external_body] pub fn set_kid(&mut self, k: &str) { unimplemented!() }
    #[verifier::external_body] pub fn clone(&self) -> (r: JwsEs256Signer) ensures r == *self { unimplemented!() }
    #[verifier::external_body] pub fn sign<V: JwsSignable>(&self, jws: &V) -> (r: Result<V::Signed, JwtError>) { unimplemented!() }
}
impl JwsEs256Verifier {
    #[verifier::external_body] pub fn from_es256_der(der: &[u8]) -> (r: Result<JwsEs256Verifier, JwtError>) { unimplemented!() }
    #[verifier::external_body] pub fn public_key_to_der(&self) -> (r: Result<Vec<u8>, JwtError>) { unimplemented!() }
    #[verifier::external_body] pub fn clone(&self) -> (r: JwsEs256Verifier) ensures r == *self { unimplemented!() }
    #[verifier::external_body] pub fn verify<V: JwsVerifiable>(&self, jwsc: &V) -> (r: Result<V::Verified, JwtError>) { unimplemented!() }
}
#[verifier::external_body] pub struct JwsRs256Signer { p: u8 }
#[verifier::external_body] pub struct JwsRs256Verifier { p: u8 }
impl JwsRs256Signer {
    #[verifier::external_body] pub fn generate_rs256() -> (r: Result<JwsRs256Signer, JwtError>) { unimplemented!() }
    #[verifier::external_body] pub fn from_rs256_der(der: &[u8]) -> (r: Result<JwsRs256Signer, JwtError>) { unimplemented!() }
    #[verifier::external_body] pub fn get_verifier(&self) -> (r: Result<JwsRs256Verifier, JwtError>) { unimplemented!() }
    #[verifier::external_body] pub fn private_key_to_der(&self) -> (r: Result<Zeroizing<Vec<u8>>, JwtError>) { unimplemented!() }
    #[verifier::external_body] pub fn get_kid(&self) -> (r: &str) { unimplemented!() }
    #[verifier::external_body] pub fn get_legacy_kid(&self) -> (r: &str) { unimplemented!() }
    #[verifier::external_body] pub fn set_kid(&mut self, k: &str) { unimplemented!() }
    #[verifier::external_body] pub fn clone(&self) -> (r: JwsRs256Signer) ensures r == *self { unimplemented!() }
    #[verifier::external_body] pub fn sign<V: JwsSignable>(&self, jws: &V) -> (r: Result<V::Signed, JwtError>) { unimplemented!() }
}
impl JwsRs256Verifier {
    #[verifier::external_body] pub fn from_rs256_der(der: &[u8]) -> (r: Result<JwsRs256Verifier, JwtError>) { unimplemented!() }
    #[verifier::external_body] pub fn public_key_to_der(&self) -> (r: Result<Vec<u8>, JwtError>) { unimplemented!() }
    #[verifier::external_body] pub fn clone(&self) -> (r: JwsRs256Verifier) ensures r == *self { unimplemented!() }
    #[verifier::external_body] pub fn verify<V: JwsVerifiable>(&self, jwsc: &V) -> (r: Result<V::Verified, JwtError>) { unimplemented!() }
}
// HS256: the signer is also the verifier
#[verifier::external_body] pub struct JwsHs256Signer { p: u8 }
impl JwsHs256Signer {
    #[verifier::external_body] pub fn generate_hs256() -> (r: Result<JwsHs256Signer, JwtError>) { unimplemented!() }
    #[verifier::external_body] pub fn try_from(der: &[u8]) -> (r: Result<JwsHs256Signer, JwtError>) { unimplemented!() }
    #[verifier::external_body] pub fn get_legacy_kid(&self) -> (r: &str) { unimplemented!() }
    #[verifier::external_body] pub fn set_kid(&mut self, k: &str) { unimplemented!() }
    #[verifier::external_body] pub fn clone(&self) -> (r: JwsHs256Signer) ensures r == *self { unimplemented!() }
    #[verifier::external_body] pub fn sign<V: JwsSignable>(&self, jws: &V) -> (r: Result<V::Signed, JwtError>) { unimplemented!() }
    #[verifier::external_body] pub fn verify<V: JwsVerifiable>(&self, jwsc: &V) -> (r: Result<V::Verified, JwtError>) { unimplemented!() }
}
impl JwsVerifier for JwsHs256Signer { #[verifier::external_body] fn get_kid(&self) -> (r: &str) { unimplemented!() } }
// JWE A128GCM
#[verifier::external_body] pub struct Aes128Key { p: u8 }
pub mod aes128 { use super::*;
    #[verifier::external_body] pub fn new_key() -> (r: Aes128Key) { unimplemented!() }
    #[verifier::external_body] pub fn key_from_slice(b: &[u8]) -> (r: Option<Aes128Key>) { unimplemented!() }
}
pub struct Jwe { pub o: u8 }
pub struct JweA128GCMEncipher { pub o: u8 }
#[verifier::external_body] pub struct JweCompact { p: u8 }
impl JweCompact { pub uninterp spec fn kid_spec(&self) -> Option<&str>; #[verifier::external_body] pub fn kid(&self) -> (r: Option<&str>) ensures r == self.kid_spec() { unimplemented!() } }
#[verifier::external_body] pub struct JweA128KWEncipher { p: u8 }
impl vstd::std_specs::convert::FromSpecImpl<Aes128Key> for JweA128KWEncipher { open spec fn obeys_from_spec() -> bool { false } uninterp spec fn from_spec(k: Aes128Key) -> JweA128KWEncipher; }
impl From<Aes128Key> for JweA128KWEncipher { #[verifier::external_body] fn from(k: Aes128Key) -> (r: JweA128KWEncipher) { unimplemented!() } }
impl JweA128KWEncipher {
    #[verifier::external_body] pub fn set_sign_option_embed_kid(&mut self, b: bool) { unimplemented!() }
    #[verifier::external_body] pub fn get_kid(&self) -> (r: &str) { unimplemented!() }
    #[verifier::external_body] pub fn set_kid(&mut self, k: &str) { unimplemented!() }
    #[verifier::external_body] pub fn clone(&self) -> (r: JweA128KWEncipher) ensures r == *self { unimplemented!() }
    #[verifier::external_body] pub fn decipher(&self, jwec: &JweCompact) -> (r: Result<Jwe, JwtError>) { unimplemented!() }
    #[verifier::external_body] pub fn encipher<E>(&self, jwe: &Jwe) -> (r: Result<JweCompact, JwtError>) { unimplemented!() }
}
// HKDF / HMAC-SHA256 keys
#[verifier::external_body] pub struct HmacSha256Key { p: u8 }
impl HmacSha256Key { #[verifier::external_body] pub fn clone(&self) -> (r: HmacSha256Key) ensures r == *self { unimplemented!() } }
pub mod hmac_s256 { use super::*;
    #[verifier::external_body] pub fn new_key() -> (r: HmacSha256Key) { unimplemented!() }
    #[verifier::external_body] pub fn key_from_slice(b: &[u8]) -> (r: Option<HmacSha256Key>) { unimplemented!() }
}
#[verifier::external_body] pub struct HmacSha256 { p: u8 }
#[verifier::external_body] pub struct KvxMacOut { p: u8 }
impl HmacSha256 {
    #[verifier::external_body] pub fn new(k: &HmacSha256Key) -> (r: HmacSha256) { unimplemented!() }
    #[verifier::external_body] pub fn update(&mut self, d: &[u8]) { unimplemented!() }
    #[verifier::external_body] pub fn finalize(self) -> (r: KvxMacOut) { unimplemented!() }
}
impl KvxMacOut { #[verifier::external_body] pub fn into_bytes(self) -> (r: Vec<u8>) { unimplemented!() } }
pub mod hex { #[verifier::external_body] pub fn encode(b: Vec<u8>) -> (r: String) { unimplemented!() } }
// ---- the real OperationError (kanidm_proto::internal::error), payload types as stand-ins ----
pub struct ConsistencyError { pub o: u8 }
pub struct SchemaError { pub o: u8 }
pub struct PluginError { pub o: u8 }
pub struct Attribute { pub o: u8 }
pub struct PasswordFeedback { pub o: u8 }
pub mod time { pub struct OffsetDateTime { pub o: u8 } }
//@extract OperationError
//@extract KeyStatus
