// Stand-in for core::time::Duration (orphan rule forbids spec impls on the foreign type).
// Fields/order identical to std: (secs: u64, nanos: u32 < 1e9); derived order == std's order.
// Each method below that carries an `ensures` is proved equal to the real std method by
// the Kani harnesses in kani/shim_duration.rs (full domain).
#[derive(Clone, Copy, PartialEq, Eq, PartialOrd, Ord)]
pub struct Duration { pub secs: u64, pub nanos: u32 }
impl Duration {
    pub const ZERO: Duration = Duration { secs: 0, nanos: 0 };
    pub open spec fn ns(self) -> nat { self.secs as nat * 1_000_000_000 + self.nanos as nat }
    pub open spec fn wf(self) -> bool { self.nanos < 1_000_000_000 }
    // the order the code's `<` uses (derived lexicographic order == std's Ord for Duration)
    pub open spec fn dlt(self, o: Duration) -> bool { self.secs < o.secs || (self.secs == o.secs && self.nanos < o.nanos) }
    pub open spec fn dle(self, o: Duration) -> bool { self.dlt(o) || self == o }
}
// under std's type invariant (nanos < 1e9) the lexicographic order is the order of the time values
pub proof fn lemma_duration_lt_is_time_order(a: Duration, b: Duration)
    requires a.wf(), b.wf(),
    ensures a.dlt(b) <==> a.ns() < b.ns(), (a == b) <==> a.ns() == b.ns(),
{
    assert(a.ns() == a.secs * 1_000_000_000 + a.nanos);
    assert(b.ns() == b.secs * 1_000_000_000 + b.nanos);
    if a.secs < b.secs { assert(a.secs as nat * 1_000_000_000 + 1_000_000_000 <= b.secs as nat * 1_000_000_000) by(nonlinear_arith) requires a.secs < b.secs; }
    if b.secs < a.secs { assert(b.secs as nat * 1_000_000_000 + 1_000_000_000 <= a.secs as nat * 1_000_000_000) by(nonlinear_arith) requires b.secs < a.secs; }
}
impl vstd::std_specs::cmp::PartialEqSpecImpl for Duration {
    open spec fn obeys_eq_spec() -> bool { true }
    open spec fn eq_spec(&self, other: &Duration) -> bool { self.secs == other.secs && self.nanos == other.nanos }
}
impl vstd::std_specs::cmp::PartialOrdSpecImpl for Duration {
    open spec fn obeys_partial_cmp_spec() -> bool { true }
    open spec fn partial_cmp_spec(&self, other: &Duration) -> Option<Ordering> {
        if self.secs < other.secs || (self.secs == other.secs && self.nanos < other.nanos) { Some(Ordering::Less) }
        else if self.secs == other.secs && self.nanos == other.nanos { Some(Ordering::Equal) } else { Some(Ordering::Greater) }
    }
}
impl vstd::std_specs::cmp::OrdSpecImpl for Duration {
    open spec fn obeys_cmp_spec() -> bool { true }
    open spec fn cmp_spec(&self, other: &Duration) -> Ordering {
        if self.secs < other.secs || (self.secs == other.secs && self.nanos < other.nanos) { Ordering::Less }
        else if self.secs == other.secs && self.nanos == other.nanos { Ordering::Equal } else { Ordering::Greater }
    }
}
