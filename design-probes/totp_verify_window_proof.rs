use vstd::prelude::*;
verus! {
pub mod lemmas { use vstd::prelude::*;
  pub broadcast proof fn lemma_div_ge1(a: u64, b: u64) by (nonlinear_arith) requires a >= b, b > 0 ensures #[trigger] (a / b) >= 1 {}
}
pub mod code { use vstd::prelude::*; broadcast use super::lemmas::lemma_div_ge1;

#[derive(Clone, Copy)]
pub struct Duration { pub secs: u64, pub nanos: u32 }
impl Duration { #[verifier::external_body] pub fn as_secs(&self) -> (s: u64) ensures s == self.secs { unimplemented!() } }
#[derive(PartialEq, Eq)]
pub enum TotpError { InvalidKeyError, HmacError, TimeError }
pub enum TotpDigits { Six, Eight }
pub enum TotpAlgo { Sha1, Sha256, Sha512 }
pub struct Totp { pub secret: Vec<u8>, pub step: u64, pub algo: TotpAlgo, pub digits: TotpDigits }
pub uninterp spec fn code(t: Totp, counter: u64) -> Result<u32, TotpError>;   // = RFC 4226 HOTP value; `Totp::digest == code` is the Kani-proved contract
pub assume_specification<T, E>[ Result::<T, E>::unwrap_or ](r: Result<T, E>, d: T) -> (o: T)
    ensures o == (match r { Ok(v) => v, Err(_) => d });
impl Totp {
    #[verifier::external_body]
    fn digest(&self, counter: u64) -> (r: Result<u32, TotpError>) ensures r == code(*self, counter) { unimplemented!() }
    pub fn verify(&self, chal: u32, time: Duration) -> (r: bool)
        requires self.step > 0, time.secs >= self.step,
        ensures r == (code(*self, (time.secs / self.step) as u64) == Ok::<u32, TotpError>(chal) || code(*self, (time.secs / self.step - 1) as u64) == Ok::<u32, TotpError>(chal)),
    {
        let secs = time.as_secs();
        let counter = secs / self.step;
        // Any error becomes a failure.
        self.digest(counter).map(|v1: u32| -> (o: bool) ensures o == (v1 == chal) { v1 == chal }).unwrap_or(false)
            || self
                .digest(counter - 1)
                .map(|v2: u32| -> (o: bool) ensures o == (v2 == chal) { v2 == chal })
                .unwrap_or(false)
    }}
}
}
fn main(){}
