use vstd::prelude::*;
verus! {
pub mod lemmas {
    use vstd::prelude::*;
    pub broadcast proof fn lemma_gid_mask(x: u32)
        ensures 0x7000_0000u32 <= #[trigger] ((x & 0x0fff_ffffu32) | 0x7000_0000u32) <= 0x7fff_ffffu32
    { assert(0x7000_0000u32 <= ((x & 0x0fff_ffffu32) | 0x7000_0000u32) <= 0x7fff_ffffu32) by (bit_vector); }
}
pub mod code {
use vstd::prelude::*;
broadcast use super::lemmas::lemma_gid_mask;
#[derive(Clone, Copy, PartialEq, Eq)]
pub struct Uuid(pub u128);
#[derive(Clone, Copy, PartialEq, Eq)]
pub enum Attribute { Class, GidNumber, Uuid, Other(u64) }
#[derive(Clone, Copy, PartialEq, Eq)]
pub enum EntryClass { PosixGroup, PosixAccount, Other(u64) }
#[derive(Clone, Copy, PartialEq, Eq)]
pub enum PartialValue { Class(EntryClass), Other(u64) }
impl From<EntryClass> for PartialValue { fn from(c: EntryClass) -> (r: PartialValue) ensures r == PartialValue::Class(c) { PartialValue::Class(c) } }
impl vstd::std_specs::convert::FromSpecImpl<EntryClass> for PartialValue {
    open spec fn obeys_from_spec() -> bool { true }
    open spec fn from_spec(c: EntryClass) -> PartialValue { PartialValue::Class(c) }
}
#[derive(Clone, Copy, PartialEq, Eq)]
pub enum Value { Uint32(u32), Other(u64) }
impl Value { pub fn new_uint32(u: u32) -> (r: Value) ensures r == Value::Uint32(u) { Value::Uint32(u) } }
pub enum OperationError { InvalidEntryState, PL0001GidOverlapsSystemRange }
pub struct EntryInvalid;
// ---- Entry stand-in: uninterpreted view ----
pub struct EntryV { pub uuid: Option<Uuid>, pub classes: Set<EntryClass>, pub gid: Option<u32>, pub rest: int }
#[verifier::external_body]
#[verifier::reject_recursive_types(V)]
#[verifier::reject_recursive_types(S)]
pub struct Entry<V, S> { _p: core::marker::PhantomData<(V, S)> }
impl<V, S> View for Entry<V, S> { type V = EntryV; uninterp spec fn view(&self) -> EntryV; }
impl<V, S> Entry<V, S> {
    #[verifier::external_body]
    pub fn attribute_equality(&self, a: Attribute, v: &PartialValue) -> (r: bool)
        ensures a == Attribute::Class ==> r == ((*v) matches PartialValue::Class(c) && self@.classes.contains(c)) { unimplemented!() }
    #[verifier::external_body]
    pub fn attribute_pres(&self, a: Attribute) -> (r: bool) ensures a == Attribute::GidNumber ==> r == self@.gid.is_some() { unimplemented!() }
    #[verifier::external_body]
    pub fn get_uuid(&self) -> (r: Option<Uuid>) ensures r == self@.uuid { unimplemented!() }
    #[verifier::external_body]
    pub fn get_ava_single_uint32(&self, a: Attribute) -> (r: Option<u32>) ensures a == Attribute::GidNumber ==> r == self@.gid { unimplemented!() }
    #[verifier::external_body]
    pub fn set_ava(&mut self, a: &Attribute, v: core::iter::Once<Value>)
        ensures *a == Attribute::GidNumber ==> (forall|g: u32| once_val(v) == Value::Uint32(g) ==> final(self)@ == (EntryV { gid: Some(g), ..old(self)@ })) { unimplemented!() }
}
pub assume_specification<T, E, F: FnOnce(&E)>[ Result::<T, E>::inspect_err ](r: Result<T, E>, f: F) -> (o: Result<T, E>)
    ensures o == r;
pub uninterp spec fn once_val(o: core::iter::Once<Value>) -> Value;
#[verifier::external_type_specification]
#[verifier::external_body]
#[verifier::reject_recursive_types(T)]
pub struct ExOnce<T>(core::iter::Once<T>);
#[verifier::external_body]
pub fn once(v: Value) -> (r: core::iter::Once<Value>) ensures once_val(r) == v { unimplemented!() }
pub uninterp spec fn gid_of_uuid(u: Uuid) -> u32;
#[verifier::external_body]
pub fn uuid_to_gid_u32(u: Uuid) -> (r: u32) ensures r == gid_of_uuid(u) { unimplemented!() }

pub open spec fn reserved(g: u32) -> bool { g < 1000 || (60001 <= g <= 60577) || (61184 <= g <= 65519) || g == 65534 || g == 65535 }
pub open spec fn is_posix(e: EntryV) -> bool { e.classes.contains(EntryClass::PosixGroup) || e.classes.contains(EntryClass::PosixAccount) }
const GID_SYSTEM_NUMBER_PREFIX: u32 = 0x7000_0000;
const GID_SYSTEM_NUMBER_MASK: u32 = 0x0fff_ffff;
pub const GID_REGULAR_USER_MIN: u32 = 1000;
pub const GID_REGULAR_USER_MAX: u32 = 60000;
pub const GID_UNUSED_A_MIN: u32 = 60578;
pub const GID_UNUSED_A_MAX: u32 = 61183;
pub const GID_UNUSED_B_MIN: u32 = 65520;
pub const GID_UNUSED_B_MAX: u32 = 65533;
pub const GID_UNUSED_C_MIN: u32 = 65536;
const GID_UNUSED_C_MAX: u32 = 524287;
const GID_NSPAWN_MIN: u32 = 524288;
const GID_NSPAWN_MAX: u32 = 1879048191;
const GID_UNUSED_D_MIN: u32 = 0x7000_0000;
pub const GID_UNUSED_D_MAX: u32 = 0x7fff_ffff;
fn apply_gidnumber<T: Clone>(e: &mut Entry<EntryInvalid, T>) -> (r: Result<(), OperationError>)
    ensures
        r is Ok ==> (final(e)@.gid matches Some(g) ==> !reserved(g)),
        (r is Ok && is_posix(old(e)@)) ==> final(e)@.gid is Some,
        (r is Ok && is_posix(old(e)@) && old(e)@.gid is None) ==> (old(e)@.uuid matches Some(u) && final(e)@.gid == Some((gid_of_uuid(u) & 0x0fff_ffffu32) | 0x7000_0000u32)),
        old(e)@.gid is Some ==> final(e)@ == old(e)@,
        (old(e)@.gid matches Some(g) && (reserved(g) || g > 0x7fff_ffff)) ==> r is Err,
        final(e)@.uuid == old(e)@.uuid && final(e)@.classes == old(e)@.classes && final(e)@.rest == old(e)@.rest,
{
    if (e.attribute_equality(Attribute::Class, &EntryClass::PosixGroup.into())
        || e.attribute_equality(Attribute::Class, &EntryClass::PosixAccount.into()))
        && !e.attribute_pres(Attribute::GidNumber)
    {
        let u_ref = e
            .get_uuid()
            .ok_or(OperationError::InvalidEntryState)
            .inspect_err(|_e| {

            })?;

        let gid = uuid_to_gid_u32(u_ref);

        // Apply the mask to only take the last 24 bits, and then move them
        // to the correct range.
        let gid = gid & GID_SYSTEM_NUMBER_MASK;
        let gid = gid | GID_SYSTEM_NUMBER_PREFIX;

        let gid_v = Value::new_uint32(gid);

        e.set_ava(&Attribute::GidNumber, once(gid_v));
        Ok(())
    } else if let Some(gid) = e.get_ava_single_uint32(Attribute::GidNumber) {
        // If they provided us with a gid number, ensure it's in a safe range.
        if (GID_REGULAR_USER_MIN..=GID_REGULAR_USER_MAX).contains(&gid)
            || (GID_UNUSED_A_MIN..=GID_UNUSED_A_MAX).contains(&gid)
            || (GID_UNUSED_B_MIN..= GID_UNUSED_B_MAX).contains(&gid)
            || (GID_UNUSED_C_MIN..=GID_UNUSED_C_MAX).contains(&gid)
            // We won't ever generate an id in the nspawn range, but we do secretly allow
            // it to be set for compatibility with services like freeipa or openldap. TBH
            // most people don't even use systemd nspawn anyway ...
            //
            // I made this design choice to avoid a tunable that may confuse people to
            // its purpose. This way things "just work" for imports and existing systems
            // but we do the right thing in the future.
            || (GID_NSPAWN_MIN..=GID_NSPAWN_MAX).contains(&gid)
            || (GID_UNUSED_D_MIN..=GID_UNUSED_D_MAX).contains(&gid)
        {
            Ok(())
        } else {
            // Note that here we don't advertise that we allow the nspawn range to be set, even
            // though we do allow it.

            Err(OperationError::PL0001GidOverlapsSystemRange)
        }
    } else {
        Ok(())
    }
}}
}
fn main(){}
