use vstd::prelude::*;
verus! {
pub mod lemmas {
    use vstd::prelude::*;
    pub broadcast proof fn lemma_gid_mask(x: u32)
        ensures 0x7000_0000u32 <= #[trigger] ((x & 0x0fff_ffffu32) | 0x7000_0000u32) <= 0x7fff_ffffu32
    {
        assert(0x7000_0000u32 <= ((x & 0x0fff_ffffu32) | 0x7000_0000u32) <= 0x7fff_ffffu32) by (bit_vector);
    }
}
pub mod code {
    use vstd::prelude::*;
    broadcast use super::lemmas::lemma_gid_mask;
    pub fn g(x: u32) -> (r: u32) ensures 0x7000_0000 <= r <= 0x7fff_ffff
    {
        let gid = x & 0x0fff_ffff;
        let gid = gid | 0x7000_0000;
        gid
    }
}
}
fn main(){}
