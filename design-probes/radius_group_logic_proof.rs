#![feature(allocator_api)]
use vstd::prelude::*;
use core::cmp::Ordering;
use std::collections::{BTreeMap, BTreeSet};
use vstd::std_specs::iter::IteratorSpec;
verus! {
// opaque ordered string key
#[derive(Clone, PartialEq, Eq, PartialOrd, Ord)]
pub struct String(pub u64);
impl vstd::std_specs::cmp::PartialEqSpecImpl for String {
    open spec fn obeys_eq_spec() -> bool { true }
    open spec fn eq_spec(&self, o: &String) -> bool { self.0 == o.0 }
}
impl vstd::std_specs::cmp::PartialOrdSpecImpl for String {
    open spec fn obeys_partial_cmp_spec() -> bool { true }
    open spec fn partial_cmp_spec(&self, o: &String) -> Option<Ordering> {
        if self.0 < o.0 { Some(Ordering::Less) } else if self.0 == o.0 { Some(Ordering::Equal) } else { Some(Ordering::Greater) } }
}
impl vstd::std_specs::cmp::OrdSpecImpl for String {
    open spec fn obeys_cmp_spec() -> bool { true }
    open spec fn cmp_spec(&self, o: &String) -> Ordering {
        if self.0 < o.0 { Ordering::Less } else if self.0 == o.0 { Ordering::Equal } else { Ordering::Greater } }
}
pub assume_specification<K: Ord, V, A: core::alloc::Allocator + Clone, I: IntoIterator<Item = (K, V)>>[ <BTreeMap<K, V, A> as Extend<(K, V)>>::extend::<I> ](m: &mut BTreeMap<K, V, A>, it: I);
pub struct Group { pub spn: String, pub uuid: String }
pub struct GroupConfig { pub vlan: u32, pub reply_attributes: BTreeMap<String, String> }
pub struct KanidmRadiusConfig { pub radius_default_vlan: u32 }
pub struct Module { pub cfg: KanidmRadiusConfig, pub required_groups: BTreeSet<String>, pub group_configs: BTreeMap<String, GroupConfig> }
pub open spec fn vlan_spec(cfgs: Map<String, GroupConfig>, dflt: u32, gs: Seq<Group>, n: int) -> u32
    decreases n
{
    if n <= 0 { dflt } else if cfgs.contains_key(gs[n - 1].spn) { cfgs[gs[n - 1].spn].vlan } else { vlan_spec(cfgs, dflt, gs, n - 1) }
}
impl Module {
    fn user_in_required_groups(&self, user_groups: &[Group]) -> (r: bool)
        requires vstd::std_specs::btree::key_obeys_cmp_spec::<String>(),
        ensures r ==> (exists|i: int| 0 <= i < user_groups@.len() && (self.required_groups@.contains(#[trigger] user_groups@[i].uuid) || self.required_groups@.contains(user_groups@[i].spn))),
    {
        user_groups.iter().any(|group: &Group| -> (o: bool) ensures o == (self.required_groups@.contains(group.uuid) || self.required_groups@.contains(group.spn)) {
            self.required_groups.contains(&group.uuid) || self.required_groups.contains(&group.spn)
        })
    }

    fn resolve_group_configs(&self, user_groups: &[Group]) -> (r: GroupConfig)
        requires vstd::std_specs::btree::key_obeys_cmp_spec::<String>(),
        ensures r.vlan == vlan_spec(self.group_configs@, self.cfg.radius_default_vlan, user_groups@, user_groups@.len() as int),
    {
        let mut vlan = self.cfg.radius_default_vlan;
        let mut reply_attributes = BTreeMap::default();

        for group in it: user_groups
            invariant vstd::std_specs::btree::key_obeys_cmp_spec::<String>(), vlan == vlan_spec(self.group_configs@, self.cfg.radius_default_vlan, user_groups@, it.index@),
                it.snapshot@.remaining() =~= user_groups@.map_values(|g: Group| &g),
        {
            if let Some(group_config) = self.group_configs.get(&group.spn) {
                vlan = group_config.vlan;
                reply_attributes.extend(group_config.reply_attributes.clone());
            }
        }

        GroupConfig {
            vlan,
            reply_attributes,
        }
    }}
}
fn main(){}
