use vstd::prelude::*;
use core::cmp::Ordering;
verus! {
#[derive(Clone, Copy, PartialEq, Eq, PartialOrd, Ord)]
pub struct Duration { pub secs: u64, pub nanos: u32 }
impl Duration {
    pub open spec fn ns(self) -> nat { self.secs as nat * 1_000_000_000 + self.nanos as nat }
    pub open spec fn wf(self) -> bool { self.nanos < 1_000_000_000 }
    #[verifier::external_body]
    pub fn from_secs(s: u64) -> (d: Duration) ensures d.secs == s, d.nanos == 0 { unimplemented!() }
    #[verifier::external_body]
    pub fn as_secs(&self) -> (s: u64) ensures s == self.secs { unimplemented!() }
}
impl vstd::std_specs::cmp::PartialEqSpecImpl for Duration {
    open spec fn obeys_eq_spec() -> bool { true }
    open spec fn eq_spec(&self, other: &Duration) -> bool { self.secs == other.secs && self.nanos == other.nanos }
}
impl vstd::std_specs::cmp::PartialOrdSpecImpl for Duration {
    open spec fn obeys_partial_cmp_spec() -> bool { true }
    open spec fn partial_cmp_spec(&self, other: &Duration) -> Option<Ordering> {
        if self.ns() < other.ns() { Some(Ordering::Less) }
        else if self.ns() == other.ns() { Some(Ordering::Equal) } else { Some(Ordering::Greater) }
    }
}
impl vstd::std_specs::ops::AddSpecImpl<Duration> for Duration {
    open spec fn obeys_add_spec() -> bool { true }
    open spec fn add_req(self, rhs: Duration) -> bool { self.wf() && rhs.wf() && self.secs + rhs.secs + 1 <= u64::MAX }
    open spec fn add_spec(self, rhs: Duration) -> Duration {
        if self.nanos + rhs.nanos >= 1_000_000_000 { Duration { secs: (self.secs + rhs.secs + 1) as u64, nanos: (self.nanos + rhs.nanos - 1_000_000_000) as u32 } }
        else { Duration { secs: (self.secs + rhs.secs) as u64, nanos: (self.nanos + rhs.nanos) as u32 } }
    }
}
impl core::ops::Add for Duration {
    type Output = Duration;
    #[verifier::external_body]
    fn add(self, rhs: Duration) -> (r: Duration) { unimplemented!() }
}
const ONEDAY: u64 = 86400;
pub enum CredSoftLockPolicy {
    Password,
    Totp(u64),
    Webauthn,
    Unrestricted,
}

impl CredSoftLockPolicy {
    /// Determine the next lock state after a failure based on this credentials
    /// policy.
    fn failure_next_state(&self, count: usize, ct: Duration) -> LockState {
        match self {
            CredSoftLockPolicy::Password => {
                let next_day_end = ct.as_secs() + ONEDAY;
                let rem = next_day_end % ONEDAY;
                let reset_at = Duration::from_secs(next_day_end - rem);

                if count < 3 {
                    LockState::Locked {
                        count,
                        reset_at,
                        unlock_at: ct + Duration::from_secs(1),
                    }
                } else if count < 9 {
                    LockState::Locked {
                        count,
                        reset_at,
                        unlock_at: ct + Duration::from_secs(3),
                    }
                } else if count < 25 {
                    LockState::Locked {
                        count,
                        reset_at,
                        unlock_at: ct + Duration::from_secs(5),
                    }
                } else if count < 100 {
                    LockState::Locked {
                        count,
                        reset_at,
                        unlock_at: ct + Duration::from_secs(10),
                    }
                } else {
                    LockState::Locked {
                        count,
                        reset_at,
                        unlock_at: reset_at,
                    }
                }
            }
            CredSoftLockPolicy::Totp(step) => {
                // reset at is based on the next step ending.
                let next_window_end = ct.as_secs() + step;
                let rem = next_window_end % step;
                let reset_at = Duration::from_secs(next_window_end - rem);
                // We delay for 1 second, unless count is > 3, then we set
                // unlock at to reset_at.
                if count >= 3 {
                    LockState::Locked {
                        count,
                        reset_at,
                        unlock_at: reset_at,
                    }
                } else {
                    LockState::Locked {
                        count,
                        reset_at,
                        unlock_at: ct + Duration::from_secs(1),
                    }
                }
            }
            CredSoftLockPolicy::Webauthn => {
                // we only lock for 1 second to slow them down.
                // TODO: Could this be a DOS/Abuse vector?
                LockState::Locked {
                    count,
                    reset_at: ct + Duration::from_secs(1),
                    unlock_at: ct + Duration::from_secs(1),
                }
            }
            CredSoftLockPolicy::Unrestricted => {
                // No action needed
                LockState::Init
            }
        }
    }
}

enum LockState {
    Init,
    // count
    // * Number of Failures in this cycle
    // unlock_at
    // * Time of next allowed check (works with delay)
    // reset_count_at
    // * The time to reset the state to init.
    //     count  reset_at  unlock_at
    Locked {
        count: usize,
        reset_at: Duration,
        unlock_at: Duration,
    },
    Unlocked(usize, Duration),
}

pub(crate) struct CredSoftLock {
    state: LockState,
    // Policy (for determining delay times based on num failures, and when to reset?)
    policy: CredSoftLockPolicy,
    last_expire_at: Duration,
}

impl CredSoftLock {
    pub fn new(policy: CredSoftLockPolicy) -> Self {
        CredSoftLock {
            state: LockState::Init,
            policy,
            last_expire_at: Duration::from_secs(0),
        }
    }

    pub fn apply_time_step(&mut self, ct: Duration, expire_at: Option<Duration>) {
        // Do a reset if needed?
        let mut next_state = match self.state {
            LockState::Init => LockState::Init,
            LockState::Locked {
                count,
                mut reset_at,
                unlock_at,
            } => {
                // If there is a softlock expiry time, then we use it to *bound* the reset_at time.
                // That way the remaining logic will kick in and then move the reset_at.
                if let Some(expiry) = expire_at {
                    if self.last_expire_at != expiry {
                        // This lets us track former expiration times. We should only apply the reset/clear event ONCE.
                        self.last_expire_at = expiry;

                        // Now, we have to choose *if* we actually do a clear.
                        if reset_at > expiry {
                            // Okay, so the reset_at is beyond the expiry, we cap it now. This can
                            // either cause a reset/clear, or the reset_at to be bound to expiry in the unlock state.
                            //
                            // for example, consider someone set expiry into the future beyond the reset_at time.
                            // Then we don't actually want this to DO anything, because that wouldn't help anyone.
                            reset_at = expiry
                        }
                    }
                }

                if ct > reset_at {
                    LockState::Init
                } else if ct > unlock_at {
                    LockState::Unlocked(count, reset_at)
                } else {
                    LockState::Locked {
                        count,
                        reset_at,
                        unlock_at,
                    }
                }
            }
            LockState::Unlocked(count, reset_at) => {
                if ct > reset_at {
                    LockState::Init
                } else {
                    LockState::Unlocked(count, reset_at)
                }
            }
        };
        std::mem::swap(&mut self.state, &mut next_state);
    }

    /// Is this credential valid to proceed at this point in time.
    pub fn is_valid(&self) -> bool {
        !matches!(self.state, LockState::Locked { .. })
    }

    /// Document a failure of authentication at this time.
    pub fn record_failure(&mut self, ct: Duration) {
        let mut next_state = match self.state {
            LockState::Init => {
                self.policy.failure_next_state(1, ct)
                // LockState::Locked(1, reset_at, unlock_at)
            }
            LockState::Locked {
                count,
                reset_at: _,
                unlock_at: _,
            } => {
                // We should never reach this but just in case ...
                self.policy.failure_next_state(count + 1, ct)
                // LockState::Locked(count + 1, reset_at, unlock_at)
            }
            LockState::Unlocked(count, _reset_at) => {
                self.policy.failure_next_state(count + 1, ct)
                // LockState::Locked(count + 1, reset_at, unlock_at)
            }
        };
        std::mem::swap(&mut self.state, &mut next_state);
    }

    

    

    /*
    
    */
}}
fn main(){}
