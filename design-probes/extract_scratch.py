#!/usr/bin/env python3
"""scratch extractor: pull an item (fn/impl/enum/struct) text by header regex with brace matching, rust-token aware"""
import re,sys
def skip_ws_tokens(s,i):
    return i
def match_brace(s, j):
    # s[j]=='{' ; return index of matching '}' ; aware of strings, chars, comments
    d=0;k=j;n=len(s)
    while k<n:
        c=s[k]
        if s.startswith('//',k):
            k=s.index('\n',k); continue
        if s.startswith('/*',k):
            k=s.index('*/',k)+2; continue
        if c=='"':
            k+=1
            while s[k]!='"':
                if s[k]=='\\': k+=1
                k+=1
            k+=1; continue
        if c=="'":
            # char literal or lifetime
            m=re.match(r"'(\\.|[^\\'])'",s[k:])
            if m: k+=m.end(); continue
            k+=1; continue
        if c=='{': d+=1
        elif c=='}':
            d-=1
            if d==0: return k
        k+=1
    raise Exception('unbalanced')
def extract(s, header_re, nth=0):
    ms=list(re.finditer(header_re,s,re.M))
    m=ms[nth]
    i=m.start()
    j=s.index('{',m.end()-1) if s[m.end()-1]!='{' else m.end()-1
    k=match_brace(s,j)
    return s[i:k+1]
def strip_macros(t, names):
    # remove statement-level macro invocations  name!( ... );  or name!(...) as tail
    out=t
    for nm in names:
        while True:
            m=re.search(r'(?m)^[ \t]*(?:[a-z_]+::)*'+nm+r'!\s*\(',out)
            if not m: break
            j=m.end()-1
            d=0;k=j
            while True:
                c=out[k]
                if c=='"':
                    k+=1
                    while out[k]!='"':
                        if out[k]=='\\': k+=1
                        k+=1
                elif c=='(': d+=1
                elif c==')':
                    d-=1
                    if d==0: break
                k+=1
            e=k+1
            if e<len(out) and out[e]==';': e+=1
            out=out[:m.start()]+out[e:]
    return out
if __name__=='__main__':
    s=open(sys.argv[1]).read()
    print(extract(s,sys.argv[2], int(sys.argv[3]) if len(sys.argv)>3 else 0))
