use vstd::prelude::*;
verus! {
// ---- decode contract as a spec function (this IS the woven postcondition of decode_length_checked_json) ----
pub uninterp spec fn be64(b: Seq<u8>) -> nat;             // big-endian value of 8 bytes
pub uninterp spec fn enc64(n: nat) -> Seq<u8>;            // its inverse on [0, 2^64)
#[verifier::external_body]
pub broadcast proof fn ax_be64(n: nat) requires n < 0x1_0000_0000_0000_0000 ensures (#[trigger] enc64(n)).len() == 8, be64(enc64(n)) == n {}

pub enum D { More, Bad, Msg(Seq<u8>) }
pub open spec fn dec(buf: Seq<u8>, max: nat) -> (D, Seq<u8>) {
    if buf.len() < 8 { (D::More, buf) } else {
        let req = be64(buf.subrange(0, 8));
        if req == 0 || req > max { (D::Bad, buf) }
        else if buf.len() - 8 < req { (D::More, buf) }
        else { (D::Msg(buf.subrange(8, 8 + req as int)), buf.subrange(8 + req as int, buf.len() as int)) }
    }
}
pub open spec fn frame(body: Seq<u8>) -> Seq<u8> { enc64(body.len()) + body }      // == postcondition of encode_length_checked_json

// The consumer loop of a Framed<_, Codec>: append a chunk, then decode until More/Bad.
pub open spec fn drain(buf: Seq<u8>, max: nat) -> (Seq<Seq<u8>>, Seq<u8>, bool)   // (messages, rest, poisoned)
    decreases buf.len()
{
    let (d, rest) = dec(buf, max);
    match d {
        D::More => (seq![], buf, false),
        D::Bad => (seq![], buf, true),
        D::Msg(m) => if rest.len() < buf.len() { let (ms, r, p) = drain(rest, max); (seq![m] + ms, r, p) } else { (seq![], buf, true) },
    }
}
pub open spec fn feed(chunks: Seq<Seq<u8>>, max: nat) -> (Seq<Seq<u8>>, Seq<u8>, bool)
    decreases chunks.len()
{
    if chunks.len() == 0 { (seq![], seq![], false) } else {
        let (ms, buf, p) = feed(chunks.drop_last(), max);
        if p { (ms, buf, true) } else { let (ms2, r, p2) = drain(buf + chunks.last(), max); (ms + ms2, r, p2) }
    }
}
pub open spec fn flat(chunks: Seq<Seq<u8>>) -> Seq<u8> decreases chunks.len() { if chunks.len() == 0 { seq![] } else { flat(chunks.drop_last()) + chunks.last() } }
pub open spec fn frames(bs: Seq<Seq<u8>>) -> Seq<u8> decreases bs.len() { if bs.len() == 0 { seq![] } else { frame(bs[0]) + frames(bs.drop_first()) } }
pub open spec fn good(bs: Seq<Seq<u8>>, max: nat) -> bool { forall|i: int| 0 <= i < bs.len() ==> 0 < (#[trigger] bs[i]).len() <= max }

// 1. decoding is stable under appending more bytes
pub proof fn lemma_dec_extend(buf: Seq<u8>, x: Seq<u8>, max: nat)
    ensures
        dec(buf, max).0 is Bad ==> dec(buf + x, max).0 is Bad,
        dec(buf, max).0 matches D::Msg(m) ==> dec(buf + x, max) == (D::Msg(m), dec(buf, max).1 + x),
{
    if buf.len() >= 8 {
        assert((buf + x).subrange(0, 8) =~= buf.subrange(0, 8));
        let req = be64(buf.subrange(0, 8));
        if !(req == 0 || req > max) && buf.len() - 8 >= req {
            assert((buf + x).subrange(8, 8 + req as int) =~= buf.subrange(8, 8 + req as int));
            assert((buf + x).subrange(8 + req as int, (buf + x).len() as int) =~= buf.subrange(8 + req as int, buf.len() as int) + x);
        }
    }
}

// 2. draining is compositional: what is left after draining buf, extended by x, drains to the rest of the answer
pub proof fn lemma_drain_extend(buf: Seq<u8>, x: Seq<u8>, max: nat)
    ensures ({
        let (ms, r, p) = drain(buf, max);
        let (ms2, r2, p2) = drain(r + x, max);
        let (ma, ra, pa) = drain(buf + x, max);
        if p { pa && ma == ms } else { ma == ms + ms2 && ra == r2 && pa == p2 }
    })
    decreases buf.len()
{
    let (d, rest) = dec(buf, max);
    lemma_dec_extend(buf, x, max);
    match d {
        D::More => { assert(drain(buf, max) == (Seq::<Seq<u8>>::empty(), buf, false)); assert(seq![] + drain(buf + x, max).0 =~= drain(buf + x, max).0); }
        D::Bad => {}
        D::Msg(m) => {
            if rest.len() < buf.len() {
                lemma_drain_extend(rest, x, max);
                assert(dec(buf + x, max) == (D::Msg(m), rest + x));
                assert((rest + x).len() < (buf + x).len());
                let (ms1, r1, p1) = drain(rest, max);
                let (ms2, r2, p2) = drain(r1 + x, max);
                assert(seq![m] + (ms1 + ms2) =~= (seq![m] + ms1) + ms2);
            } else {
                assert((rest + x).len() >= (buf + x).len());
            }
        }
    }
}
// 3. chunk-by-chunk feeding yields the same messages as decoding the whole stream at once
pub proof fn lemma_feed_is_drain(chunks: Seq<Seq<u8>>, max: nat)
    ensures ({
        let (ms, r, p) = feed(chunks, max);
        let (ma, ra, pa) = drain(flat(chunks), max);
        ms == ma && p == pa && (!p ==> r == ra)
    })
    decreases chunks.len()
{
    if chunks.len() == 0 {
        assert(flat(chunks) =~= Seq::<u8>::empty());
        assert(drain(Seq::<u8>::empty(), max) == (Seq::<Seq<u8>>::empty(), Seq::<u8>::empty(), false));
    } else {
        let pre = chunks.drop_last(); let x = chunks.last();
        lemma_feed_is_drain(pre, max);
        lemma_drain_extend(flat(pre), x, max);
        let (ms, r, p) = feed(pre, max);
    }
}
// 4. a stream of well-formed frames drains to exactly its bodies
pub proof fn lemma_frames_drain(bs: Seq<Seq<u8>>, max: nat)
    requires good(bs, max), max < 0x1_0000_0000_0000_0000
    ensures drain(frames(bs), max) == (bs, Seq::<u8>::empty(), false)
    decreases bs.len()
{
    broadcast use ax_be64;
    if bs.len() == 0 {
        assert(drain(frames(bs), max).0 =~= bs);
    } else {
        let b = bs[0]; let tail = bs.drop_first();
        assert(good(tail, max)) by { assert forall|i: int| 0 <= i < tail.len() implies 0 < (#[trigger] tail[i]).len() <= max by { assert(tail[i] == bs[i + 1]); } }
        lemma_frames_drain(tail, max);
        let buf = frames(bs);
        assert(buf == (enc64(b.len()) + b) + frames(tail));
        assert(buf.subrange(0, 8) =~= enc64(b.len()));
        assert(buf.subrange(8, 8 + b.len() as int) =~= b);
        assert(buf.subrange(8 + b.len() as int, buf.len() as int) =~= frames(tail));
        assert(dec(buf, max) == (D::Msg(b), frames(tail)));
        assert(seq![b] + tail =~= bs);
    }
}
// C14: however the byte stream of well-formed frames is split into read chunks, the decoder yields exactly the
// original message bodies, in order, and never errors.
pub proof fn c14_fragmentation(bs: Seq<Seq<u8>>, chunks: Seq<Seq<u8>>, max: nat)
    requires good(bs, max), max < 0x1_0000_0000_0000_0000, flat(chunks) == frames(bs)
    ensures feed(chunks, max).0 == bs, !feed(chunks, max).2, feed(chunks, max).1 == Seq::<u8>::empty()
{
    lemma_feed_is_drain(chunks, max);
    lemma_frames_drain(bs, max);
}
}
fn main(){}
