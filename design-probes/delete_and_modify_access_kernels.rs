use vstd::prelude::*;
use core::cmp::Ordering;
use std::collections::BTreeSet;
use std::sync::Arc;
verus! {
#[derive(Clone, Copy, PartialEq, Eq, PartialOrd, Ord)] pub struct Uuid(pub u128);
impl vstd::std_specs::cmp::PartialEqSpecImpl for Uuid { open spec fn obeys_eq_spec() -> bool { true } open spec fn eq_spec(&self, o: &Uuid) -> bool { self.0 == o.0 } }
impl vstd::std_specs::cmp::PartialOrdSpecImpl for Uuid { open spec fn obeys_partial_cmp_spec() -> bool { true }
    open spec fn partial_cmp_spec(&self, o: &Uuid) -> Option<Ordering> { if self.0 < o.0 { Some(Ordering::Less) } else if self.0 == o.0 { Some(Ordering::Equal) } else { Some(Ordering::Greater) } } }
pub const UUID_ANONYMOUS: Uuid = Uuid(0xffff_ffff);
pub enum InternalRole { System, Migration, AccountRequest, MessageQueue }
pub struct IdentUser;
pub enum IdentType { User(IdentUser), Internal(InternalRole), Synch(Uuid) }
pub enum AccessScope { ReadOnly, ReadWrite, Synchronise }
pub struct Identity { pub origin: IdentType, pub scope: AccessScope }
impl Identity { pub fn access_scope(&self) -> (r: AccessScope) ensures r == self.scope { match self.scope { AccessScope::ReadOnly => AccessScope::ReadOnly, AccessScope::ReadWrite => AccessScope::ReadWrite, AccessScope::Synchronise => AccessScope::Synchronise } } }
pub enum Attribute { Class }
pub struct EntryV { pub uuid: Uuid, pub classes: Option<Set<Seq<char>>> }
#[verifier::external_body] pub struct EntrySealedCommitted { _p: u8 }
impl View for EntrySealedCommitted { type V = EntryV; uninterp spec fn view(&self) -> EntryV; }
pub uninterp spec fn protected_classes() -> Set<Seq<char>>;
#[verifier::external_body] pub struct ClassSet { _p: u8 }
impl View for ClassSet { type V = Set<Seq<char>>; uninterp spec fn view(&self) -> Set<Seq<char>>; }
impl ClassSet { #[verifier::external_body] pub fn is_disjoint(&self, o: &ClassSet) -> (r: bool) ensures r == self@.disjoint(o@) { unimplemented!() } }
#[verifier::external_body] pub struct ProtectedStatic { _p: u8 }
pub uninterp spec fn pec() -> ClassSet;
impl EntrySealedCommitted {
    #[verifier::external_body] pub fn get_uuid(&self) -> (r: Uuid) ensures r == self@.uuid { unimplemented!() }
    #[verifier::external_body] pub fn get_ava_as_iutf8(&self, a: Attribute) -> (r: Option<&ClassSet>) ensures r is Some == self@.classes is Some, r is Some ==> r->Some_0@ == self@.classes->Some_0 { unimplemented!() }
}
pub open spec fn must_deny_delete(ident: Identity, e: EntryV) -> bool {
    ident.origin is Synch
    || (ident.origin matches IdentType::Internal(r) && (r is AccountRequest || r is MessageQueue))
    || ((ident.origin is User || (ident.origin matches IdentType::Internal(r) && r is Migration))
        && (e.uuid.0 <= UUID_ANONYMOUS.0 || (e.classes matches Some(c) && !c.disjoint(protected_classes()))))
}
pub struct AccessControlDeleteResolved;
pub enum IResult { Deny, Grant, Ignore }
pub enum DeleteResult { Deny, Grant }
pub enum AccessBasicResult { Deny, Grant, Ignore }
#[verifier::external_body]
fn delete_filter_entry<'a>(ident: &Identity, related_acp: &'a [AccessControlDeleteResolved], entry: &'a Arc<EntrySealedCommitted>) -> IResult { unimplemented!() }
#[verifier::external_body] pub fn protected_entry_classes() -> (r: &'static ClassSet) ensures r@ == protected_classes() { unimplemented!() }
pub fn apply_delete_access<'a>(
    ident: &Identity,
    related_acp: &'a [AccessControlDeleteResolved],
    entry: &'a Arc<EntrySealedCommitted>,
) -> (r: DeleteResult)
    ensures must_deny_delete(*ident, entry@) ==> r is Deny,
{
    let mut denied = false;
    let mut grant = false;

    match protected_filter_entry(ident, entry) {
        IResult::Deny => denied = true,
        IResult::Grant | IResult::Ignore => {}
    }

    match delete_filter_entry(ident, related_acp, entry) {
        IResult::Deny => denied = true,
        IResult::Grant => grant = true,
        IResult::Ignore => {}
    }

    if denied {
        // Something explicitly said no.
        DeleteResult::Deny
    } else if grant {
        // Something said yes
        DeleteResult::Grant
    } else {
        // Nothing said yes.
        DeleteResult::Deny
    }
}

fn protected_filter_entry(ident: &Identity, entry: &Arc<EntrySealedCommitted>) -> (r: IResult)
    ensures must_deny_delete(*ident, entry@) ==> r is Deny, !(r is Grant),
{
    match &ident.origin {
        IdentType::Internal(InternalRole::System) => {

            IResult::Ignore
        }
        IdentType::Synch(_) => {

            IResult::Deny
        }
        IdentType::Internal(InternalRole::AccountRequest)
        | IdentType::Internal(InternalRole::MessageQueue) => {

            IResult::Deny
        }
        IdentType::Internal(InternalRole::Migration) | IdentType::User(_) => {
            // Prevent deletion of entries that exist in the system controlled entry range.
            if entry.get_uuid() <= UUID_ANONYMOUS {

                return IResult::Deny;
            }

            // Prevent deleting some protected types.
            if let Some(classes) = entry.get_ava_as_iutf8(Attribute::Class) {
                if classes.is_disjoint(protected_entry_classes()) {
                    // It's different, go ahead
                    IResult::Ignore
                } else {
                    // Block the mod, something is present

                    IResult::Deny
                }
            } else {
                // Nothing to check - this entry will fail to create anyway because it has
                // no classes
                IResult::Ignore
            }
        }
    }
}

fn modify_ident_test(ident: &Identity) -> (r: AccessBasicResult)
    ensures
        ident.origin is Synch ==> r is Deny,
        (ident.origin is User && !(ident.scope is ReadWrite)) ==> r is Deny,
        r is Grant ==> (ident.origin matches IdentType::Internal(role) && (role is System || role is Migration)),
{
    match &ident.origin {
        IdentType::Internal(InternalRole::System) => {

            // No need to check ACS
            return AccessBasicResult::Grant;
        }
        IdentType::Internal(InternalRole::Migration) => {
            return AccessBasicResult::Grant;
        }
        IdentType::Internal(InternalRole::MessageQueue)
        | IdentType::Internal(InternalRole::AccountRequest) => {
            return AccessBasicResult::Deny;
        }
        IdentType::Synch(_) => {

            return AccessBasicResult::Deny;
        }
        IdentType::User(_) => {}
    };


    match ident.access_scope() {
        AccessScope::ReadOnly | AccessScope::Synchronise => {

            return AccessBasicResult::Deny;
        }
        AccessScope::ReadWrite => {
            // As you were
        }
    };

    AccessBasicResult::Ignore
}}
fn main(){}
