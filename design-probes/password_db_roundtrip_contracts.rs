#![allow(non_camel_case_types)]
use vstd::prelude::*;
verus! {
pub struct Base64UrlSafeData(pub Vec<u8>);
impl vstd::std_specs::convert::FromSpecImpl<Vec<u8>> for Base64UrlSafeData {
    open spec fn obeys_from_spec() -> bool { true }
    open spec fn from_spec(v: Vec<u8>) -> Base64UrlSafeData { Base64UrlSafeData(v) }
}
impl From<Vec<u8>> for Base64UrlSafeData { fn from(v: Vec<u8>) -> (r: Base64UrlSafeData) { Base64UrlSafeData(v) } }
impl vstd::std_specs::convert::FromSpecImpl<Base64UrlSafeData> for Vec<u8> {
    open spec fn obeys_from_spec() -> bool { true }
    open spec fn from_spec(v: Base64UrlSafeData) -> Vec<u8> { v.0 }
}
impl From<Base64UrlSafeData> for Vec<u8> { fn from(v: Base64UrlSafeData) -> (r: Vec<u8>) { v.0 } }
pub enum DbPasswordV1 {
    TPM_ARGON2ID {
        m: u32,
        t: u32,
        p: u32,
        v: u32,
        s: Base64UrlSafeData,
        k: Base64UrlSafeData,
    },
    ARGON2ID {
        m: u32,
        t: u32,
        p: u32,
        v: u32,
        s: Base64UrlSafeData,
        k: Base64UrlSafeData,
    },
    PBKDF2(u32, Vec<u8>, Vec<u8>),
    PBKDF2_SHA1(u32, Vec<u8>, Vec<u8>),
    PBKDF2_SHA512(u32, Vec<u8>, Vec<u8>),
    SHA1(Vec<u8>),
    SSHA1(Vec<u8>, Vec<u8>),
    SHA256(Vec<u8>),
    SSHA256(Vec<u8>, Vec<u8>),
    SHA512(Vec<u8>),
    SSHA512(Vec<u8>, Vec<u8>),
    NT_MD4(Vec<u8>),
    CRYPT_MD5 {
        s: Base64UrlSafeData,
        h: Base64UrlSafeData,
    },
    CRYPT_SHA256 {
        h: String,
    },
    CRYPT_SHA512 {
        h: String,
    },
}
pub enum Kdf {
    TPM_ARGON2ID {
        m_cost: u32,
        t_cost: u32,
        p_cost: u32,
        version: u32,
        salt: Vec<u8>,
        key: Vec<u8>,
    },
    //
    ARGON2ID {
        m_cost: u32,
        t_cost: u32,
        p_cost: u32,
        version: u32,
        salt: Vec<u8>,
        key: Vec<u8>,
    },
    //     cost, salt,   hash
    PBKDF2(u32, Vec<u8>, Vec<u8>),

    // Imported types, will upgrade to the above.
    //         cost,   salt,    hash
    PBKDF2_SHA1(u32, Vec<u8>, Vec<u8>),
    //           cost,   salt,    hash
    PBKDF2_SHA512(u32, Vec<u8>, Vec<u8>),
    //      salt     hash
    SHA1(Vec<u8>),
    SSHA1(Vec<u8>, Vec<u8>),
    SHA256(Vec<u8>),
    SSHA256(Vec<u8>, Vec<u8>),
    SHA512(Vec<u8>),
    SSHA512(Vec<u8>, Vec<u8>),
    //     hash
    NT_MD4(Vec<u8>),
    CRYPT_MD5 {
        s: Vec<u8>,
        h: Vec<u8>,
    },
    CRYPT_SHA256 {
        h: String,
    },
    CRYPT_SHA512 {
        h: String,
    },
}
pub struct Password { pub material: Kdf }
impl TryFrom<DbPasswordV1> for Password {
    type Error = ();

    fn try_from(value: DbPasswordV1) -> (r: Result<Self, Self::Error>)
        ensures r matches Ok(p) && kdf_view(p.material) == db_view(value),
    {
        match value {
            DbPasswordV1::TPM_ARGON2ID { m, t, p, v, s, k } => Ok(Password {
                material: Kdf::TPM_ARGON2ID {
                    m_cost: m,
                    t_cost: t,
                    p_cost: p,
                    version: v,
                    salt: s.into(),
                    key: k.into(),
                },
            }),
            DbPasswordV1::ARGON2ID { m, t, p, v, s, k } => Ok(Password {
                material: Kdf::ARGON2ID {
                    m_cost: m,
                    t_cost: t,
                    p_cost: p,
                    version: v,
                    salt: s.into(),
                    key: k.into(),
                },
            }),
            DbPasswordV1::PBKDF2(c, s, h) => Ok(Password {
                material: Kdf::PBKDF2(c, s, h),
            }),
            DbPasswordV1::PBKDF2_SHA1(c, s, h) => Ok(Password {
                material: Kdf::PBKDF2_SHA1(c, s, h),
            }),
            DbPasswordV1::PBKDF2_SHA512(c, s, h) => Ok(Password {
                material: Kdf::PBKDF2_SHA512(c, s, h),
            }),
            DbPasswordV1::SHA1(h) => Ok(Password {
                material: Kdf::SHA1(h),
            }),
            DbPasswordV1::SSHA1(s, h) => Ok(Password {
                material: Kdf::SSHA1(s, h),
            }),
            DbPasswordV1::SHA256(h) => Ok(Password {
                material: Kdf::SHA256(h),
            }),
            DbPasswordV1::SSHA256(s, h) => Ok(Password {
                material: Kdf::SSHA256(s, h),
            }),
            DbPasswordV1::SHA512(h) => Ok(Password {
                material: Kdf::SHA512(h),
            }),
            DbPasswordV1::SSHA512(s, h) => Ok(Password {
                material: Kdf::SSHA512(s, h),
            }),
            DbPasswordV1::NT_MD4(h) => Ok(Password {
                material: Kdf::NT_MD4(h),
            }),
            DbPasswordV1::CRYPT_MD5 { s, h } => Ok(Password {
                material: Kdf::CRYPT_MD5 {
                    s: s.into(),
                    h: h.into(),
                },
            }),
            DbPasswordV1::CRYPT_SHA256 { h } => Ok(Password {
                material: Kdf::CRYPT_SHA256 { h },
            }),
            DbPasswordV1::CRYPT_SHA512 { h } => Ok(Password {
                material: Kdf::CRYPT_SHA256 { h },
            }),
        }
    }
}
impl Password {
    pub fn to_dbpasswordv1(&self) -> (r: DbPasswordV1)
        ensures db_view(r) == kdf_view(self.material),
    {
        match &self.material {
            Kdf::TPM_ARGON2ID {
                m_cost,
                t_cost,
                p_cost,
                version,
                salt,
                key,
            } => DbPasswordV1::TPM_ARGON2ID {
                m: *m_cost,
                t: *t_cost,
                p: *p_cost,
                v: *version,
                s: salt.clone().into(),
                k: key.clone().into(),
            },
            Kdf::ARGON2ID {
                m_cost,
                t_cost,
                p_cost,
                version,
                salt,
                key,
            } => DbPasswordV1::ARGON2ID {
                m: *m_cost,
                t: *t_cost,
                p: *p_cost,
                v: *version,
                s: salt.clone().into(),
                k: key.clone().into(),
            },
            Kdf::PBKDF2(cost, salt, hash) => {
                DbPasswordV1::PBKDF2(*cost, salt.clone(), hash.clone())
            }
            Kdf::PBKDF2_SHA1(cost, salt, hash) => {
                DbPasswordV1::PBKDF2_SHA1(*cost, salt.clone(), hash.clone())
            }
            Kdf::PBKDF2_SHA512(cost, salt, hash) => {
                DbPasswordV1::PBKDF2_SHA512(*cost, salt.clone(), hash.clone())
            }
            Kdf::SHA1(hash) => DbPasswordV1::SHA1(hash.clone()),
            Kdf::SSHA1(salt, hash) => DbPasswordV1::SSHA1(salt.clone(), hash.clone()),
            Kdf::SHA256(hash) => DbPasswordV1::SHA256(hash.clone()),
            Kdf::SSHA256(salt, hash) => DbPasswordV1::SSHA256(salt.clone(), hash.clone()),
            Kdf::SHA512(hash) => DbPasswordV1::SHA512(hash.clone()),
            Kdf::SSHA512(salt, hash) => DbPasswordV1::SSHA512(salt.clone(), hash.clone()),
            Kdf::NT_MD4(hash) => DbPasswordV1::NT_MD4(hash.clone()),
            Kdf::CRYPT_MD5 { s, h } => DbPasswordV1::CRYPT_MD5 {
                s: s.clone().into(),
                h: h.clone().into(),
            },
            Kdf::CRYPT_SHA256 { h } => DbPasswordV1::CRYPT_SHA256 { h: h.clone() },
            Kdf::CRYPT_SHA512 { h } => DbPasswordV1::CRYPT_SHA512 { h: h.clone() },
        }
    }
}

pub struct PV { pub tag: int, pub nums: Seq<u32>, pub bytes: Seq<Seq<u8>>, pub strs: Seq<Seq<char>> }
pub open spec fn kdf_view(k: Kdf) -> PV {
    match k {
        Kdf::TPM_ARGON2ID { m_cost, t_cost, p_cost, version, salt, key } => PV { tag: 0, nums: seq![m_cost, t_cost, p_cost, version], bytes: seq![salt@, key@], strs: seq![] },
        Kdf::ARGON2ID { m_cost, t_cost, p_cost, version, salt, key } => PV { tag: 1, nums: seq![m_cost, t_cost, p_cost, version], bytes: seq![salt@, key@], strs: seq![] },
        Kdf::PBKDF2(c, s, h) => PV { tag: 2, nums: seq![c], bytes: seq![s@, h@], strs: seq![] },
        Kdf::PBKDF2_SHA1(c, s, h) => PV { tag: 3, nums: seq![c], bytes: seq![s@, h@], strs: seq![] },
        Kdf::PBKDF2_SHA512(c, s, h) => PV { tag: 4, nums: seq![c], bytes: seq![s@, h@], strs: seq![] },
        Kdf::SHA1(h) => PV { tag: 5, nums: seq![], bytes: seq![h@], strs: seq![] },
        Kdf::SSHA1(s, h) => PV { tag: 6, nums: seq![], bytes: seq![s@, h@], strs: seq![] },
        Kdf::SHA256(h) => PV { tag: 7, nums: seq![], bytes: seq![h@], strs: seq![] },
        Kdf::SSHA256(s, h) => PV { tag: 8, nums: seq![], bytes: seq![s@, h@], strs: seq![] },
        Kdf::SHA512(h) => PV { tag: 9, nums: seq![], bytes: seq![h@], strs: seq![] },
        Kdf::SSHA512(s, h) => PV { tag: 10, nums: seq![], bytes: seq![s@, h@], strs: seq![] },
        Kdf::NT_MD4(h) => PV { tag: 11, nums: seq![], bytes: seq![h@], strs: seq![] },
        Kdf::CRYPT_MD5 { s, h } => PV { tag: 12, nums: seq![], bytes: seq![s@, h@], strs: seq![] },
        Kdf::CRYPT_SHA256 { h } => PV { tag: 13, nums: seq![], bytes: seq![], strs: seq![h@] },
        Kdf::CRYPT_SHA512 { h } => PV { tag: 14, nums: seq![], bytes: seq![], strs: seq![h@] },
    }
}
pub open spec fn db_view(d: DbPasswordV1) -> PV {
    match d {
        DbPasswordV1::TPM_ARGON2ID { m, t, p, v, s, k } => PV { tag: 0, nums: seq![m, t, p, v], bytes: seq![s.0@, k.0@], strs: seq![] },
        DbPasswordV1::ARGON2ID { m, t, p, v, s, k } => PV { tag: 1, nums: seq![m, t, p, v], bytes: seq![s.0@, k.0@], strs: seq![] },
        DbPasswordV1::PBKDF2(c, s, h) => PV { tag: 2, nums: seq![c], bytes: seq![s@, h@], strs: seq![] },
        DbPasswordV1::PBKDF2_SHA1(c, s, h) => PV { tag: 3, nums: seq![c], bytes: seq![s@, h@], strs: seq![] },
        DbPasswordV1::PBKDF2_SHA512(c, s, h) => PV { tag: 4, nums: seq![c], bytes: seq![s@, h@], strs: seq![] },
        DbPasswordV1::SHA1(h) => PV { tag: 5, nums: seq![], bytes: seq![h@], strs: seq![] },
        DbPasswordV1::SSHA1(s, h) => PV { tag: 6, nums: seq![], bytes: seq![s@, h@], strs: seq![] },
        DbPasswordV1::SHA256(h) => PV { tag: 7, nums: seq![], bytes: seq![h@], strs: seq![] },
        DbPasswordV1::SSHA256(s, h) => PV { tag: 8, nums: seq![], bytes: seq![s@, h@], strs: seq![] },
        DbPasswordV1::SHA512(h) => PV { tag: 9, nums: seq![], bytes: seq![h@], strs: seq![] },
        DbPasswordV1::SSHA512(s, h) => PV { tag: 10, nums: seq![], bytes: seq![s@, h@], strs: seq![] },
        DbPasswordV1::NT_MD4(h) => PV { tag: 11, nums: seq![], bytes: seq![h@], strs: seq![] },
        DbPasswordV1::CRYPT_MD5 { s, h } => PV { tag: 12, nums: seq![], bytes: seq![s.0@, h.0@], strs: seq![] },
        DbPasswordV1::CRYPT_SHA256 { h } => PV { tag: 13, nums: seq![], bytes: seq![], strs: seq![h@] },
        DbPasswordV1::CRYPT_SHA512 { h } => PV { tag: 14, nums: seq![], bytes: seq![], strs: seq![h@] },
    }
}
impl vstd::std_specs::convert::TryFromSpecImpl<DbPasswordV1> for Password {
    open spec fn obeys_try_from_spec() -> bool { false }
    open spec fn try_from_spec(v: DbPasswordV1) -> Result<Password, ()> { arbitrary() }
}
}
fn main(){}
