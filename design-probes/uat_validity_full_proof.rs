use vstd::prelude::*;
use core::cmp::Ordering;
use std::collections::BTreeMap;
verus! {
// ---- shims (assumed contracts on dependencies) ----
#[derive(Clone, Copy, PartialEq, Eq, PartialOrd, Ord)]
pub struct Duration { pub secs: u64, pub nanos: u32 }
impl Duration { pub open spec fn ns(self) -> int { self.secs as int * 1_000_000_000 + self.nanos as int } }

#[derive(Clone, Copy, PartialEq, Eq, PartialOrd, Ord)]
pub struct OffsetDateTime { pub unix_ns: i128 }
impl OffsetDateTime {
    pub const UNIX_EPOCH: OffsetDateTime = OffsetDateTime { unix_ns: 0 };
}
impl vstd::std_specs::cmp::PartialEqSpecImpl for OffsetDateTime {
    open spec fn obeys_eq_spec() -> bool { true }
    open spec fn eq_spec(&self, other: &OffsetDateTime) -> bool { self.unix_ns == other.unix_ns }
}
impl vstd::std_specs::cmp::PartialOrdSpecImpl for OffsetDateTime {
    open spec fn obeys_partial_cmp_spec() -> bool { true }
    open spec fn partial_cmp_spec(&self, other: &OffsetDateTime) -> Option<Ordering> {
        if self.unix_ns < other.unix_ns { Some(Ordering::Less) }
        else if self.unix_ns == other.unix_ns { Some(Ordering::Equal) } else { Some(Ordering::Greater) }
    }
}
impl vstd::std_specs::ops::AddSpecImpl<Duration> for OffsetDateTime {
    open spec fn obeys_add_spec() -> bool { true }
    open spec fn add_req(self, rhs: Duration) -> bool { self.unix_ns + rhs.ns() < 0x7000_0000_0000_0000_0000_0000_0000_0000 }
    open spec fn add_spec(self, rhs: Duration) -> OffsetDateTime { OffsetDateTime { unix_ns: (self.unix_ns + rhs.ns()) as i128 } }
}
impl core::ops::Add<Duration> for OffsetDateTime {
    type Output = OffsetDateTime;
    #[verifier::external_body]
    fn add(self, rhs: Duration) -> (r: OffsetDateTime) { unimplemented!() }
}
pub mod time { pub use super::OffsetDateTime; }

#[derive(Clone, Copy, PartialEq, Eq, PartialOrd, Ord)]
pub struct Uuid(pub u128);
impl vstd::std_specs::cmp::PartialEqSpecImpl for Uuid {
    open spec fn obeys_eq_spec() -> bool { true }
    open spec fn eq_spec(&self, other: &Uuid) -> bool { self.0 == other.0 }
}
impl vstd::std_specs::cmp::PartialOrdSpecImpl for Uuid {
    open spec fn obeys_partial_cmp_spec() -> bool { true }
    open spec fn partial_cmp_spec(&self, other: &Uuid) -> Option<Ordering> {
        if self.0 < other.0 { Some(Ordering::Less) } else if self.0 == other.0 { Some(Ordering::Equal) } else { Some(Ordering::Greater) } }
}
impl vstd::std_specs::cmp::OrdSpecImpl for Uuid {
    open spec fn obeys_cmp_spec() -> bool { true }
    open spec fn cmp_spec(&self, other: &Uuid) -> Ordering {
        if self.0 < other.0 { Ordering::Less } else if self.0 == other.0 { Ordering::Equal } else { Ordering::Greater } }
}
pub open spec fn within_valid(ct: Duration, from: Option<OffsetDateTime>, to: Option<OffsetDateTime>) -> bool {
    (from matches Some(f) ==> f.unix_ns <= ct.ns()) && (to matches Some(t) ==> ct.ns() <= t.unix_ns)
}
pub open spec fn uat_ok(ct: Duration, uat: UserAuthToken, sessions: Option<Map<Uuid, Session>>) -> bool {
    uat.uuid == UUID_ANONYMOUS || (
        if sessions is Some && sessions->Some_0.contains_key(uat.session_id) {
            match (sessions->Some_0[uat.session_id].state, uat.expiry) {
                (SessionState::ExpiresAt(s), Some(u)) => s == u,
                (SessionState::NeverExpires, None) => true,
                _ => false,
            }
        } else { ct.ns() < uat.issued_at.unix_ns + 5_000_000_000 })
}
pub const UUID_ANONYMOUS: Uuid = Uuid(0xffff_ffff);
pub const AUTH_TOKEN_GRACE_WINDOW: Duration = Duration { secs: 5, nanos: 0 };

pub struct Cid { pub ts: Duration, pub s_uuid: Uuid }
pub enum SessionState { RevokedAt(Cid), ExpiresAt(OffsetDateTime), NeverExpires }
pub struct Session { pub state: SessionState }
pub struct UserAuthToken { pub session_id: Uuid, pub uuid: Uuid, pub expiry: Option<OffsetDateTime>, pub issued_at: OffsetDateTime }
pub enum Attribute { AccountValidFrom, AccountExpire, UserAuthTokenSession }
pub struct EntrySealed; pub struct EntryCommitted;
#[verifier::external_body]
#[verifier::reject_recursive_types(V)]
#[verifier::reject_recursive_types(S)]
pub struct Entry<V, S> { v: core::marker::PhantomData<(V,S)> }
impl<V,S> Entry<V,S> {
    pub uninterp spec fn datetime(&self, a: Attribute) -> Option<OffsetDateTime>;
    pub uninterp spec fn sessions(&self, a: Attribute) -> Option<Map<Uuid, Session>>;
    #[verifier::external_body]
    pub fn get_ava_single_datetime(&self, a: Attribute) -> (r: Option<OffsetDateTime>) ensures r == self.datetime(a) { unimplemented!() }
    #[verifier::external_body]
    pub fn get_ava_as_session_map(&self, a: Attribute) -> (r: Option<&BTreeMap<Uuid, Session>>)
        ensures r is Some == self.sessions(a) is Some, r is Some ==> r->Some_0@ == self.sessions(a)->Some_0 { unimplemented!() }
}
pub struct Account {}
impl Account {
    pub fn check_within_valid_time(
        ct: Duration,
        valid_from: Option<&OffsetDateTime>,
        expire: Option<&OffsetDateTime>,
    ) -> (r: bool)
        requires ct.ns() < 0x1000_0000_0000_0000_0000_0000,
        ensures r == within_valid(ct, match valid_from { Some(x) => Some(*x), None => None }, match expire { Some(x) => Some(*x), None => None }),
    {
        let cot = OffsetDateTime::UNIX_EPOCH + ct;


        let vmin = if let Some(vft) = valid_from {
            // If current time greater than start time window
            vft <= &cot
        } else {
            // We have no time, not expired.
            true
        };
        let vmax = if let Some(ext) = expire {
            // If exp greater than ct then expired.
            &cot <= ext
        } else {
            // If not present, we are not expired
            true
        };
        // Mix the results
        vmin && vmax
    }

    pub(crate) fn check_user_auth_token_valid(
        ct: Duration,
        uat: &UserAuthToken,
        entry: &Entry<EntrySealed, EntryCommitted>,
    ) -> (r: bool)
        requires ct.ns() < 0x1000_0000_0000_0000_0000_0000, -0x1000_0000_0000_0000_0000_0000 < uat.issued_at.unix_ns < 0x1000_0000_0000_0000_0000_0000,
            vstd::std_specs::btree::key_obeys_cmp_spec::<Uuid>(),
        ensures r == (within_valid(ct, entry.datetime(Attribute::AccountValidFrom), entry.datetime(Attribute::AccountExpire))
                      && uat_ok(ct, *uat, entry.sessions(Attribute::UserAuthTokenSession))),
    {
        // Remember, token expiry is checked by validate_and_parse_token_to_token.
        // If we wanted we could check other properties of the uat here?
        // Alternatively, we could always store LESS in the uat because of this?

        let within_valid_window = Account::check_within_valid_time(
            ct,
            entry
                .get_ava_single_datetime(Attribute::AccountValidFrom)
                .as_ref(),
            entry
                .get_ava_single_datetime(Attribute::AccountExpire)
                .as_ref(),
        );

        if !within_valid_window {

            return false;
        }

        // Anonymous does NOT record it's sessions, so we simply check the expiry time
        // of the token. This is already done for us as noted above.


        if uat.uuid == UUID_ANONYMOUS {

            true
        } else {
            // Get the sessions.
            let session_present = entry
                .get_ava_as_session_map(Attribute::UserAuthTokenSession)
                .and_then(|session_map: &BTreeMap<Uuid, Session>| -> (o: Option<&Session>) ensures o is Some == session_map@.contains_key(uat.session_id), o is Some ==> *o->Some_0 == session_map@[uat.session_id] { session_map.get(&uat.session_id) });

            // Important - we don't have to check the expiry time against ct here since it was
            // already checked in token_to_token. Here we just need to check it's consistent
            // to our internal session knowledge.
            if let Some(session) = session_present {
                match (&session.state, &uat.expiry) {
                    (SessionState::ExpiresAt(s_exp), Some(u_exp)) if s_exp == u_exp => {

                        true
                    }
                    (SessionState::NeverExpires, None) => {

                        true
                    }
                    (SessionState::RevokedAt(_), _) => {
                        // William, if you have added a new type of credential, and end up here, you
                        // need to look at session consistency plugin.

                        false
                    }
                    _ => {


                        false
                    }
                }
            } else {
                let grace = uat.issued_at + AUTH_TOKEN_GRACE_WINDOW;
                let current = time::OffsetDateTime::UNIX_EPOCH + ct;

                if current >= grace {

                    false
                } else {

                    true
                }
            }
        }
    }}
}
fn main(){}
