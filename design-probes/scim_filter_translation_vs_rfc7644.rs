use vstd::prelude::*;
verus! {
#[derive(Clone, Copy, PartialEq, Eq)]
pub struct Attribute(pub u64);
#[derive(Clone, Copy, PartialEq, Eq)]
pub struct PartialValue(pub u64);
pub struct JsonValue { pub j: u64 }
pub struct ScimAttrPath { pub a: Attribute, pub s: Option<u64> }
pub struct ScimComplexFilter;
pub enum ScimFilter {
    Or(Box<ScimFilter>, Box<ScimFilter>), And(Box<ScimFilter>, Box<ScimFilter>), Not(Box<ScimFilter>),
    Present(ScimAttrPath), Equal(ScimAttrPath, JsonValue), NotEqual(ScimAttrPath, JsonValue), Contains(ScimAttrPath, JsonValue),
    StartsWith(ScimAttrPath, JsonValue), EndsWith(ScimAttrPath, JsonValue), Greater(ScimAttrPath, JsonValue), Less(ScimAttrPath, JsonValue),
    GreaterOrEqual(ScimAttrPath, JsonValue), LessOrEqual(ScimAttrPath, JsonValue), Complex(Attribute, Box<ScimComplexFilter>),
}
pub enum FilterComp {
    Or(Vec<FilterComp>), And(Vec<FilterComp>), Inclusion(Vec<FilterComp>), AndNot(Box<FilterComp>),
    Eq(Attribute, PartialValue), Cnt(Attribute, PartialValue), Stw(Attribute, PartialValue), Enw(Attribute, PartialValue),
    Pres(Attribute), LessThan(Attribute, PartialValue), SelfUuid, Invalid(Attribute),
}

#[verifier::external_body]
pub struct EntryView { _p: u8 }
pub uninterp spec fn vals(a: Attribute, e: EntryView) -> Set<int>;
pub uninterp spec fn ord(v: PartialValue) -> int;
pub uninterp spec fn jval(a: Attribute, j: JsonValue) -> int;
pub uninterp spec fn str_cnt(a: Attribute, x: int, e: EntryView) -> bool;
pub uninterp spec fn str_stw(a: Attribute, x: int, e: EntryView) -> bool;
pub uninterp spec fn str_enw(a: Attribute, x: int, e: EntryView) -> bool;
pub open spec fn has_any(s: Set<int>) -> bool { exists|x: int| #[trigger] s.contains(x) }
pub open spec fn any_lt(s: Set<int>, v: int) -> bool { exists|x: int| #[trigger] s.contains(x) && x < v }
pub open spec fn any_gt(s: Set<int>, v: int) -> bool { exists|x: int| #[trigger] s.contains(x) && x > v }
pub open spec fn single(s: Set<int>) -> bool { forall|x: int, y: int| #[trigger] s.contains(x) && #[trigger] s.contains(y) ==> x == y }
pub open spec fn fc_sem(f: FilterComp, e: EntryView) -> bool decreases f {
    match f {
        FilterComp::Or(l) => exists|i: int| 0 <= i < l@.len() && fc_sem(#[trigger] l@[i], e),
        FilterComp::And(l) => forall|i: int| 0 <= i < l@.len() ==> fc_sem(#[trigger] l@[i], e),
        FilterComp::AndNot(b) => !fc_sem(*b, e),
        FilterComp::Eq(a, v) => vals(a, e).contains(ord(v)),
        FilterComp::Cnt(a, v) => str_cnt(a, ord(v), e),
        FilterComp::Stw(a, v) => str_stw(a, ord(v), e),
        FilterComp::Enw(a, v) => str_enw(a, ord(v), e),
        FilterComp::Pres(a) => has_any(vals(a, e)),
        FilterComp::LessThan(a, v) => any_lt(vals(a, e), ord(v)),
        _ => false,
    }
}
// RFC 7644 §3.4.2.2 meaning; a multi-valued attribute matches when ANY value satisfies the comparison
pub open spec fn scim_sem(f: ScimFilter, e: EntryView) -> bool decreases f {
    match f {
        ScimFilter::Or(l, r) => scim_sem(*l, e) || scim_sem(*r, e),
        ScimFilter::And(l, r) => scim_sem(*l, e) && scim_sem(*r, e),
        ScimFilter::Not(x) => !scim_sem(*x, e),
        ScimFilter::Present(p) => has_any(vals(p.a, e)),
        ScimFilter::Equal(p, j) => vals(p.a, e).contains(jval(p.a, j)),
        ScimFilter::Contains(p, j) => str_cnt(p.a, jval(p.a, j), e),
        ScimFilter::StartsWith(p, j) => str_stw(p.a, jval(p.a, j), e),
        ScimFilter::EndsWith(p, j) => str_enw(p.a, jval(p.a, j), e),
        ScimFilter::Greater(p, j) => any_gt(vals(p.a, e), jval(p.a, j)),
        ScimFilter::Less(p, j) => any_lt(vals(p.a, e), jval(p.a, j)),
        ScimFilter::GreaterOrEqual(p, j) => any_gt(vals(p.a, e), jval(p.a, j)) || vals(p.a, e).contains(jval(p.a, j)),
        ScimFilter::LessOrEqual(p, j) => any_lt(vals(p.a, e), jval(p.a, j)) || vals(p.a, e).contains(jval(p.a, j)),
        _ => false,
    }
}
pub enum OperationError { ResourceLimit, FilterGeneration, Other }
#[verifier::external_body]
pub struct QueryServerReadTransaction { _p: u8 }
impl QueryServerReadTransaction {
    #[verifier::external_body]
    pub fn resolve_scim_json_get(&mut self, a: &Attribute, j: &JsonValue) -> (r: Result<PartialValue, OperationError>)
        ensures r matches Ok(pv) ==> ord(pv) == jval(*a, *j)
    { unimplemented!() }
}
impl FilterComp {
    fn from_scim_ro(
        f: &ScimFilter,
        qs: &mut QueryServerReadTransaction,
        depth: usize,
        elems: &mut usize,
    ) -> (r: Result<Self, OperationError>)
        ensures
            r is Ok ==> (forall|e: EntryView| #[trigger] fc_sem(r->Ok_0, e) == scim_sem(*f, e)),
            (*f is Or && r is Ok) ==> (forall|e: EntryView| #[trigger] fc_sem(r->Ok_0, e) == scim_sem(*f, e)),
            (*f is And && r is Ok) ==> (forall|e: EntryView| #[trigger] fc_sem(r->Ok_0, e) == scim_sem(*f, e)),
            (*f is Not && r is Ok) ==> (forall|e: EntryView| #[trigger] fc_sem(r->Ok_0, e) == scim_sem(*f, e)),
            (*f is Present && r is Ok) ==> (forall|e: EntryView| #[trigger] fc_sem(r->Ok_0, e) == scim_sem(*f, e)),
            (*f is Equal && r is Ok) ==> (forall|e: EntryView| #[trigger] fc_sem(r->Ok_0, e) == scim_sem(*f, e)),
            (*f is Contains && r is Ok) ==> (forall|e: EntryView| #[trigger] fc_sem(r->Ok_0, e) == scim_sem(*f, e)),
            (*f is StartsWith && r is Ok) ==> (forall|e: EntryView| #[trigger] fc_sem(r->Ok_0, e) == scim_sem(*f, e)),
            (*f is EndsWith && r is Ok) ==> (forall|e: EntryView| #[trigger] fc_sem(r->Ok_0, e) == scim_sem(*f, e)),
            (*f is Greater && r is Ok) ==> (forall|e: EntryView| #[trigger] fc_sem(r->Ok_0, e) == scim_sem(*f, e)),
            (*f is Less && r is Ok) ==> (forall|e: EntryView| #[trigger] fc_sem(r->Ok_0, e) == scim_sem(*f, e)),
            (*f is GreaterOrEqual && r is Ok) ==> (forall|e: EntryView| #[trigger] fc_sem(r->Ok_0, e) == scim_sem(*f, e)),
            (*f is LessOrEqual && r is Ok) ==> (forall|e: EntryView| #[trigger] fc_sem(r->Ok_0, e) == scim_sem(*f, e)),
        decreases f,
    {
        proof { reveal_with_fuel(fc_sem, 5); reveal_with_fuel(scim_sem, 3); }
        let ndepth = depth.checked_sub(1).ok_or(OperationError::ResourceLimit)?;
        *elems = (*elems)
            .checked_sub(1)
            .ok_or(OperationError::ResourceLimit)?;
        Ok(match f {
            ScimFilter::Present(ScimAttrPath { a, s: None }) => FilterComp::Pres(a.clone()),
            ScimFilter::Equal(ScimAttrPath { a, s: None }, json_value) => {
                let pv = qs.resolve_scim_json_get(a, json_value)?;
                FilterComp::Eq(a.clone(), pv)
            }
            ScimFilter::Contains(ScimAttrPath { a, s: None }, json_value) => {
                let pv = qs.resolve_scim_json_get(a, json_value)?;
                FilterComp::Cnt(a.clone(), pv)
            }
            ScimFilter::StartsWith(ScimAttrPath { a, s: None }, json_value) => {
                let pv = qs.resolve_scim_json_get(a, json_value)?;
                FilterComp::Stw(a.clone(), pv)
            }
            ScimFilter::EndsWith(ScimAttrPath { a, s: None }, json_value) => {
                let pv = qs.resolve_scim_json_get(a, json_value)?;
                FilterComp::Enw(a.clone(), pv)
            }
            ScimFilter::Greater(ScimAttrPath { a, s: None }, json_value) => {
                let pv = qs.resolve_scim_json_get(a, json_value)?;
                // Greater is equivalent to "not equal or less than".
                FilterComp::And(vec![
                    FilterComp::Pres(a.clone()),
                    FilterComp::AndNot(Box::new(FilterComp::Or(vec![
                        FilterComp::LessThan(a.clone(), pv.clone()),
                        FilterComp::Eq(a.clone(), pv),
                    ]))),
                ])
            }
            ScimFilter::Less(ScimAttrPath { a, s: None }, json_value) => {
                let pv = qs.resolve_scim_json_get(a, json_value)?;
                FilterComp::LessThan(a.clone(), pv)
            }
            ScimFilter::GreaterOrEqual(ScimAttrPath { a, s: None }, json_value) => {
                let pv = qs.resolve_scim_json_get(a, json_value)?;
                // Greater or equal is equivalent to "not less than".
                FilterComp::And(vec![
                    FilterComp::Pres(a.clone()),
                    FilterComp::AndNot(Box::new(FilterComp::LessThan(a.clone(), pv.clone()))),
                ])
            }
            ScimFilter::LessOrEqual(ScimAttrPath { a, s: None }, json_value) => {
                let pv = qs.resolve_scim_json_get(a, json_value)?;
                FilterComp::Or(vec![
                    FilterComp::LessThan(a.clone(), pv.clone()),
                    FilterComp::Eq(a.clone(), pv),
                ])
            }
            ScimFilter::Not(f) => {
                let ghost f0 = *f;
                let f = Self::from_scim_ro(f, qs, ndepth, elems)?;
                assert(forall|e: EntryView| #[trigger] fc_sem(f, e) == scim_sem(*f0, e));
                let rr = FilterComp::AndNot(Box::new(f));
                assert(forall|e: EntryView| #[trigger] fc_sem(rr, e) == !fc_sem(f, e));
                rr
            }
            ScimFilter::Or(left, right) => {
                let ghost l0 = **left; let ghost r0 = **right;
                let left = Self::from_scim_ro(left, qs, ndepth, elems)?;
                assert(forall|e: EntryView| #[trigger] fc_sem(left, e) == scim_sem(l0, e));
                let right = Self::from_scim_ro(right, qs, ndepth, elems)?;
                assert(forall|e: EntryView| #[trigger] fc_sem(right, e) == scim_sem(r0, e));
                let rr = FilterComp::Or(vec![left, right]);
                assert(rr->Or_0@ =~= seq![left, right]);
                assert(forall|e: EntryView| #[trigger] fc_sem(rr, e) == (fc_sem(left, e) || fc_sem(right, e))) by {
                    assert forall|e: EntryView| #[trigger] fc_sem(rr, e) == (fc_sem(left, e) || fc_sem(right, e)) by {
                        let l = rr->Or_0@;
                        assert(l[0] == left && l[1] == right);
                    }
                }
                rr
            }
            ScimFilter::And(left, right) => {
                let ghost l0 = **left; let ghost r0 = **right;
                let left = Self::from_scim_ro(left, qs, ndepth, elems)?;
                assert(forall|e: EntryView| #[trigger] fc_sem(left, e) == scim_sem(l0, e));
                let right = Self::from_scim_ro(right, qs, ndepth, elems)?;
                assert(forall|e: EntryView| #[trigger] fc_sem(right, e) == scim_sem(r0, e));
                let rr = FilterComp::And(vec![left, right]);
                assert(rr->And_0@ =~= seq![left, right]);
                assert(forall|e: EntryView| #[trigger] fc_sem(rr, e) == (fc_sem(left, e) && fc_sem(right, e))) by {
                    assert forall|e: EntryView| #[trigger] fc_sem(rr, e) == (fc_sem(left, e) && fc_sem(right, e)) by {
                        let l = rr->And_0@;
                        assert(l[0] == left && l[1] == right);
                    }
                }
                rr
            }
            ScimFilter::NotEqual(ScimAttrPath { s: None, .. }, _) => {

                return Err(OperationError::FilterGeneration);
            }
            ScimFilter::Present(ScimAttrPath { s: Some(_), .. })
            | ScimFilter::Equal(ScimAttrPath { s: Some(_), .. }, _)
            | ScimFilter::NotEqual(ScimAttrPath { s: Some(_), .. }, _)
            | ScimFilter::Contains(ScimAttrPath { s: Some(_), .. }, _)
            | ScimFilter::StartsWith(ScimAttrPath { s: Some(_), .. }, _)
            | ScimFilter::EndsWith(ScimAttrPath { s: Some(_), .. }, _)
            | ScimFilter::Greater(ScimAttrPath { s: Some(_), .. }, _)
            | ScimFilter::Less(ScimAttrPath { s: Some(_), .. }, _)
            | ScimFilter::GreaterOrEqual(ScimAttrPath { s: Some(_), .. }, _)
            | ScimFilter::LessOrEqual(ScimAttrPath { s: Some(_), .. }, _) => {

                return Err(OperationError::FilterGeneration);
            }
            ScimFilter::Complex(..) => {

                return Err(OperationError::FilterGeneration);
            }
        })
    }}
}
fn main(){}
