use vstd::prelude::*;
use core::cmp::Ordering;
verus! {
#[allow(non_camel_case_types)]
#[derive(Clone, Copy, PartialEq, Eq)]
pub enum PamResultCode { PAM_SUCCESS, PAM_AUTH_ERR, PAM_IGNORE, PAM_USER_UNKNOWN, PAM_CRED_INSUFFICIENT, PAM_ACCT_EXPIRED, PAM_OTHER }
pub type PamResult<T> = Result<T, PamResultCode>;
pub struct ModuleOptions { pub debug: bool, pub use_first_pass: bool, pub ignore_unknown_user: bool }
#[derive(Clone, Copy, PartialEq, Eq, PartialOrd, Ord)]
pub struct OffsetDateTime { pub unix_ns: i128 }
impl vstd::std_specs::cmp::PartialEqSpecImpl for OffsetDateTime {
    open spec fn obeys_eq_spec() -> bool { true }
    open spec fn eq_spec(&self, other: &OffsetDateTime) -> bool { self.unix_ns == other.unix_ns }
}
impl vstd::std_specs::cmp::PartialOrdSpecImpl for OffsetDateTime {
    open spec fn obeys_partial_cmp_spec() -> bool { true }
    open spec fn partial_cmp_spec(&self, other: &OffsetDateTime) -> Option<Ordering> {
        if self.unix_ns < other.unix_ns { Some(Ordering::Less) } else if self.unix_ns == other.unix_ns { Some(Ordering::Equal) } else { Some(Ordering::Greater) }
    }
}
#[derive(Clone, Copy)]
pub struct Duration { pub secs: u64, pub nanos: u32 }
impl Duration { #[verifier::external_body] pub fn from_secs(s: u64) -> Duration { unimplemented!() } }
pub struct DeviceAuthorizationResponse { pub expires_in: u32 }
pub struct PamServiceInfo { pub service: String }
pub enum PamAuthRequest { Password { cred: String }, DeviceAuthorizationGrant { data: DeviceAuthorizationResponse }, MFACode { cred: String }, MFAPoll, SetupPin { pin: String }, Pin { cred: String } }
pub enum PamAuthResponse { Unknown, Success, Denied, Password, DeviceAuthorizationGrant { data: DeviceAuthorizationResponse }, MFACode { msg: String }, MFAPoll { msg: String, polling_interval: u32 }, MFAPollWait, SetupPin { msg: String }, Pin }
pub enum ClientRequest { PamAuthenticateInit { account_id: String, info: PamServiceInfo }, PamAuthenticateStep { request: PamAuthRequest, session_id: u64 }, PamAccountAllowed { account_id: String, info: PamServiceInfo } }
pub struct OperationError;
pub struct Opaque;
pub enum ClientResponse { SshKeys(Opaque), NssAccounts(Opaque), NssAccount(Opaque), NssGroups(Opaque), NssGroup(Opaque), PamStatus(Option<bool>),
    PamAuthenticateStepResponse { response: PamAuthResponse, session_id: u64 }, ProviderStatus(Opaque), Ok, Error(OperationError) }
#[verifier::external_body]
pub struct DaemonClientBlocking { _p: u8 }
impl DaemonClientBlocking {
    pub uninterp spec fn said_success(&self) -> bool;
    #[verifier::external_body]
    pub fn call_and_wait(&self, req: ClientRequest, timeout: Option<u64>) -> (r: Result<ClientResponse, ()>)
        ensures (r matches Ok(ClientResponse::PamAuthenticateStepResponse { response: PamAuthResponse::Success, session_id: _ })) ==> self.said_success()
    { unimplemented!() }
}
pub trait PamHandler {
    fn account_id(&self) -> (r: PamResult<String>) ensures r != Err::<String, PamResultCode>(PamResultCode::PAM_SUCCESS);
    fn service_info(&self) -> (r: PamResult<PamServiceInfo>) ensures r != Err::<PamServiceInfo, PamResultCode>(PamResultCode::PAM_SUCCESS);
    fn authtok(&self) -> (r: PamResult<Option<String>>) ensures r != Err::<Option<String>, PamResultCode>(PamResultCode::PAM_SUCCESS);
    fn message(&self, prompt: &str) -> (r: PamResult<()>) ensures r != Err::<(), PamResultCode>(PamResultCode::PAM_SUCCESS);
    fn message_device_grant(&self, data: &DeviceAuthorizationResponse) -> (r: PamResult<()>) ensures r != Err::<(), PamResultCode>(PamResultCode::PAM_SUCCESS);
    fn prompt_for_password(&self) -> (r: PamResult<Option<String>>) ensures r != Err::<Option<String>, PamResultCode>(PamResultCode::PAM_SUCCESS);
    fn prompt_for_pin(&self, msg: Option<&str>) -> (r: PamResult<Option<String>>) ensures r != Err::<Option<String>, PamResultCode>(PamResultCode::PAM_SUCCESS);
    fn prompt_for_mfacode(&self) -> (r: PamResult<Option<String>>) ensures r != Err::<Option<String>, PamResultCode>(PamResultCode::PAM_SUCCESS);
}
pub mod std { pub mod env { use vstd::prelude::*; verus!{ #[verifier::external_body] pub fn vars() -> Vec<(String, String)> { unimplemented!() } } }
  pub mod mem { pub use core::mem::swap; }
  pub mod thread { use vstd::prelude::*; verus!{ #[verifier::external_body] pub fn sleep(d: super::super::Duration) { unimplemented!() } } } }
pub struct CryptPw;
impl CryptPw { pub uninterp spec fn ok(&self, s: Seq<char>) -> bool;
   #[verifier::external_body] pub fn check_pw(&self, cred: &str) -> (r: bool) ensures r == self.ok(cred@) { unimplemented!() } }
pub struct EtcUser { pub name: String }
pub struct EtcShadow { pub name: String, pub password: CryptPw, pub epoch_expire_seconds: Option<OffsetDateTime> }
#[verifier::exec_allows_no_decreases_clause]
pub fn sm_authenticate_connected<P: PamHandler>(
    pamh: &P,
    opts: &ModuleOptions,
    _current_time: OffsetDateTime,
    daemon_client: &DaemonClientBlocking,
) -> (r: PamResultCode)
    ensures r == PamResultCode::PAM_SUCCESS ==> daemon_client.said_success(),
{
    let info = match pamh.service_info() {
        Ok(info) => info,
        Err(e) => {

            return e;
        }
    };

    // We can use the env vars here to direct our authentication.
    for (key, value) in std::env::vars() {

    }

    let account_id = match pamh.account_id() {
        Ok(acc) => acc,
        Err(err) => return err,
    };

    let mut timeout: Option<u64> = None;
    let mut active_polling_interval = Duration::from_secs(1);

    let mut stacked_authtok = if opts.use_first_pass {
        match pamh.authtok() {
            Ok(authtok) => authtok,
            Err(err) => return err,
        }
    } else {
        None
    };

    let mut req = ClientRequest::PamAuthenticateInit { account_id, info };

    loop {
        let client_response = match daemon_client.call_and_wait(req, timeout) {
            Ok(r) => r,
            Err(err) => {
                // Something unrecoverable occurred, bail and stop everything

                return PamResultCode::PAM_AUTH_ERR;
            }
        };

        match client_response {
            ClientResponse::PamAuthenticateStepResponse {
                response: PamAuthResponse::Success,
                session_id: _,
            } => {
                return PamResultCode::PAM_SUCCESS;
            }
            ClientResponse::PamAuthenticateStepResponse {
                response: PamAuthResponse::Denied,
                session_id: _,
            } => {
                return PamResultCode::PAM_AUTH_ERR;
            }
            ClientResponse::PamAuthenticateStepResponse {
                response: PamAuthResponse::Unknown,
                session_id: _,
            } => {
                if opts.ignore_unknown_user {
                    return PamResultCode::PAM_IGNORE;
                } else {
                    return PamResultCode::PAM_USER_UNKNOWN;
                }
            }
            ClientResponse::PamAuthenticateStepResponse {
                response: PamAuthResponse::Password,
                session_id,
            } => {
                let mut authtok = None;
                std::mem::swap(&mut authtok, &mut stacked_authtok);

                let cred = if let Some(cred) = authtok {
                    cred
                } else {
                    match pamh.prompt_for_password() {
                        Ok(Some(cred)) => cred,
                        Ok(None) => return PamResultCode::PAM_CRED_INSUFFICIENT,
                        Err(err) => return err,
                    }
                };

                // Now setup the request for the next loop.
                timeout = None;
                req = ClientRequest::PamAuthenticateStep {
                    request: PamAuthRequest::Password { cred },
                    session_id,
                };
                continue;
            }
            ClientResponse::PamAuthenticateStepResponse {
                response: PamAuthResponse::DeviceAuthorizationGrant { data },
                session_id,
            } => {
                if let Err(err) = pamh.message_device_grant(&data) {
                    return err;
                };

                timeout = Some(u64::from(data.expires_in));
                req = ClientRequest::PamAuthenticateStep {
                    request: PamAuthRequest::DeviceAuthorizationGrant { data },
                    session_id,
                };
                continue;
            }
            ClientResponse::PamAuthenticateStepResponse {
                response: PamAuthResponse::MFACode { msg: _ },
                session_id,
            } => {
                let cred = match pamh.prompt_for_mfacode() {
                    Ok(Some(cred)) => cred,
                    Ok(None) => return PamResultCode::PAM_CRED_INSUFFICIENT,
                    Err(err) => return err,
                };

                // Now setup the request for the next loop.
                timeout = None;
                req = ClientRequest::PamAuthenticateStep {
                    request: PamAuthRequest::MFACode { cred },
                    session_id,
                };
                continue;
            }
            ClientResponse::PamAuthenticateStepResponse {
                response:
                    PamAuthResponse::MFAPoll {
                        msg,
                        polling_interval,
                    },
                session_id,
            } => {
                if let Err(err) = pamh.message(msg.as_str()) {
                    if opts.debug {

                    }
                    return err;
                }

                active_polling_interval = Duration::from_secs(polling_interval.into());

                timeout = None;
                req = ClientRequest::PamAuthenticateStep {
                    request: PamAuthRequest::MFAPoll,
                    session_id,
                };
                // We don't need to actually sleep here as we immediately will poll and then go
                // into the MFAPollWait response below.
            }
            ClientResponse::PamAuthenticateStepResponse {
                response: PamAuthResponse::MFAPollWait,
                session_id,
            } => {
                // Counter intuitive, but we don't need a max poll attempts here because
                // if the resolver goes away, then this will error on the sock and
                // will shutdown. This allows the resolver to dynamically extend the
                // timeout if needed, and removes logic from the front end.

                #[allow(clippy::disallowed_methods)]
                // Allowed as this is a sleep to drive the polling loop from synchronous code.
                std::thread::sleep(active_polling_interval);
                timeout = None;
                req = ClientRequest::PamAuthenticateStep {
                    request: PamAuthRequest::MFAPoll,
                    session_id,
                };
            }

            ClientResponse::PamAuthenticateStepResponse {
                response: PamAuthResponse::SetupPin { msg },
                session_id,
            } => {
                if let Err(err) = pamh.message(msg.as_str()) {
                    return err;
                }

                let mut pin;
                let mut confirm;

                loop {
                    pin = match pamh.prompt_for_pin(Some("New PIN: ")) {
                        Ok(Some(p)) => p,
                        Ok(None) => {

                            return PamResultCode::PAM_CRED_INSUFFICIENT;
                        }
                        Err(err) => {

                            return err;
                        }
                    };

                    confirm = match pamh.prompt_for_pin(Some("Confirm PIN: ")) {
                        Ok(Some(p)) => p,
                        Ok(None) => {

                            return PamResultCode::PAM_CRED_INSUFFICIENT;
                        }
                        Err(err) => {

                            return err;
                        }
                    };

                    if pin == confirm {
                        break;
                    } else if let Err(err) = pamh.message("Inputs did not match. Try again.") {
                        return err;
                    }
                }

                // Now setup the request for the next loop.
                timeout = None;
                req = ClientRequest::PamAuthenticateStep {
                    request: PamAuthRequest::SetupPin { pin },
                    session_id,
                };
                continue;
            }
            ClientResponse::PamAuthenticateStepResponse {
                response: PamAuthResponse::Pin,
                session_id,
            } => {
                let mut authtok = None;
                std::mem::swap(&mut authtok, &mut stacked_authtok);

                let cred = if let Some(cred) = authtok {
                    cred
                } else {
                    match pamh.prompt_for_pin(None) {
                        Ok(Some(cred)) => cred,
                        Ok(None) => return PamResultCode::PAM_CRED_INSUFFICIENT,
                        Err(err) => return err,
                    }
                };

                // Now setup the request for the next loop.
                timeout = None;
                req = ClientRequest::PamAuthenticateStep {
                    request: PamAuthRequest::Pin { cred },
                    session_id,
                };
                continue;
            }

            ClientResponse::Error(err) => {

                return PamResultCode::PAM_AUTH_ERR;
            }
            ClientResponse::Ok
            | ClientResponse::SshKeys(_)
            | ClientResponse::NssAccounts(_)
            | ClientResponse::NssAccount(_)
            | ClientResponse::NssGroups(_)
            | ClientResponse::PamStatus(_)
            | ClientResponse::ProviderStatus(_)
            | ClientResponse::NssGroup(_) => {

                return PamResultCode::PAM_AUTH_ERR;
            }
        }
    } // while true, continue calling PamAuthenticateStep until we get a decision.
}

pub fn sm_authenticate_fallback<P: PamHandler>(
    pamh: &P,
    opts: &ModuleOptions,
    current_time: OffsetDateTime,
    users: Vec<EtcUser>,
    shadow: Vec<EtcShadow>,
) -> (r: PamResultCode)
    ensures r == PamResultCode::PAM_SUCCESS ==> exists|i: int, pw: Seq<char>| 0 <= i < shadow@.len() && #[trigger] shadow@[i].password.ok(pw) && (shadow@[i].epoch_expire_seconds matches Some(e) ==> current_time.unix_ns < e.unix_ns),
{
    let account_id = match pamh.account_id() {
        Ok(acc) => acc,
        Err(err) => return err,
    };

    let user = users.into_iter().find(|etcuser| etcuser.name == account_id);

    let shadow = shadow
        .into_iter()
        .find(|etcshadow| etcshadow.name == account_id);

    let (_user, shadow) = match (user, shadow) {
        (Some(user), Some(shadow)) => (user, shadow),
        _ => {
            if opts.ignore_unknown_user {

                return PamResultCode::PAM_IGNORE;
            } else {

                return PamResultCode::PAM_USER_UNKNOWN;
            }
        }
    };

    let expiration_date = shadow.epoch_expire_seconds;

    if let Some(expire) = expiration_date {
        if current_time >= expire {

            return PamResultCode::PAM_ACCT_EXPIRED;
        }
    };

    // All checks passed! We can now proceed to authenticate the account.
    let mut stacked_authtok = if opts.use_first_pass {
        match pamh.authtok() {
            Ok(authtok) => authtok,
            Err(err) => return err,
        }
    } else {
        None
    };

    let mut authtok = None;
    std::mem::swap(&mut authtok, &mut stacked_authtok);

    let cred = if let Some(cred) = authtok {
        cred
    } else {
        match pamh.prompt_for_password() {
            Ok(Some(cred)) => cred,
            Ok(None) => return PamResultCode::PAM_CRED_INSUFFICIENT,
            Err(err) => return err,
        }
    };

    if shadow.password.check_pw(cred.as_str()) {
        PamResultCode::PAM_SUCCESS
    } else {
        PamResultCode::PAM_AUTH_ERR
    }
}
}
fn main(){}
