use vstd::prelude::*;
use core::num::NonZeroU8;
use vstd::std_specs::iter::IteratorSpec;
verus! {
#[verifier::external_body]
pub struct Attribute { _p: u8 }
impl Clone for Attribute { #[verifier::external_body] fn clone(&self) -> (r: Attribute) ensures r == *self { unimplemented!() } }
#[verifier::external_body]
pub struct PartialValue { _p: u8 }
impl PartialValue {
    pub uninterp spec fn eq_key(&self) -> Seq<char>;
    #[verifier::external_body] pub fn get_idx_eq_key(&self) -> (r: String) ensures r@ == self.eq_key() { unimplemented!() }
    pub uninterp spec fn sub_key(&self) -> Option<Seq<char>>;
    #[verifier::external_body] pub fn get_idx_sub_key(&self) -> (r: Option<String>) ensures (r is Some) == (self.sub_key() is Some), r is Some ==> r->Some_0@ == self.sub_key()->Some_0 { unimplemented!() }
}
#[derive(Clone, Copy)]
pub enum IndexType { Equality, Presence, SubString, Ordering }
pub enum OperationError { InvalidState, Backend }

#[verifier::external_body]
pub struct IDLBitRange { _p: u8 }
impl View for IDLBitRange { type V = Set<u64>; uninterp spec fn view(&self) -> Set<u64>; }
impl IDLBitRange {
    #[verifier::external_body] pub fn new() -> (r: IDLBitRange) ensures r@ == Set::<u64>::empty() { unimplemented!() }
    #[verifier::external_body] pub fn is_empty(&self) -> (r: bool) ensures r == (self@ == Set::<u64>::empty()) { unimplemented!() }
    #[verifier::external_body] pub fn below_threshold(&self, t: usize) -> (r: bool) { unimplemented!() }
    #[verifier::external_body] pub fn andnot(self, o: IDLBitRange) -> (r: IDLBitRange) ensures r@ == self@.difference(o@) { unimplemented!() }
}
impl Clone for IDLBitRange { #[verifier::external_body] fn clone(&self) -> (r: IDLBitRange) ensures r@ == self@ { unimplemented!() } }
impl vstd::std_specs::ops::BitOrSpecImpl<IDLBitRange> for IDLBitRange {
    open spec fn obeys_bitor_spec() -> bool { false }
    open spec fn bitor_req(self, rhs: IDLBitRange) -> bool { true }
    open spec fn bitor_spec(self, rhs: IDLBitRange) -> IDLBitRange { arbitrary() }
}
impl core::ops::BitOr for IDLBitRange { type Output = IDLBitRange;
    #[verifier::external_body] fn bitor(self, o: IDLBitRange) -> (r: IDLBitRange) ensures r@ == self@.union(o@) { unimplemented!() } }
impl vstd::std_specs::ops::BitAndSpecImpl<IDLBitRange> for IDLBitRange {
    open spec fn obeys_bitand_spec() -> bool { false }
    open spec fn bitand_req(self, rhs: IDLBitRange) -> bool { true }
    open spec fn bitand_spec(self, rhs: IDLBitRange) -> IDLBitRange { arbitrary() }
}
impl core::ops::BitAnd for IDLBitRange { type Output = IDLBitRange;
    #[verifier::external_body] fn bitand(self, o: IDLBitRange) -> (r: IDLBitRange) ensures r@ == self@.intersect(o@) { unimplemented!() } }

#[verifier::external_body]
pub fn shim_partition<'a, F: Fn(&&'a FilterResolved) -> bool>(it: core::slice::Iter<'a, FilterResolved>, f: F) -> (r: (Vec<&'a FilterResolved>, Vec<&'a FilterResolved>))
    requires forall|x: &&'a FilterResolved| f.requires((x,)),
    ensures
        (forall|x: &&'a FilterResolved, o: bool| f.ensures((x,), o) ==> o == (**x is AndNot)) ==> (forall|l: Seq<FilterResolved>| it.remaining() =~= l.map_values(|x: FilterResolved| &x) ==> #[trigger] part_ok(l, r.0@, r.1@)),
        r.0@.len() + r.1@.len() == it.remaining().len(),
        forall|i: int| 0 <= i < r.0@.len() ==> f.ensures((&#[trigger] r.0@[i],), true) && exists|j: int| 0 <= j < it.remaining().len() && #[trigger] it.remaining()[j] == r.0@[i],
        forall|i: int| 0 <= i < r.1@.len() ==> f.ensures((&#[trigger] r.1@[i],), false) && exists|j: int| 0 <= j < it.remaining().len() && #[trigger] it.remaining()[j] == r.1@[i],
        forall|j: int| 0 <= j < it.remaining().len() ==> (exists|i: int| 0 <= i < r.0@.len() && #[trigger] r.0@[i] == #[trigger] it.remaining()[j]) || (exists|i: int| 0 <= i < r.1@.len() && #[trigger] r.1@[i] == it.remaining()[j]),
{ unimplemented!() }
pub enum IdList { AllIds, Partial(IDLBitRange), PartialThreshold(IDLBitRange), Indexed(IDLBitRange) }

pub enum FilterResolved {
    Eq(Attribute, PartialValue, Option<NonZeroU8>),
    Cnt(Attribute, PartialValue, Option<NonZeroU8>),
    Stw(Attribute, PartialValue, Option<NonZeroU8>),
    Enw(Attribute, PartialValue, Option<NonZeroU8>),
    Pres(Attribute, Option<NonZeroU8>),
    LessThan(Attribute, PartialValue, Option<NonZeroU8>),
    Or(Vec<FilterResolved>, Option<NonZeroU8>),
    And(Vec<FilterResolved>, Option<NonZeroU8>),
    Invalid(Attribute),
    Inclusion(Vec<FilterResolved>, Option<NonZeroU8>),
    AndNot(Box<FilterResolved>, Option<NonZeroU8>),
}
impl FilterResolved {
    pub fn is_andnot(&self) -> (r: bool) ensures r == (*self is AndNot) { matches!(self, FilterResolved::AndNot(_, _)) }
}
pub enum FilterPlan {
    Invalid,
    EqIndexed(Attribute, String), EqUnindexed(Attribute), EqCorrupt(Attribute),
    SubIndexed(Attribute, String), SubUnindexed(Attribute), SubCorrupt(Attribute),
    PresIndexed(Attribute), PresUnindexed(Attribute), PresCorrupt(Attribute),
    LessThanUnindexed(Attribute), LessThanIndexed(Attribute), LessThanCorrupt(Attribute),
    OrUnindexed(Vec<FilterPlan>), OrIndexed(Vec<FilterPlan>), OrPartial(Vec<FilterPlan>), OrPartialThreshold(Vec<FilterPlan>),
    AndEmptyCand(Vec<FilterPlan>), AndIndexed(Vec<FilterPlan>), AndUnindexed(Vec<FilterPlan>), AndPartial(Vec<FilterPlan>), AndPartialThreshold(Vec<FilterPlan>),
    AndNot(Box<FilterPlan>),
    InclusionInvalid(Vec<FilterPlan>), InclusionIndexed(Vec<FilterPlan>),
}

#[verifier::external_body]
pub struct EntryView { _p: u8 }
pub uninterp spec fn leaf_eq(a: Attribute, v: PartialValue, e: EntryView) -> bool;
pub uninterp spec fn leaf_cnt(a: Attribute, v: PartialValue, e: EntryView) -> bool;
pub uninterp spec fn leaf_stw(a: Attribute, v: PartialValue, e: EntryView) -> bool;
pub uninterp spec fn leaf_enw(a: Attribute, v: PartialValue, e: EntryView) -> bool;
pub uninterp spec fn leaf_pres(a: Attribute, e: EntryView) -> bool;
pub uninterp spec fn leaf_lt(a: Attribute, v: PartialValue, e: EntryView) -> bool;
pub open spec fn sem(f: FilterResolved, e: EntryView) -> bool
    decreases f
{
    match f {
        FilterResolved::Eq(a, v, _) => leaf_eq(a, v, e),
        FilterResolved::Cnt(a, v, _) => leaf_cnt(a, v, e),
        FilterResolved::Stw(a, v, _) => leaf_stw(a, v, e),
        FilterResolved::Enw(a, v, _) => leaf_enw(a, v, e),
        FilterResolved::Pres(a, _) => leaf_pres(a, e),
        FilterResolved::LessThan(a, v, _) => leaf_lt(a, v, e),
        FilterResolved::Or(l, _) => exists|i: int| 0 <= i < l@.len() && sem(#[trigger] l@[i], e),
        FilterResolved::And(l, _) => forall|i: int| 0 <= i < l@.len() ==> sem(#[trigger] l@[i], e),
        FilterResolved::Invalid(_) => false,
        FilterResolved::Inclusion(_, _) => false,
        FilterResolved::AndNot(b, _) => !sem(*b, e),
    }
}
pub open spec fn no_incl(f: FilterResolved) -> bool
    decreases f
{
    match f {
        FilterResolved::Or(l, _) => forall|i: int| 0 <= i < l@.len() ==> no_incl(#[trigger] l@[i]),
        FilterResolved::And(l, _) => forall|i: int| 0 <= i < l@.len() ==> no_incl(#[trigger] l@[i]),
        FilterResolved::Inclusion(_, _) => false,
        FilterResolved::AndNot(b, _) => no_incl(*b),
        _ => true,
    }
}
pub type Db = Map<u64, EntryView>;
pub open spec fn matches(db: Db, f: FilterResolved) -> Set<u64> { db.dom().filter(|id: u64| sem(f, db[id])) }
pub open spec fn idl_ok(db: Db, f: FilterResolved, r: IdList) -> bool {
    match r {
        IdList::AllIds => true,
        IdList::Partial(s) => matches(db, f).subset_of(s@),
        IdList::PartialThreshold(s) => matches(db, f).subset_of(s@),
        IdList::Indexed(s) => s@ =~= matches(db, f),
    }
}


pub open spec fn rem_all(rem: Seq<&FilterResolved>, n: int, e: EntryView) -> bool { forall|i: int| 0 <= i < n ==> sem(*#[trigger] rem[i], e) }
pub open spec fn cand1(db: Db, rem: Seq<&FilterResolved>, n: int) -> Set<u64> { db.dom().filter(|id: u64| rem_all(rem, n, db[id])) }
pub open spec fn cand2(db: Db, rem: Seq<&FilterResolved>, an: Seq<&FilterResolved>, m: int) -> Set<u64> { db.dom().filter(|id: u64| rem_all(rem, rem.len() as int, db[id]) && rem_all(an, m, db[id])) }
pub open spec fn ok_for(c: IdList, s: Set<u64>) -> bool { match c { IdList::AllIds => true, IdList::Partial(x) => s.subset_of(x@), IdList::PartialThreshold(x) => s.subset_of(x@), IdList::Indexed(x) => x@ =~= s } }
pub open spec fn part_ok(l: Seq<FilterResolved>, a: Seq<&FilterResolved>, b: Seq<&FilterResolved>) -> bool {
    &&& a.len() + b.len() == l.len()
    &&& (forall|i: int| 0 <= i < a.len() ==> (*#[trigger] a[i] is AndNot) && exists|j: int| 0 <= j < l.len() && #[trigger] l[j] == *a[i])
    &&& (forall|i: int| 0 <= i < b.len() ==> !(*#[trigger] b[i] is AndNot) && exists|j: int| 0 <= j < l.len() && #[trigger] l[j] == *b[i])
    &&& (forall|j: int| 0 <= j < l.len() ==> (exists|i: int| 0 <= i < a.len() && *#[trigger] a[i] == #[trigger] l[j]) || (exists|i: int| 0 <= i < b.len() && *#[trigger] b[i] == l[j]))
}
pub open spec fn seen_union(db: Db, l: Seq<FilterResolved>, n: int) -> Set<u64> {
    db.dom().filter(|id: u64| exists|i: int| 0 <= i < n && sem(#[trigger] l[i], db[id]))
}
#[verifier::external_body]
pub broadcast proof fn axiom_lt_implies_pres(a: Attribute, v: PartialValue, e: EntryView)
    ensures #[trigger] leaf_lt(a, v, e) ==> leaf_pres(a, e) {}

pub trait IdlArcSqliteTransaction {
    spec fn db(&self) -> Db;
    fn get_idl(&mut self, attr: &Attribute, itype: IndexType, idx_key: &str) -> (r: Result<Option<IDLBitRange>, OperationError>)
        ensures final(self).db() == old(self).db(),
            r matches Ok(Some(idl)) ==> (itype is Equality ==> forall|v: PartialValue| v.eq_key() == idx_key@ ==>
                 idl@ =~= old(self).db().dom().filter(|id: u64| leaf_eq(*attr, v, old(self).db()[id]))),
            r matches Ok(Some(idl)) ==> (itype is Presence ==>
                 idl@ =~= old(self).db().dom().filter(|id: u64| leaf_pres(*attr, old(self).db()[id])));
}
#[verifier::external_body]
pub struct IdlLayer { _p: u8 }
impl IdlArcSqliteTransaction for IdlLayer {
    uninterp spec fn db(&self) -> Db;
    #[verifier::external_body]
    fn get_idl(&mut self, attr: &Attribute, itype: IndexType, idx_key: &str) -> (r: Result<Option<IDLBitRange>, OperationError>) { unimplemented!() }
}
pub struct Backend { pub idl: IdlLayer }
impl Backend {
    fn get_idlayer(&mut self) -> (r: &mut IdlLayer)
        ensures *r == old(self).idl, final(self).idl == *final(r),
    { &mut self.idl }
    #[verifier::external_body]
    fn filter2idl_sub(&mut self, attr: &Attribute, sub_idx_key: String) -> (r: Result<(IdList, FilterPlan), OperationError>)
        ensures final(self).idl.db() == old(self).idl.db(),
            r matches Ok(x) ==> (forall|v: PartialValue, i: Option<NonZeroU8>| v.sub_key() == Some(sub_idx_key@) ==>
                  #[trigger] idl_ok(old(self).idl.db(), FilterResolved::Cnt(*attr, v, i), x.0)
               && #[trigger] idl_ok(old(self).idl.db(), FilterResolved::Stw(*attr, v, i), x.0)
               && #[trigger] idl_ok(old(self).idl.db(), FilterResolved::Enw(*attr, v, i), x.0)),
    { unimplemented!() }
    #[verifier::exec_allows_no_decreases_clause]
    fn filter2idl(
        &mut self,
        filt: &FilterResolved,
        thres: usize,
    ) -> (res: Result<(IdList, FilterPlan), OperationError>)
        requires no_incl(*filt),
        ensures final(self).idl.db() == old(self).idl.db(),
            res matches Ok(x) ==> idl_ok(old(self).idl.db(), *filt, x.0),
    {
        Ok(match filt {
            FilterResolved::Eq(attr, value, idx) => {
                if idx.is_some() {
                    // Get the idx_key
                    let idx_key = value.get_idx_eq_key();
                    // Get the idl for this
                    match self
                        .get_idlayer()
                        .get_idl(attr, IndexType::Equality, &idx_key)?
                    {
                        Some(idl) => (
                            IdList::Indexed(idl),
                            FilterPlan::EqIndexed(attr.clone(), idx_key),
                        ),
                        None => (IdList::AllIds, FilterPlan::EqCorrupt(attr.clone())),
                    }
                } else {
                    // Schema believes this is not indexed
                    (IdList::AllIds, FilterPlan::EqUnindexed(attr.clone()))
                }
            }
            FilterResolved::Stw(attr, subvalue, idx)
            | FilterResolved::Enw(attr, subvalue, idx)
            | FilterResolved::Cnt(attr, subvalue, idx) => {
                // Get the idx_key. Not all types support this, so may return "none".

                if let (true, Some(idx_key)) = (idx.is_some(), subvalue.get_idx_sub_key()) {
                    self.filter2idl_sub(attr, idx_key)?
                } else {
                    // Schema believes this is not indexed
                    (IdList::AllIds, FilterPlan::SubUnindexed(attr.clone()))
                }
            }
            FilterResolved::Pres(attr, idx) => {
                if idx.is_some() {
                    // Get the idl for this
                    match self.get_idlayer().get_idl(attr, IndexType::Presence, "_")? {
                        Some(idl) => (IdList::Indexed(idl), FilterPlan::PresIndexed(attr.clone())),
                        None => (IdList::AllIds, FilterPlan::PresCorrupt(attr.clone())),
                    }
                } else {
                    // Schema believes this is not indexed
                    (IdList::AllIds, FilterPlan::PresUnindexed(attr.clone()))
                }
            }
            FilterResolved::LessThan(attr, _subvalue, idx) => {
                if idx.is_some() {
                    // TODO: Temporary but we get the PRESENCE index for Ordering operations to
                    // reduce the amount of entries we need to filter in memory. In future we need
                    // a true ordering index, but that's a large block of work on it's own. For now
                    // this already helps a lot for in memory processing.
                    match self.get_idlayer().get_idl(attr, IndexType::Presence, "_")? {
                        Some(idl) => (
                            IdList::Partial(idl),
                            FilterPlan::LessThanIndexed(attr.clone()),
                        ),
                        None => (IdList::AllIds, FilterPlan::LessThanCorrupt(attr.clone())),
                    }
                } else {
                    (IdList::AllIds, FilterPlan::LessThanUnindexed(attr.clone()))
                }
            }
            FilterResolved::Or(l, _) => {
                // Importantly if this has no inner elements, this returns
                // an empty list.
                let mut plan = Vec::with_capacity(0);
                let mut result = IDLBitRange::new();
                let mut partial = false;
                let mut threshold = false;
                // For each filter in l
                for f in it: l.iter()
                    invariant
                        no_incl(*filt), *filt matches FilterResolved::Or(ll, _) && ll == l,
                        self.idl.db() == old(self).idl.db(),
                        it.snapshot@.remaining() =~= l@.map_values(|x: FilterResolved| &x),
                        threshold ==> partial,
                        seen_union(old(self).idl.db(), l@, it.index@).subset_of(result@),
                        !partial ==> result@ =~= seen_union(old(self).idl.db(), l@, it.index@),
                {
                    // get their idls
                    match self.filter2idl(f, thres)? {
                        (IdList::Indexed(idl), fp) => {
                            plan.push(fp);
                            // now union them (if possible)
                            result = result | idl;
                        }
                        (IdList::Partial(idl), fp) => {
                            plan.push(fp);
                            // now union them (if possible)
                            result = result | idl;
                            partial = true;
                        }
                        (IdList::PartialThreshold(idl), fp) => {
                            plan.push(fp);
                            // now union them (if possible)
                            result = result | idl;
                            partial = true;
                            threshold = true;
                        }
                        (IdList::AllIds, fp) => {
                            plan.push(fp);
                            // If we find anything unindexed, the whole term is unindexed.

                            let setplan = FilterPlan::OrUnindexed(plan);
                            return Ok((IdList::AllIds, setplan));
                        }
                    }
                } // end or.iter()
                  // If we got here, every term must have been indexed or partial indexed.
                if partial {
                    if threshold {
                        let setplan = FilterPlan::OrPartialThreshold(plan);
                        (IdList::PartialThreshold(result), setplan)
                    } else {
                        let setplan = FilterPlan::OrPartial(plan);
                        (IdList::Partial(result), setplan)
                    }
                } else {
                    let setplan = FilterPlan::OrIndexed(plan);
                    (IdList::Indexed(result), setplan)
                }
            }
            FilterResolved::And(l, _) => {
                // This algorithm is a little annoying. I couldn't get it to work with iter and
                // folds due to the logic needed ...

                // First, setup the two filter lists. We always apply AndNot after positive
                // and terms.
                let (f_andnot, f_rem): (Vec<_>, Vec<_>) = shim_partition(l.iter(), |f: &&FilterResolved| -> (o: bool) ensures o == (**f is AndNot) { f.is_andnot() });

                // We make this an iter, so everything comes off in order. if we used pop it means we
                // pull from the tail, which is the WORST item to start with!
                let mut f_rem_iter = f_rem.iter();

                // Setup the initial result.
                let (mut cand_idl, fp) = match f_rem_iter.next() {
                    Some(f) => self.filter2idl(f, thres)?,
                    None => {

                        return Ok((IdList::Indexed(IDLBitRange::new()), FilterPlan::Invalid));
                    }
                };

                // Setup the counter of terms we have left to evaluate.
                // This is used so that we shortcut return ONLY when we really do have
                // more terms remaining.
                let mut f_rem_count = f_rem.len() + f_andnot.len() - 1;

                // Setup the query plan tracker
                let mut plan = vec![fp];

                match &cand_idl {
                    IdList::Indexed(idl) | IdList::Partial(idl) | IdList::PartialThreshold(idl) => {
                        // When below thres, we have to return partials to trigger the entry_no_match_filter check.
                        // But we only do this when there are actually multiple elements in the and,
                        // because an and with 1 element now is FULLY resolved.
                        if idl.below_threshold(thres) && f_rem_count > 0 {
                            let setplan = FilterPlan::AndPartialThreshold(plan);
                            return Ok((IdList::PartialThreshold(idl.clone()), setplan));
                        } else if idl.is_empty() {
                            // Regardless of the input state, if it's empty, this can never
                            // be satisfied, so return we are indexed and complete.
                            let setplan = FilterPlan::AndEmptyCand(plan);
                            return Ok((IdList::Indexed(IDLBitRange::new()), setplan));
                        }
                    }
                    IdList::AllIds => {}
                }

                // Now, for all remaining,
                for f in it: f_rem_iter
                    invariant
                        no_incl(*filt), *filt matches FilterResolved::And(ll, _) && ll == l,
                        self.idl.db() == old(self).idl.db(),
                        part_ok(l@, f_andnot@, f_rem@),
                        f_rem@.len() >= 1,
                        it.snapshot@.remaining() =~= f_rem@.skip(1).map_values(|x: &FilterResolved| &x),
                        f_rem_count as int == f_rem@.len() - 1 - it.index@ + f_andnot@.len(),
                        ok_for(cand_idl, cand1(old(self).idl.db(), f_rem@, it.index@ + 1)),
                {
                    f_rem_count -= 1;
                    let (inter, fp) = self.filter2idl(f, thres)?;
                    plan.push(fp);
                    cand_idl = match (cand_idl, inter) {
                        (IdList::Indexed(ia), IdList::Indexed(ib)) => {
                            let r = ia & ib;
                            if r.below_threshold(thres) && f_rem_count > 0 {
                                // When below thres, we have to return partials to trigger the entry_no_match_filter check.
                                let setplan = FilterPlan::AndPartialThreshold(plan);
                                return Ok((IdList::PartialThreshold(r), setplan));
                            } else if r.is_empty() {
                                // Regardless of the input state, if it's empty, this can never
                                // be satisfied, so return we are indexed and complete.
                                let setplan = FilterPlan::AndEmptyCand(plan);
                                return Ok((IdList::Indexed(IDLBitRange::new()), setplan));
                            } else {
                                IdList::Indexed(r)
                            }
                        }
                        (IdList::Indexed(ia), IdList::Partial(ib))
                        | (IdList::Partial(ia), IdList::Indexed(ib))
                        | (IdList::Partial(ia), IdList::Partial(ib)) => {
                            let r = ia & ib;
                            if r.below_threshold(thres) && f_rem_count > 0 {
                                // When below thres, we have to return partials to trigger the entry_no_match_filter check.
                                let setplan = FilterPlan::AndPartialThreshold(plan);
                                return Ok((IdList::PartialThreshold(r), setplan));
                            } else {
                                IdList::Partial(r)
                            }
                        }
                        (IdList::Indexed(ia), IdList::PartialThreshold(ib))
                        | (IdList::PartialThreshold(ia), IdList::Indexed(ib))
                        | (IdList::PartialThreshold(ia), IdList::PartialThreshold(ib))
                        | (IdList::PartialThreshold(ia), IdList::Partial(ib))
                        | (IdList::Partial(ia), IdList::PartialThreshold(ib)) => {
                            let r = ia & ib;
                            if r.below_threshold(thres) && f_rem_count > 0 {
                                // When below thres, we have to return partials to trigger the entry_no_match_filter check.
                                let setplan = FilterPlan::AndPartialThreshold(plan);
                                return Ok((IdList::PartialThreshold(r), setplan));
                            } else {
                                IdList::PartialThreshold(r)
                            }
                        }
                        (IdList::Indexed(i), IdList::AllIds)
                        | (IdList::AllIds, IdList::Indexed(i))
                        | (IdList::Partial(i), IdList::AllIds)
                        | (IdList::AllIds, IdList::Partial(i)) => IdList::Partial(i),
                        (IdList::PartialThreshold(i), IdList::AllIds)
                        | (IdList::AllIds, IdList::PartialThreshold(i)) => {
                            IdList::PartialThreshold(i)
                        }
                        (IdList::AllIds, IdList::AllIds) => IdList::AllIds,
                    };
                }

                // debug!("partial cand set ==> {:?}", cand_idl);

                for f in it: f_andnot.iter()
                    invariant
                        no_incl(*filt), *filt matches FilterResolved::And(ll, _) && ll == l,
                        self.idl.db() == old(self).idl.db(),
                        part_ok(l@, f_andnot@, f_rem@),
                        it.snapshot@.remaining() =~= f_andnot@.map_values(|x: &FilterResolved| &x),
                        f_rem_count as int == f_andnot@.len() - it.index@,
                        ok_for(cand_idl, cand2(old(self).idl.db(), f_rem@, f_andnot@, it.index@ as int)),
                {
                    f_rem_count -= 1;
                    let FilterResolved::AndNot(f_in, _) = f else {

                        return Err(OperationError::InvalidState);
                    };
                    let (inter, fp) = self.filter2idl(f_in, thres)?;
                    // It's an and not, so we need to wrap the plan accordingly.
                    plan.push(FilterPlan::AndNot(Box::new(fp)));
                    cand_idl = match (cand_idl, inter) {
                        (IdList::Indexed(ia), IdList::Indexed(ib)) => {
                            let r = ia.andnot(ib);
                            /*
                            // Don't trigger threshold on and nots if fully indexed.
                            if r.below_threshold(thres) {
                                // When below thres, we have to return partials to trigger the entry_no_match_filter check.
                                return Ok(IdList::PartialThreshold(r));
                            } else {
                                IdList::Indexed(r)
                            }
                            */
                            IdList::Indexed(r)
                        }
                        (IdList::Indexed(ia), IdList::Partial(ib))
                        | (IdList::Partial(ia), IdList::Indexed(ib))
                        | (IdList::Partial(ia), IdList::Partial(ib)) => {
                            let r = ia.andnot(ib);
                            // DO trigger threshold on partials, because we have to apply the filter
                            // test anyway, so we may as well shortcut at this point.
                            if r.below_threshold(thres) && f_rem_count > 0 {
                                let setplan = FilterPlan::AndPartialThreshold(plan);
                                return Ok((IdList::PartialThreshold(r), setplan));
                            } else {
                                IdList::Partial(r)
                            }
                        }
                        (IdList::Indexed(ia), IdList::PartialThreshold(ib))
                        | (IdList::PartialThreshold(ia), IdList::Indexed(ib))
                        | (IdList::PartialThreshold(ia), IdList::PartialThreshold(ib))
                        | (IdList::PartialThreshold(ia), IdList::Partial(ib))
                        | (IdList::Partial(ia), IdList::PartialThreshold(ib)) => {
                            let r = ia.andnot(ib);
                            // DO trigger threshold on partials, because we have to apply the filter
                            // test anyway, so we may as well shortcut at this point.
                            if r.below_threshold(thres) && f_rem_count > 0 {
                                let setplan = FilterPlan::AndPartialThreshold(plan);
                                return Ok((IdList::PartialThreshold(r), setplan));
                            } else {
                                IdList::PartialThreshold(r)
                            }
                        }

                        (IdList::Indexed(_), IdList::AllIds)
                        | (IdList::AllIds, IdList::Indexed(_))
                        | (IdList::Partial(_), IdList::AllIds)
                        | (IdList::AllIds, IdList::Partial(_))
                        | (IdList::PartialThreshold(_), IdList::AllIds)
                        | (IdList::AllIds, IdList::PartialThreshold(_)) => {
                            // We could actually generate allids here
                            // and then try to reduce the and-not set, but
                            // for now we just return all ids.
                            IdList::AllIds
                        }
                        (IdList::AllIds, IdList::AllIds) => IdList::AllIds,
                    };
                }

                // What state is the final cand idl in?
                let setplan = match cand_idl {
                    IdList::Indexed(_) => FilterPlan::AndIndexed(plan),
                    IdList::Partial(_) | IdList::PartialThreshold(_) => {
                        FilterPlan::AndPartial(plan)
                    }
                    IdList::AllIds => FilterPlan::AndUnindexed(plan),
                };

                // Finally, return the result.
                // debug!("final cand set ==> {:?}", cand_idl);
                (cand_idl, setplan)
            } // end and
            FilterResolved::Inclusion(l, _) => {
                // For inclusion to be valid, every term must have *at least* one element present.
                // This really relies on indexing, and so it's internal only - generally only
                // for fully indexed existence queries, such as from refint.

                // This has a lot in common with an And and Or but not really quite either.
                let mut plan = Vec::with_capacity(0);
                let mut result = IDLBitRange::new();
                // For each filter in l
                for f in it: l.iter()
                    invariant false,
                {
                    // get their idls
                    match self.filter2idl(f, thres)? {
                        (IdList::Indexed(idl), fp) => {
                            plan.push(fp);
                            if idl.is_empty() {
                                // It's empty, so something is missing. Bail fast.

                                let setplan = FilterPlan::InclusionIndexed(plan);
                                return Ok((IdList::Indexed(IDLBitRange::new()), setplan));
                            } else {
                                result = result | idl;
                            }
                        }
                        (_, fp) => {
                            plan.push(fp);
                            let setplan = FilterPlan::InclusionInvalid(plan);

                            return Ok((IdList::Partial(IDLBitRange::new()), setplan));
                        }
                    }
                } // end or.iter()
                  // If we got here, every term must have been indexed
                let setplan = FilterPlan::InclusionIndexed(plan);
                (IdList::Indexed(result), setplan)
            }
            // So why does this return empty? Normally we actually process an AndNot in the context
            // of an "AND" query, but if it's used anywhere else IE the root filter, then there is
            // no other set to exclude - therefore it's empty set. Additionally, even in an OR query
            // the AndNot will be skipped as an empty set for the same reason.
            FilterResolved::AndNot(_f, _) => {
                // get the idl for f
                // now do andnot?

                (IdList::Indexed(IDLBitRange::new()), FilterPlan::Invalid)
            }
            FilterResolved::Invalid(_) => {
                // Indexed since it is always false and we don't want to influence filter testing
                (IdList::Indexed(IDLBitRange::new()), FilterPlan::Invalid)
            }
        })
    }}
}
fn main(){}
