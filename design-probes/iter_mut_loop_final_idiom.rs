use vstd::prelude::*;
use vstd::std_specs::iter::IteratorSpec;
verus! {
pub struct E { pub a: u64, pub b: u64 }
fn f(v: &mut Vec<E>)
    ensures final(v)@.len() == old(v)@.len(),
        forall|i: int| 0 <= i < final(v)@.len() ==> final(v)@[i].a == 7 && final(v)@[i].b == old(v)@[i].b,
{
    for x in it: v.iter_mut()
        invariant
            it.snapshot@.remaining().len() == old(v)@.len(),
            forall|i: int| 0 <= i < it.snapshot@.remaining().len() ==> *(#[trigger] it.snapshot@.remaining()[i]) == old(v)@[i],
            forall|i: int| 0 <= i < it.snapshot@.remaining().len() ==> *final(#[trigger] it.snapshot@.remaining()[i]) == final(v)@[i],
            forall|i: int| 0 <= i < it.index@ ==> final(#[trigger] it.snapshot@.remaining()[i]).a == 7 && final(it.snapshot@.remaining()[i]).b == old(v)@[i].b,
    {
        x.a = 7;
    }
}
}
fn main(){}
