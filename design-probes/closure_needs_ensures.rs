use vstd::prelude::*;
verus! {
fn b(r: Result<u64, u8>) -> (q: Result<Option<u64>, bool>)
    ensures r is Ok ==> q == Ok::<Option<u64>, bool>(Some(r->Ok_0)), r is Err ==> q is Err
{
    r.map(|msg| -> (o: Option<u64>) ensures o == Some(msg) { Some(msg) }).map_err(|err| { true })
}
fn c(r: Option<u64>) -> (q: Option<u64>)
    ensures r is Some ==> q == Some((r->Some_0 & 0xf) as u64)
{
    r.map(|v| (v & 0xf))
}
}
fn main(){}
