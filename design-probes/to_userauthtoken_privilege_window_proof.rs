use vstd::prelude::*;
use core::cmp::Ordering;
use vstd::std_specs::cmp::OrdSpec;
verus! {
#[derive(Clone, Copy, PartialEq, Eq)]
pub struct Duration { pub secs: u64, pub nanos: u32 }
impl Duration {
    pub open spec fn ns(self) -> int { self.secs as int * 1_000_000_000 + self.nanos as int }
    pub open spec fn wf(self) -> bool { self.nanos < 1_000_000_000 }
    #[verifier::external_body] pub fn from_secs(s: u64) -> (d: Duration) ensures d.secs == s, d.nanos == 0 { unimplemented!() }
    #[verifier::external_body] pub fn from_nanos(n: u64) -> (d: Duration) ensures d.ns() == n, d.wf() { unimplemented!() }
    #[verifier::external_body] pub fn subsec_nanos(&self) -> (n: u32) ensures n == self.nanos { unimplemented!() }
}
impl vstd::std_specs::ops::SubSpecImpl<Duration> for Duration {
    open spec fn obeys_sub_spec() -> bool { false }
    open spec fn sub_req(self, rhs: Duration) -> bool { self.ns() >= rhs.ns() }
    open spec fn sub_spec(self, rhs: Duration) -> Duration { arbitrary() }
}
impl core::ops::Sub for Duration { type Output = Duration;
    #[verifier::external_body] fn sub(self, rhs: Duration) -> (r: Duration) ensures r.ns() == self.ns() - rhs.ns(), r.wf() { unimplemented!() } }
#[derive(Clone, Copy, PartialEq, Eq, PartialOrd, Ord)]
pub struct OffsetDateTime { pub unix_ns: int_t }
pub type int_t = i128;
impl OffsetDateTime { pub const UNIX_EPOCH: OffsetDateTime = OffsetDateTime { unix_ns: 0 }; }
impl vstd::std_specs::cmp::PartialEqSpecImpl for OffsetDateTime { open spec fn obeys_eq_spec() -> bool { true } open spec fn eq_spec(&self, o: &OffsetDateTime) -> bool { self.unix_ns == o.unix_ns } }
impl vstd::std_specs::cmp::PartialOrdSpecImpl for OffsetDateTime { open spec fn obeys_partial_cmp_spec() -> bool { true }
    open spec fn partial_cmp_spec(&self, o: &OffsetDateTime) -> Option<Ordering> { if self.unix_ns < o.unix_ns { Some(Ordering::Less) } else if self.unix_ns == o.unix_ns { Some(Ordering::Equal) } else { Some(Ordering::Greater) } } }
impl vstd::std_specs::cmp::OrdSpecImpl for OffsetDateTime { open spec fn obeys_cmp_spec() -> bool { true }
    open spec fn cmp_spec(&self, o: &OffsetDateTime) -> Ordering { if self.unix_ns < o.unix_ns { Ordering::Less } else if self.unix_ns == o.unix_ns { Ordering::Equal } else { Ordering::Greater } } }
impl vstd::std_specs::ops::AddSpecImpl<Duration> for OffsetDateTime {
    open spec fn obeys_add_spec() -> bool { false }
    open spec fn add_req(self, rhs: Duration) -> bool { -0x4000_0000_0000_0000_0000_0000_0000 < self.unix_ns + rhs.ns() < 0x4000_0000_0000_0000_0000_0000_0000 }
    open spec fn add_spec(self, rhs: Duration) -> OffsetDateTime { arbitrary() }
}
impl core::ops::Add<Duration> for OffsetDateTime { type Output = OffsetDateTime;
    #[verifier::external_body] fn add(self, rhs: Duration) -> (r: OffsetDateTime) ensures r.unix_ns == self.unix_ns + rhs.ns() { unimplemented!() } }
#[derive(Clone, Copy, PartialEq, Eq)] pub struct Uuid(pub u128);
pub enum SessionScope { ReadOnly, ReadWrite, PrivilegeCapable, Synchronise }
pub enum UatPurpose { ReadOnly, ReadWrite { expiry: Option<OffsetDateTime> } }
pub struct UiHint;
pub struct UserAuthToken { pub session_id: Uuid, pub expiry: Option<OffsetDateTime>, pub issued_at: OffsetDateTime, pub purpose: UatPurpose, pub uuid: Uuid,
    pub displayname: String, pub spn: String, pub mail_primary: Option<String>, pub ui_hints: Vec<UiHint>, pub limit_search_max_results: Option<u64>, pub limit_search_max_filter_test: Option<u64> }
pub struct ResolvedAccountPolicy { pub authsession_expiry: u32, pub lsr: Option<u64>, pub lsf: Option<u64> }
impl ResolvedAccountPolicy {
    pub fn authsession_expiry(&self) -> (r: u32) ensures r == self.authsession_expiry { self.authsession_expiry }
    pub fn limit_search_max_results(&self) -> Option<u64> { self.lsr }
    pub fn limit_search_max_filter_test(&self) -> Option<u64> { self.lsf }
}
pub const DEFAULT_AUTH_SESSION_LIMITED_EXPIRY: u32 = 3600;
pub assume_specification<T: Ord>[ core::cmp::min::<T> ](a: T, b: T) -> (r: T) ensures r == a || r == b, T::obeys_cmp_spec() ==> ((a.cmp_spec(&b) is Greater ==> r == b) && (!(a.cmp_spec(&b) is Greater) ==> r == a));
pub mod std { pub mod cmp { pub use core::cmp::min; } }
#[verifier::external_body] pub struct Opaque { _p: u8 }
pub struct Account { pub uuid: Uuid, pub displayname: String, pub spn: String, pub mail_primary: Option<String>, pub ui_hints: Vec<UiHint> }
impl Clone for UiHint { fn clone(&self) -> Self { UiHint } }
impl Account {
    pub(crate) fn to_userauthtoken(
        &self,
        session_id: Uuid,
        scope: SessionScope,
        ct: Duration,
        account_policy: &ResolvedAccountPolicy,
    ) -> (r: Option<UserAuthToken>)
        requires ct.wf(),
        ensures
            scope is Synchronise ==> r is None,
            r matches Some(u) ==> (
                u.session_id == session_id && u.uuid == self.uuid
                && u.issued_at.unix_ns <= ct.ns()
                && (scope is ReadOnly ==> u.purpose is ReadOnly)
                && (scope is PrivilegeCapable ==> u.purpose == (UatPurpose::ReadWrite { expiry: None }))
                && (scope is ReadWrite ==> (u.purpose matches UatPurpose::ReadWrite { expiry: Some(e) }
                        && e.unix_ns <= ct.ns() + 3600 * 1_000_000_000 && e.unix_ns <= ct.ns() + account_policy.authsession_expiry as int * 1_000_000_000
                        && u.expiry == Some(e)))
                && (u.expiry matches Some(x) && x.unix_ns <= ct.ns() + account_policy.authsession_expiry as int * 1_000_000_000)),
    {
        // We have to remove the nanoseconds because when we transmit this / serialise it we drop
        // the nanoseconds, but if we haven't done a serialise on the server our db cache has the
        // ns value which breaks some checks.
        let ct = ct - Duration::from_nanos(ct.subsec_nanos() as u64);
        let issued_at = OffsetDateTime::UNIX_EPOCH + ct;

        let limit_search_max_results = account_policy.limit_search_max_results();
        let limit_search_max_filter_test = account_policy.limit_search_max_filter_test();

        // Note that currently the auth_session time comes from policy, but the already-privileged
        // session bound is hardcoded. This mostly affects admin/idm_admin breakglass accounts.
        let expiry = OffsetDateTime::UNIX_EPOCH
            + ct
            + Duration::from_secs(account_policy.authsession_expiry() as u64);
        let limited_expiry = OffsetDateTime::UNIX_EPOCH
            + ct
            + Duration::from_secs(DEFAULT_AUTH_SESSION_LIMITED_EXPIRY as u64);

        let (purpose, expiry) = match scope {
            // Issue an invalid/expired session.
            SessionScope::Synchronise => {

                return None;
            }
            SessionScope::ReadOnly => (UatPurpose::ReadOnly, expiry),
            SessionScope::ReadWrite => {
                // These sessions are always rw, and so have limited life.
                // Ensure that we take the lower of the two bounds.
                let capped = std::cmp::min(expiry, limited_expiry);

                (
                    UatPurpose::ReadWrite {
                        expiry: Some(capped),
                    },
                    capped,
                )
            }
            SessionScope::PrivilegeCapable => (UatPurpose::ReadWrite { expiry: None }, expiry),
        };

        Some(UserAuthToken {
            session_id,
            expiry: Some(expiry),
            issued_at,
            purpose,
            uuid: self.uuid,
            displayname: self.displayname.clone(),
            spn: self.spn.clone(),
            mail_primary: self.mail_primary.clone(),
            ui_hints: self.ui_hints.clone(),
            // application: None,
            // groups: self.groups.iter().map(|g| g.to_proto()).collect(),
            limit_search_max_results,
            limit_search_max_filter_test,
        })
    }}
}
fn main(){}
