use vstd::prelude::*;
use std::collections::BTreeMap;
use std::collections::HashSet;
verus! {
#[derive(Clone, Copy, PartialEq, Eq)] pub struct Uuid(pub u128);
#[derive(Clone, Copy)] pub struct Duration { pub secs: u64, pub nanos: u32 }
pub enum AuthCredential { Anonymous, Password(String), Totp(u32), BackupCode(String), Other }
pub enum AuthType { Password, PasswordTotp }
pub struct SessionExtMetadata;
impl Default for SessionExtMetadata { fn default() -> Self { SessionExtMetadata } }
pub enum AuthAllowed { Password, Totp }
pub struct NonEmpty<T> { pub head: T, pub tail: Vec<T> }
pub enum CredState { Success { auth_type: AuthType, cred_id: Uuid, ext_session_metadata: SessionExtMetadata }, Continue(Box<NonEmpty<AuthAllowed>>), Denied(&'static str) }
#[derive(PartialEq, Eq)]
pub enum CredVerifyState { Init, Success, Fail }
pub struct Password { pub p: u64 }
impl Password {
    pub uninterp spec fn ok(&self, s: Seq<char>) -> bool;
    #[verifier::external_body] pub fn verify(&self, c: &str) -> (r: Result<bool, ()>) ensures r matches Ok(b) ==> b == self.ok(c@) { unimplemented!() }
}
pub struct Totp { pub t: u64 }
impl Totp {
    pub uninterp spec fn accepts(&self, chal: u32, ts: Duration) -> bool;
    #[verifier::external_body] pub fn verify(&self, chal: u32, ts: Duration) -> (r: bool) ensures r == self.accepts(chal, ts) { unimplemented!() }
}
pub struct CredTotp { pub pw: Password, pub pw_state: CredVerifyState, pub totp: BTreeMap<String, Totp>, pub mfa_state: CredVerifyState }
pub struct DelayedAction;
#[verifier::external_body] #[verifier::reject_recursive_types(T)] pub struct UnboundedSender<T> { _p: core::marker::PhantomData<T> }
pub const BAD_AUTH_TYPE_MSG: &'static str = "a";
pub const BAD_TOTP_MSG: &'static str = "b";
pub const BAD_PASSWORD_MSG: &'static str = "c";
pub const PW_BADLIST_MSG: &'static str = "d";
pub assume_specification<T, E>[ Result::<T, E>::unwrap_or ](r: Result<T, E>, d: T) -> (o: T) ensures o == (match r { Ok(v) => v, Err(_) => d });
pub uninterp spec fn lower(s: Seq<char>) -> Seq<char>;
pub assume_specification[ str::to_lowercase ](s: &str) -> (r: String) ensures r@ == lower(s@);
pub struct CredHandler;
impl CredHandler {
    #[verifier::external_body] fn maybe_pw_upgrade(pw: &Password, who: Uuid, cleartext: &str, async_tx: &UnboundedSender<DelayedAction>) { unimplemented!() }
    fn validate_password_totp(
        cred: &AuthCredential,
        cred_id: Uuid,
        ts: Duration,
        pw_mfa: &mut CredTotp,
        who: Uuid,
        async_tx: &UnboundedSender<DelayedAction>,
        pw_badlist_set: &HashSet<String>,
    ) -> (r: CredState)
        requires vstd::std_specs::btree::key_obeys_cmp_spec::<String>(),
        ensures
            final(pw_mfa).pw == old(pw_mfa).pw, final(pw_mfa).totp == old(pw_mfa).totp,
            r is Success ==> (old(pw_mfa).mfa_state is Success && old(pw_mfa).pw_state is Init
                              && (cred matches AuthCredential::Password(c) && old(pw_mfa).pw.ok(c@))),
            r is Continue ==> (old(pw_mfa).mfa_state is Init && old(pw_mfa).pw_state is Init && final(pw_mfa).mfa_state is Success
                              && (cred matches AuthCredential::Totp(ch) && exists|k: String| #[trigger] old(pw_mfa).totp@.contains_key(k) && old(pw_mfa).totp@[k].accepts(*ch, ts))),
            (final(pw_mfa).mfa_state is Success && !(old(pw_mfa).mfa_state is Success)) ==> r is Continue,
            old(pw_mfa).mfa_state is Success ==> final(pw_mfa).mfa_state is Success,
            !((old(pw_mfa).mfa_state is Init && old(pw_mfa).pw_state is Init) || (old(pw_mfa).mfa_state is Success && old(pw_mfa).pw_state is Init)) ==> r is Denied,
            (old(pw_mfa).mfa_state is Fail || old(pw_mfa).pw_state is Fail) ==> (r is Denied && final(pw_mfa).mfa_state == old(pw_mfa).mfa_state && final(pw_mfa).pw_state == old(pw_mfa).pw_state),
    {
        match (&pw_mfa.mfa_state, &pw_mfa.pw_state) {
            (CredVerifyState::Init, CredVerifyState::Init) => {
                // MFA first
                match cred {
                    AuthCredential::Totp(totp_chal) => {
                        // So long as one totp matches, success. Log which token was used.
                        // We don't need to worry about the empty case since none will match and we
                        // will get the failure.
                        if let Some(label) = pw_mfa
                            .totp
                            .iter()
                            .find(|p0: &(&String, &Totp)| -> (o: bool) ensures o == p0.1.accepts(*totp_chal, ts) { let (_, t) = p0; t.verify(*totp_chal, ts) })
                            .map(|p1| { let (l, _) = p1; l })
                        {
                            pw_mfa.mfa_state = CredVerifyState::Success;

                            CredState::Continue(Box::new(NonEmpty {
                                head: AuthAllowed::Password,
                                tail: Vec::with_capacity(0),
                            }))
                        } else {
                            pw_mfa.mfa_state = CredVerifyState::Fail;

                            CredState::Denied(BAD_TOTP_MSG)
                        }
                    }
                    _ => {

                        CredState::Denied(BAD_AUTH_TYPE_MSG)
                    }
                }
            }
            (CredVerifyState::Success, CredVerifyState::Init) => {
                // PW second.
                match cred {
                    AuthCredential::Password(cleartext) => {
                        if pw_mfa.pw.verify(cleartext.as_str()).unwrap_or(false) {
                            if pw_badlist_set.contains(&cleartext.to_lowercase()) {
                                pw_mfa.pw_state = CredVerifyState::Fail;

                                CredState::Denied(PW_BADLIST_MSG)
                            } else {
                                pw_mfa.pw_state = CredVerifyState::Success;

                                Self::maybe_pw_upgrade(
                                    &pw_mfa.pw,
                                    who,
                                    cleartext.as_str(),
                                    async_tx,
                                );
                                CredState::Success {
                                    auth_type: AuthType::PasswordTotp,
                                    cred_id,
                                    ext_session_metadata: Default::default(),
                                }
                            }
                        } else {
                            pw_mfa.pw_state = CredVerifyState::Fail;

                            CredState::Denied(BAD_PASSWORD_MSG)
                        }
                    }
                    _ => {

                        CredState::Denied(BAD_AUTH_TYPE_MSG)
                    }
                }
            }
            _ => {

                CredState::Denied(BAD_AUTH_TYPE_MSG)
            }
        }
    }}
}
fn main(){}
