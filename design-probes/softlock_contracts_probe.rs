use vstd::prelude::*;
use core::cmp::Ordering;
verus! {
#[derive(Clone, Copy, PartialEq, Eq, PartialOrd, Ord)]
pub struct Duration { pub secs: u64, pub nanos: u32 }
impl Duration {
    pub open spec fn ns(self) -> nat { self.secs as nat * 1_000_000_000 + self.nanos as nat }
    pub open spec fn wf(self) -> bool { self.nanos < 1_000_000_000 }
    #[verifier::external_body]
    pub fn from_secs(s: u64) -> (d: Duration) ensures d.secs == s, d.nanos == 0 { unimplemented!() }
    #[verifier::external_body]
    pub fn as_secs(&self) -> (s: u64) ensures s == self.secs { unimplemented!() }
}
impl vstd::std_specs::cmp::PartialEqSpecImpl for Duration {
    open spec fn obeys_eq_spec() -> bool { true }
    open spec fn eq_spec(&self, other: &Duration) -> bool { self.secs == other.secs && self.nanos == other.nanos }
}
impl vstd::std_specs::cmp::PartialOrdSpecImpl for Duration {
    open spec fn obeys_partial_cmp_spec() -> bool { true }
    open spec fn partial_cmp_spec(&self, other: &Duration) -> Option<Ordering> {
        if self.ns() < other.ns() { Some(Ordering::Less) }
        else if self.ns() == other.ns() { Some(Ordering::Equal) } else { Some(Ordering::Greater) }
    }
}
impl vstd::std_specs::ops::AddSpecImpl<Duration> for Duration {
    open spec fn obeys_add_spec() -> bool { true }
    open spec fn add_req(self, rhs: Duration) -> bool { self.wf() && rhs.wf() && self.secs + rhs.secs + 1 <= u64::MAX }
    open spec fn add_spec(self, rhs: Duration) -> Duration {
        if self.nanos + rhs.nanos >= 1_000_000_000 { Duration { secs: (self.secs + rhs.secs + 1) as u64, nanos: (self.nanos + rhs.nanos - 1_000_000_000) as u32 } }
        else { Duration { secs: (self.secs + rhs.secs) as u64, nanos: (self.nanos + rhs.nanos) as u32 } }
    }
}
impl core::ops::Add for Duration {
    type Output = Duration;
    #[verifier::external_body]
    fn add(self, rhs: Duration) -> (r: Duration) { unimplemented!() }
}
const ONEDAY: u64 = 86400;
pub enum CredSoftLockPolicy {
    Password,
    Totp(u64),
    Webauthn,
    Unrestricted,
}

impl CredSoftLockPolicy {
    /// Determine the next lock state after a failure based on this credentials
    /// policy.
    fn failure_next_state(&self, count: usize, ct: Duration) -> (r: LockState)
        requires ct.wf(), ct.secs < 0xffff_ffff_0000_0000, self matches CredSoftLockPolicy::Totp(step) ==> 0 < *step < 0x1_0000_0000,
        ensures
            (self is Password || self is Totp || self is Webauthn) ==> (r is Locked && s_count(r) == count && s_unlock(r).ns() > ct.ns() && s_reset(r).ns() > ct.ns() && s_unlock(r).wf() && s_reset(r).wf()),
            self is Password ==> (s_reset(r).nanos == 0 && s_reset(r).secs % 86400 == 0 && s_reset(r).secs - ct.secs <= 86400 && (count >= 100 ==> s_unlock(r) == s_reset(r))),
            self matches CredSoftLockPolicy::Totp(step) ==> (s_reset(r).nanos == 0 && s_reset(r).secs % *step == 0 && s_reset(r).secs - ct.secs <= *step && (count >= 3 ==> s_unlock(r) == s_reset(r))),
    {
        match self {
            CredSoftLockPolicy::Password => {
                let next_day_end = ct.as_secs() + ONEDAY;
                let rem = next_day_end % ONEDAY;
                let reset_at = Duration::from_secs(next_day_end - rem);

                if count < 3 {
                    LockState::Locked {
                        count,
                        reset_at,
                        unlock_at: ct + Duration::from_secs(1),
                    }
                } else if count < 9 {
                    LockState::Locked {
                        count,
                        reset_at,
                        unlock_at: ct + Duration::from_secs(3),
                    }
                } else if count < 25 {
                    LockState::Locked {
                        count,
                        reset_at,
                        unlock_at: ct + Duration::from_secs(5),
                    }
                } else if count < 100 {
                    LockState::Locked {
                        count,
                        reset_at,
                        unlock_at: ct + Duration::from_secs(10),
                    }
                } else {
                    LockState::Locked {
                        count,
                        reset_at,
                        unlock_at: reset_at,
                    }
                }
            }
            CredSoftLockPolicy::Totp(step) => {
                // reset at is based on the next step ending.
                let next_window_end = ct.as_secs() + step;
                let rem = next_window_end % step;
                let reset_at = Duration::from_secs(next_window_end - rem);
                // We delay for 1 second, unless count is > 3, then we set
                // unlock at to reset_at.
                if count >= 3 {
                    LockState::Locked {
                        count,
                        reset_at,
                        unlock_at: reset_at,
                    }
                } else {
                    LockState::Locked {
                        count,
                        reset_at,
                        unlock_at: ct + Duration::from_secs(1),
                    }
                }
            }
            CredSoftLockPolicy::Webauthn => {
                // we only lock for 1 second to slow them down.
                // TODO: Could this be a DOS/Abuse vector?
                LockState::Locked {
                    count,
                    reset_at: ct + Duration::from_secs(1),
                    unlock_at: ct + Duration::from_secs(1),
                }
            }
            CredSoftLockPolicy::Unrestricted => {
                // No action needed
                LockState::Init
            }
        }
    }
}

pub enum LockState {
    Init,
    // count
    // * Number of Failures in this cycle
    // unlock_at
    // * Time of next allowed check (works with delay)
    // reset_count_at
    // * The time to reset the state to init.
    //     count  reset_at  unlock_at
    Locked {
        count: usize,
        reset_at: Duration,
        unlock_at: Duration,
    },
    Unlocked(usize, Duration),
}

pub struct CredSoftLock {
    pub state: LockState,
    // Policy (for determining delay times based on num failures, and when to reset?)
    pub policy: CredSoftLockPolicy,
    pub last_expire_at: Duration,
}

impl CredSoftLock {
    pub fn new(policy: CredSoftLockPolicy) -> Self {
        CredSoftLock {
            state: LockState::Init,
            policy,
            last_expire_at: Duration::from_secs(0),
        }
    }

    pub fn apply_time_step(&mut self, ct: Duration, expire_at: Option<Duration>)
        ensures
            final(self).policy == old(self).policy,
            // A1: refused until its unlock time (absent a fresh administrator expiry)
            (old(self).state is Locked && ct.ns() <= s_unlock(old(self).state).ns() && !fresh_expiry(*old(self), expire_at)) ==> final(self).state is Locked,
            // A2: the count resets only after the window's reset time or a fresh admin expiry
            (!(old(self).state is Init) && final(self).state is Init) ==> (ct.ns() > s_reset(old(self).state).ns() || (fresh_expiry(*old(self), expire_at) && ct.ns() > expire_at->Some_0.ns())),
            // A3: otherwise count and lock are carried unchanged
            !(final(self).state is Init) ==> s_count(final(self).state) == s_count(old(self).state),
            (old(self).state is Locked && final(self).state is Locked) ==> s_unlock(final(self).state) == s_unlock(old(self).state),
            (old(self).state is Locked && final(self).state is Unlocked) ==> ct.ns() > s_unlock(old(self).state).ns(),
            !(old(self).state is Locked) ==> !(final(self).state is Locked),
            old(self).state is Init ==> final(self).state is Init,
    {
        // Do a reset if needed?
        let mut next_state = match self.state {
            LockState::Init => LockState::Init,
            LockState::Locked {
                count,
                mut reset_at,
                unlock_at,
            } => {
                // If there is a softlock expiry time, then we use it to *bound* the reset_at time.
                // That way the remaining logic will kick in and then move the reset_at.
                if let Some(expiry) = expire_at {
                    if self.last_expire_at != expiry {
                        // This lets us track former expiration times. We should only apply the reset/clear event ONCE.
                        self.last_expire_at = expiry;

                        // Now, we have to choose *if* we actually do a clear.
                        if reset_at > expiry {
                            // Okay, so the reset_at is beyond the expiry, we cap it now. This can
                            // either cause a reset/clear, or the reset_at to be bound to expiry in the unlock state.
                            //
                            // for example, consider someone set expiry into the future beyond the reset_at time.
                            // Then we don't actually want this to DO anything, because that wouldn't help anyone.
                            reset_at = expiry
                        }
                    }
                }

                if ct > reset_at {
                    LockState::Init
                } else if ct > unlock_at {
                    LockState::Unlocked(count, reset_at)
                } else {
                    LockState::Locked {
                        count,
                        reset_at,
                        unlock_at,
                    }
                }
            }
            LockState::Unlocked(count, reset_at) => {
                if ct > reset_at {
                    LockState::Init
                } else {
                    LockState::Unlocked(count, reset_at)
                }
            }
        };
        std::mem::swap(&mut self.state, &mut next_state);
    }

    /// Is this credential valid to proceed at this point in time.
    pub fn is_valid(&self) -> (r: bool)
        ensures r == !(self.state is Locked),
    {
        !matches!(self.state, LockState::Locked { .. })
    }

    /// Document a failure of authentication at this time.
    pub fn record_failure(&mut self, ct: Duration)
        requires ct.wf(), ct.secs < 0xffff_ffff_0000_0000, old(self).policy matches CredSoftLockPolicy::Totp(step) ==> 0 < step < 0x1_0000_0000,
                 s_count(old(self).state) < usize::MAX,
        ensures
            final(self).policy == old(self).policy,
            (old(self).policy is Password || old(self).policy is Totp) ==> (final(self).state is Locked
                && s_count(final(self).state) == s_count(old(self).state) + 1
                && s_unlock(final(self).state).ns() > ct.ns()),
            old(self).policy is Password ==> (s_count(old(self).state) + 1 >= 100 ==> s_unlock(final(self).state) == s_reset(final(self).state)),
    {
        let mut next_state = match self.state {
            LockState::Init => {
                self.policy.failure_next_state(1, ct)
                // LockState::Locked(1, reset_at, unlock_at)
            }
            LockState::Locked {
                count,
                reset_at: _,
                unlock_at: _,
            } => {
                // We should never reach this but just in case ...
                self.policy.failure_next_state(count + 1, ct)
                // LockState::Locked(count + 1, reset_at, unlock_at)
            }
            LockState::Unlocked(count, _reset_at) => {
                self.policy.failure_next_state(count + 1, ct)
                // LockState::Locked(count + 1, reset_at, unlock_at)
            }
        };
        std::mem::swap(&mut self.state, &mut next_state);
    }

    

    

    /*
    
    */
}
pub open spec fn s_count(s: LockState) -> usize { match s { LockState::Init => 0usize, LockState::Locked { count, .. } => count, LockState::Unlocked(count, _) => count } }
pub open spec fn s_reset(s: LockState) -> Duration { match s { LockState::Init => Duration { secs: 0, nanos: 0 }, LockState::Locked { reset_at, .. } => reset_at, LockState::Unlocked(_, reset_at) => reset_at } }
pub open spec fn s_unlock(s: LockState) -> Duration { match s { LockState::Locked { unlock_at, .. } => unlock_at, _ => Duration { secs: 0, nanos: 0 } } }
pub open spec fn fresh_expiry(l: CredSoftLock, e: Option<Duration>) -> bool { e is Some && e->Some_0 != l.last_expire_at }
}
fn main(){}
