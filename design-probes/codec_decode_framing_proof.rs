use vstd::prelude::*;
verus! {
pub const CODEC_MIMIMUM_BYTESMUT_ALLOCATION: usize = 1024 * 1024;
pub const CODEC_BYTESMUT_ALLOCATION_LIMIT: usize = 8 * 1024 * 1024;
pub mod io {
    use vstd::prelude::*;
    verus!{
    pub enum ErrorKind { InvalidInput, OutOfMemory, Other }
    pub struct Error { pub kind: ErrorKind }
    impl Error {
        #[verifier::external_body] pub fn new(kind: ErrorKind, msg: &str) -> (r: Error) ensures r.kind == kind { unimplemented!() }
        #[verifier::external_body] pub fn other(msg: &str) -> (r: Error) ensures r.kind == ErrorKind::Other { unimplemented!() }
    }
    }
}
pub trait DeserializeOwned: Sized { spec fn parse(b: Seq<u8>) -> Option<Self>; }
pub trait Serialize: Sized { spec fn json(&self) -> Seq<u8>; }
pub mod serde_json {
    use vstd::prelude::*;
    verus!{
    pub struct Error;
    #[verifier::external_body]
    pub fn from_slice<T: super::DeserializeOwned>(b: &[u8]) -> (r: Result<T, Error>)
        ensures r is Ok == T::parse(b@) is Some, r is Ok ==> r->Ok_0 == T::parse(b@)->Some_0
    { unimplemented!() }
    }
}
#[verifier::external_body]
pub struct BytesMut { _p: u8 }
impl View for BytesMut { type V = Seq<u8>; uninterp spec fn view(&self) -> Seq<u8>; }
impl BytesMut {
    pub uninterp spec fn cap(&self) -> nat;
    #[verifier::external_body] pub fn with_capacity(n: usize) -> (r: BytesMut) ensures r@.len() == 0 { unimplemented!() }
    #[verifier::external_body] pub fn len(&self) -> (r: usize) ensures r == self@.len() { unimplemented!() }
    #[verifier::external_body] pub fn capacity(&self) -> (r: usize) { unimplemented!() }
    #[verifier::external_body] pub fn clear(&mut self) ensures final(self)@.len() == 0 { unimplemented!() }
    #[verifier::external_body] pub fn split_at(&self, mid: usize) -> (r: (&[u8], &[u8]))
        requires mid <= self@.len() ensures r.0@ == self@.subrange(0, mid as int), r.1@ == self@.subrange(mid as int, self@.len() as int) { unimplemented!() }
    #[verifier::external_body] pub fn advance(&mut self, cnt: usize)
        requires cnt <= old(self)@.len() ensures final(self)@ == old(self)@.subrange(cnt as int, old(self)@.len() as int) { unimplemented!() }
}
pub open spec fn be64(b: Seq<u8>) -> u64 {
    ((b[0] as u64) << 56 | (b[1] as u64) << 48 | (b[2] as u64) << 40 | (b[3] as u64) << 32 | (b[4] as u64) << 24 | (b[5] as u64) << 16 | (b[6] as u64) << 8 | (b[7] as u64)) as u64
}
#[verifier::external_body] pub fn shim_u64_from_be_bytes(bytes: [u8; 8]) -> (r: u64) ensures r == be64(bytes@) { unimplemented!() }
pub mod std { pub mod mem { pub use core::mem::swap; } }
fn decode_length_checked_json<T: DeserializeOwned>(
    max_frame_bytes: usize,
    src: &mut BytesMut,
) -> (r: Result<Option<T>, io::Error>)
    ensures
        ({ let s = old(src)@; let n = final(src)@;
           if s.len() < 8 { r matches Ok(None) && n == s }
           else { let req = be64(s.subrange(0, 8));
             if req == 0 { r is Err && n == s }
             else if req > max_frame_bytes as u64 { r is Err && n == s }
             else if s.len() - 8 < req { r matches Ok(None) && n == s }
             else { n =~= s.subrange(8 + req as int, s.len() as int)
} } }),
{


    if src.len() < 8 {
        // Not enough for the length header.

        return Ok(None);
    }

    let (src_len_bytes, json_bytes) = src.split_at(8);
    let mut len_be_bytes = [0; 8];

    assert(len_be_bytes.len() == src_len_bytes.len());
    len_be_bytes.copy_from_slice(src_len_bytes);
    let req_len = shim_u64_from_be_bytes(len_be_bytes);

    if req_len == 0 {

        return Err(io::Error::new(io::ErrorKind::InvalidInput, "empty request"));
    }

    if req_len > max_frame_bytes as u64 {

        return Err(io::Error::new(
            io::ErrorKind::OutOfMemory,
            "request too large",
        ));
    }

    if (json_bytes.len() as u64) < req_len {

        return Ok(None);
    }

    // If there are excess bytes, we need to limit our slice to that view.
    assert(req_len as usize <= json_bytes.len());
    let (json_bytes, _remainder) = json_bytes.split_at(req_len as usize);

    // Okay, we have enough. Lets go.
    let res = serde_json::from_slice(json_bytes)
        .map(|msg| Some(msg))
        .map_err(|err| {

            io::Error::new(io::ErrorKind::InvalidInput, "JSON decode error")
        });

    // Trim to length.
    if src.len() as u64 == req_len {
        src.clear();
        if src.capacity() >= CODEC_BYTESMUT_ALLOCATION_LIMIT {
            let mut buf = BytesMut::with_capacity(CODEC_MIMIMUM_BYTESMUT_ALLOCATION);
            std::mem::swap(&mut buf, src);
        }
    } else {
        src.advance((8 + req_len) as usize);
    };

    res
}

}
fn main(){}
