use vstd::prelude::*;
use std::collections::BTreeMap;
use vstd::std_specs::iter::IteratorSpec;
verus! {
pub fn f(m: &BTreeMap<u64, u64>) -> (r: bool)
    ensures r == (exists|k: u64| m@.contains_key(k) && m@[k] > 3)
{
    let mut found = false;
    for kv in it: m.iter()
        invariant
            found == (exists|i: int| 0 <= i < it.index@ && *(#[trigger] it.snapshot@.remaining()[i]).1 > 3),
            it.snapshot@.remaining().len() == m@.len(),
            forall|i: int| 0 <= i < it.snapshot@.remaining().len() ==> m@.contains_key(*(#[trigger] it.snapshot@.remaining()[i]).0) && m@[*it.snapshot@.remaining()[i].0] == *it.snapshot@.remaining()[i].1,
            forall|k: u64| m@.contains_key(k) ==> exists|i: int| 0 <= i < it.snapshot@.remaining().len() && *(#[trigger] it.snapshot@.remaining()[i]).0 == k,
    {
        assert(it.history@ =~= it.snapshot@.remaining().take(it.index@)); // D
        let (k, v) = kv;
        if *v > 3 { found = true; }
    }
    found
}
}
fn main(){}
