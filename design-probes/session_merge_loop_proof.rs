use vstd::prelude::*;
use std::collections::BTreeMap;
use vstd::std_specs::iter::IteratorSpec;
verus! {
pub struct Session { pub state: u64, pub tag: u64 }
impl Clone for Session { fn clone(&self) -> (r: Session) ensures r == *self { Session { state: self.state, tag: self.tag } } }
pub open spec fn pick(a: Session, b: Session) -> Session { if b.state > a.state { b } else { a } }
pub open spec fn merged(a: Map<u64, Session>, b: Map<u64, Session>) -> Map<u64, Session> {
    Map::new(a.dom().union(b.dom()),
             |k: u64| if a.contains_key(k) && b.contains_key(k) { pick(a[k], b[k]) } else if a.contains_key(k) { a[k] } else { b[k] })
}
fn merge(a: &BTreeMap<u64, Session>, b: &BTreeMap<u64, Session>) -> (r: BTreeMap<u64, Session>)
    ensures r@ =~= merged(a@, b@)
{
        let mut map = a.clone();
        for (k_other, v_other) in it: b.iter()
            invariant
                it.snapshot@.remaining().len() == b@.len(),
                forall|i: int| 0 <= i < it.snapshot@.remaining().len() ==> b@.contains_key(*(#[trigger] it.snapshot@.remaining()[i]).0) && b@[*it.snapshot@.remaining()[i].0] == *it.snapshot@.remaining()[i].1,
                forall|k: u64| b@.contains_key(k) ==> exists|i: int| 0 <= i < it.snapshot@.remaining().len() && *(#[trigger] it.snapshot@.remaining()[i]).0 == k,
                forall|k: u64| #![auto] map@.contains_key(k) <==> (a@.contains_key(k) || exists|i: int| 0 <= i < it.index@ && *(#[trigger] it.snapshot@.remaining()[i]).0 == k),
                forall|k: u64| #![auto] map@.contains_key(k) ==> map@[k] == (
                    if (exists|i: int| 0 <= i < it.index@ && *(#[trigger] it.snapshot@.remaining()[i]).0 == k) { merged(a@, b@)[k] } else { a@[k] }),
        {
            if let Some(v_self) = map.get_mut(k_other) {
                if v_other.state > v_self.state {
                    *v_self = v_other.clone();
                }
            } else {
                map.insert(*k_other, v_other.clone());
            }
        }
        map
}
}
fn main(){}
