use vstd::prelude::*;
use core::cmp::Ordering;
use std::collections::BTreeMap;
use vstd::std_specs::iter::IteratorSpec;
verus! {

#[derive(Clone, Copy, PartialEq, Eq, PartialOrd, Ord)]
pub struct Duration { pub secs: u64, pub nanos: u32 }
impl Duration {
    pub const ZERO: Duration = Duration { secs: 0, nanos: 0 };
    pub open spec fn ns(self) -> nat { self.secs as nat * 1_000_000_000 + self.nanos as nat }
}
impl vstd::std_specs::cmp::PartialEqSpecImpl for Duration {
    open spec fn obeys_eq_spec() -> bool { true }
    open spec fn eq_spec(&self, other: &Duration) -> bool { self.ns() == other.ns() }
}
impl vstd::std_specs::cmp::PartialOrdSpecImpl for Duration {
    open spec fn obeys_partial_cmp_spec() -> bool { true }
    open spec fn partial_cmp_spec(&self, other: &Duration) -> Option<Ordering> {
        if self.ns() < other.ns() { Some(Ordering::Less) }
        else if self.ns() == other.ns() { Some(Ordering::Equal) } else { Some(Ordering::Greater) }
    }
}

#[derive(Clone, Copy, PartialEq, Eq, PartialOrd, Ord)]
pub struct Uuid(pub u128);
impl vstd::std_specs::cmp::PartialEqSpecImpl for Uuid {
    open spec fn obeys_eq_spec() -> bool { true }
    open spec fn eq_spec(&self, other: &Uuid) -> bool { self.0 == other.0 }
}
impl vstd::std_specs::cmp::PartialOrdSpecImpl for Uuid {
    open spec fn obeys_partial_cmp_spec() -> bool { true }
    open spec fn partial_cmp_spec(&self, other: &Uuid) -> Option<Ordering> {
        if self.0 < other.0 { Some(Ordering::Less) }
        else if self.0 == other.0 { Some(Ordering::Equal) } else { Some(Ordering::Greater) }
    }
}
impl vstd::std_specs::cmp::OrdSpecImpl for Uuid {
    open spec fn obeys_cmp_spec() -> bool { true }
    open spec fn cmp_spec(&self, other: &Uuid) -> Ordering {
        if self.0 < other.0 { Ordering::Less }
        else if self.0 == other.0 { Ordering::Equal } else { Ordering::Greater }
    }
}

pub struct ReplCidRange { pub ts_min: Duration, pub ts_max: Duration }

pub enum RangeDiffStatus {
    Ok(BTreeMap<Uuid, ReplCidRange>),
    Refresh { lag_range: BTreeMap<Uuid, ReplCidRange> },
    Unwilling { adv_range: BTreeMap<Uuid, ReplCidRange> },
    Critical { lag_range: BTreeMap<Uuid, ReplCidRange>, adv_range: BTreeMap<Uuid, ReplCidRange> },
    NoRUVOverlap,
}


pub open spec fn lag(c: ReplCidRange, s: ReplCidRange) -> bool { c.ts_max.ns() < s.ts_min.ns() }
pub open spec fn adv(c: ReplCidRange, s: ReplCidRange) -> bool { !lag(c, s) && s.ts_max.ns() < c.ts_min.ns() }
pub open spec fn need(c: ReplCidRange, s: ReplCidRange) -> bool { !lag(c, s) && !adv(c,s) && c.ts_max.ns() < s.ts_max.ns() }
pub open spec fn overlap(c: Map<Uuid, ReplCidRange>, s: Map<Uuid, ReplCidRange>) -> bool { exists|k: Uuid| s.contains_key(k) && c.contains_key(k) }
pub open spec fn any_lag(c: Map<Uuid, ReplCidRange>, s: Map<Uuid, ReplCidRange>) -> bool { exists|k: Uuid| s.contains_key(k) && c.contains_key(k) && lag(c[k], s[k]) }
pub open spec fn any_adv(c: Map<Uuid, ReplCidRange>, s: Map<Uuid, ReplCidRange>) -> bool { exists|k: Uuid| s.contains_key(k) && c.contains_key(k) && adv(c[k], s[k]) }
pub open spec fn diff_ok(c: Map<Uuid, ReplCidRange>, s: Map<Uuid, ReplCidRange>, d: Map<Uuid, ReplCidRange>) -> bool {
    forall|k: Uuid| #![auto]
        (d.contains_key(k) <==> (s.contains_key(k) && (!c.contains_key(k) || need(c[k], s[k]))))
        && (d.contains_key(k) ==> d[k].ts_max.ns() == s[k].ts_max.ns()
              && d[k].ts_min.ns() == (if c.contains_key(k) { c[k].ts_max.ns() } else { 0 }))
}
pub open spec fn range_diff_post(c: Map<Uuid, ReplCidRange>, s: Map<Uuid, ReplCidRange>, r: RangeDiffStatus) -> bool {
    if !overlap(c, s) { r is NoRUVOverlap }
    else if any_lag(c, s) && any_adv(c, s) { r is Critical }
    else if any_lag(c, s) { r is Refresh }
    else if any_adv(c, s) { r is Unwilling }
    else { r is Ok && diff_ok(c, s, r->Ok_0@) }
}

pub open spec fn mv(m: &BTreeMap<Uuid, ReplCidRange>) -> Map<Uuid, ReplCidRange> { m@ }
pub struct ReplicationUpdateVector {}
impl ReplicationUpdateVector {
    pub(crate) fn range_diff(
        consumer_range: &BTreeMap<Uuid, ReplCidRange>,
        supplier_range: &BTreeMap<Uuid, ReplCidRange>,
    ) -> (r: RangeDiffStatus)
        requires vstd::std_specs::btree::key_obeys_cmp_spec::<Uuid>(),
        ensures range_diff_post(consumer_range@, supplier_range@, r),
    {
        let mut diff_range = BTreeMap::default();
        let mut lag_range = BTreeMap::default();
        let mut adv_range = BTreeMap::default();

        let mut consumer_lagging = false;
        let mut supplier_lagging = false;
        let mut valid_content_overlap = false;


        for (supplier_s_uuid, supplier_cid_range) in it: supplier_range.iter()
            invariant
                vstd::std_specs::btree::key_obeys_cmp_spec::<Uuid>(),
                it.snapshot@.remaining().len() == supplier_range@.len(),
                forall|k: Uuid| supplier_range@.contains_key(k) ==> exists|i: int| 0 <= i < it.snapshot@.remaining().len() && *(#[trigger] it.snapshot@.remaining()[i]).0 == k,
                forall|i: int| 0 <= i < it.snapshot@.remaining().len() ==> supplier_range@.contains_key(*(#[trigger] it.snapshot@.remaining()[i]).0) && supplier_range@[*it.snapshot@.remaining()[i].0] == *it.snapshot@.remaining()[i].1,
                valid_content_overlap == (exists|i: int| 0 <= i < it.index@ && consumer_range@.contains_key(*(#[trigger] it.snapshot@.remaining()[i]).0)),
                consumer_lagging == (exists|i: int| 0 <= i < it.index@ && consumer_range@.contains_key(*(#[trigger] it.snapshot@.remaining()[i]).0) && lag(consumer_range@[*it.snapshot@.remaining()[i].0], *it.snapshot@.remaining()[i].1)),
                supplier_lagging == (exists|i: int| 0 <= i < it.index@ && consumer_range@.contains_key(*(#[trigger] it.snapshot@.remaining()[i]).0) && adv(consumer_range@[*it.snapshot@.remaining()[i].0], *it.snapshot@.remaining()[i].1)),
                forall|k: Uuid| #![auto] mv(&diff_range).contains_key(k) <==> ((exists|i: int| 0 <= i < it.index@ && *(#[trigger] it.snapshot@.remaining()[i]).0 == k) && supplier_range@.contains_key(k) && (!consumer_range@.contains_key(k) || need(consumer_range@[k], supplier_range@[k]))),
                forall|k: Uuid| #![auto] mv(&diff_range).contains_key(k) ==> mv(&diff_range)[k].ts_max.ns() == supplier_range@[k].ts_max.ns() && mv(&diff_range)[k].ts_min.ns() == (if consumer_range@.contains_key(k) { consumer_range@[k].ts_max.ns() } else { 0 }),
        {
            match consumer_range.get(supplier_s_uuid) {
                Some(consumer_cid_range) => {
                    valid_content_overlap = true;

                    if consumer_cid_range.ts_max < supplier_cid_range.ts_min {
                        consumer_lagging = true;
                        lag_range.insert(
                            *supplier_s_uuid,
                            ReplCidRange {
                                ts_min: supplier_cid_range.ts_min,
                                ts_max: consumer_cid_range.ts_max,
                            },
                        );
                    } else if supplier_cid_range.ts_max < consumer_cid_range.ts_min {
                        supplier_lagging = true;
                        adv_range.insert(
                            *supplier_s_uuid,
                            ReplCidRange {
                                ts_min: supplier_cid_range.ts_max,
                                ts_max: consumer_cid_range.ts_min,
                            },
                        );
                    } else if consumer_cid_range.ts_max < supplier_cid_range.ts_max {
                        diff_range.insert(
                            *supplier_s_uuid,
                            ReplCidRange {
                                ts_min: consumer_cid_range.ts_max,
                                ts_max: supplier_cid_range.ts_max,
                            },
                        );
                    }
                }
                None => {
                    diff_range.insert(
                        *supplier_s_uuid,
                        ReplCidRange {
                            ts_min: Duration::ZERO,
                            ts_max: supplier_cid_range.ts_max,
                        },
                    );
                }
            }
        }

        if !valid_content_overlap {
            return RangeDiffStatus::NoRUVOverlap;
        }

        match (consumer_lagging, supplier_lagging) {
            (false, false) => RangeDiffStatus::Ok(diff_range),
            (true, false) => RangeDiffStatus::Refresh { lag_range },
            (false, true) => RangeDiffStatus::Unwilling { adv_range },
            (true, true) => RangeDiffStatus::Critical {
                lag_range,
                adv_range,
            },
        }
    }}
}
fn main(){}
