use vstd::prelude::*;
verus! {
// Session state as the statement describes it; cid and expiry abstracted to ints
pub enum St { RevokedAt(int), ExpiresAt(int), NeverExpires }
// state_cmp_spec: the order the woven contract of `Ord for SessionState` must equal (written from the statement:
// revoked dominates; among revoked the EARLIEST change id dominates; later expiry dominates; never-expires least)
pub open spec fn rank(s: St) -> int { match s { St::RevokedAt(_) => 2, St::ExpiresAt(_) => 1, St::NeverExpires => 0 } }
pub open spec fn gt(a: St, b: St) -> bool {
    match (a, b) {
        (St::RevokedAt(x), St::RevokedAt(y)) => x < y,
        (St::ExpiresAt(x), St::ExpiresAt(y)) => x > y,
        _ => rank(a) > rank(b),
    }
}
pub proof fn lemma_total_order(a: St, b: St, c: St)
    ensures !gt(a, a), gt(a, b) ==> !gt(b, a), gt(a, b) && gt(b, c) ==> gt(a, c), a != b ==> gt(a, b) || gt(b, a),
{}
pub struct Sess { pub state: St, pub payload: int }
pub open spec fn pick(newer: Sess, older: Sess) -> Sess { if gt(older.state, newer.state) { older } else { newer } }
pub open spec fn merged(a: Map<int, Sess>, b: Map<int, Sess>) -> Map<int, Sess> {
    Map::new(a.dom().union(b.dom()), |k: int| if a.contains_key(k) && b.contains_key(k) { pick(a[k], b[k]) } else if a.contains_key(k) { a[k] } else { b[k] })
}
pub open spec fn states(m: Map<int, Sess>) -> Map<int, St> { m.map_values(|s: Sess| s.state) }

pub proof fn lemma_idempotent(a: Map<int, Sess>) ensures merged(a, a) =~= a {}
pub proof fn lemma_commutative_on_state(a: Map<int, Sess>, b: Map<int, Sess>)
    ensures states(merged(a, b)) =~= states(merged(b, a))
{
    assert forall|k: int| #[trigger] states(merged(a, b)).contains_key(k) implies states(merged(a, b))[k] == states(merged(b, a))[k] by {
        if a.contains_key(k) && b.contains_key(k) { lemma_total_order(a[k].state, b[k].state, b[k].state); }
    }
    assert(states(merged(a, b)).dom() =~= states(merged(b, a)).dom());
}
pub proof fn lemma_associative_on_state(a: Map<int, Sess>, b: Map<int, Sess>, c: Map<int, Sess>)
    ensures states(merged(merged(a, b), c)) =~= states(merged(a, merged(b, c)))
{
    assert(states(merged(merged(a, b), c)).dom() =~= states(merged(a, merged(b, c))).dom());
    assert forall|k: int| #[trigger] states(merged(merged(a, b), c)).contains_key(k) implies
        states(merged(merged(a, b), c))[k] == states(merged(a, merged(b, c)))[k] by {
        if a.contains_key(k) && b.contains_key(k) && c.contains_key(k) {
            lemma_total_order(a[k].state, b[k].state, c[k].state);
            lemma_total_order(c[k].state, b[k].state, a[k].state);
            lemma_total_order(c[k].state, a[k].state, b[k].state);
            lemma_total_order(b[k].state, c[k].state, a[k].state);
        }
    }
}
// a key revoked on either side is revoked in the result, with the earliest revocation id
pub proof fn lemma_revocation_kept(a: Map<int, Sess>, b: Map<int, Sess>, k: int)
    requires a.contains_key(k) && a[k].state is RevokedAt || b.contains_key(k) && b[k].state is RevokedAt
    ensures merged(a, b)[k].state is RevokedAt,
        a.contains_key(k) && a[k].state is RevokedAt ==> merged(a, b)[k].state->RevokedAt_0 <= a[k].state->RevokedAt_0,
        b.contains_key(k) && b[k].state is RevokedAt ==> merged(a, b)[k].state->RevokedAt_0 <= b[k].state->RevokedAt_0,
{}
}
fn main(){}
