use vstd::prelude::*;
verus! {
// abstract result of Cid::new_lamport: only its *contract* is known
pub uninterp spec fn lam(t: nat, m: nat) -> nat;
#[verifier::external_body]
pub broadcast proof fn lam_contract(t: nat, m: nat) ensures #[trigger] lam(t, m) > m {}   // == property clause of new_lamport

pub enum Ev { Begin(nat), Commit, Abort, Restart(nat) }
pub struct St { pub cid_max: nat, pub db_ts_max: nat, pub cur: Option<nat>, pub committed: Seq<nat> }

pub open spec fn step(s: St, e: Ev) -> St {
    match e {
        Ev::Begin(t) => if s.cur is None { St { cur: Some(lam(t, s.cid_max)), ..s } } else { s },
        Ev::Commit => match s.cur { Some(c) => St { cid_max: c, db_ts_max: c, cur: None, committed: s.committed.push(c) }, None => s },
        Ev::Abort => St { cur: None, ..s },                       // CowCell write txn dropped: cid_max unchanged
        Ev::Restart(t) => St { cid_max: lam(t, s.db_ts_max), cur: None, ..s },   // QueryServer::new reseeds from persisted ts_max
    }
}
pub open spec fn run(s: St, es: Seq<Ev>) -> St decreases es.len() {
    if es.len() == 0 { s } else { step(run(s, es.drop_last()), es.last()) }
}
pub open spec fn inv(s: St) -> bool {
    &&& s.cid_max >= s.db_ts_max
    &&& (forall|i: int| 0 <= i < s.committed.len() ==> #[trigger] s.committed[i] <= s.db_ts_max)
    &&& (forall|i: int, j: int| 0 <= i < j < s.committed.len() ==> s.committed[i] < s.committed[j])
    &&& (s.cur matches Some(c) ==> c > s.cid_max)
}
pub proof fn lemma_step(s: St, e: Ev) requires inv(s) ensures inv(step(s, e)) {
    broadcast use lam_contract;
    let s2 = step(s, e);
    match e {
        Ev::Commit => { if s.cur is Some {
            let c = s.cur->Some_0;
            assert forall|i: int, j: int| 0 <= i < j < s2.committed.len() implies s2.committed[i] < s2.committed[j] by {
                if j == s.committed.len() { assert(s.committed[i] <= s.db_ts_max); }
            }
        } }
        _ => {}
    }
}
pub proof fn lemma_run(s: St, es: Seq<Ev>) requires inv(s) ensures inv(run(s, es)) decreases es.len() {
    if es.len() > 0 { lemma_run(s, es.drop_last()); lemma_step(run(s, es.drop_last()), es.last()); }
}
// C07: from the empty server, for ANY event sequence (any clock values), committed change ids strictly increase
pub proof fn c07(es: Seq<Ev>)
    ensures ({ let s = run(St { cid_max: 0, db_ts_max: 0, cur: None, committed: seq![] }, es);
               forall|i: int, j: int| 0 <= i < j < s.committed.len() ==> s.committed[i] < s.committed[j] })
{
    lemma_run(St { cid_max: 0, db_ts_max: 0, cur: None, committed: seq![] }, es);
}
}
fn main(){}
