use vstd::prelude::*;
use core::cmp::Ordering;
verus! {
pub const PW_SFA_MIN_LENGTH_NIST: u32 = @@const:PW_SFA_MIN_LENGTH_NIST@@;
pub const PW_MFA_MIN_LENGTH: u32 = @@const:PW_MFA_MIN_LENGTH@@;
pub const PW_MAX_LENGTH_NIST: u32 = @@const:PW_MAX_LENGTH_NIST@@;
// ---- real types extracted from /repo ----
//@extract CredentialType
//@extract AccountPolicy
//@extract ResolvedAccountPolicy
// derived PartialOrd/Ord of CredentialType = order of the declared discriminants (checked on the real type by the Kani unit)
pub open spec fn rank(c: CredentialType) -> int {
    match c { CredentialType::Any => 0, CredentialType::External => 5, CredentialType::Mfa => 10, CredentialType::Passkey => 20,
              CredentialType::AttestedPasskey => 30, CredentialType::AttestedResidentkey => 40, CredentialType::Invalid => 65535 }
}
impl vstd::std_specs::cmp::PartialEqSpecImpl for CredentialType { open spec fn obeys_eq_spec() -> bool { true } open spec fn eq_spec(&self, o: &CredentialType) -> bool { *self == *o } }
impl vstd::std_specs::cmp::PartialOrdSpecImpl for CredentialType { open spec fn obeys_partial_cmp_spec() -> bool { true }
    open spec fn partial_cmp_spec(&self, o: &CredentialType) -> Option<Ordering> { if rank(*self) < rank(*o) { Some(Ordering::Less) } else if rank(*self) == rank(*o) { Some(Ordering::Equal) } else { Some(Ordering::Greater) } } }
// Option::filter (std documentation), through the predicate's own contract
pub assume_specification<T, P: FnOnce(&T) -> bool>[ Option::<T>::filter ](o: Option<T>, p: P) -> (r: Option<T>)
    ensures o is None ==> r is None,
            o matches Some(x) ==> ((r == Some(x) && p.ensures((&x,), true)) || (r is None && p.ensures((&x,), false)));
// webauthn_rs AttestationCaList: the set of trusted attestation authorities; intersection keeps those trusted by both (ASSUMED)
#[verifier::external_body] pub struct AttestationCaList { p: u8 }
impl View for AttestationCaList { type V = Set<nat>; uninterp spec fn view(&self) -> Set<nat>; }
impl AttestationCaList {
    #[verifier::external_body] pub fn intersection(&mut self, o: &AttestationCaList) ensures final(self)@ == old(self)@.intersect(o@) { unimplemented!() }
    #[verifier::external_body] pub fn is_empty(&self) -> (r: bool) ensures r == (self@ =~= Set::<nat>::empty()) { unimplemented!() }
}

// ---- specification from the statement of C35: the resolved policy as a function of the multiset of group policies ----
pub open spec fn min_u(a: u32, b: u32) -> u32 { if a < b { a } else { b } }
pub open spec fn max_u(a: u32, b: u32) -> u32 { if a > b { a } else { b } }
pub open spec fn max_c(a: CredentialType, b: CredentialType) -> CredentialType { if rank(b) > rank(a) { b } else { a } }
pub open spec fn join_lim(acc: Option<u64>, p: Option<u64>) -> Option<u64> {
    match (acc, p) { (x, None) => x, (None, Some(v)) => Some(v), (Some(a), Some(v)) => Some(if v > a { v } else { a }) }
}
pub open spec fn join_fb(acc: Option<bool>, p: Option<bool>) -> Option<bool> {
    match (acc, p) { (x, None) => x, (None, Some(v)) => Some(v), (Some(a), Some(v)) => Some(v && a) }
}
pub open spec fn join_ca(acc: Option<Set<nat>>, p: Option<Set<nat>>) -> Option<Set<nat>> {
    match (acc, p) { (x, None) => x, (None, Some(v)) => Some(v), (Some(a), Some(v)) => Some(a.intersect(v)) }
}
pub open spec fn ca_view(o: Option<AttestationCaList>) -> Option<Set<nat>> { match o { Some(l) => Some(l@), None => None } }
// abstract value of an accumulator (everything the statement speaks about)
pub struct R { pub privilege_expiry: u32, pub authsession_expiry: u32, pub pw_min_length: u32, pub pw_max_length: u32, pub credential_policy: CredentialType,
    pub ca: Option<Set<nat>>, pub lim_filter: Option<u64>, pub lim_results: Option<u64>, pub fallback: Option<bool> }
pub open spec fn rv(a: &ResolvedAccountPolicy) -> R {
    R { privilege_expiry: a.privilege_expiry, authsession_expiry: a.authsession_expiry, pw_min_length: a.pw_min_length, pw_max_length: a.pw_max_length,
        credential_policy: a.credential_policy, ca: ca_view(a.webauthn_att_ca_list), lim_filter: a.limit_search_max_filter_test,
        lim_results: a.limit_search_max_results, fallback: a.allow_primary_cred_fallback }
}
pub struct P { pub privilege_expiry: u32, pub authsession_expiry: u32, pub pw_min_length: u32, pub credential_policy: CredentialType,
    pub ca: Option<Set<nat>>, pub lim_filter: Option<u64>, pub lim_results: Option<u64>, pub fallback: Option<bool> }
pub open spec fn pv(p: &AccountPolicy) -> P {
    P { privilege_expiry: p.privilege_expiry, authsession_expiry: p.authsession_expiry, pw_min_length: p.pw_min_length, credential_policy: p.credential_policy,
        ca: ca_view(p.webauthn_att_ca_list), lim_filter: p.limit_search_max_filter_test, lim_results: p.limit_search_max_results, fallback: p.allow_primary_cred_fallback }
}
// one group policy folded in: strictest of the two for expiries / minimum length / credential type, intersection of trusted CAs
pub open spec fn step(a: R, p: P) -> R {
    R { privilege_expiry: min_u(a.privilege_expiry, p.privilege_expiry), authsession_expiry: min_u(a.authsession_expiry, p.authsession_expiry),
        pw_min_length: max_u(a.pw_min_length, p.pw_min_length), pw_max_length: a.pw_max_length, credential_policy: max_c(a.credential_policy, p.credential_policy),
        ca: join_ca(a.ca, p.ca), lim_filter: join_lim(a.lim_filter, p.lim_filter), lim_results: join_lim(a.lim_results, p.lim_results),
        fallback: join_fb(a.fallback, p.fallback) }
}
// the fields the statement of C35 names (expiries, minimum length, credential type, trusted CAs)
pub open spec fn named(a: R) -> (u32, u32, u32, u32, CredentialType, Option<Set<nat>>) { (a.privilege_expiry, a.authsession_expiry, a.pw_min_length, a.pw_max_length, a.credential_policy, a.ca) }
pub open spec fn fold(a: R, ps: Seq<P>) -> R decreases ps.len() { if ps.len() == 0 { a } else { fold(step(a, ps[0]), ps.subrange(1, ps.len() as int)) } }

// ---- layer 3 lemmas: order independence and strictness for ANY number of policies, from the step specification alone ----
pub proof fn lemma_step_commutes(a: R, p: P, q: P) ensures step(step(a, p), q) == step(step(a, q), p) {
    let x = step(step(a, p), q); let y = step(step(a, q), p);
    if let (Some(s), Some(t)) = (p.ca, q.ca) { if let Some(u) = a.ca { assert(u.intersect(s).intersect(t) =~= u.intersect(t).intersect(s)); } else { assert(s.intersect(t) =~= t.intersect(s)); } }
    assert(x.ca == y.ca);
}
pub proof fn lemma_fold_swap_adjacent(a: R, ps: Seq<P>, i: int)
    requires 0 <= i, i + 1 < ps.len(),
    ensures fold(a, ps) == fold(a, ps.update(i, ps[i + 1]).update(i + 1, ps[i])),
    decreases ps.len(),
{
    let qs = ps.update(i, ps[i + 1]).update(i + 1, ps[i]);
    reveal_with_fuel(fold, 3);
    if i == 0 {
        let r = ps.subrange(2, ps.len() as int);
        assert(ps.subrange(1, ps.len() as int).subrange(1, ps.len() - 1) =~= r);
        assert(qs.subrange(1, qs.len() as int).subrange(1, qs.len() - 1) =~= r);
        assert(ps.subrange(1, ps.len() as int)[0] == ps[1]);
        assert(qs.subrange(1, qs.len() as int)[0] == ps[0]);
        lemma_step_commutes(a, ps[0], ps[1]);
    } else {
        let pt = ps.subrange(1, ps.len() as int);
        lemma_fold_swap_adjacent(step(a, ps[0]), pt, i - 1);
        assert(qs.subrange(1, qs.len() as int) =~= pt.update(i - 1, pt[i]).update(i, pt[i - 1]));
        assert(qs[0] == ps[0]);
    }
}
// strictness: the fold is at least as strict as the accumulator it started from and as every policy folded in
pub proof fn lemma_fold_strict(a: R, ps: Seq<P>, k: int)
    requires 0 <= k < ps.len(),
    ensures
        fold(a, ps).privilege_expiry <= ps[k].privilege_expiry, fold(a, ps).authsession_expiry <= ps[k].authsession_expiry,
        fold(a, ps).pw_min_length >= ps[k].pw_min_length, rank(fold(a, ps).credential_policy) >= rank(ps[k].credential_policy),
        (ps[k].ca matches Some(s) ==> (fold(a, ps).ca matches Some(t) && t.subset_of(s))),
        fold(a, ps).privilege_expiry <= a.privilege_expiry, fold(a, ps).authsession_expiry <= a.authsession_expiry,
        fold(a, ps).pw_min_length >= a.pw_min_length, rank(fold(a, ps).credential_policy) >= rank(a.credential_policy),
        (a.ca matches Some(s) ==> (fold(a, ps).ca matches Some(t) && t.subset_of(s))),
    decreases ps.len(),
{
    let pt = ps.subrange(1, ps.len() as int);
    lemma_fold_mono(step(a, ps[0]), pt);
    lemma_fold_mono(a, ps);
    if k > 0 { lemma_fold_strict(step(a, ps[0]), pt, k - 1); assert(pt[k - 1] == ps[k]); }
}
pub proof fn lemma_fold_mono(a: R, ps: Seq<P>)
    ensures fold(a, ps).privilege_expiry <= a.privilege_expiry, fold(a, ps).authsession_expiry <= a.authsession_expiry,
        fold(a, ps).pw_min_length >= a.pw_min_length, rank(fold(a, ps).credential_policy) >= rank(a.credential_policy),
        (a.ca matches Some(s) ==> (fold(a, ps).ca matches Some(t) && t.subset_of(s))),
    decreases ps.len(),
{
    if ps.len() > 0 { lemma_fold_mono(step(a, ps[0]), ps.subrange(1, ps.len() as int)); }
}

// ---- the real fold step: body of the closure handed to iter.for_each in ResolvedAccountPolicy::fold_from (R5) ----
//@extract fold_step

// ---- fold_from itself: `iter.for_each(<closure>)` is redirected (R5) to a stand-in that applies the step proved above to every
// element in order — the documented meaning of Iterator::for_each; everything else is the real text ----
pub uninterp spec fn items_of<I>(iter: I) -> Seq<P>;
#[verifier::external_body]
pub fn kvx_for_each<I: Iterator<Item = AccountPolicy>>(iter: I, accumulate: &mut ResolvedAccountPolicy)
    ensures rv(final(accumulate)) == fold(rv(old(accumulate)), items_of(iter)) { unimplemented!() }
// the starting point of the fold: the system maximums (the constants are the code's own)
pub const MAXIMUM_AUTH_PRIVILEGE_EXPIRY: u32 = @@const:MAXIMUM_AUTH_PRIVILEGE_EXPIRY@@;
pub const MAXIMUM_AUTH_SESSION_EXPIRY: u32 = @@const:MAXIMUM_AUTH_SESSION_EXPIRY@@;
pub open spec fn init_r() -> R {
    R { privilege_expiry: MAXIMUM_AUTH_PRIVILEGE_EXPIRY, authsession_expiry: MAXIMUM_AUTH_SESSION_EXPIRY, pw_min_length: PW_MFA_MIN_LENGTH, pw_max_length: PW_MAX_LENGTH_NIST,
        credential_policy: CredentialType::Any, ca: None, lim_filter: None, lim_results: None, fallback: None }
}
// "enforces the single-factor minimum length whenever second factors are optional"
pub open spec fn nist(a: R) -> R {
    if rank(a.credential_policy) < rank(CredentialType::Mfa) && a.pw_min_length < PW_SFA_MIN_LENGTH_NIST { R { pw_min_length: PW_SFA_MIN_LENGTH_NIST, ..a } } else { a }
}
pub open spec fn resolved(ps: Seq<P>) -> R { nist(fold(init_r(), ps)) }
impl ResolvedAccountPolicy {
//@extract fold_from
}
// the statement of C35 over the specification `resolved`, for ANY number of group policies:
pub proof fn lemma_resolved_order_independent(ps: Seq<P>, i: int)
    requires 0 <= i, i + 1 < ps.len(),
    ensures resolved(ps) == resolved(ps.update(i, ps[i + 1]).update(i + 1, ps[i])),
{ lemma_fold_swap_adjacent(init_r(), ps, i); }
pub proof fn lemma_resolved_strictest(ps: Seq<P>, k: int)
    requires 0 <= k < ps.len(),
    ensures resolved(ps).privilege_expiry <= ps[k].privilege_expiry, resolved(ps).authsession_expiry <= ps[k].authsession_expiry,
        resolved(ps).pw_min_length >= ps[k].pw_min_length, rank(resolved(ps).credential_policy) >= rank(ps[k].credential_policy),
        (ps[k].ca matches Some(s) ==> (resolved(ps).ca matches Some(t) && t.subset_of(s))),
        resolved(ps).privilege_expiry <= MAXIMUM_AUTH_PRIVILEGE_EXPIRY, resolved(ps).authsession_expiry <= MAXIMUM_AUTH_SESSION_EXPIRY,
        rank(resolved(ps).credential_policy) < rank(CredentialType::Mfa) ==> resolved(ps).pw_min_length >= PW_SFA_MIN_LENGTH_NIST,
{ lemma_fold_strict(init_r(), ps, k); }
}
fn main(){}
