use vstd::prelude::*;
use core::cmp::Ordering;
use std::collections::BTreeMap;
verus! {
//@include shims/duration.rs
//@include shims/duration_ops.rs
//@include shims/uuid.rs
//@include shims/offsetdatetime.rs
//@include shims/time_ops.rs
//@include shims/idm_common.rs
//@include shims/std_option.rs
// the code's own constants, substituted from the source text on every run
pub const AUTH_TOKEN_GRACE_WINDOW: Duration = Duration { secs: @@constexpr:AUTH_TOKEN_GRACE_WINDOW:Duration::from_secs\((.*)\)@@, nanos: 0 };
pub const UUID_ANONYMOUS: Uuid = Uuid(@@constexpr:UUID_ANONYMOUS:uuid!\("([0-9a-f-]+)"\):uuidhex@@);
// the token fields the two functions read (kanidm_proto::v1::UserAuthToken / kanidm_proto::internal::ApiToken carry more)
pub struct UserAuthToken { pub session_id: Uuid, pub uuid: Uuid, pub expiry: Option<OffsetDateTime>, pub issued_at: OffsetDateTime }
pub struct ProtoApiToken { pub token_id: Uuid, pub issued_at: OffsetDateTime }

// ---- specification from the statement of C32 ----
// a user token is acceptable only while: the account is inside its validity window AND
//   (it is the anonymous account) OR (its session is recorded, not revoked, and the recorded expiry matches the token's)
//   OR (no session is recorded and the token was issued less than the grace window ago)
// `strict`: whether the grace boundary instant itself counts as expired (the statement does not decide it: the property
// clause uses strict = false, the auxiliary exactness clause strict = true)
pub open spec fn grace_ok(ct: Duration, issued: OffsetDateTime, strict: bool) -> bool { if strict { ct.ns() < issued.unix_ns + AUTH_TOKEN_GRACE_WINDOW.ns() } else { ct.ns() <= issued.unix_ns + AUTH_TOKEN_GRACE_WINDOW.ns() } }
pub open spec fn uat_ok(ct: Duration, uat: UserAuthToken, sessions: Option<Map<Uuid, Session>>, strict: bool) -> bool {
    uat.uuid == UUID_ANONYMOUS || (
        if sessions is Some && sessions->Some_0.contains_key(uat.session_id) {
            match (sessions->Some_0[uat.session_id].state, uat.expiry) {
                (SessionState::ExpiresAt(s), Some(u)) => s == u,
                (SessionState::NeverExpires, None) => true,
                _ => false,
            }
        } else { grace_ok(ct, uat.issued_at, strict) })
}
pub open spec fn apit_ok(ct: Duration, apit: ProtoApiToken, tokens: Option<Map<Uuid, ApiToken>>, strict: bool) -> bool {
    (tokens is Some && tokens->Some_0.contains_key(apit.token_id)) || grace_ok(ct, apit.issued_at, strict)
}
pub struct Account {}
impl Account {
//@extract check_within_valid_time
//@extract check_user_auth_token_valid
}
pub struct ServiceAccount {}
impl ServiceAccount {
//@extract check_api_token_valid
}
}
fn main(){}
