use vstd::prelude::*;
use core::cmp::Ordering;
use std::collections::BTreeSet;
verus! {
//@include shims/duration.rs
//@include shims/duration_ops.rs
//@include shims/uuid.rs
//@include shims/offsetdatetime.rs
//@include shims/time_ops.rs
//@include shims/std_option.rs
pub mod time { pub use super::OffsetDateTime; }
#[derive(Clone, Copy)] pub struct AttrString { pub o: u64 }
//@extract Attribute
// ---- real protocol / server enums and token structs, extracted from /repo ----
//@extract UatPurpose
#[derive(Clone, Copy, PartialEq, Eq, PartialOrd, Ord)]
pub enum UiHint { A, B }
//@extract UserAuthToken
//@extract ApiTokenPurpose
//@extract ApiToken
pub mod kanidm_proto { pub mod internal { pub use super::super::ApiToken; } }
//@extract AccessScope
//@extract PreValidatedTokenStatus
//@extract ClientAuthInfo
pub enum OperationError { SessionExpired, NoMatchingEntries, NotAuthenticated, KP0031KeyObjectNotFound, Other }
pub struct Source { pub o: u8 }
pub struct ClientCertInfo { pub o: u8 }
pub struct Limits { pub search_max_results: usize, pub search_max_filter_test: usize }
impl Limits {
    #[verifier::external_body] pub fn default() -> (r: Limits) { unimplemented!() }
    #[verifier::external_body] pub fn api_token() -> (r: Limits) { unimplemented!() }
}
pub fn kvx_try_into_usize(v: u64) -> (r: Option<usize>) { if v <= usize::MAX as u64 { Some(v as usize) } else { None } }
// "read-only API tokens are always read-only" (proved in C33's unit); here only the conversion's existence matters
impl vstd::std_specs::convert::FromSpecImpl<&ApiTokenPurpose> for AccessScope {
    open spec fn obeys_from_spec() -> bool { true }
    open spec fn from_spec(p: &ApiTokenPurpose) -> AccessScope { match p { ApiTokenPurpose::ReadOnly => AccessScope::ReadOnly, ApiTokenPurpose::ReadWrite => AccessScope::ReadWrite, ApiTokenPurpose::Synchronise => AccessScope::Synchronise } }
}
impl From<&ApiTokenPurpose> for AccessScope {
    #[verifier::external_body] fn from(p: &ApiTokenPurpose) -> (r: AccessScope) { unimplemented!() }
}
// ---- entries ----
#[derive(Clone, Copy)] pub struct ApiTokenScope { pub o: u8 }
impl ApiTokenScope { #[verifier::external_body] pub fn try_into(self) -> (r: Result<ApiTokenPurpose, ()>) { unimplemented!() } }
// valueset ApiToken record: the fields read here
pub struct ApiTokenRecord { pub label: String, pub expiry: Option<OffsetDateTime>, pub issued_at: OffsetDateTime, pub scope: ApiTokenScope }
pub struct ApiTokenMap { pub o: u8 }
impl ApiTokenMap {
    pub uninterp spec fn m(&self) -> Map<Uuid, ApiTokenRecord>;
    #[verifier::external_body] pub fn get(&self, k: &Uuid) -> (r: Option<&ApiTokenRecord>) ensures r is Some == self.m().contains_key(*k), r matches Some(x) ==> *x == self.m()[*k] { unimplemented!() }
}
pub struct EntrySealedCommitted { pub o: int }
impl EntrySealedCommitted {
    pub uninterp spec fn uuid(&self) -> Uuid;
    pub uninterp spec fn apitokens(&self) -> Option<Map<Uuid, ApiTokenRecord>>;
    #[verifier::external_body] pub fn get_uuid(&self) -> (r: Uuid) ensures r == self.uuid() { unimplemented!() }
    #[verifier::external_body] pub fn get_ava_as_apitoken_map(&self, a: Attribute) -> (r: Option<&ApiTokenMap>)
        ensures a == Attribute::ApiTokenSession ==> ((r is Some) == (self.apitokens() is Some) && (r matches Some(x) ==> Some(x.m()) == self.apitokens())) { unimplemented!() }
}
pub struct Arc<T> { pub v: T }
impl Arc<EntrySealedCommitted> {
    pub fn get_uuid(&self) -> (r: Uuid) ensures r == self.v.uuid() { self.v.get_uuid() }
    pub fn get_ava_as_apitoken_map(&self, a: Attribute) -> (r: Option<&ApiTokenMap>)
        ensures a == Attribute::ApiTokenSession ==> ((r is Some) == (self.v.apitokens() is Some) && (r matches Some(x) ==> Some(x.m()) == self.v.apitokens())) { self.v.get_ava_as_apitoken_map(a) }
}
pub struct IdentUser { pub entry: Arc<EntrySealedCommitted> }
pub enum IdentType { User(IdentUser), Synch(Uuid), Internal(u8) }
//@extract Identity
impl Identity {
//@extract identity_new
}
//@extract Token
// ---- the statement of C32, per token kind; the two account-side predicates are what unit token_validity proves of the real
// Account::check_user_auth_token_valid / ServiceAccount::check_api_token_valid (validity window, recorded session, grace) ----
pub uninterp spec fn uat_accept(ct: Duration, uat: UserAuthToken, e: EntrySealedCommitted) -> bool;
pub uninterp spec fn apit_accept(ct: Duration, apit: ApiToken, e: EntrySealedCommitted) -> bool;
pub struct Account {}
impl Account {
    #[verifier::external_body] pub fn check_user_auth_token_valid(ct: Duration, uat: &UserAuthToken, entry: &Arc<EntrySealedCommitted>) -> (r: bool)
        ensures r ==> uat_accept(ct, *uat, entry.v) { unimplemented!() }
}
pub struct ServiceAccount {}
impl ServiceAccount {
    #[verifier::external_body] pub fn check_api_token_valid(ct: Duration, apit: &ApiToken, entry: &Arc<EntrySealedCommitted>) -> (r: bool)
        ensures r ==> apit_accept(ct, *apit, entry.v) { unimplemented!() }
}
// ---- signed tokens: the domain key object verifies a compact JWS (signature by a key that is not revoked: C34) ----
pub struct JwsCompact { pub o: int }
pub struct Jws { pub o: int }
pub struct Keys { pub o: int }
// the payload the domain key object accepts for that compact token (None: no valid signature by a usable key)
pub uninterp spec fn verified(k: Keys, t: JwsCompact) -> Option<Jws>;
impl Jws {
    pub uninterp spec fn decodes<T>(&self, t: T) -> bool;          // the payload is the JSON of t
    pub uninterp spec fn raw_uuid(&self) -> Option<Uuid>;          // the payload is the 16 bytes of a uuid
    #[verifier::external_body] pub fn from_json<T>(&self) -> (r: Result<T, ()>) ensures r matches Ok(t) ==> self.decodes(t) { unimplemented!() }
    #[verifier::external_body] pub fn payload(&self) -> (r: &[u8]) ensures bytes_uuid(r@) == self.raw_uuid() { unimplemented!() }
}
pub uninterp spec fn bytes_uuid(b: Seq<u8>) -> Option<Uuid>;
impl Uuid { #[verifier::external_body] pub fn from_slice(b: &[u8]) -> (r: Result<Uuid, ()>) ensures r matches Ok(u) ==> bytes_uuid(b@) == Some(u) { unimplemented!() } }
pub struct KeyObject { pub o: int }
impl KeyObject { pub uninterp spec fn keys(&self) -> Keys; }
impl Arc<KeyObject> {
    #[verifier::external_body] pub fn jws_verify(&self, t: &JwsCompact) -> (r: Result<Jws, OperationError>)
        ensures r matches Ok(j) ==> verified(self.v.keys(), *t) == Some(j) { unimplemented!() }
}
// filters: one constructor is used (the api-token session lookup)
pub enum PartialValue { Refer(Uuid), Other }
pub enum FC { Eq(Attribute, PartialValue) }
pub fn f_eq(a: Attribute, v: PartialValue) -> (r: FC) ensures r == FC::Eq(a, v) { FC::Eq(a, v) }
// filter!(fc) selects live entries only; filter_all!(fc) also recycled and tombstoned ones
pub struct Filter { pub fc: FC, pub live_only: bool }
pub fn kvx_filter(fc: FC) -> (r: Filter) ensures r.fc == fc && r.live_only { Filter { fc, live_only: true } }
pub fn kvx_filter_all(fc: FC) -> (r: Filter) ensures r.fc == fc && !r.live_only { Filter { fc, live_only: false } }
pub struct QueryServerReadTransaction { pub o: int }
impl QueryServerReadTransaction {
    pub uninterp spec fn keys(&self) -> Keys;                      // the domain key object of this transaction
    pub uninterp spec fn entry(&self, u: Uuid) -> Option<EntrySealedCommitted>;      // the LIVE entry with that uuid (existing account)
    #[verifier::external_body] pub fn get_domain_key_object_handle(&self) -> (r: Result<Arc<KeyObject>, OperationError>)
        ensures r matches Ok(h) ==> h.v.keys() == self.keys() { unimplemented!() }
    #[verifier::external_body] pub fn internal_search_uuid(&mut self, uuid: Uuid) -> (r: Result<Arc<EntrySealedCommitted>, OperationError>)
        ensures r matches Ok(e) ==> (e.v.uuid() == uuid && old(self).entry(uuid) == Some(e.v)), *final(self) == *old(self) { unimplemented!() }
    // search by `api_token_session = session`: live entries that carry that session
    #[verifier::external_body] pub fn internal_search(&mut self, f: Filter) -> (r: Result<Vec<Arc<EntrySealedCommitted>>, OperationError>)
        ensures *final(self) == *old(self),
                r matches Ok(v) ==> (f.live_only ==> forall|i: int| 0 <= i < v@.len() ==> old(self).entry((#[trigger] v@[i]).v.uuid()) == Some(v@[i].v)) { unimplemented!() }
}
pub struct IdmTxn { pub qs: QueryServerReadTransaction }
// what C32 requires of an accepted bearer token
pub open spec fn not_expired(exp: Option<OffsetDateTime>, ct: Duration) -> bool { exp matches Some(e) ==> ct.ns() <= e.unix_ns }
pub open spec fn has_api_session(e: EntrySealedCommitted, id: Uuid) -> bool { match e.apitokens() { Some(m) => m.contains_key(id), None => false } }
pub open spec fn token_ok(keys: Keys, ct: Duration, jwsu: JwsCompact, t: Token) -> bool {
    verified(keys, jwsu) matches Some(j) && match t {
        Token::UserAuthToken(uat) => j.decodes(uat) && not_expired(uat.expiry, ct),
        Token::ApiToken(apit, e) => not_expired(apit.expiry, ct) && e.v.uuid() == apit.account_id
            && (j.decodes(apit) || (j.raw_uuid() == Some(apit.token_id) && has_api_session(e.v, apit.token_id))),
    }
}
// the identity an accepted user token / api token yields: the account entry of this transaction, accepted by the account-side check
pub open spec fn uat_identity(qs: QueryServerReadTransaction, ct: Duration, uat: UserAuthToken, i: Identity) -> bool {
    i.origin matches IdentType::User(u) && qs.entry(uat.uuid) == Some(u.entry.v) && uat_accept(ct, uat, u.entry.v) && i.session_id == uat.session_id
}
pub open spec fn apit_identity(ct: Duration, apit: ApiToken, e: Arc<EntrySealedCommitted>, i: Identity) -> bool {
    i.origin matches IdentType::User(u) && u.entry == e && apit_accept(ct, apit, e.v) && i.session_id == apit.token_id
}
pub open spec fn bearer_accepts(qs: QueryServerReadTransaction, ct: Duration, tok: JwsCompact, i: Identity) -> bool {
    (exists|uat: UserAuthToken| #[trigger] token_ok(qs.keys(), ct, tok, Token::UserAuthToken(uat)) && uat_identity(qs, ct, uat, i))
    || (exists|apit: ApiToken, e: Arc<EntrySealedCommitted>| #[trigger] token_ok(qs.keys(), ct, tok, Token::ApiToken(apit, e)) && qs.entry(apit.account_id) == Some(e.v) && apit_identity(ct, apit, e, i))
}
pub open spec fn time_ok(ct: Duration) -> bool { ct.wf() && ct.ns() < 0x1000_0000_0000_0000_0000_0000 }
impl IdmTxn {
    pub fn get_qs_txn(&mut self) -> (r: &mut QueryServerReadTransaction) ensures *r == old(self).qs, final(self).qs == *final(r) { &mut self.qs }
    // certificate authentication: not a bearer token (outside C32)
    #[verifier::external_body] pub fn client_certificate_to_identity(&mut self, c: &ClientCertInfo, ct: Duration, source: Source) -> (r: Result<Identity, OperationError>) { unimplemented!() }
//@extract validate_and_parse_token_to_identity_token
//@extract process_uat_to_identity
//@extract process_apit_to_identity
//@extract validate_client_auth_info_to_ident
}
}
fn main(){}
