use vstd::prelude::*;
use core::cmp::Ordering;
use std::sync::Arc;
verus! {
//@include shims/uuid.rs
//@include shims/kvx_btreemap.rs
//@include shims/std_option.rs
#[derive(PartialEq, Eq)] pub enum OperationError { NoMatchingEntries, AccessDenied, Backend }
#[derive(Clone, Copy)] pub struct AttrString { pub o: u64 }
//@extract Attribute
pub enum PartialValue { Refer(Uuid), Uuid(Uuid), Other }
// the filter constructors of filter.rs that are used here (FC is the real enum's shape for these variants)
pub enum FC { Eq(Attribute, PartialValue), Or(Vec<FC>), And(Vec<FC>), AndNot(Box<FC>) }
//@extract f_eq
//@extract f_or
//@extract f_and
//@extract f_andnot
pub struct Filter { pub fc: FC }
pub fn kvx_filter(fc: FC) -> (r: Filter) ensures r.fc == fc { Filter { fc } }          // filter!(fc)
pub fn kvx_filter_all(fc: FC) -> (r: Filter) ensures r.fc == fc { Filter { fc } }      // filter_all!(fc)
pub fn kvx_f_and_arr<const N: usize>(a: [FC; N]) -> (r: FC) ensures r matches FC::And(l) && l@ == a@ { FC::And(kvx_arr_vec(a)) }
#[verifier::external_body] pub fn kvx_arr_vec<T, const N: usize>(a: [T; N]) -> (r: Vec<T>) ensures r@ == a@ { unimplemented!() }
pub struct EntrySealedCommitted { pub o: int }
impl EntrySealedCommitted {
    pub uninterp spec fn uuid(&self) -> Uuid;
    pub uninterp spec fn masked(&self) -> bool;
    pub uninterp spec fn parent(&self) -> Option<Uuid>;
    #[verifier::external_body] pub fn get_uuid(&self) -> (r: Uuid) ensures r == self.uuid() { unimplemented!() }
    #[verifier::external_body] pub fn mask_recycled_ts(&self) -> (r: Option<&EntrySealedCommitted>) ensures r is None == self.masked() { unimplemented!() }
    #[verifier::external_body] pub fn get_ava_single_refer(&self, a: Attribute) -> (r: Option<Uuid>) ensures a == Attribute::SyncParentUuid ==> r == self.parent() { unimplemented!() }
}
pub struct ScimEntry { pub id: Uuid }
//@extract ScimSyncRetentionMode
// `uuids.iter().copied().map(|u| f_eq(Uuid, u)).collect()` / `map.keys().copied().map(..).collect()`
#[verifier::external_body] pub fn kvx_uuid_terms(v: &Vec<Uuid>) -> (r: Vec<FC>) ensures r@.len() == v@.len() { unimplemented!() }
#[verifier::external_body] pub fn kvx_key_terms(m: &BTreeMap<Uuid, &ScimEntry>) -> (r: Vec<FC>) ensures r@.len() == m@.dom().len() { unimplemented!() }
// `delete_cands.into_iter().filter_map(step).collect::<Result<Vec<_>, _>>()`
// each collected term is what cand_step (the closure-converted candidate step, below) returns for one candidate: stated through
// that function's own postcondition (call_ensures), so phase 4 is judged against what the step really guarantees
#[verifier::external_body] pub fn kvx_delete_terms(c: Vec<Arc<EntrySealedCommitted>>, sync_uuid: Uuid) -> (r: Result<Vec<FC>, OperationError>)
    ensures r matches Ok(ts) ==> forall|k: int| 0 <= k < ts@.len() ==> produced_by_step(c@, sync_uuid, #[trigger] ts@[k]) { unimplemented!() }
pub open spec fn produced_by_step(c: Seq<Arc<EntrySealedCommitted>>, sync_uuid: Uuid, t: FC) -> bool { exists|i: int| 0 <= i < c.len() && #[trigger] call_ensures(cand_step, (sync_uuid, c[i]), Some(Ok::<FC, OperationError>(t))) }
pub open spec fn cand_term(e: EntrySealedCommitted, sync_uuid: Uuid, t: FC) -> bool { t == FC::Eq(Attribute::Uuid, PartialValue::Uuid(e.uuid())) && e.parent() == Some(sync_uuid) }

// ---- what the statement of C50 allows an agreement to delete: only entries it owns. A delete is issued through a filter; the
// filter must be a conjunction whose first term is `sync_parent_uuid = this agreement` ----
// the agreement that owns the entry with that uuid in this transaction's view (ghost)
pub uninterp spec fn entry_parent(u: Uuid) -> Option<Uuid>;
pub open spec fn owned_uuid_term(t: FC, sync_uuid: Uuid) -> bool { t matches FC::Eq(Attribute::Uuid, PartialValue::Uuid(u)) && entry_parent(u) == Some(sync_uuid) }
// a term that only entries of this agreement can match: `sync_parent_uuid = agreement`, or a disjunction of uuids of entries it owns
pub open spec fn owned_term(t: FC, sync_uuid: Uuid) -> bool {
    t == FC::Eq(Attribute::SyncParentUuid, PartialValue::Refer(sync_uuid))
    || (t matches FC::Or(ts) && forall|k: int| 0 <= k < ts@.len() ==> owned_uuid_term(#[trigger] ts@[k], sync_uuid))
}
pub open spec fn owned_delete(f: Filter, sync_uuid: Uuid) -> bool {
    owned_term(f.fc, sync_uuid) || (f.fc matches FC::And(l) && exists|j: int| 0 <= j < l@.len() && owned_term(#[trigger] l@[j], sync_uuid))
}
pub open spec fn log_extends<T>(old_log: Seq<T>, new_log: Seq<T>) -> bool {
    old_log.len() <= new_log.len() && forall|i: int| 0 <= i < old_log.len() ==> #[trigger] new_log[i] == old_log[i]
}
pub struct QueryServerWriteTransaction { pub o: u8 }
impl QueryServerWriteTransaction {
    pub uninterp spec fn deleted(&self) -> Seq<Filter>;        // ghost log of the delete filters issued
    #[verifier::external_body] pub fn internal_search(&mut self, f: Filter) -> (r: Result<Vec<Arc<EntrySealedCommitted>>, OperationError>)
        ensures final(self).deleted() == old(self).deleted(),
                r matches Ok(v) ==> forall|i: int| 0 <= i < v@.len() ==> entry_parent((#[trigger] v@[i]).uuid()) == v@[i].parent() { unimplemented!() }
    #[verifier::external_body] pub fn internal_delete(&mut self, f: &Filter) -> (r: Result<(), OperationError>)
        ensures final(self).deleted() == old(self).deleted().push(*f) { unimplemented!() }
}
pub struct IdmServerProxyWriteTransaction { pub qs_write: QueryServerWriteTransaction }
//@extract cand_step
impl IdmServerProxyWriteTransaction {
//@extract scim_sync_apply_phase_4
//@extract scim_sync_apply_phase_refresh_cleanup
}
}
fn main(){}
