use vstd::prelude::*;
use core::cmp::Ordering;
verus! {
//@include shims/duration.rs
//@include shims/uuid.rs
//@include shims/kvx_btreemap.rs
//@include shims/std_option.rs
pub enum OperationError { AccessDenied, InvalidSyncState, Backend }
#[derive(Clone, Copy)] pub struct AttrString { pub o: u64 }
//@extract Attribute
#[derive(Clone, Copy)]
//@extract AccessScope
pub struct IdentUser { pub o: u8 }
pub struct InternalRole { pub o: u8 }
//@extract IdentType
pub struct Source { pub o: u8 }
pub struct Limits { pub o: u8 }
pub struct OffsetDateTime { pub o: u8 }
//@extract Identity
impl Identity {
//@extract access_scope
}
//@extract ScimSyncUpdateEvent
pub struct ScimEntry { pub id: Uuid }
//@extract ScimSyncState
//@extract ScimSyncRetentionMode
//@extract ScimSyncRequest
#[verifier::external_body] #[verifier::reject_recursive_types(T)] pub struct BTreeSet<T> { p: core::marker::PhantomData<T> }
pub struct EntrySealedCommitted { pub o: int }
pub struct Arc<T> { pub v: T }
impl Arc<EntrySealedCommitted> {
    #[verifier::external_body] pub fn get_ava_single_private_binary(&self, a: Attribute) -> (r: Option<&[u8]>) { unimplemented!() }
}
#[verifier::external_body] pub fn kvx_bytes_ne(a: &Vec<u8>, b: &[u8]) -> (r: bool) ensures r == !(a@ == b@) { unimplemented!() }
// `sync_entry.get_ava_as_iutf8(SyncYieldAuthority).map(|set| set.iter().map(Attribute::from).collect()).unwrap_or_default()`
#[verifier::external_body] pub fn kvx_authority_set(e: &Arc<EntrySealedCommitted>) -> (r: BTreeSet<Attribute>) { unimplemented!() }
// `changes.entries.iter().map(|e| (e.id, e)).collect::<BTreeMap<_, _>>()`: keyed by the entries' own ids
#[verifier::external_body] pub fn kvx_change_map<'b>(v: &'b Vec<ScimEntry>) -> (r: BTreeMap<Uuid, &'b ScimEntry>)
    ensures forall|k: Uuid| #[trigger] r@.contains_key(k) ==> exists|i: int| 0 <= i < v@.len() && (#[trigger] v@[i]).id == k && *r@[k] == v@[i] { unimplemented!() }
pub struct QueryServerWriteTransaction { pub o: int }
impl QueryServerWriteTransaction {
    #[verifier::external_body] pub fn internal_search_uuid(&mut self, u: Uuid) -> (r: Result<Arc<EntrySealedCommitted>, OperationError>) ensures *final(self) == *old(self) { unimplemented!() }
}
// ---- the phases proved in units sync_phase2 / sync_phase3 / sync_deletes: here only WHICH agreement they are run for matters.
// Each phase call is recorded in a ghost log with the agreement uuid it was given ----
pub enum Phase { P2, Cleanup, P3, P4, P5 }
pub struct IdmServerProxyWriteTransaction { pub qs_write: QueryServerWriteTransaction, pub plog: Ghost<Seq<(Phase, Uuid)>> }
impl IdmServerProxyWriteTransaction {
    pub open spec fn ran(&self) -> Seq<(Phase, Uuid)> { self.plog@ }
    #[verifier::external_body] pub fn scim_sync_apply_phase_2(&mut self, ce: &BTreeMap<Uuid, &ScimEntry>, sync_uuid: Uuid) -> (r: Result<(), OperationError>)
        ensures final(self).ran() == old(self).ran().push((Phase::P2, sync_uuid)) { unimplemented!() }
    #[verifier::external_body] pub fn scim_sync_apply_phase_refresh_cleanup(&mut self, ce: &BTreeMap<Uuid, &ScimEntry>, sync_uuid: Uuid) -> (r: Result<(), OperationError>)
        ensures final(self).ran() == old(self).ran().push((Phase::Cleanup, sync_uuid)) { unimplemented!() }
    #[verifier::external_body] pub fn scim_sync_apply_phase_3(&mut self, ce: &BTreeMap<Uuid, &ScimEntry>, sync_uuid: Uuid, auth: &BTreeSet<Attribute>) -> (r: Result<(), OperationError>)
        ensures final(self).ran() == old(self).ran().push((Phase::P3, sync_uuid)) { unimplemented!() }
    #[verifier::external_body] pub fn scim_sync_apply_phase_4(&mut self, retain: &ScimSyncRetentionMode, sync_uuid: Uuid) -> (r: Result<(), OperationError>)
        ensures final(self).ran() == old(self).ran().push((Phase::P4, sync_uuid)) { unimplemented!() }
    #[verifier::external_body] pub fn scim_sync_apply_phase_5(&mut self, sync_uuid: Uuid, to: &ScimSyncState) -> (r: Result<(), OperationError>)
        ensures final(self).ran() == old(self).ran().push((Phase::P5, sync_uuid)) { unimplemented!() }
    // C50: a sync request acts only for the agreement its identity authenticates as, and only with the synchronise scope
    pub open spec fn acts_for(ident: Identity, u: Uuid) -> bool { ident.origin == IdentType::Synch(u) && ident.scope is Synchronise }
//@extract scim_sync_apply_phase_1
//@extract scim_sync_apply
}
}
fn main(){}
