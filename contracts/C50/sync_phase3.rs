use vstd::prelude::*;
use core::cmp::Ordering;
use vstd::std_specs::iter::IteratorSpec;
verus! {
//@include shims/uuid.rs
//@include shims/std_option.rs
pub enum OperationError { InvalidEntryState, InvalidAttribute, Backend }
#[derive(Clone, Copy)] pub struct AttrString { pub o: u64 }
#[derive(Copy)]
//@extract Attribute
impl Clone for Attribute { fn clone(&self) -> (r: Attribute) ensures r == *self { *self } }
// ---- values / modifications: the constructors used ----
pub enum Value { Refer(Uuid), Iutf8(Seq<char>), Other(int) }
pub enum PartialValue { Refer(Uuid), Other }
pub struct ValueSet { pub o: u8 }
impl Value { #[verifier::external_body] pub fn new_iutf8(s: &str) -> (r: Value) ensures r == Value::Iutf8(s@) { unimplemented!() } }
//@extract Modify
pub struct ModifyInvalid;
#[verifier::reject_recursive_types(S)] pub struct ModifyList<S> { pub mods: Vec<Modify>, pub p: core::marker::PhantomData<S> }
impl ModifyList<ModifyInvalid> {
    pub fn new_list(mods: Vec<Modify>) -> (r: ModifyList<ModifyInvalid>) ensures r.mods@ == mods@ { ModifyList { mods, p: core::marker::PhantomData } }
}
// ---- std collections, observed as finite sets / maps (ASSUMED: documented std semantics) ----
#[verifier::external_body] #[verifier::reject_recursive_types(T)] pub struct BTreeSet<T> { p: core::marker::PhantomData<T> }
impl<T> View for BTreeSet<T> { type V = Set<T>; uninterp spec fn view(&self) -> Set<T>; }
impl<T> BTreeSet<T> {
    #[verifier::external_body] pub fn contains(&self, x: &T) -> (r: bool) ensures r == self@.contains(*x) { unimplemented!() }
}
// `for x in set.iter()` / `for k in map.keys()` / `for (k, v) in map.iter()`: the elements in order, as a vector of references
#[verifier::external_body] pub fn kvx_set_items<T>(s: &BTreeSet<T>) -> (r: Vec<&T>) ensures forall|i: int| 0 <= i < r@.len() ==> s@.contains(*#[trigger] r@[i]) { unimplemented!() }
#[verifier::external_body] #[verifier::reject_recursive_types(K)] #[verifier::reject_recursive_types(V)] pub struct BTreeMap<K, V> { p: core::marker::PhantomData<(K, V)> }
impl<K, V> View for BTreeMap<K, V> { type V = Map<K, V>; uninterp spec fn view(&self) -> Map<K, V>; }
impl<K, V> BTreeMap<K, V> {
    #[verifier::external_body] pub fn is_empty(&self) -> (r: bool) ensures r == (self@.dom() =~= Set::<K>::empty()) { unimplemented!() }
}
#[verifier::external_body] pub fn kvx_map_keys<K, V>(m: &BTreeMap<K, V>) -> (r: Vec<&K>) ensures forall|i: int| 0 <= i < r@.len() ==> m@.contains_key(*#[trigger] r@[i]) { unimplemented!() }
#[verifier::external_body] pub fn kvx_map_pairs<K, V>(m: &BTreeMap<K, V>) -> (r: Vec<(&K, &V)>) ensures forall|i: int| 0 <= i < r@.len() ==> m@.contains_key(*(#[trigger] r@[i]).0) { unimplemented!() }
// ---- schema ----
pub struct SchemaClass { pub name: AttrString, pub sync_allowed: bool, pub systemmay: Vec<Attribute>, pub may: Vec<Attribute>, pub systemmust: Vec<Attribute>, pub must: Vec<Attribute> }
impl SchemaClass { #[verifier::external_body] pub fn clone(&self) -> (r: SchemaClass) ensures r == *self { unimplemented!() } }
pub struct SchemaAttribute { pub name: Attribute, pub phantom: bool, pub sync_allowed: bool }
// the schema snapshot of the transaction (ghost): which attributes exist, with their flags
pub struct Schema { pub o: u8 }
impl Schema {
    pub uninterp spec fn attrs(&self) -> Map<Attribute, SchemaAttribute>;
    #[verifier::external_body] pub fn get_classes(&self) -> (r: &ClassMap) { unimplemented!() }
    #[verifier::external_body] pub fn get_attributes(&self) -> (r: &AttrMap) ensures r.m() == self.attrs() { unimplemented!() }
}
pub struct ClassMap { pub o: u8 }
pub struct AttrMap { pub o: u8 }
impl AttrMap { pub uninterp spec fn m(&self) -> Map<Attribute, SchemaAttribute>; }
// kanidm_proto::scim_v1::{ScimEntry, ScimValue}: the fields read here
pub struct ScimValue { pub o: u8 }
pub struct ScimEntry { pub schemas: Vec<String>, pub id: Uuid, pub attrs: BTreeMap<String, ScimValue> }
pub uninterp spec fn attr_named(s: Seq<char>) -> Attribute;       // Attribute::from(&str)
#[verifier::external_body] pub fn kvx_attr_from(s: &str) -> (r: Attribute) ensures r == attr_named(s@) { unimplemented!() }

// ---- what the statement of C50 allows an agreement to change ----
// synchronisable and not handed over to Kanidm's authority (phantom attributes are the import-only names a sync may always send:
// they never exist on an entry, see the unit's assumptions)
pub open spec fn sync_may_change(sch: Map<Attribute, SchemaAttribute>, authority: Set<Attribute>, a: Attribute) -> bool {
    exists|k: Attribute| #[trigger] sch.contains_key(k) && sch[k].name == a && sch[k].sync_allowed && (!authority.contains(a) || sch[k].phantom)
}
pub open spec fn may_change_set(sch: Map<Attribute, SchemaAttribute>, authority: Set<Attribute>) -> spec_fn(Attribute) -> bool { |a: Attribute| sync_may_change(sch, authority, a) }
pub open spec fn either(x: Set<Attribute>, y: Set<Attribute>) -> spec_fn(Attribute) -> bool { |a: Attribute| x.contains(a) || y.contains(a) }
pub proof fn lemma_mods_ok_mono(ms: Seq<Modify>, sync_uuid: Uuid, a: spec_fn(Attribute) -> bool, b: spec_fn(Attribute) -> bool)
    requires mods_ok(ms, sync_uuid, a), forall|x: Attribute| #[trigger] a(x) ==> b(x)
    ensures mods_ok(ms, sync_uuid, b)
{
    assert forall|i: int| 1 <= i < ms.len() implies mod_ok(#[trigger] ms[i], b) by { assert(mod_ok(ms[i], a)); }
}
// one modification of the batch: the ownership assertion, the class bookkeeping, or a purge / present of an attribute from `allowed`
pub open spec fn mod_ok(m: Modify, allowed: spec_fn(Attribute) -> bool) -> bool {
    match m {
        Modify::Present(a, _) => a == Attribute::SyncClass || a == Attribute::Class || allowed(a),
        Modify::Purged(a) => allowed(a),
        _ => false,
    }
}
pub open spec fn mods_ok(ms: Seq<Modify>, sync_uuid: Uuid, allowed: spec_fn(Attribute) -> bool) -> bool {
    ms.len() > 0 && ms[0] == Modify::Assert(Attribute::SyncParentUuid, PartialValue::Refer(sync_uuid))
    && forall|i: int| 1 <= i < ms.len() ==> mod_ok(#[trigger] ms[i], allowed)
}
pub open spec fn log_extends<T>(old_log: Seq<T>, new_log: Seq<T>) -> bool {
    old_log.len() <= new_log.len() && forall|i: int| 0 <= i < old_log.len() ==> #[trigger] new_log[i] == old_log[i]
}
// ---- the write transaction ----
pub struct QueryServerWriteTransaction { pub o: u8 }
impl QueryServerWriteTransaction {
    pub uninterp spec fn schema(&self) -> Schema;
    pub uninterp spec fn modified(&self) -> Seq<(Uuid, ModifyList<ModifyInvalid>)>;
    #[verifier::external_body] pub fn get_schema(&self) -> (r: &Schema) ensures *r == self.schema() { unimplemented!() }
    #[verifier::external_body] pub fn internal_batch_modify(&mut self, it: Vec<(Uuid, ModifyList<ModifyInvalid>)>) -> (r: Result<(), OperationError>)
        ensures final(self).modified() == old(self).modified() + it@, final(self).schema() == old(self).schema() { unimplemented!() }
}
pub struct IdmServerProxyWriteTransaction { pub qs_write: QueryServerWriteTransaction }
// ---- the iterator pipelines, as stand-ins stated through the closures that are checked below ----
// `scim_ent.schemas.iter().map(|schema| strip prefix, look up in sync_allow_class_set).collect::<Result<BTreeMap<..>>>()`
#[verifier::external_body] pub fn kvx_requested_classes<'a>(schemas: &'a Vec<String>, allow: &'a BTreeMap<String, SchemaClass>) -> (r: Result<BTreeMap<&'a String, &'a SchemaClass>, OperationError>) { unimplemented!() }
// requested_classes.values().flat_map(class attrs).filter(|a| allow.contains(a)).chain(phantom.iter()).cloned().collect():
// an attribute that passes the filter, or a phantom one
#[verifier::external_body] pub fn kvx_sync_owned<'a, F: Fn(&&Attribute) -> bool>(rc: &BTreeMap<&'a String, &'a SchemaClass>, filt: F, phantom: &BTreeSet<Attribute>) -> (r: BTreeSet<Attribute>)
    requires forall|a: &&Attribute| f_requires_any(filt, a),
    ensures forall|a: Attribute| #[trigger] r@.contains(a) ==> (phantom@.contains(a) || exists|ar: &&Attribute| **ar == a && #[trigger] filt.ensures((ar,), true)) { unimplemented!() }
pub open spec fn f_requires_any<F: Fn(&&Attribute) -> bool>(f: F, a: &&Attribute) -> bool { f.requires((a,)) }
// mods.extend(values.into_iter().map(|val| Modify::Present(name.clone(), val)))
#[verifier::external_body] pub fn kvx_extend_present(mods: &mut Vec<Modify>, name: &Attribute, values: Vec<Value>)
    ensures final(mods)@.len() == old(mods)@.len() + values@.len(),
            forall|i: int| 0 <= i < old(mods)@.len() ==> #[trigger] final(mods)@[i] == old(mods)@[i],
            forall|i: int| old(mods)@.len() <= i < final(mods)@.len() ==> #[trigger] final(mods)@[i] == present_spec(*name, values@[i - old(mods)@.len()]) { unimplemented!() }
pub open spec fn present_spec(a: Attribute, v: Value) -> Modify { Modify::Present(a, v) }
// attr_snapshot.values().filter_map(f).collect::<BTreeSet<_>>(): exactly the Some results of f over the schema's attributes
#[verifier::external_body] pub fn kvx_attr_filter_map<F: Fn(&SchemaAttribute) -> Option<Attribute>>(m: &AttrMap, f: F) -> (r: BTreeSet<Attribute>)
    requires forall|s: &SchemaAttribute| #[trigger] f.requires((s,)),
    ensures forall|a: Attribute| #[trigger] r@.contains(a) ==> exists|k: Attribute| m.m().contains_key(k) && #[trigger] f.ensures((&m.m()[k],), Some(a)) { unimplemented!() }
#[verifier::external_body] pub fn kvx_class_filter_map(m: &ClassMap) -> (r: BTreeMap<String, SchemaClass>) { unimplemented!() }
// change_entries.iter().map(|(u, e)| self.scim_entry_to_mod(e, ..).map(|m| (*u, m))).collect::<Result<Vec<_>, _>>()
impl IdmServerProxyWriteTransaction {
    #[verifier::external_body] pub fn kvx_asserts(&mut self, ce: &BTreeMap<Uuid, &ScimEntry>, sync_uuid: Uuid, cls: &BTreeMap<String, SchemaClass>, allow: &BTreeSet<Attribute>, phantom: &BTreeSet<Attribute>) -> (r: Result<Vec<(Uuid, ModifyList<ModifyInvalid>)>, OperationError>)
        ensures final(self).qs_write == old(self).qs_write,
                r matches Ok(v) ==> forall|i: int| 0 <= i < v@.len() ==> ce@.contains_key((#[trigger] v@[i]).0) && mods_ok(v@[i].1.mods@, sync_uuid, either(allow@, phantom@)) { unimplemented!() }
    #[verifier::external_body] pub fn scim_attr_to_values(&mut self, name: &Attribute, v: &ScimValue) -> (r: Result<Vec<Value>, OperationError>)
        ensures final(self).qs_write == old(self).qs_write { unimplemented!() }
//@extract scim_entry_to_mod
//@extract assert_step
//@extract scim_sync_apply_phase_3
}
//@extract present_of
}
fn main(){}
