use vstd::prelude::*;
use core::cmp::Ordering;
use std::sync::Arc;
verus! {
//@include shims/uuid.rs
//@include shims/kvx_btreemap.rs
//@include shims/std_option.rs
pub enum OperationError { InvalidEntryState, Backend }
pub const DYNAMIC_RANGE_MINIMUM_UUID: Uuid = Uuid(@@constexpr:DYNAMIC_RANGE_MINIMUM_UUID:uuid!\("([0-9a-f-]+)"\):uuidhex@@);
#[derive(Clone, Copy)] pub struct AttrString { pub o: u64 }
//@extract Attribute
// ---- values: the constructors this function uses ----
pub enum EntryClass { Object, SyncObject }
pub enum Value { Class(EntryClass), Refer(Uuid), Uuid(Uuid), Iutf8(String) }
pub enum PartialValue { Refer(Uuid), Uuid(Uuid), Other }
pub struct ValueSet { pub o: u8 }
impl EntryClass { pub fn to_value(self) -> (r: Value) ensures r == Value::Class(self) { Value::Class(self) } }
impl Value { #[verifier::external_body] pub fn new_iutf8(s: &str) -> (r: Value) ensures r is Iutf8 { unimplemented!() } }
//@extract Modify
pub struct ModifyInvalid;
#[verifier::reject_recursive_types(S)] pub struct ModifyList<S> { pub mods: Vec<Modify>, pub p: core::marker::PhantomData<S> }
impl ModifyList<ModifyInvalid> {
    pub fn new_list(mods: Vec<Modify>) -> (r: ModifyList<ModifyInvalid>) ensures r.mods@ == mods@ { ModifyList { mods, p: core::marker::PhantomData } }
}
// ---- entries ----
// a new entry is the list of (attribute, value) pairs given to entry_init!
#[verifier::external_body] pub struct EntryInitNew { p: u8 }
impl EntryInitNew { pub uninterp spec fn avas(&self) -> Seq<(Attribute, Value)>; }
#[verifier::external_body] pub fn kvx_entry_init(a: (Attribute, Value), b: (Attribute, Value), c: (Attribute, Value), d: (Attribute, Value)) -> (r: EntryInitNew)
    ensures r.avas() == seq![a, b, c, d] { unimplemented!() }
pub struct EntrySealedCommitted { pub o: int }
impl EntrySealedCommitted {
    pub uninterp spec fn uuid(&self) -> Uuid;
    pub uninterp spec fn masked(&self) -> bool;
    #[verifier::external_body] pub fn get_uuid(&self) -> (r: Uuid) ensures r == self.uuid() { unimplemented!() }
    #[verifier::external_body] pub fn mask_recycled_ts(&self) -> (r: Option<&EntrySealedCommitted>) ensures r is None == self.masked() { unimplemented!() }
}
// kanidm_proto::scim_v1::ScimEntry: the fields read here
pub struct ScimEntry { pub id: Uuid, pub external_id: Option<String> }
// ---- filters: opaque here (which entries already exist does not matter to what may be created) ----
pub struct FC { pub o: u8 }
pub struct Filter { pub o: u8 }
#[verifier::external_body] pub fn f_or(l: Vec<FC>) -> (r: FC) { unimplemented!() }
#[verifier::external_body] pub fn kvx_filter_all(f: FC) -> (r: Filter) { unimplemented!() }
// `change_entries.keys().copied().map(|u| f_eq(Uuid, u)).collect()`
#[verifier::external_body] pub fn kvx_uuid_terms(m: &BTreeMap<Uuid, &ScimEntry>) -> (r: Vec<FC>) { unimplemented!() }

// ---- what the statement of C50 allows an agreement to create and to change ----
// a created entry lies outside the reserved system uuid range, is a sync object, and is owned by this agreement
pub open spec fn created_ok(e: EntryInitNew, sync_uuid: Uuid) -> bool {
    &&& forall|i: int| 0 <= i < e.avas().len() && (#[trigger] e.avas()[i]).0 == Attribute::Uuid ==> (e.avas()[i].1 matches Value::Uuid(u) && u.0 >= DYNAMIC_RANGE_MINIMUM_UUID.0)
    &&& exists|i: int| 0 <= i < e.avas().len() && (#[trigger] e.avas()[i]).0 == Attribute::Uuid
    &&& e.avas().contains((Attribute::SyncParentUuid, Value::Refer(sync_uuid)))
    &&& e.avas().contains((Attribute::Class, Value::Class(EntryClass::SyncObject)))
}
// a modification applies only to an entry owned by this agreement: it starts by asserting the parent
pub open spec fn own_mods(ml: ModifyList<ModifyInvalid>, sync_uuid: Uuid) -> bool {
    ml.mods@.len() > 0 && ml.mods@[0] == Modify::Assert(Attribute::SyncParentUuid, PartialValue::Refer(sync_uuid))
}
pub open spec fn log_extends<T>(old_log: Seq<T>, new_log: Seq<T>) -> bool {
    old_log.len() <= new_log.len() && forall|i: int| 0 <= i < old_log.len() ==> #[trigger] new_log[i] == old_log[i]
}
// ---- the write transaction: ghost logs of what was created / modified through it ----
pub struct ModIter { pub o: u8 }
impl ModIter { pub uninterp spec fn items(&self) -> Seq<(Uuid, ModifyList<ModifyInvalid>)>; }
pub struct QueryServerWriteTransaction { pub o: u8 }
impl QueryServerWriteTransaction {
    pub uninterp spec fn created(&self) -> Seq<EntryInitNew>;
    pub uninterp spec fn modified(&self) -> Seq<(Uuid, ModifyList<ModifyInvalid>)>;
    #[verifier::external_body] pub fn internal_search(&mut self, f: Filter) -> (r: Result<Vec<Arc<EntrySealedCommitted>>, OperationError>)
        ensures final(self).created() == old(self).created(), final(self).modified() == old(self).modified() { unimplemented!() }
    #[verifier::external_body] pub fn internal_create(&mut self, es: Vec<EntryInitNew>) -> (r: Result<(), OperationError>)
        ensures final(self).created() == old(self).created() + es@, final(self).modified() == old(self).modified() { unimplemented!() }
    #[verifier::external_body] pub fn internal_batch_modify(&mut self, it: ModIter) -> (r: Result<(), OperationError>)
        ensures final(self).created() == old(self).created(), final(self).modified() == old(self).modified() + it.items() { unimplemented!() }
}
pub struct IdmServerProxyWriteTransaction { pub qs_write: QueryServerWriteTransaction }
// ---- the iterator pipelines of phase 2, each specified through the closure-converted step that is checked below ----
// `existing_entries.iter().for_each(|e| if masked { fail = true })`
#[verifier::external_body] pub fn kvx_each_mask(es: &Vec<Arc<EntrySealedCommitted>>, fail: &mut bool)
    ensures *final(fail) == (*old(fail) || exists|i: int| 0 <= i < es@.len() && (#[trigger] es@[i]).masked()) { unimplemented!() }
// `existing_entries.iter().for_each(|entry| { missing_scim.remove(&entry.get_uuid()); })`
#[verifier::external_body] pub fn kvx_each_remove<'a>(es: &Vec<Arc<EntrySealedCommitted>>, m: &mut BTreeMap<Uuid, &'a ScimEntry>)
    ensures forall|k: Uuid| #[trigger] final(m)@.contains_key(k) ==> old(m)@.contains_key(k) && final(m)@[k] == old(m)@[k] { unimplemented!() }
// `map.keys().any(f)`: std semantics in both directions, through the closure's own contract
#[verifier::external_body] pub fn kvx_keys_any<V, F: Fn(&Uuid) -> bool>(m: &BTreeMap<Uuid, V>, f: F) -> (r: bool)
    requires forall|k: Uuid| f.requires((&k,)),
    ensures r ==> exists|k: Uuid| m@.contains_key(k) && #[trigger] f.ensures((&k,), true),
            !r ==> forall|k: Uuid| #[trigger] m@.contains_key(k) ==> f.ensures((&k,), false) { unimplemented!() }
// `missing_scim.keys().copied().map(|u| entry_init!(..)).collect()`: one stub_of(u) per key
#[verifier::external_body] pub fn kvx_stubs<'a>(m: &BTreeMap<Uuid, &'a ScimEntry>, sync_uuid: Uuid) -> (r: Vec<EntryInitNew>)
    ensures r@.len() == m@.dom().len(), forall|i: int| 0 <= i < r@.len() ==> stub_of_some_key(#[trigger] r@[i], m@, sync_uuid) { unimplemented!() }
// `change_entries.iter().filter_map(|(u, scim_ent)| ..)`: extid_mod of some pair, for each item
#[verifier::external_body] pub fn kvx_extid_mods<'a>(m: &BTreeMap<Uuid, &'a ScimEntry>, sync_uuid: Uuid) -> (r: ModIter)
    ensures forall|i: int| 0 <= i < r.items().len() ==> m@.contains_key((#[trigger] r.items()[i]).0) && own_mods(r.items()[i].1, sync_uuid) { unimplemented!() }
// stated through the closure-converted stub_of's own postcondition (call_ensures): phase 2 is judged against what the step really guarantees
pub open spec fn stub_of_some_key(e: EntryInitNew, m: Map<Uuid, &ScimEntry>, sync_uuid: Uuid) -> bool { exists|u: Uuid| m.contains_key(u) && #[trigger] call_ensures(stub_of, (sync_uuid, u), e) }
// what matters of the stub the code builds for uuid u: its only uuid value is u, it names this agreement as parent, it is a sync object
pub open spec fn stub_spec(e: EntryInitNew, sync_uuid: Uuid, u: Uuid) -> bool {
    &&& forall|i: int| 0 <= i < e.avas().len() && (#[trigger] e.avas()[i]).0 == Attribute::Uuid ==> e.avas()[i].1 == Value::Uuid(u)
    &&& exists|i: int| 0 <= i < e.avas().len() && (#[trigger] e.avas()[i]).0 == Attribute::Uuid
    &&& e.avas().contains((Attribute::SyncParentUuid, Value::Refer(sync_uuid)))
    &&& e.avas().contains((Attribute::Class, Value::Class(EntryClass::SyncObject)))
}
pub proof fn lemma_stub_ok(e: EntryInitNew, sync_uuid: Uuid, u: Uuid)
    requires stub_spec(e, sync_uuid, u), u.0 >= DYNAMIC_RANGE_MINIMUM_UUID.0
    ensures created_ok(e, sync_uuid)
{
}
//@extract mask_step
//@extract remove_step
//@extract stub_of
//@extract extid_mod
impl IdmServerProxyWriteTransaction {
//@extract scim_sync_apply_phase_2
}
}
fn main(){}
