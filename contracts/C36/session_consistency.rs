use vstd::prelude::*;
use core::cmp::Ordering;
verus! {
//@include shims/duration.rs
//@include shims/duration_ops.rs
//@include shims/uuid.rs
//@include shims/offsetdatetime.rs
//@include shims/kvx_btreemap.rs
//@include shims/std_option.rs
pub const AUTH_TOKEN_GRACE_WINDOW: Duration = Duration { secs: @@constexpr:AUTH_TOKEN_GRACE_WINDOW:Duration::from_secs\((.*)\)@@, nanos: 0 };
pub enum OperationError { Other }
// time::OffsetDateTime + Duration: the instant that many nanoseconds later (time's documented meaning; ASSUMED, with no range
// precondition here: time panics on overflow of its year range, it never wraps)
impl vstd::std_specs::ops::AddSpecImpl<Duration> for OffsetDateTime {
    open spec fn obeys_add_spec() -> bool { true }
    open spec fn add_req(self, rhs: Duration) -> bool { true }
    open spec fn add_spec(self, rhs: Duration) -> OffsetDateTime { OffsetDateTime { unix_ns: (self.unix_ns + rhs.ns()) as i128 } }
}
impl core::ops::Add<Duration> for OffsetDateTime { type Output = OffsetDateTime;
    #[verifier::external_body] fn add(self, rhs: Duration) -> (r: OffsetDateTime) ensures r.unix_ns == self.unix_ns + rhs.ns() { unimplemented!() } }
pub enum Attribute { PrimaryCredential, PassKeys, AttestedPasskeys, OAuth2AccountCredentialUuid, UserAuthTokenSession, OAuth2Session, Other }
pub struct Cid { pub ts: Duration, pub s_uuid: Uuid }
impl Cid { #[verifier::external_body] pub fn clone(&self) -> (r: Cid) ensures r == *self { unimplemented!() } }
pub enum PartialValue { Refer(Uuid), Other(u8) }
pub struct IdentityId { pub o: u8 }
pub struct SessionScope { pub o: u8 }
pub struct AuthType { pub o: u8 }
pub struct SessionExtMetadata { pub o: u8 }
// ---- real types extracted from /repo ----
//@extract SessionState
//@extract Session
//@extract Oauth2Session
//@extract ValueSetSession
//@extract ValueSetOauth2Session
// std BTreeSet<K> viewed as a set
#[verifier::external_body] #[verifier::reject_recursive_types(K)] pub struct BTreeSet<K> { p: core::marker::PhantomData<K> }
impl<K> View for BTreeSet<K> { type V = Set<K>; uninterp spec fn view(&self) -> Set<K>; }
impl<K> BTreeSet<K> { #[verifier::external_body] pub fn contains(&self, k: &K) -> (r: bool) ensures r == self@.contains(*k) { unimplemented!() } }
// `map.iter().filter_map(f).collect::<BTreeSet<_>>()` over a BTreeMap: exactly the Some(..) results of f on the map's pairs (std
// documentation), stated in both directions through a ghost function that f's CHECKED contract must equal
#[verifier::external_body] #[verifier::reject_recursive_types(B)] pub struct KvxCollected<B> { p: core::marker::PhantomData<B> }
impl<B> KvxCollected<B> { pub uninterp spec fn outs(&self) -> Set<B>;
    #[verifier::external_body] pub fn collect(self) -> (r: BTreeSet<B>) ensures r@ == self.outs() { unimplemented!() } }
impl<V> BTreeMap<Uuid, V> {
    #[verifier::external_body] pub fn kvx_filter_map<'a, B, F: Fn((&'a Uuid, &'a V)) -> Option<B>>(&'a self, g: Ghost<spec_fn(Uuid, V) -> Option<B>>, f: F) -> (r: KvxCollected<B>)
        requires forall|k: &'a Uuid, v: &'a V| #[trigger] f.requires(((k, v),)),
                 forall|k: &'a Uuid, v: &'a V, o: Option<B>| #[trigger] f.ensures(((k, v),), o) ==> o == g@(*k, *v),
        ensures forall|b: B| #[trigger] r.outs().contains(b) <==> exists|k: Uuid| #[trigger] self@.contains_key(k) && g@(k, self@[k]) == Some(b) { unimplemented!() }
}
// ---- the entry being modified (Entry<EntryInvalid, T>): ghost views of the three attributes the plugin reads / writes ----
pub struct EntryInvalid;
#[verifier::external_body] #[verifier::reject_recursive_types(V)] #[verifier::reject_recursive_types(S)] pub struct Entry<V, S> { p: core::marker::PhantomData<(V, S)> }
impl<V, S> Entry<V, S> {
    pub uninterp spec fn cred_ids(&self) -> Set<Uuid>;              // uuids of the credentials the account holds now: primary, passkeys, attested passkeys, OAuth2 trust credential
    pub uninterp spec fn sessions(&self) -> Option<Map<Uuid, Session>>;
    pub uninterp spec fn oauth2(&self) -> Option<Map<Uuid, Oauth2Session>>;
    // R3: the four-way chained iterator over the credential attributes is redirected here
    #[verifier::external_body] pub fn kvx_cred_ids(&self) -> (r: BTreeSet<Uuid>) ensures r@ == self.cred_ids() { unimplemented!() }
    #[verifier::external_body] pub fn get_ava_as_session_map(&self, a: Attribute) -> (r: Option<&BTreeMap<Uuid, Session>>)
        ensures a is UserAuthTokenSession ==> ((r is Some) == (self.sessions() is Some) && (r is Some ==> r->Some_0@ == self.sessions()->Some_0)) { unimplemented!() }
    #[verifier::external_body] pub fn get_ava_as_oauth2session_map(&self, a: Attribute) -> (r: Option<&BTreeMap<Uuid, Oauth2Session>>)
        ensures a is OAuth2Session ==> ((r is Some) == (self.oauth2() is Some) && (r is Some ==> r->Some_0@ == self.oauth2()->Some_0)) { unimplemented!() }
    // Entry::remove_avas: applies ValueSet::remove(value, cid) for every value to the attribute's value set. For session value sets that
    // is ValueSetSession::remove (under contract below): a recorded, not yet revoked session named by Refer(id) becomes RevokedAt; nothing
    // else changes (ASSUMED for the dyn dispatch; the attribute may disappear only if its set becomes empty, which revocation never causes)
    #[verifier::external_body] pub fn remove_avas(&mut self, a: Attribute, values: &BTreeSet<PartialValue>)
        ensures final(self).cred_ids() == old(self).cred_ids(),
            a is UserAuthTokenSession ==> (final(self).oauth2() == old(self).oauth2() && (old(self).sessions() matches Some(m) ==> (final(self).sessions() matches Some(m2) && m2.dom() == m.dom()
                && forall|id: Uuid| #[trigger] m.contains_key(id) ==> (if values@.contains(PartialValue::Refer(id)) && !(m[id].state is RevokedAt) { m2[id].state is RevokedAt && m2[id].cred_id == m[id].cred_id } else { m2[id] == m[id] })))),
            a is UserAuthTokenSession ==> (old(self).sessions() is None ==> final(self).sessions() is None),
            a is OAuth2Session ==> final(self).sessions() == old(self).sessions(),
            // for the OAuth2 session attribute the value set is ValueSetOauth2Session (valueset/session.rs, remove): a recorded session named
            // by Refer(id) is RevokedAt afterwards, its parent and issue time unchanged; any other session is unchanged or (the rs_uuid
            // branch of that function) revoked; no session appears or disappears (ASSUMED, read off that function)
            a is OAuth2Session ==> (old(self).oauth2() matches Some(m) ==> (final(self).oauth2() matches Some(m2) && m2.dom() == m.dom()
                && forall|id: Uuid| #[trigger] m.contains_key(id) ==> (if values@.contains(PartialValue::Refer(id)) { m2[id].state is RevokedAt && m2[id].parent == m[id].parent && m2[id].issued_at == m[id].issued_at }
                    else { m2[id] == m[id] || (m2[id].state is RevokedAt && m2[id].parent == m[id].parent && m2[id].issued_at == m[id].issued_at) }))),
            a is OAuth2Session ==> (old(self).oauth2() is None ==> final(self).oauth2() is None) { unimplemented!() }
}
// what the three filter_map closures select
pub open spec fn inval(creds: Set<Uuid>, id: Uuid, s: Session) -> Option<PartialValue> {
    if !(s.state is RevokedAt) && !creds.contains(s.cred_id) { Some(PartialValue::Refer(id)) } else { None }
}
pub open spec fn expired_pv(now: OffsetDateTime, id: Uuid, s: Session) -> Option<PartialValue> {
    if s.state matches SessionState::ExpiresAt(exp) && exp.unix_ns <= now.unix_ns { Some(PartialValue::Refer(id)) } else { None }
}
// the OAuth2 clean-up pipeline `map.iter().filter_map(f).collect()`: stated in ONE direction only (std documentation: every Some(..)
// the closure returns for a pair of the map is collected). `due` says for which pairs the statement of C36 demands a result; the
// closure's CHECKED contract must return Some(Refer(id)) for those. What else the closure selects (expired sessions) is left open.
impl<V> BTreeMap<Uuid, V> {
    #[verifier::external_body] pub fn kvx_filter_map_lb<'a, F: Fn((&'a Uuid, &'a V)) -> Option<PartialValue>>(&'a self, due: Ghost<spec_fn(V) -> bool>, f: F) -> (r: KvxCollected<PartialValue>)
        requires forall|k: &'a Uuid, v: &'a V| #[trigger] f.requires(((k, v),)),
                 forall|k: &'a Uuid, v: &'a V, o: Option<PartialValue>| #[trigger] f.ensures(((k, v),), o) && due@(*v) ==> o == Some(PartialValue::Refer(*k)),
        ensures forall|k: Uuid| #[trigger] self@.contains_key(k) && due@(self@[k]) ==> r.outs().contains(PartialValue::Refer(k)) { unimplemented!() }
}
pub open spec fn opt_map_view<V>(o: Option<&BTreeMap<Uuid, V>>) -> Option<Map<Uuid, V>> { match o { Some(m) => Some(m@), None => None } }
// ---- statement of C36, second half ----
// the parent login session `p` is present in the account's session table and not revoked
pub open spec fn parent_live(sess: Option<Map<Uuid, Session>>, p: Uuid) -> bool {
    sess matches Some(m) && m.contains_key(p) && !(m[p].state is RevokedAt)
}
// "an OAuth2 session whose parent login session is revoked or missing stops being usable once the grace window has passed":
// such a session, if not already revoked, is due for revocation at `now`
pub open spec fn o2_due(sess: Option<Map<Uuid, Session>>, now: OffsetDateTime, s: Oauth2Session) -> bool {
    !(s.state is RevokedAt) && s.parent is Some && !parent_live(sess, s.parent->Some_0)
        && s.issued_at.unix_ns + AUTH_TOKEN_GRACE_WINDOW.ns() < now.unix_ns   // strictly past: the statement leaves the boundary instant open
}
// after the plugin step no recorded OAuth2 session is due
pub open spec fn no_orphan_oauth2<V, S>(e: &Entry<V, S>, now: OffsetDateTime) -> bool {
    e.oauth2() matches Some(m) ==> forall|id: Uuid| #[trigger] m.contains_key(id) ==> !o2_due(e.sessions(), now, m[id])
}
// ---- statement of C36, first half ----
// "every login session issued with [a removed] credential is revoked in the same change": after the plugin step no recorded login
// session is both un-revoked and issued by a credential the account no longer holds
pub open spec fn no_orphan_sessions<V, S>(e: &Entry<V, S>) -> bool {
    e.sessions() matches Some(m) ==> forall|id: Uuid| #[trigger] m.contains_key(id) ==> (m[id].state is RevokedAt || e.cred_ids().contains(m[id].cred_id))
}
//@extract session_step
// `cand.iter_mut().try_for_each(step)`: the step applied to every candidate in order, stopping at the first Err (std documentation);
// the step's contract is the one proved for session_step above
#[verifier::external_body] pub fn kvx_try_for_each_session<T>(cand: &mut [Entry<EntryInvalid, T>], now: OffsetDateTime) -> (r: Result<(), OperationError>)
    ensures final(cand)@.len() == old(cand)@.len(),
            r is Ok ==> forall|i: int| 0 <= i < final(cand)@.len() ==> no_orphan_sessions(&#[trigger] final(cand)@[i]),
            r is Ok ==> forall|i: int| 0 <= i < final(cand)@.len() ==> no_orphan_oauth2(&#[trigger] final(cand)@[i], now) { unimplemented!() }
pub struct QueryServerWriteTransaction { pub o: u8 }
impl QueryServerWriteTransaction { pub uninterp spec fn curtime_spec(&self) -> Duration;
    #[verifier::external_body] pub fn get_curtime(&self) -> (r: Duration) ensures r == self.curtime_spec() { unimplemented!() } }
// the transaction's time as an instant: UNIX_EPOCH + get_curtime()
pub open spec fn now_of(d: Duration) -> OffsetDateTime { OffsetDateTime { unix_ns: d.ns() as i128 } }
impl OffsetDateTime { pub const UNIX_EPOCH: OffsetDateTime = OffsetDateTime { unix_ns: 0 }; }
pub struct SessionConsistency;
impl SessionConsistency {
//@extract modify_inner
}
impl ValueSetSession {
//@extract vss_remove
}
// the rs_uuid branch of ValueSetOauth2Session::remove (`values_mut().for_each(..)` with a closure capturing `&mut removed`: outside
// the dialect) as a stand-in: every session of that resource server is revoked, nothing else changes (ASSUMED; read off the loop)
#[verifier::external_body] pub fn kvx_revoke_by_rs(map: &mut BTreeMap<Uuid, Oauth2Session>, u: &Uuid, cid: &Cid) -> (r: bool)
    ensures final(map)@.dom() == old(map)@.dom(),
        forall|k: Uuid| #[trigger] old(map)@.contains_key(k) ==> (final(map)@[k] == old(map)@[k] || (final(map)@[k].state is RevokedAt && final(map)@[k].parent == old(map)@[k].parent && final(map)@[k].issued_at == old(map)@[k].issued_at)) { unimplemented!() }
impl ValueSetOauth2Session {
//@extract vso_remove
}
}
fn main(){}
