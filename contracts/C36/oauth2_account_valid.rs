use vstd::prelude::*;
use core::cmp::Ordering;
use std::collections::BTreeMap;
use std::sync::Arc;
verus! {
//@include shims/duration.rs
//@include shims/duration_ops.rs
//@include shims/uuid.rs
//@include shims/offsetdatetime.rs
//@include shims/time_ops.rs
//@include shims/idm_common.rs
//@include shims/std_option.rs
pub const AUTH_TOKEN_GRACE_WINDOW: Duration = Duration { secs: @@constexpr:AUTH_TOKEN_GRACE_WINDOW:Duration::from_secs\((.*)\)@@, nanos: 0 };
pub enum OperationError { NoMatchingEntries, Other }
#[verifier::external_body]
pub struct QueryServerReadTransaction { _p: u8 }
impl QueryServerReadTransaction {
    #[verifier::external_body]
    pub fn internal_search_uuid(&mut self, uuid: Uuid) -> (r: Result<Arc<Entry<EntrySealed, EntryCommitted>>, OperationError>) { unimplemented!() }
}
pub struct IdmTxn { pub qs: QueryServerReadTransaction }
impl IdmTxn {
    pub fn get_qs_txn(&mut self) -> (r: &mut QueryServerReadTransaction) { &mut self.qs }
}

// ---- specification from the statement of C36 (OAuth2 half) ----
pub open spec fn revoked(s: SessionState) -> bool { s is RevokedAt }
// "once the grace window has passed": the boundary instant itself is not decided by the statement, so the property clause allows it
pub open spec fn in_grace(ct: Duration, iat: i64) -> bool { ct.ns() <= (iat as u64) as int * 1_000_000_000 + AUTH_TOKEN_GRACE_WINDOW.ns() }
// an OAuth2 access token of account entry `e` may be honoured at ct only if ...
pub open spec fn oauth2_usable(e: &Entry<EntrySealed, EntryCommitted>, session_id: Uuid, parent: Option<Uuid>, iat: i64, ct: Duration) -> bool {
    let o2 = e.oauth2sessions(Attribute::OAuth2Session);
    let us = e.sessions(Attribute::UserAuthTokenSession);
    let ap = e.apitokens(Attribute::ApiTokenSession);
    &&& entry_within_valid(ct, e)
    &&& if o2 is Some && o2->Some_0.contains_key(session_id) {
            // the oauth2 session itself is not revoked
            &&& !revoked(o2->Some_0[session_id].state)
            // and, if it hangs off a parent session: the parent login session is recorded and not revoked, or it is an
            // API-token session that is recorded, or nothing is recorded and we are still inside the grace window
            &&& (parent matches Some(p) ==> (
                    if us is Some && us->Some_0.contains_key(p) { !revoked(us->Some_0[p].state) }
                    else { (ap is Some && ap->Some_0.contains_key(p)) || in_grace(ct, iat) }))
        } else { in_grace(ct, iat) }      // not (yet) recorded: only inside the grace window
}
pub struct Account {}
impl Account {
//@extract check_within_valid_time
}
impl IdmTxn {
//@extract check_oauth2_account_uuid_valid
}
}
fn main(){}
