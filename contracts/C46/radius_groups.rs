#![feature(allocator_api)]
use vstd::prelude::*;
use core::cmp::Ordering;
use std::collections::{BTreeMap, BTreeSet};
use vstd::std_specs::iter::IteratorSpec;
verus! {
//@include shims/opaque_string.rs
pub assume_specification<K: Ord, V, A: core::alloc::Allocator + Clone, I: IntoIterator<Item = (K, V)>>[ <BTreeMap<K, V, A> as Extend<(K, V)>>::extend::<I> ](m: &mut BTreeMap<K, V, A>, it: I);
// the fields of the real types that the two functions touch (Group comes from kanidm_proto::internal, Module holds a client too)
pub struct Group { pub spn: String, pub uuid: String }
pub struct GroupConfig { pub vlan: u32, pub reply_attributes: BTreeMap<String, String> }
pub struct KanidmRadiusConfig { pub radius_default_vlan: u32 }
pub struct Module { pub cfg: KanidmRadiusConfig, pub required_groups: BTreeSet<String>, pub group_configs: BTreeMap<String, GroupConfig> }

// ---- specification from the statement of C46 ----
// membership: some group of the user is named (by uuid or spn) in the required set
pub open spec fn in_required(req: Set<String>, gs: Seq<Group>) -> bool {
    exists|i: int| 0 <= i < gs.len() && (req.contains(#[trigger] gs[i].uuid) || req.contains(gs[i].spn))
}
// vlan: that of the LAST group of the user with a mapping, else the configured default
pub open spec fn vlan_spec(cfgs: Map<String, GroupConfig>, dflt: u32, gs: Seq<Group>, n: int) -> u32
    decreases n
{
    if n <= 0 { dflt } else if cfgs.contains_key(gs[n - 1].spn) { cfgs[gs[n - 1].spn].vlan } else { vlan_spec(cfgs, dflt, gs, n - 1) }
}
impl Module {
//@extract user_in_required_groups
//@extract resolve_group_configs
}
}
fn main(){}
