#![feature(allocator_api)]
use vstd::prelude::*;
use core::cmp::Ordering;
use std::collections::{BTreeMap, BTreeSet};
use vstd::std_specs::iter::IteratorSpec;
verus! {
//@include shims/opaque_string.rs
pub assume_specification<K: Ord, V, A: core::alloc::Allocator + Clone, I: IntoIterator<Item = (K, V)>>[ <BTreeMap<K, V, A> as Extend<(K, V)>>::extend::<I> ](m: &mut BTreeMap<K, V, A>, it: I);
pub const TUNNEL_TYPE_VLAN: &'static str = "13";
pub const TUNNEL_MEDIUM_TYPE_IEEE_802: &'static str = "6";
// kanidm_proto::internal::{Group, RadiusAuthToken}: the real field lists
pub struct Group { pub spn: String, pub uuid: String }
pub struct RadiusAuthToken { pub name: String, pub displayname: String, pub uuid: String, pub secret: String, pub groups: Vec<Group> }
pub struct GroupConfig { pub vlan: u32, pub reply_attributes: BTreeMap<String, String> }
pub struct KanidmRadiusConfig { pub radius_default_vlan: u32 }
//@extract AuthError
//@extract AuthResponse
//@extract ResponseReplyAttributes
//@extract ResponseControlAttributes
// kanidm_client: only what fetch_token touches
#[derive(PartialEq, Eq, Clone, Copy)] pub struct StatusCode(pub u16);
impl StatusCode { pub const NOT_FOUND: StatusCode = StatusCode(404); }
impl vstd::std_specs::cmp::PartialEqSpecImpl for StatusCode {
    open spec fn obeys_eq_spec() -> bool { true }
    open spec fn eq_spec(&self, o: &StatusCode) -> bool { self.0 == o.0 }
}
pub enum ClientError { Http(StatusCode, Option<u8>, String), Transport, Other }
pub enum ModuleError { Http(String), Other }
pub struct KanidmClient { pub o: u8 }
impl KanidmClient {
    // what the server holds for that user id (ghost): the RADIUS token with the user's secret and groups
    pub uninterp spec fn token_of(&self, id: &str) -> RadiusAuthToken;
    #[verifier::external_body] pub fn idm_account_radius_token_get(&self, id: &str) -> (r: Result<RadiusAuthToken, ClientError>)
        ensures r matches Ok(t) ==> t == self.token_of(id) { unimplemented!() }
}
// the request as the module sees it: only the user id chosen from the certificate / user name matters here; logging is dropped
pub struct AuthRequest<'a> { pub o: u8, pub phantom: core::marker::PhantomData<&'a ()> }
impl<'a> AuthRequest<'a> {
    #[verifier::external_body] pub fn user_id(&self) -> (r: Option<&str>) { unimplemented!() }
    #[verifier::external_body] pub fn error(&mut self, m: &str) ensures *final(self) == *old(self) { unimplemented!() }
    #[verifier::external_body] pub fn info(&mut self, m: &str) ensures *final(self) == *old(self) { unimplemented!() }
    #[verifier::external_body] pub fn debug(&mut self, m: &str) ensures *final(self) == *old(self) { unimplemented!() }
}
pub uninterp spec fn u32_str(v: u32) -> String;
#[verifier::external_body] pub fn kvx_u32_to_string(v: u32) -> (r: String) ensures r == u32_str(v) { unimplemented!() }
#[verifier::external_body] pub fn kvx_fmt_uuid(u: &String) -> (r: String) { unimplemented!() }
#[verifier::external_body] pub fn kvx_fmt_err() -> (r: String) { unimplemented!() }
pub struct Module { pub cfg: KanidmRadiusConfig, pub required_groups: BTreeSet<String>, pub group_configs: BTreeMap<String, GroupConfig>, pub client: KanidmClient }

// ---- specification from the statement of C46 (same as unit radius_groups) ----
pub open spec fn in_required(req: Set<String>, gs: Seq<Group>) -> bool {
    exists|i: int| 0 <= i < gs.len() && (req.contains(#[trigger] gs[i].uuid) || req.contains(gs[i].spn))
}
pub open spec fn vlan_spec(cfgs: Map<String, GroupConfig>, dflt: u32, gs: Seq<Group>, n: int) -> u32
    decreases n
{
    if n <= 0 { dflt } else if cfgs.contains_key(gs[n - 1].spn) { cfgs[gs[n - 1].spn].vlan } else { vlan_spec(cfgs, dflt, gs, n - 1) }
}
// a response releases the secret of token t with the VLAN the statement prescribes
pub open spec fn release_ok(m: &Module, t: RadiusAuthToken, resp: AuthResponse) -> bool {
    in_required(m.required_groups@, t.groups@)
    && resp.control.cleartext_password == Some(t.secret)
    && resp.reply.tunnel_private_group_id == u32_str(vlan_spec(m.group_configs@, m.cfg.radius_default_vlan, t.groups@, t.groups@.len() as int))
}
impl Module {
//@extract user_in_required_groups
//@extract resolve_group_configs
//@extract fetch_token
//@extract authorise
}
}
fn main(){}
