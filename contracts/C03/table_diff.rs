use vstd::prelude::*;
use core::cmp::Ordering;
verus! {
//@include shims/opaque_string.rs
// an entry, as far as the lookup tables are concerned: the names it is known by, its external id, its spn value and its rdn
pub struct Entry { pub o: u64 }
pub type Names = Set<String>;
#[verifier::external_body] #[verifier::reject_recursive_types(T)] pub struct BTreeSet<T> { p: core::marker::PhantomData<T> }
impl View for BTreeSet<String> { type V = Set<String>; uninterp spec fn view(&self) -> Set<String>; }
// post_set.difference(&pre_set).cloned().collect() (std documentation: the elements of self that are not in other)
pub struct KvxDiff<'a> { pub a: &'a BTreeSet<String>, pub b: &'a BTreeSet<String> }
impl BTreeSet<String> { #[verifier::external_body] pub fn clone(&self) -> (r: BTreeSet<String>) ensures r@ == self@ { unimplemented!() }
    pub fn difference<'a>(&'a self, o: &'a BTreeSet<String>) -> (r: KvxDiff<'a>) ensures r.a == self, r.b == o { KvxDiff { a: self, b: o } } }
impl<'a> KvxDiff<'a> {
    pub fn cloned(self) -> (r: KvxDiff<'a>) ensures r == self { self }
    #[verifier::external_body] pub fn collect(self) -> (r: BTreeSet<String>) ensures r@ == self.a@.difference(self.b@) { unimplemented!() }
}
pub struct Value { pub o: u64 }
impl vstd::std_specs::cmp::PartialEqSpecImpl for Value { open spec fn obeys_eq_spec() -> bool { true } open spec fn eq_spec(&self, o: &Value) -> bool { *self == *o } }
impl PartialEq for Value { fn eq(&self, o: &Value) -> (r: bool) ensures r == (*self == *o) { self.o == o.o } }
impl Entry {
    pub uninterp spec fn names(&self) -> Names;
    pub uninterp spec fn extid(&self) -> Option<String>;
    pub uninterp spec fn spn(&self) -> Value;
    pub uninterp spec fn rdn(&self) -> String;
    #[verifier::external_body] pub fn get_name2uuid_cands(&self) -> (r: BTreeSet<String>) ensures r@ == self.names() { unimplemented!() }
    #[verifier::external_body] pub fn get_externalid2uuid(&self) -> (r: Option<String>) ensures r == self.extid() { unimplemented!() }
    #[verifier::external_body] pub fn get_uuid2spn(&self) -> (r: Value) ensures r == self.spn() { unimplemented!() }
    #[verifier::external_body] pub fn get_uuid2rdn(&self) -> (r: String) ensures r == self.rdn() { unimplemented!() }
}
// ---- the statement (C03), per entry and per table: applying the diff to a table that mirrors `pre` makes it mirror `post` ----
pub open spec fn names_of(e: Option<&Entry>) -> Names { match e { Some(x) => x.names(), None => Set::empty() } }
pub open spec fn set_of(o: Option<BTreeSet<String>>) -> Names { match o { Some(s) => s@, None => Set::empty() } }
// name2uuid: the names held for this entry after removing `rem` and adding `add`
pub open spec fn apply_names(held: Names, add: Names, rem: Names) -> Names { held.difference(rem).union(add) }
pub proof fn lemma_name_diff_exact(pre: Names, post: Names)
    ensures apply_names(pre, post.difference(pre), pre.difference(post)) =~= post
{ }
pub open spec fn extid_of(e: Option<&Entry>) -> Option<String> { match e { Some(x) => x.extid(), None => None } }
// externalid2uuid: the id held for this entry after removing `rem` (if it is the one held) and adding `add`
pub open spec fn apply_extid(held: Option<String>, add: Option<String>, rem: Option<String>) -> Option<String> {
    if add is Some { add } else if rem is Some && rem == held { None } else { held }
}
// uuid2spn / uuid2rdn: Some(Ok(v)) writes v, Some(Err) clears, None leaves the row alone
pub open spec fn apply_row<T>(held: Option<T>, act: Option<Result<T, ()>>) -> Option<T> { match act { None => held, Some(Ok(v)) => Some(v), Some(Err(_)) => None } }
pub open spec fn spn_of(e: Option<&Entry>) -> Option<Value> { match e { Some(x) => Some(x.spn()), None => None } }
pub open spec fn rdn_of(e: Option<&Entry>) -> Option<String> { match e { Some(x) => Some(x.rdn()), None => None } }

impl Entry {
//@extract idx_name2uuid_diff
//@extract idx_externalid2uuid_diff
//@extract idx_uuid2spn_diff
//@extract idx_uuid2rdn_diff
}
}
fn main(){}
