use vstd::prelude::*;
use core::cmp::Ordering;
verus! {
//@include shims/duration.rs
//@include shims/uuid.rs
pub enum OperationError { EmptyRequest, Backend }
pub struct Cid { pub ts: Duration, pub s_uuid: Uuid }
pub struct IDLBitRange { pub o: int }
impl IDLBitRange { #[verifier::external_body] pub fn is_empty(&self) -> (r: bool) { unimplemented!() }
    #[verifier::external_body] pub fn default() -> (r: IDLBitRange) { unimplemented!() } }
pub struct EntryChangeState { pub o: int }
impl EntryChangeState {
    pub uninterp spec fn cids(&self) -> Set<Cid>;      // every change id the state mentions (creation, per-attribute, tombstone)
    #[verifier::external_body] pub fn contains_tail_cid(&self, cid: &Cid) -> (r: bool) { unimplemented!() }
}
pub struct EntrySealedCommitted { pub o: int }
impl EntrySealedCommitted {
    pub uninterp spec fn ecstate(&self) -> EntryChangeState;
    #[verifier::external_body] pub fn get_changestate(&self) -> (r: &EntryChangeState) ensures *r == self.ecstate() { unimplemented!() }
    #[verifier::external_body] pub fn get_id(&self) -> (r: u64) { unimplemented!() }
}
pub struct Arc<T> { pub v: T }
impl<T> Arc<T> { pub fn as_ref(&self) -> (r: &T) ensures *r == self.v { &self.v } }
// ---- the replication update vector of this transaction, seen as the set of change ids it holds ----
pub struct Ruv { pub o: int }
impl Ruv {
    pub uninterp spec fn cids(&self) -> Set<Cid>;
    // insert_change(cid, ids): that change id (repl/ruv.rs)
    #[verifier::external_body] pub fn insert_change(&mut self, cid: &Cid, idl: IDLBitRange) -> (r: Result<(), OperationError>)
        ensures final(self).cids() == old(self).cids().insert(*cid) { unimplemented!() }
    // update_entry_changestate(e): EVERY change id of the entry's change state (used when entries arrive by refresh / replication)
    #[verifier::external_body] pub fn update_entry_changestate(&mut self, e: &EntrySealedCommitted) -> (r: Result<(), OperationError>)
        ensures final(self).cids() == old(self).cids().union(e.ecstate().cids()) { unimplemented!() }
}
pub struct IdLayer { pub o: int }
pub struct BackendWriteTransaction { pub ruv: Ruv, pub idlayer: IdLayer }
impl BackendWriteTransaction {
    // get_ruv() / get_idlayer(): handles on the two parts (R3: read as the fields)
    #[verifier::external_body] pub fn entry_index(&mut self, pre: Option<&EntrySealedCommitted>, post: Option<&EntrySealedCommitted>) -> (r: Result<(), OperationError>)
        ensures final(self).ruv == old(self).ruv { unimplemented!() }
}
impl IdLayer { #[verifier::external_body] pub fn write_identries(&mut self, v: &[EntrySealedCommitted]) -> (r: Result<(), OperationError>) { unimplemented!() } }
// `post_entries.iter().filter(tail_step)`: the entries the step keeps (std)
#[verifier::external_body] pub fn kvx_tail_entries<'a>(v: &'a [EntrySealedCommitted], cid: &Cid) -> (r: Vec<&'a EntrySealedCommitted>) { unimplemented!() }
// `IDLBitRange::from_iter(it.map(|e| e.get_id()))`
#[verifier::external_body] pub fn kvx_ids(v: Vec<&EntrySealedCommitted>) -> (r: IDLBitRange) { unimplemented!() }
// `pre.iter().zip(post.iter()).try_for_each(index_step)`: the step for each pair until one fails (std); each step leaves the RUV alone
// (its own clause), hence so does the whole
#[verifier::external_body] pub fn kvx_index_all(be: &mut BackendWriteTransaction, pre: &[Arc<EntrySealedCommitted>], post: &[EntrySealedCommitted]) -> (r: Result<(), OperationError>)
    ensures final(be).ruv == old(be).ruv { unimplemented!() }
//@extract tail_step
//@extract index_step
impl BackendWriteTransaction {
//@extract modify
}
}
fn main(){}
