use vstd::prelude::*;
use core::cmp::Ordering;
use vstd::std_specs::iter::IteratorSpec;
use vstd::std_specs::cmp::{OrdSpec, PartialOrdSpec};
verus! {
//@include shims/duration.rs
//@include shims/uuid.rs
//@include shims/offsetdatetime.rs
//@include shims/kvx_btreemap.rs

// ---- real types, extracted ----
//@extract Cid
// `impl From<&Cid> for OffsetDateTime` (repl/cid.rs: UNIX_EPOCH + cid.ts): the instant of the change, WITHOUT the server id
impl<'a> vstd::std_specs::convert::FromSpecImpl<&'a Cid> for OffsetDateTime { open spec fn obeys_from_spec() -> bool { true } open spec fn from_spec(c: &'a Cid) -> OffsetDateTime { OffsetDateTime { unix_ns: c.ts.ns() as i128 } } }
impl<'a> From<&'a Cid> for OffsetDateTime { #[verifier::external_body] fn from(c: &'a Cid) -> (r: OffsetDateTime) { unimplemented!() } }
impl Clone for Cid { fn clone(&self) -> (r: Self) ensures r == *self { Cid { ts: self.ts, s_uuid: self.s_uuid } } }
// derived order of Cid = (ts, s_uuid) lexicographic (proved on the real type by kani unit cid_kani of C07)
pub open spec fn cid_lt(a: Cid, b: Cid) -> bool { a.ts.dlt(b.ts) || (a.ts == b.ts && a.s_uuid.0 < b.s_uuid.0) }
impl vstd::std_specs::cmp::PartialEqSpecImpl for Cid {
    open spec fn obeys_eq_spec() -> bool { true }
    open spec fn eq_spec(&self, o: &Cid) -> bool { self.ts == o.ts && self.s_uuid == o.s_uuid }
}
impl vstd::std_specs::cmp::PartialOrdSpecImpl for Cid {
    open spec fn obeys_partial_cmp_spec() -> bool { true }
    open spec fn partial_cmp_spec(&self, o: &Cid) -> Option<Ordering> {
        if cid_lt(*self, *o) { Some(Ordering::Less) } else if *self == *o { Some(Ordering::Equal) } else { Some(Ordering::Greater) } }
}
impl vstd::std_specs::cmp::OrdSpecImpl for Cid {
    open spec fn obeys_cmp_spec() -> bool { true }
    open spec fn cmp_spec(&self, o: &Cid) -> Ordering {
        if cid_lt(*self, *o) { Ordering::Less } else if *self == *o { Ordering::Equal } else { Ordering::Greater } }
}
pub struct AttrString { pub o: u64 }
//@extract Attribute
impl Clone for Attribute { #[verifier::external_body] fn clone(&self) -> (r: Self) ensures r == *self { unimplemented!() } }
//@extract State
//@extract EntryChangeState
impl Clone for EntryChangeState { #[verifier::external_body] fn clone(&self) -> (r: Self) ensures r == *self { unimplemented!() } }
//@extract EntryNew
//@extract EntryCommitted
//@extract EntryIncremental
//@extract EntryInvalid
//@extract EntrySealed
//@extract EntryValid
//@extract Entry
pub type EntrySealedCommitted = Entry<EntrySealed, EntryCommitted>;
pub type EntryIncrementalCommitted = Entry<EntryIncremental, EntryCommitted>;
pub type EntrySealedNew = Entry<EntrySealed, EntryNew>;
pub type Eattrs = BTreeMap<Attribute, ValueSet>;   // entry.rs: `use std::collections::BTreeMap as Map`

// ---- stand-ins ----
// ValueSet = Box<dyn ValueSetT>: an opaque value; clone yields an equal value; the per-syntax merge (C11 for sessions and keys) is an
// uninterpreted function of (newer content, older content, trim point)
#[verifier::external_body] pub struct ValueSet { _p: u8 }
pub uninterp spec fn merge_vs(newer: ValueSet, older: ValueSet, trim: Cid) -> Option<ValueSet>;
pub uninterp spec fn vs_cid_of(c: Cid) -> ValueSet;
pub uninterp spec fn vs_uuid_of(u: Uuid) -> ValueSet;
pub uninterp spec fn vs_tombstone_class() -> ValueSet;
impl ValueSet {
    #[verifier::external_body] pub fn clone(&self) -> (r: ValueSet) ensures r == *self { unimplemented!() }
    #[verifier::external_body] pub fn repl_merge_valueset(&self, older: &ValueSet, trim_cid: &Cid) -> (r: Option<ValueSet>)
        ensures r == merge_vs(*self, *older, *trim_cid) { unimplemented!() }
}
// vs_cid![c], vs_uuid![u], vs_iutf8![object, tombstone]: value-set constructor macros
#[verifier::external_body] pub fn kvx_vs_cid(c: Cid) -> (r: ValueSet) ensures r == vs_cid_of(c) { unimplemented!() }
#[verifier::external_body] pub fn kvx_vs_uuid(u: Uuid) -> (r: ValueSet) ensures r == vs_uuid_of(u) { unimplemented!() }
#[verifier::external_body] pub fn kvx_vs_tombstone_class() -> (r: ValueSet) ensures r == vs_tombstone_class() { unimplemented!() }
// conflict-entry construction (resolve_add_conflict): values, classes, fresh uuid, and the attribute edits of an invalid entry are
// stand-ins without specification — what the conflict entry contains is not part of the contract, only whether one is made
pub enum EntryClass { Object, Tombstone, Recycled, Conflict }
pub enum Value { Uuid(Uuid), Class(EntryClass) }
#[verifier::external_body] pub fn kvx_class_value(c: EntryClass) -> (r: Value) { unimplemented!() }
#[verifier::external_body] pub fn kvx_new_v4() -> (r: Uuid) { unimplemented!() }
impl<STATE> Entry<EntryInvalid, STATE> {
    #[verifier::external_body] pub fn add_ava(&mut self, attr: Attribute, value: Value) { unimplemented!() }
    #[verifier::external_body] pub fn purge_ava(&mut self, attr: Attribute) { unimplemented!() }
}
// ---- validate_repl (C08: "schema-invalid -> conflict"): the schema check of a merged entry. What the schema accepts is opaque; a
// rejected entry is kept — same uuid, same change state, same stored id — and is marked recycled + conflict with its own uuid as source ----
pub struct SchemaError { pub o: u8 }
pub uninterp spec fn schema_valid(attrs: Map<Attribute, ValueSet>, s: &KvxSchema) -> bool;
pub uninterp spec fn with_value(attrs: Map<Attribute, ValueSet>, a: Attribute, v: Value) -> Map<Attribute, ValueSet>;   // add_ava_int: that value added to that attribute
pub open spec fn conflict_marked(r: Map<Attribute, ValueSet>, before: Map<Attribute, ValueSet>, uuid: Uuid) -> bool {
    r == with_value(with_value(with_value(before, Attribute::Class, Value::Class(EntryClass::Recycled)), Attribute::Class, Value::Class(EntryClass::Conflict)), Attribute::SourceUuid, Value::Uuid(uuid))
}
impl vstd::std_specs::convert::FromSpecImpl<EntryClass> for Value { open spec fn obeys_from_spec() -> bool { true } open spec fn from_spec(c: EntryClass) -> Value { Value::Class(c) } }
impl From<EntryClass> for Value { fn from(c: EntryClass) -> (r: Value) { Value::Class(c) } }
impl<STATE> Entry<EntryValid, STATE> {
    #[verifier::external_body] pub fn validate(&self, schema: &KvxSchema) -> (r: Result<(), SchemaError>) ensures r is Ok == schema_valid(self.attrs@, schema) { unimplemented!() }
    #[verifier::external_body] pub fn add_ava_int(&mut self, attr: Attribute, value: Value)
        ensures final(self).attrs@ == with_value(old(self).attrs@, attr, value), final(self).valid == old(self).valid, final(self).state == old(self).state { unimplemented!() }
}
pub type EntryValidCommitted = Entry<EntryValid, EntryCommitted>;
// &dyn SchemaTransaction: the one observer merge_state uses
pub struct KvxSchema { pub o: u8 }
impl KvxSchema {
    pub uninterp spec fn replicated(&self, a: Attribute) -> bool;
    #[verifier::external_body] pub fn is_replicated(&self, a: &Attribute) -> (r: bool) ensures r == self.replicated(*a) { unimplemented!() }
}
// changes_left.keys().chain(changes_right.keys()).collect(); shrink_to_fit; sort_unstable; dedup  (std documentation: every key of
// either map, each once)
#[verifier::external_body] pub fn kvx_key_union<'a>(l: &'a BTreeMap<Attribute, Cid>, r: &'a BTreeMap<Attribute, Cid>) -> (o: Vec<&'a Attribute>)
    ensures forall|a: Attribute| (exists|i: int| 0 <= i < o@.len() && *(#[trigger] o@[i]) == a) <==> (l@.contains_key(a) || r@.contains_key(a)) { unimplemented!() }
// changes.values().max(): a greatest change id of the map, None when empty
#[verifier::external_body] pub fn kvx_values_max<'a>(m: &'a BTreeMap<Attribute, Cid>) -> (o: Option<&'a Cid>)
    ensures o is None <==> m@.dom() =~= Set::<Attribute>::empty(),
            o matches Some(c) ==> (exists|a: Attribute| m@.contains_key(a) && m@[a] == *c) && forall|a: Attribute| m@.contains_key(a) ==> !cid_lt(*c, #[trigger] m@[a]) { unimplemented!() }

// ---- specification, from the statements of C09 and C08 ----
pub open spec fn is_ts(e: EntryChangeState) -> bool { e.st is Tombstone }
pub open spec fn ts_at(e: EntryChangeState) -> Cid { e.st->Tombstone_at }
pub open spec fn live_changes(e: EntryChangeState) -> Map<Attribute, Cid> { match e.st { State::Live { at, changes } => changes@, State::Tombstone { at } => Map::empty() } }
pub open spec fn live_at(e: EntryChangeState) -> Cid { match e.st { State::Live { at, changes } => at, State::Tombstone { at } => at } }
pub open spec fn cid_min(a: Cid, b: Cid) -> Cid { if cid_lt(a, b) { a } else { b } }
// last writer wins, per attribute: the left side wins iff its change id is strictly greater (or only it has one)
pub open spec fn left_wins(l: Map<Attribute, Cid>, r: Map<Attribute, Cid>, a: Attribute) -> bool { l.contains_key(a) && (!r.contains_key(a) || cid_lt(r[a], l[a])) }
pub open spec fn merged_cid(l: Map<Attribute, Cid>, r: Map<Attribute, Cid>, a: Attribute) -> Cid { if left_wins(l, r, a) { l[a] } else { r[a] } }
pub open spec fn opt_get(m: Map<Attribute, ValueSet>, a: Attribute) -> Option<ValueSet> { if m.contains_key(a) { Some(m[a]) } else { None } }
// the content kept for attribute `a` when the left (resp. right) side is taken as the newer one
pub open spec fn merged_val_side(lc: Map<Attribute, Cid>, rc: Map<Attribute, Cid>, la: Map<Attribute, ValueSet>, ra: Map<Attribute, ValueSet>, trim: Cid, a: Attribute, left: bool) -> Option<ValueSet> {
    if lc.contains_key(a) && rc.contains_key(a) {
        let w = if left { la } else { ra };
        let o = if left { ra } else { la };
        if w.contains_key(a) {
            if o.contains_key(a) { match merge_vs(w[a], o[a], trim) { Some(m) => Some(m), None => Some(w[a]) } } else { Some(w[a]) }
        } else { None }
    } else if lc.contains_key(a) { opt_get(la, a) } else if rc.contains_key(a) { opt_get(ra, a) } else { None }
}
// exactly what the code does (the stored side is kept on a tie)
pub open spec fn merged_val(lc: Map<Attribute, Cid>, rc: Map<Attribute, Cid>, la: Map<Attribute, ValueSet>, ra: Map<Attribute, ValueSet>, trim: Cid, a: Attribute) -> Option<ValueSet> {
    merged_val_side(lc, rc, la, ra, trim, a, left_wins(lc, rc, a))
}
// what the statement needs (last writer wins; on equal change ids either side may be kept)
pub open spec fn tie(lc: Map<Attribute, Cid>, rc: Map<Attribute, Cid>, a: Attribute) -> bool { lc.contains_key(a) && rc.contains_key(a) && lc[a] == rc[a] }
pub open spec fn lww_val(v: Option<ValueSet>, lc: Map<Attribute, Cid>, rc: Map<Attribute, Cid>, la: Map<Attribute, ValueSet>, ra: Map<Attribute, ValueSet>, trim: Cid, a: Attribute) -> bool {
    v == merged_val(lc, rc, la, ra, trim, a) || (tie(lc, rc, a) && v == merged_val_side(lc, rc, la, ra, trim, a, true))
}
pub open spec fn is_meta(a: Attribute) -> bool { a == Attribute::LastModifiedCid || a == Attribute::CreatedAtCid }
// the change state and content merge_state must produce from two live states
pub open spec fn live_merge_ok(r: EntryIncrementalCommitted, l: Entry<EntryIncremental, EntryNew>, d: EntrySealedCommitted, s: &KvxSchema, trim: Cid) -> bool {
    let lc = live_changes(l.valid.ecstate); let rc = live_changes(d.valid.ecstate);
    &&& r.valid.ecstate.st is Live
    &&& live_at(r.valid.ecstate) == live_at(l.valid.ecstate)
    &&& forall|a: Attribute| #[trigger] live_changes(r.valid.ecstate).contains_key(a) <==> ((lc.contains_key(a) || rc.contains_key(a)) && s.replicated(a))
    &&& forall|a: Attribute| #[trigger] live_changes(r.valid.ecstate).contains_key(a) ==> live_changes(r.valid.ecstate)[a] == merged_cid(lc, rc, a)
    &&& forall|a: Attribute| !is_meta(a) ==> #[trigger] opt_get(r.attrs@, a) == merged_val(lc, rc, l.attrs@, d.attrs@, trim, a)
}

// the same, as far as the statement goes (ties may go either way)
pub open spec fn live_merge_lww(r: EntryIncrementalCommitted, l: Entry<EntryIncremental, EntryNew>, d: EntrySealedCommitted, s: &KvxSchema, trim: Cid) -> bool {
    let lc = live_changes(l.valid.ecstate); let rc = live_changes(d.valid.ecstate);
    &&& r.valid.ecstate.st is Live
    &&& live_at(r.valid.ecstate) == live_at(l.valid.ecstate)
    &&& forall|a: Attribute| #[trigger] live_changes(r.valid.ecstate).contains_key(a) <==> ((lc.contains_key(a) || rc.contains_key(a)) && s.replicated(a))
    &&& forall|a: Attribute| #[trigger] live_changes(r.valid.ecstate).contains_key(a) ==> live_changes(r.valid.ecstate)[a] == merged_cid(lc, rc, a)
    &&& forall|a: Attribute| !is_meta(a) ==> lww_val(#[trigger] opt_get(r.attrs@, a), lc, rc, l.attrs@, d.attrs@, trim, a)
}
pub proof fn lemma_exact_is_lww(r: EntryIncrementalCommitted, l: Entry<EntryIncremental, EntryNew>, d: EntrySealedCommitted, s: &KvxSchema, trim: Cid)
    requires live_merge_ok(r, l, d, s, trim) ensures live_merge_lww(r, l, d, s, trim) { }

// ---- order independence of the pairwise merge (C08): what replica A computes from (incoming Y, stored X) is what replica B
// computes from (incoming X, stored Y), provided one change id names one change (equal ids => equal content) ----
pub open spec fn tie_consistent(lc: Map<Attribute, Cid>, rc: Map<Attribute, Cid>, la: Map<Attribute, ValueSet>, ra: Map<Attribute, ValueSet>) -> bool {
    forall|a: Attribute| lc.contains_key(a) && rc.contains_key(a) && #[trigger] lc[a] == rc[a] ==> opt_get(la, a) == opt_get(ra, a)
}
pub proof fn lemma_cid_total(a: Cid, b: Cid)
    ensures cid_lt(a, b) || cid_lt(b, a) || a == b, !(cid_lt(a, b) && cid_lt(b, a)), !cid_lt(a, a)
{ }
pub proof fn lemma_merge_converges(lc: Map<Attribute, Cid>, rc: Map<Attribute, Cid>, la: Map<Attribute, ValueSet>, ra: Map<Attribute, ValueSet>, trim: Cid, a: Attribute, v1: Option<ValueSet>, v2: Option<ValueSet>)
    requires tie_consistent(lc, rc, la, ra), lc.contains_key(a) || rc.contains_key(a),
             lww_val(v1, lc, rc, la, ra, trim, a),        // replica A: incoming l, stored r
             lww_val(v2, rc, lc, ra, la, trim, a),        // replica B: incoming r, stored l
    ensures merged_cid(lc, rc, a) == merged_cid(rc, lc, a), v1 == v2,
{
    if lc.contains_key(a) && rc.contains_key(a) { lemma_cid_total(lc[a], rc[a]); assert(lc[a] == rc[a] ==> opt_get(la, a) == opt_get(ra, a)); }
}
// add conflict (the same uuid created independently on two replicas): the entry created FIRST survives, whichever replica decides
pub open spec fn stored_survives(at_incoming: Cid, at_stored: Cid) -> bool { cid_lt(at_stored, at_incoming) }
pub proof fn lemma_conflict_symmetric(x: Cid, y: Cid)
    requires x != y
    ensures stored_survives(x, y) != stored_survives(y, x)      // A (incoming x, stored y) keeps y  <==>  B (incoming y, stored x) drops x
{ lemma_cid_total(x, y); }
// deletion is absorbing and the surviving tombstone time is order independent (C09)
pub proof fn lemma_ts_commutes(a: Cid, b: Cid) ensures cid_min(a, b) == cid_min(b, a) { lemma_cid_total(a, b); }

// EntryChangeState::new_without_schema(cid, attrs) (repl/entry.rs; an iterator chain over the attribute names, not under contract):
// a tombstone at `cid` for an entry of class tombstone, else a live state created at `cid` with every attribute changed at `cid`
pub uninterp spec fn has_tombstone_class(attrs: Map<Attribute, ValueSet>) -> bool;
impl EntryChangeState {
    #[verifier::external_body] pub fn new_without_schema(cid: &Cid, attrs: &Eattrs) -> (r: EntryChangeState)
        ensures has_tombstone_class(attrs@) ==> r.st == (State::Tombstone { at: *cid }),
                !has_tombstone_class(attrs@) ==> (r.st matches State::Live { at, changes } && at == *cid && changes@.dom() =~= attrs@.dom() && forall|a: Attribute| #[trigger] changes@.contains_key(a) ==> changes@[a] == *cid) { unimplemented!() }
}
// C08, "identical conflict entries": the conflict copy made for a lost creation is a NEW entry of this change — every attribute state
// it carries has this change's id (and every attribute it holds, bar the two bookkeeping ones, has a state), so the supplier's
// per-attribute window filter sends all of it to every replica, including one that already saw the original creation (finding F15)
pub open spec fn all_states_at(e: EntryChangeState, attrs: Map<Attribute, ValueSet>, cid: Cid) -> bool {
    match e.st {
        State::Live { at, changes } => at == cid && (forall|a: Attribute| #[trigger] changes@.contains_key(a) ==> changes@[a] == cid)
                                       && (forall|a: Attribute| #[trigger] attrs.contains_key(a) && !is_meta(a) ==> changes@.contains_key(a)),
        State::Tombstone { at } => at == cid,
    }
}
impl EntryChangeState {
//@extract ecs_build
//@extract ecs_current
//@extract ecs_at
//@extract ecs_get_max_cid
//@extract ecs_retain
//@extract ecs_is_live
//@extract ecs_tombstone
//@extract ecs_can_delete
}
impl<STATE> Entry<EntrySealed, STATE> {
//@extract get_changestate
}
impl Entry<EntryIncremental, EntryNew> {
//@extract is_add_conflict
//@extract merge_state
//@extract resolve_add_conflict
}
impl Entry<EntryIncremental, EntryCommitted> {
//@extract validate_repl
}
}
fn main(){}
