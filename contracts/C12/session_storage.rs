use vstd::prelude::*;
use core::cmp::Ordering;
verus! {
//@include shims/duration.rs
//@include shims/uuid.rs
//@include shims/offsetdatetime.rs
//@extract Cid
//@extract SessionState
//@extract Oauth2Session
//@extract DbCidV1
//@extract DbValueSessionStateV1
//@extract DbValueOauth2Session
// ---- RFC 3339 text <-> instant: opaque (time crate); only whether parsing succeeds matters here ----
pub struct Rfc3339;
pub struct ParseError { pub o: u8 }
pub mod time { pub struct UtcOffset { pub o: u8 } impl UtcOffset { pub const UTC: UtcOffset = UtcOffset { o: 0 }; } }
impl OffsetDateTime {
    #[verifier::external_body] pub fn parse(s: &String, f: &Rfc3339) -> (r: Result<OffsetDateTime, ParseError>) { unimplemented!() }
    #[verifier::external_body] pub fn to_offset(self, o: time::UtcOffset) -> (r: OffsetDateTime) { unimplemented!() }
}
// std combinators used on the timestamp chains (std documentation; vstd has no specification for them)
pub assume_specification<T, E>[ Result::<Option<T>, E>::transpose ](r: Result<Option<T>, E>) -> (o: Option<Result<T, E>>);
pub assume_specification<T, E>[ Option::<Result<T, E>>::transpose ](r: Option<Result<T, E>>) -> (o: Result<Option<T>, E>)
    ensures r is None ==> o == Ok::<Option<T>, E>(None), r matches Some(Ok(t)) ==> o == Ok::<Option<T>, E>(Some(t)), r matches Some(Err(e)) ==> o == Err::<Option<T>, E>(e);

// ---- C12 for stored OAuth2 sessions: a stored record that loads comes back as the same session — same key, parent, resource
// server and state kind — and the value's resource-server filter (the OR of the rs uuids, which gates lookups and revocation by
// resource server) covers it. A reloaded value that compares equal but answers `contains(Refer(rs))` differently is not "identical
// behaviour". ----
pub open spec fn covers(filter: u128, rs: Uuid) -> bool { filter & rs.0 == rs.0 }
pub open spec fn db_refer(d: DbValueOauth2Session) -> Uuid { match d { DbValueOauth2Session::V1 { refer, .. } => refer, DbValueOauth2Session::V2 { refer, .. } => refer, DbValueOauth2Session::V3 { refer, .. } => refer } }
pub open spec fn db_rs(d: DbValueOauth2Session) -> Uuid { match d { DbValueOauth2Session::V1 { rs_uuid, .. } => rs_uuid, DbValueOauth2Session::V2 { rs_uuid, .. } => rs_uuid, DbValueOauth2Session::V3 { rs_uuid, .. } => rs_uuid } }
pub open spec fn db_parent(d: DbValueOauth2Session) -> Option<Uuid> { match d { DbValueOauth2Session::V1 { parent, .. } => Some(parent), DbValueOauth2Session::V2 { parent, .. } => Some(parent), DbValueOauth2Session::V3 { parent, .. } => parent } }
pub open spec fn state_kind_ok(d: DbValueOauth2Session, s: SessionState) -> bool {
    match d {
        DbValueOauth2Session::V1 { expiry, .. } => (expiry is Some ==> s is ExpiresAt) && (expiry is None ==> s is NeverExpires),
        DbValueOauth2Session::V2 { state, .. } | DbValueOauth2Session::V3 { state, .. } => match state {
            DbValueSessionStateV1::ExpiresAt(_) => s is ExpiresAt,
            DbValueSessionStateV1::Never => s is NeverExpires,
            DbValueSessionStateV1::RevokedAt(dc) => s == SessionState::RevokedAt(Cid { s_uuid: dc.server_id, ts: dc.timestamp }),
        },
    }
}
pub proof fn lemma_or_covers(f: u128, x: u128) ensures (f | x) & x == x { assert((f | x) & x == x) by (bit_vector); }
pub proof fn lemma_or_keeps(f: u128, x: u128, y: u128) requires f & y == y ensures (f | x) & y == y { assert(f & y == y ==> (f | x) & y == y) by (bit_vector); }
//@extract session_from_db
}
fn main(){}
