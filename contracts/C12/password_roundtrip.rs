#![allow(non_camel_case_types)]
use vstd::prelude::*;
verus! {
// Base64UrlSafeData (base64urlsafedata crate): a newtype around Vec<u8>; From conversions are the identity on the bytes
pub struct Base64UrlSafeData(pub Vec<u8>);
impl vstd::std_specs::convert::FromSpecImpl<Vec<u8>> for Base64UrlSafeData {
    open spec fn obeys_from_spec() -> bool { true }
    open spec fn from_spec(v: Vec<u8>) -> Base64UrlSafeData { Base64UrlSafeData(v) }
}
impl From<Vec<u8>> for Base64UrlSafeData { fn from(v: Vec<u8>) -> (r: Base64UrlSafeData) { Base64UrlSafeData(v) } }
impl vstd::std_specs::convert::FromSpecImpl<Base64UrlSafeData> for Vec<u8> {
    open spec fn obeys_from_spec() -> bool { true }
    open spec fn from_spec(v: Base64UrlSafeData) -> Vec<u8> { v.0 }
}
impl From<Base64UrlSafeData> for Vec<u8> { fn from(v: Base64UrlSafeData) -> (r: Vec<u8>) { v.0 } }

//@extract DbPasswordV1
//@extract Kdf
//@extract Password

// ---- specification: both representations are given the SAME abstract view -------------------
// tag = the variant NAME (numbered in declaration order), then the numeric, byte-string and string payloads in order.
// "reads back unchanged" == kdf_view(decode(encode(x))) == kdf_view(x), which follows from the two contracts below.
pub struct PV { pub tag: int, pub nums: Seq<u32>, pub bytes: Seq<Seq<u8>>, pub strs: Seq<Seq<char>> }
pub open spec fn kdf_view(k: Kdf) -> PV {
    match k {
        Kdf::TPM_ARGON2ID { m_cost, t_cost, p_cost, version, salt, key } => PV { tag: 0, nums: seq![m_cost, t_cost, p_cost, version], bytes: seq![salt@, key@], strs: seq![] },
        Kdf::ARGON2ID { m_cost, t_cost, p_cost, version, salt, key } => PV { tag: 1, nums: seq![m_cost, t_cost, p_cost, version], bytes: seq![salt@, key@], strs: seq![] },
        Kdf::PBKDF2(c, s, h) => PV { tag: 2, nums: seq![c], bytes: seq![s@, h@], strs: seq![] },
        Kdf::PBKDF2_SHA1(c, s, h) => PV { tag: 3, nums: seq![c], bytes: seq![s@, h@], strs: seq![] },
        Kdf::PBKDF2_SHA512(c, s, h) => PV { tag: 4, nums: seq![c], bytes: seq![s@, h@], strs: seq![] },
        Kdf::SHA1(h) => PV { tag: 5, nums: seq![], bytes: seq![h@], strs: seq![] },
        Kdf::SSHA1(s, h) => PV { tag: 6, nums: seq![], bytes: seq![s@, h@], strs: seq![] },
        Kdf::SHA256(h) => PV { tag: 7, nums: seq![], bytes: seq![h@], strs: seq![] },
        Kdf::SSHA256(s, h) => PV { tag: 8, nums: seq![], bytes: seq![s@, h@], strs: seq![] },
        Kdf::SHA512(h) => PV { tag: 9, nums: seq![], bytes: seq![h@], strs: seq![] },
        Kdf::SSHA512(s, h) => PV { tag: 10, nums: seq![], bytes: seq![s@, h@], strs: seq![] },
        Kdf::NT_MD4(h) => PV { tag: 11, nums: seq![], bytes: seq![h@], strs: seq![] },
        Kdf::CRYPT_MD5 { s, h } => PV { tag: 12, nums: seq![], bytes: seq![s@, h@], strs: seq![] },
        Kdf::CRYPT_SHA256 { h } => PV { tag: 13, nums: seq![], bytes: seq![], strs: seq![h@] },
        Kdf::CRYPT_SHA512 { h } => PV { tag: 14, nums: seq![], bytes: seq![], strs: seq![h@] },
    }
}
pub open spec fn db_view(d: DbPasswordV1) -> PV {
    match d {
        DbPasswordV1::TPM_ARGON2ID { m, t, p, v, s, k } => PV { tag: 0, nums: seq![m, t, p, v], bytes: seq![s.0@, k.0@], strs: seq![] },
        DbPasswordV1::ARGON2ID { m, t, p, v, s, k } => PV { tag: 1, nums: seq![m, t, p, v], bytes: seq![s.0@, k.0@], strs: seq![] },
        DbPasswordV1::PBKDF2(c, s, h) => PV { tag: 2, nums: seq![c], bytes: seq![s@, h@], strs: seq![] },
        DbPasswordV1::PBKDF2_SHA1(c, s, h) => PV { tag: 3, nums: seq![c], bytes: seq![s@, h@], strs: seq![] },
        DbPasswordV1::PBKDF2_SHA512(c, s, h) => PV { tag: 4, nums: seq![c], bytes: seq![s@, h@], strs: seq![] },
        DbPasswordV1::SHA1(h) => PV { tag: 5, nums: seq![], bytes: seq![h@], strs: seq![] },
        DbPasswordV1::SSHA1(s, h) => PV { tag: 6, nums: seq![], bytes: seq![s@, h@], strs: seq![] },
        DbPasswordV1::SHA256(h) => PV { tag: 7, nums: seq![], bytes: seq![h@], strs: seq![] },
        DbPasswordV1::SSHA256(s, h) => PV { tag: 8, nums: seq![], bytes: seq![s@, h@], strs: seq![] },
        DbPasswordV1::SHA512(h) => PV { tag: 9, nums: seq![], bytes: seq![h@], strs: seq![] },
        DbPasswordV1::SSHA512(s, h) => PV { tag: 10, nums: seq![], bytes: seq![s@, h@], strs: seq![] },
        DbPasswordV1::NT_MD4(h) => PV { tag: 11, nums: seq![], bytes: seq![h@], strs: seq![] },
        DbPasswordV1::CRYPT_MD5 { s, h } => PV { tag: 12, nums: seq![], bytes: seq![s.0@, h.0@], strs: seq![] },
        DbPasswordV1::CRYPT_SHA256 { h } => PV { tag: 13, nums: seq![], bytes: seq![], strs: seq![h@] },
        DbPasswordV1::CRYPT_SHA512 { h } => PV { tag: 14, nums: seq![], bytes: seq![], strs: seq![h@] },
    }
}

impl vstd::std_specs::convert::TryFromSpecImpl<DbPasswordV1> for Password {
    open spec fn obeys_try_from_spec() -> bool { false }
    open spec fn try_from_spec(v: DbPasswordV1) -> Result<Password, ()> { arbitrary() }
}
impl TryFrom<DbPasswordV1> for Password {
    type Error = ();
//@extract try_from
}
impl Password {
//@extract to_dbpasswordv1
}
// C12 (password storage encoding): store → reload gives back a value with the same view, for every variant and payload
pub proof fn c12_roundtrip(x: Password, stored: DbPasswordV1, reloaded: Result<Password, ()>)
    requires db_view(stored) == kdf_view(x.material),                                         // to_dbpasswordv1's postcondition
             reloaded matches Ok(p) && kdf_view(p.material) == db_view(stored),               // try_from's postcondition
    ensures reloaded matches Ok(p) && kdf_view(p.material) == kdf_view(x.material)
{}
}
fn main(){}
