use vstd::prelude::*;
verus! {
//@extract TotpDigits
//@extract TotpAlgo
//@extract Totp
//@extract DbTotpAlgoV1
//@extract DbTotpV1
#[verifier::external_body] pub fn kvx_label() -> (r: String) { unimplemented!() }       // "totp".to_string()
// ---- C12: what is stored is what was held. The stored form of a TOTP and its reading back, written from the statement ----
pub open spec fn enc_algo(a: TotpAlgo) -> DbTotpAlgoV1 { match a { TotpAlgo::Sha1 => DbTotpAlgoV1::S1, TotpAlgo::Sha256 => DbTotpAlgoV1::S256, TotpAlgo::Sha512 => DbTotpAlgoV1::S512 } }
pub open spec fn dec_algo(a: DbTotpAlgoV1) -> TotpAlgo { match a { DbTotpAlgoV1::S1 => TotpAlgo::Sha1, DbTotpAlgoV1::S256 => TotpAlgo::Sha256, DbTotpAlgoV1::S512 => TotpAlgo::Sha512 } }
pub open spec fn digits_u8(d: TotpDigits) -> u8 { match d { TotpDigits::Six => 6u8, TotpDigits::Eight => 8u8 } }
pub open spec fn same_totp(a: Totp, b: Totp) -> bool { a.secret@ == b.secret@ && a.step == b.step && a.algo == b.algo && a.digits == b.digits }
// a stored record reads back as t
pub open spec fn reads_back(d: DbTotpV1, t: Totp) -> bool {
    d.key@ == t.secret@ && d.step == t.step && dec_algo(d.algo) == t.algo && d.digits == Some(digits_u8(t.digits))
}
impl TotpDigits {
//@extract digits_try_from
//@extract digits_into
}
impl Totp {
//@extract totp_try_from
//@extract to_dbtotpv1
}
// round trip: reading back what to_dbtotpv1 wrote yields the same TOTP (from the two contracts)
pub proof fn lemma_round_trip(t: Totp, d: DbTotpV1, r: Totp)
    requires reads_back(d, t), same_totp_from(d, r)
    ensures same_totp(t, r)
{}
pub open spec fn same_totp_from(d: DbTotpV1, r: Totp) -> bool {
    r.secret@ == d.key@ && r.step == d.step && r.algo == dec_algo(d.algo) && (d.digits matches Some(x) ==> digits_u8(r.digits) == x)
}
}
fn main(){}
