use vstd::prelude::*;
use vstd::string::*;
verus! {
//@extract CryptPw
// R3 stand-in for str::starts_with(&str) (generic over Pattern: this Verus cannot attach a specification to it):
// true iff `pat` is a prefix of `s`, as character sequences. The literal patterns' contents are revealed by the woven hint.
#[verifier::external_body]
pub fn str_starts_with(s: &str, pat: &str) -> (r: bool)
    ensures r == (pat@.len() <= s@.len() && s@.subrange(0, pat@.len() as int) == pat@)
{ s.starts_with(pat) }
#[verifier::external_body]
pub fn str_to_string(s: &str) -> (r: String) ensures r@ == s@ { s.to_string() }

// ---- specification from the statement of C43 (offline fallback half) ----
// a shadow password field yields a verifying variant only if it IS a crypt hash, i.e. begins with `$`:
// locked (`!...`, `*...`), disabled (`x`, `*`, `!`) and empty fields never verify any credential
pub open spec fn can_verify(p: CryptPw) -> bool { !(p is Invalid) }
pub open spec fn stored(p: CryptPw) -> Seq<char> { match p { CryptPw::Sha256(s) => s@, CryptPw::Sha512(s) => s@, CryptPw::YesCrypt(s) => s@, CryptPw::Invalid => seq![] } }
// verified as an inherent method (Verus has no specification for the foreign trait core::str::FromStr);
// `Self::Err` is spelled out as the impl's `type Err = &'static str` (R4)
impl CryptPw {
//@extract from_str
}
}
fn main(){}
