use vstd::prelude::*;
use core::cmp::Ordering;
verus! {
// ---- real type definitions, extracted ---------------------------------------------------
//@extract PamResultCode
pub type PamResult<T> = Result<T, PamResultCode>;
//@extract ModuleOptions
//@extract PamAuthResponse
//@extract PamAuthRequest
//@extract PamServiceInfo
//@extract ClientRequest
//@extract ClientResponse
//@extract EtcUser
//@extract EtcShadow
//@extract Source

// ---- stand-ins for foreign / out-of-scope types (opaque) ---------------------------------
//@include shims/offsetdatetime.rs
pub mod time { pub use super::OffsetDateTime; }
#[derive(Clone, Copy)]
pub struct Duration { pub secs: u64, pub nanos: u32 }
impl Duration { #[verifier::external_body] pub fn from_secs(s: u64) -> Duration { unimplemented!() } }
pub struct DeviceAuthorizationResponse { pub expires_in: u32 }
pub struct OperationError;
pub struct NssUser;
pub struct NssGroup;
pub struct ProviderStatus;

// the daemon connection: the ONLY way to learn `said_success` is a Success step response from call_and_wait
#[verifier::external_body]
pub struct DaemonClientBlocking { _p: u8 }
impl DaemonClientBlocking {
    pub uninterp spec fn said_success(&self) -> bool;
    pub uninterp spec fn said_allowed(&self) -> bool;        // the daemon answered PamStatus(Some(true)) to an account-allowed request
    #[verifier::external_body]
    pub fn call_and_wait(&self, req: ClientRequest, timeout: Option<u64>) -> (r: Result<ClientResponse, ()>)
        ensures (r matches Ok(ClientResponse::PamAuthenticateStepResponse { response: PamAuthResponse::Success, session_id: _ })) ==> self.said_success(),
                (r matches Ok(ClientResponse::PamStatus(Some(true)))) ==> self.said_allowed()
    { unimplemented!() }
}
// PAM conversation callbacks. Stated type invariant (assumed): a handler never returns Err(PAM_SUCCESS).
pub trait PamHandler {
    fn account_id(&self) -> (r: PamResult<String>) ensures !(r matches Err(PamResultCode::PAM_SUCCESS));
    fn service_info(&self) -> (r: PamResult<PamServiceInfo>) ensures !(r matches Err(PamResultCode::PAM_SUCCESS));
    fn authtok(&self) -> (r: PamResult<Option<String>>) ensures !(r matches Err(PamResultCode::PAM_SUCCESS));
    fn message(&self, prompt: &str) -> (r: PamResult<()>) ensures !(r matches Err(PamResultCode::PAM_SUCCESS));
    fn message_device_grant(&self, data: &DeviceAuthorizationResponse) -> (r: PamResult<()>) ensures !(r matches Err(PamResultCode::PAM_SUCCESS));
    fn prompt_for_password(&self) -> (r: PamResult<Option<String>>) ensures !(r matches Err(PamResultCode::PAM_SUCCESS));
    fn prompt_for_pin(&self, msg: Option<&str>) -> (r: PamResult<Option<String>>) ensures !(r matches Err(PamResultCode::PAM_SUCCESS));
    fn prompt_for_mfacode(&self) -> (r: PamResult<Option<String>>) ensures !(r matches Err(PamResultCode::PAM_SUCCESS));
}
pub mod std { pub mod env { use vstd::prelude::*; verus!{ #[verifier::external_body] pub fn vars() -> Vec<(String, String)> { unimplemented!() } } }
  pub mod mem { pub use core::mem::swap; }
  pub mod thread { use vstd::prelude::*; verus!{ #[verifier::external_body] pub fn sleep(d: super::super::Duration) { unimplemented!() } } } }
// shadow hash verification: uninterpreted predicate `ok`
pub struct CryptPw;
impl CryptPw { pub uninterp spec fn ok(&self, s: Seq<char>) -> bool;
   #[verifier::external_body] pub fn check_pw(&self, cred: &str) -> (r: bool) ensures r == self.ok(cred@) { unimplemented!() } }

// where a request is served from; `source_of` names the (opaque) choice made by connect_to_daemon
pub struct RequestOptions;
impl RequestOptions {
    pub uninterp spec fn source_of(self) -> Source;
    #[verifier::external_body]
    pub fn connect_to_daemon(self) -> (r: Source) ensures r == self.source_of() { unimplemented!() }
}

// ---- specification (from the statement of C43) -------------------------------------------
// offline fallback may succeed only against a shadow entry of THIS account whose hash verifies the supplied
// credential and which has not expired
pub open spec fn fallback_ok(shadow: Seq<EtcShadow>, now: OffsetDateTime) -> bool {
    exists|i: int, pw: Seq<char>| 0 <= i < shadow.len() && #[trigger] shadow[i].password.ok(pw)
        && (shadow[i].epoch_expire_seconds matches Some(e) ==> now.unix_ns < e.unix_ns)
}
pub open spec fn auth_success_justified(src: Source, now: OffsetDateTime) -> bool {
    match src {
        Source::Daemon(d) => d.said_success(),
        Source::Fallback { users, shadow } => fallback_ok(shadow@, now),
    }
}

// account phase: success only on the daemon's explicit "allowed", or offline for an unexpired local shadow entry
pub open spec fn acct_success_justified(src: Source, now: OffsetDateTime) -> bool {
    match src {
        Source::Daemon(d) => d.said_allowed(),
        Source::Fallback { users, shadow } => exists|i: int| 0 <= i < shadow@.len() && (#[trigger] shadow@[i].epoch_expire_seconds matches Some(e) ==> now.unix_ns < e.unix_ns),
    }
}
//@extract sm_authenticate_connected
//@extract sm_authenticate_fallback
//@extract sm_authenticate
//@extract acct_mgmt
}
fn main(){}
