use vstd::prelude::*;
use core::cmp::Ordering;
verus! {
//@include shims/duration.rs
//@include shims/duration_ops.rs
//@include shims/duration_sub.rs
//@include shims/uuid.rs
//@include shims/std_option.rs
impl Duration {
    pub fn checked_sub(self, rhs: Duration) -> (r: Option<Duration>)
        requires self.wf(), rhs.wf(),
        ensures r is Some == !self.dlt(rhs), r is Some ==> r->Some_0 == dur_sub(self, rhs) && r->Some_0.wf(),
    { if self.secs < rhs.secs || (self.secs == rhs.secs && self.nanos < rhs.nanos) { None } else { Some(self - rhs) } }
}
//@extract Cid
impl Clone for Cid { fn clone(&self) -> (r: Self) ensures r == *self { Cid { ts: self.ts, s_uuid: self.s_uuid } } }
//@extract RECYCLEBIN_MAX_AGE
pub const NIL_UUID: Uuid = Uuid(0);
pub open spec fn dsecs(n: u64) -> Duration { Duration { secs: n, nanos: 0 } }
pub enum OperationError { InvalidReplChangeId, SchemaViolation(SchemaError), Backend, Other }
pub struct SchemaError { pub o: u8 }
impl Cid {
//@extract sub_secs
}
pub struct AttrString { pub o: u64 }
//@extract Attribute
pub enum EntryClass { Recycled, Tombstone, Other(u64) }
pub enum PartialValue { Class(EntryClass), Cid(Cid), Other(u64) }
#[verifier::external_body] pub fn kvx_class_pv(c: EntryClass) -> (r: PartialValue) ensures r == PartialValue::Class(c) { unimplemented!() }
impl PartialValue {
//@extract pv_new_cid
}
// In this unit `Vec` is a stand-in viewed as a sequence (shadows std Vec)
#[verifier::external_body] #[verifier::accept_recursive_types(T)] pub struct Vec<T> { p: core::marker::PhantomData<T> }
impl<T> View for Vec<T> { type V = Seq<T>; uninterp spec fn view(&self) -> Seq<T>; }
#[verifier::external_body] #[verifier::reject_recursive_types(T)] pub struct KvxIter<'a, T> { p: core::marker::PhantomData<&'a T> }
impl<T> Vec<T> {
    #[verifier::external_body] pub fn iter(&self) -> (r: KvxIter<'_, T>) ensures r.seq() == self@ { unimplemented!() }
    #[verifier::external_body] pub fn is_empty(&self) -> (r: bool) ensures r == (self@.len() == 0) { unimplemented!() }
    #[verifier::external_body] pub fn len(&self) -> (r: usize) ensures r == self@.len() { unimplemented!() }
}
impl<'a, T> KvxIter<'a, T> {
    pub uninterp spec fn seq(&self) -> Seq<T>;
    // .map(f).collect::<Result<Vec<_>, _>>() (std documentation): f applied to every item in order; the first error is returned
    #[verifier::external_body] pub fn kvx_try_map_vec<U, E, F: Fn(&'a T) -> Result<U, E>>(self, f: F) -> (r: Result<Vec<U>, E>)
        requires forall|t: &T| #[trigger] f.requires((t,)),
        ensures r matches Ok(v) ==> (v@.len() == self.seq().len() && forall|i: int| 0 <= i < v@.len() ==> f.ensures((&self.seq()[i],), Ok(#[trigger] v@[i]))) { unimplemented!() }
}
//@extract FC
//@extract f_eq
//@extract f_lt
//@extract f_and
// f_and!([a, b]) = f_and(Box::new([a, b]).into_vec())
#[verifier::external_body] pub fn kvx_f_and_arr<const N: usize>(vs: [FC; N]) -> (r: FC) ensures r matches FC::And(l) && l@ == vs@ { unimplemented!() }
pub struct Filter { pub fc: FC }
pub fn kvx_filter_all(fc: FC) -> (r: Filter) ensures r.fc == fc { Filter { fc } }       // filter_all!(fc) = Filter::new(fc): no hidden-entry wrapper

// ---- entries and what a filter means for one of them ----
pub struct EntryInner { pub o: u64 }
pub type EntrySealedCommitted = EntryInner;
pub struct Arc<T> { pub v: T }
impl<T> core::ops::Deref for Arc<T> { type Target = T; fn deref(&self) -> (r: &T) ensures *r == self.v { &self.v } }
pub uninterp spec fn leaf(f: FC, e: EntryInner) -> bool;
// an AND matches iff each of its terms does; every other term (leaves, and nested operators, which this function does not build) is
// an uninterpreted predicate of (term, entry)
pub open spec fn fcm(f: FC, e: EntryInner) -> bool {
    match f { FC::And(l) => forall|i: int| 0 <= i < l@.len() ==> leaf(#[trigger] l@[i], e), _ => leaf(f, e) }
}
// the statement: an entry leaves the recycle bin only when it is recycled and was last modified before (now - retention)
pub open spec fn purgeable(e: EntryInner, now: Cid) -> bool {
    exists|bound: Cid| bound.ts == dur_sub(now.ts, dsecs(RECYCLEBIN_MAX_AGE)) && !now.ts.dlt(dsecs(RECYCLEBIN_MAX_AGE))
        && leaf(FC::Eq(Attribute::Class, PartialValue::Class(EntryClass::Recycled)), e) && #[trigger] leaf(FC::LessThan(Attribute::LastModifiedCid, PartialValue::Cid(bound)), e)
}
// tombstone construction, schema validation and sealing of one entry: opaque steps that keep track of the source entry
pub struct EntryTs { pub src: EntryInner, pub at: Cid }
pub struct Schema { pub o: u8 }
impl EntryInner { #[verifier::external_body] pub fn to_tombstone(&self, cid: Cid) -> (r: EntryTs) ensures r.src == *self, r.at == cid { unimplemented!() } }
impl EntryTs {
    #[verifier::external_body] pub fn validate(self, s: &Schema) -> (r: Result<EntryTs, SchemaError>) ensures r matches Ok(x) ==> x == self { unimplemented!() }
    #[verifier::external_body] pub fn seal(self, s: &Schema) -> (r: EntryTs) ensures r == self { unimplemented!() }
}
pub struct BackendWriteTransaction { pub o: u8 }
impl BackendWriteTransaction {
    pub uninterp spec fn log(&self) -> Seq<(Seq<Arc<EntryInner>>, Seq<EntryTs>)>;      // (pre, post) of every backend modify in this transaction
    #[verifier::external_body] pub fn modify(&mut self, cid: &Cid, pre: &Vec<Arc<EntryInner>>, post: &Vec<EntryTs>) -> (r: Result<(), OperationError>)
        ensures final(self).log() == old(self).log().push((pre@, post@)) { unimplemented!() }
}
pub struct QueryServerWriteTransaction { pub be_txn: BackendWriteTransaction, pub cid: Cid, pub schema: Schema }
impl QueryServerWriteTransaction {
    // internal_search: every entry returned matches the filter (search returning exactly the matches is C01); the backend is not written
    #[verifier::external_body] pub fn internal_search(&mut self, f: Filter) -> (r: Result<Vec<Arc<EntryInner>>, OperationError>)
        ensures final(self).be_txn.log() == old(self).be_txn.log(), final(self).cid == old(self).cid,
                r matches Ok(v) ==> forall|i: int| 0 <= i < v@.len() ==> fcm(f.fc, (#[trigger] v@[i]).v) { unimplemented!() }
//@extract purge_recycled
}
}
fn main(){}
