use vstd::prelude::*;
use core::cmp::Ordering;
verus! {
//@include shims/duration.rs
//@include shims/uuid.rs
//@include shims/std_option.rs
//@extract Cid
pub open spec fn cid_lt(a: Cid, b: Cid) -> bool { a.ts.dlt(b.ts) || (a.ts == b.ts && a.s_uuid.0 < b.s_uuid.0) }
impl vstd::std_specs::cmp::PartialEqSpecImpl for Cid {
    open spec fn obeys_eq_spec() -> bool { true }
    open spec fn eq_spec(&self, o: &Cid) -> bool { self.ts == o.ts && self.s_uuid == o.s_uuid }
}
impl vstd::std_specs::cmp::PartialOrdSpecImpl for Cid {
    open spec fn obeys_partial_cmp_spec() -> bool { true }
    open spec fn partial_cmp_spec(&self, o: &Cid) -> Option<Ordering> {
        if cid_lt(*self, *o) { Some(Ordering::Less) } else if *self == *o { Some(Ordering::Equal) } else { Some(Ordering::Greater) } }
}
impl Clone for Cid { fn clone(&self) -> (r: Self) ensures r == *self { Cid { ts: self.ts, s_uuid: self.s_uuid } } }
pub enum OperationError { ReplInvalidRUVState, Backend, Other }
// In this unit `Vec` is a stand-in viewed as a sequence (shadows std Vec), with the adaptors used, each stated through the closure's
// own CHECKED contract (std documentation)
#[verifier::external_body] #[verifier::reject_recursive_types(T)] pub struct Vec<T> { p: core::marker::PhantomData<T> }
impl<T> View for Vec<T> { type V = Seq<T>; uninterp spec fn view(&self) -> Seq<T>; }
#[verifier::external_body] #[verifier::reject_recursive_types(T)] pub struct KvxIntoIter<T> { p: core::marker::PhantomData<T> }
#[verifier::external_body] #[verifier::reject_recursive_types(T)] pub struct KvxIter<'a, T> { p: core::marker::PhantomData<&'a T> }
#[verifier::external_body] pub struct KvxIdIter { _p: u8 }
impl<T> Vec<T> {
    #[verifier::external_body] pub fn into_iter(self) -> (r: KvxIntoIter<T>) ensures r.seq() == self@ { unimplemented!() }
    #[verifier::external_body] pub fn iter(&self) -> (r: KvxIter<'_, T>) ensures r.seq() == self@ { unimplemented!() }
    #[verifier::external_body] pub fn is_empty(&self) -> (r: bool) ensures r == (self@.len() == 0) { unimplemented!() }
    #[verifier::external_body] pub fn len(&self) -> (r: usize) ensures r == self@.len() { unimplemented!() }
}
impl<T> KvxIntoIter<T> {
    pub uninterp spec fn seq(&self) -> Seq<T>;
    // Iterator::partition: an item goes to the first result iff the predicate holds for it, to the second otherwise
    #[verifier::external_body] pub fn partition<F: Fn(&T) -> bool>(self, f: F) -> (r: (Vec<T>, Vec<T>))
        requires forall|t: &T| #[trigger] f.requires((t,)),
        ensures forall|i: int| 0 <= i < r.0@.len() ==> self.seq().contains(#[trigger] r.0@[i]) && f.ensures((&r.0@[i],), true),
                forall|i: int| 0 <= i < r.1@.len() ==> self.seq().contains(#[trigger] r.1@[i]) && f.ensures((&r.1@[i],), false),
                r.0@.len() + r.1@.len() == self.seq().len() { unimplemented!() }
}
impl<'a, T> KvxIter<'a, T> {
    pub uninterp spec fn seq(&self) -> Seq<T>;
    #[verifier::external_body] pub fn all<F: Fn(&'a T) -> bool>(self, f: F) -> (r: bool)
        requires forall|t: &T| #[trigger] f.requires((t,)),
        ensures r ==> forall|i: int| 0 <= i < self.seq().len() ==> f.ensures((&#[trigger] self.seq()[i],), true) { unimplemented!() }
    // .map(f).collect::<IDLBitRange>(): the set of the images
    #[verifier::external_body] pub fn kvx_map_collect_idl<F: Fn(&'a T) -> u64>(self, f: F) -> (r: IDLBitRange)
        requires forall|t: &T| #[trigger] f.requires((t,)),
        ensures forall|id: u64| #[trigger] r.ids().contains(id) <==> exists|i: int| 0 <= i < self.seq().len() && f.ensures((&#[trigger] self.seq()[i],), id) { unimplemented!() }
}
// idlset::v2::IDLBitRange viewed as a set of entry ids
#[verifier::external_body] pub struct IDLBitRange { _p: u8 }
impl IDLBitRange {
    pub uninterp spec fn ids(&self) -> Set<u64>;
    #[verifier::external_body] pub fn default() -> (r: IDLBitRange) ensures r.ids() == Set::<u64>::empty() { unimplemented!() }
    #[verifier::external_body] pub fn contains(&self, id: u64) -> (r: bool) ensures r == self.ids().contains(id) { unimplemented!() }
    #[verifier::external_body] pub fn is_empty(&self) -> (r: bool) ensures r == (self.ids() =~= Set::<u64>::empty()) { unimplemented!() }
    #[verifier::external_body] pub fn len(&self) -> (r: usize) { unimplemented!() }
    #[verifier::external_body] pub fn into_iter(self) -> (r: KvxIdIter) ensures r.ids() == self.ids() { unimplemented!() }
}
impl KvxIdIter { pub uninterp spec fn ids(&self) -> Set<u64>; }
#[verifier::external_body] pub fn kvx_idl_and(a: &IDLBitRange, b: &IDLBitRange) -> (r: IDLBitRange) ensures r.ids() == a.ids().intersect(b.ids()) { unimplemented!() }
pub enum IdList { Indexed(IDLBitRange), AllIds }

// entries as the backend holds them: an id and a change state (observers proved on the real text in contracts/C09/merge_state)
pub struct EntryChangeState { pub o: u8 }
impl EntryChangeState {
    pub uninterp spec fn deletable(&self, c: Cid) -> bool;     // can_delete: a tombstone whose deletion id is before c
    pub uninterp spec fn live(&self) -> bool;
    #[verifier::external_body] pub fn can_delete(&self, cid: &Cid) -> (r: bool) ensures r == self.deletable(*cid) { unimplemented!() }
    #[verifier::external_body] pub fn is_live(&self) -> (r: bool) ensures r == self.live() { unimplemented!() }
}
pub struct EntrySealedCommitted { pub id: u64, pub ecstate: EntryChangeState }
impl EntrySealedCommitted {
    pub fn get_changestate(&self) -> (r: &EntryChangeState) ensures *r == self.ecstate { &self.ecstate }
    pub fn get_id(&self) -> (r: u64) ensures r == self.id { self.id }
}
pub struct Arc<T> { pub v: T }
impl<T> core::ops::Deref for Arc<T> { type Target = T; fn deref(&self) -> (r: &T) ensures *r == self.v { &self.v } }
// replication update vector (C10) and the id layer: stand-ins; the id layer logs what is deleted
pub struct Ruv { pub o: u8 }
impl Ruv {
    #[verifier::external_body] pub fn insert_change(&mut self, cid: &Cid, idl: IDLBitRange) -> (r: Result<(), OperationError>) { unimplemented!() }
    #[verifier::external_body] pub fn trim_up_to(&mut self, cid: &Cid) -> (r: Result<IDLBitRange, OperationError>) { unimplemented!() }
    #[verifier::external_body] pub fn ruv_idls(&self) -> (r: IDLBitRange) { unimplemented!() }
}
pub struct IdLayer { pub o: u8 }
impl IdLayer {
    pub uninterp spec fn deleted(&self) -> Set<u64>;                                  // ids removed for good in this transaction
    pub uninterp spec fn entry(&self, id: u64) -> EntrySealedCommitted;                // the stored entry of an id
    #[verifier::external_body] pub fn get_identry(&mut self, idl: &IdList) -> (r: Result<Vec<Arc<EntrySealedCommitted>>, OperationError>)
        ensures final(self).deleted() == old(self).deleted(), forall|id: u64| final(self).entry(id) == old(self).entry(id),
                r matches Ok(v) ==> forall|i: int| 0 <= i < v@.len() ==> (#[trigger] v@[i]).v == old(self).entry(v@[i].v.id) { unimplemented!() }
    #[verifier::external_body] pub fn delete_identry(&mut self, idl: KvxIdIter) -> (r: Result<(), OperationError>)
        ensures forall|id: u64| #[trigger] final(self).deleted().contains(id) ==> (old(self).deleted().contains(id) || idl.ids().contains(id)),
                forall|id: u64| final(self).entry(id) == old(self).entry(id) { unimplemented!() }
}
pub struct BackendWriteTransaction { pub ruv: Ruv, pub idlayer: IdLayer }
impl BackendWriteTransaction {
    pub fn get_ruv(&mut self) -> (r: &mut Ruv) ensures *r == old(self).ruv, *final(r) == final(self).ruv, final(self).idlayer == old(self).idlayer { &mut self.ruv }
    pub fn get_idlayer(&mut self) -> (r: &mut IdLayer) ensures *r == old(self).idlayer, *final(r) == final(self).idlayer, final(self).ruv == old(self).ruv { &mut self.idlayer }
    // index clean-up of the removed tombstones (entry_index; index consistency is C03, not decided)
    #[verifier::external_body] pub fn kvx_purge_indexes(&mut self, t: &Vec<Arc<EntrySealedCommitted>>) -> (r: Result<(), OperationError>)
        ensures final(self).idlayer.deleted() == old(self).idlayer.deleted(), forall|id: u64| final(self).idlayer.entry(id) == old(self).idlayer.entry(id) { unimplemented!() }

//@extract reap_tombstones
}
// Result::inspect (std documentation): calls f with a reference to the value, returns the result unchanged
pub assume_specification<T, E, F: FnOnce(&T)>[ Result::<T, E>::inspect ](r: Result<T, E>, f: F) -> (o: Result<T, E>)
    requires r matches Ok(t) ==> f.requires((&t,)),
    ensures o == r;
// the write transaction: its change id, and the trim point fixed when it was opened (QueryServer::write: cid - CHANGELOG_MAX_AGE)
pub struct QueryServerWriteTransaction { pub be_txn: BackendWriteTransaction, pub cid: Cid, pub trim_cid: Cid }
impl QueryServerWriteTransaction {
//@extract qs_trim_cid
//@extract get_txn_cid
//@extract purge_tombstones
}
}
fn main(){}
