use vstd::prelude::*;
use core::cmp::Ordering;
verus! {
//@include shims/duration.rs
//@include shims/duration_ops.rs
//@include shims/duration_sub.rs
//@include shims/uuid.rs
//@include shims/std_option.rs
impl Duration {
    // core::time::Duration::checked_sub (std documentation): None when rhs is greater
    pub fn checked_sub(self, rhs: Duration) -> (r: Option<Duration>)
        requires self.wf(), rhs.wf(),
        ensures r is Some == !self.dlt(rhs), r is Some ==> r->Some_0 == dur_sub(self, rhs) && r->Some_0.wf(),
    { if self.secs < rhs.secs || (self.secs == rhs.secs && self.nanos < rhs.nanos) { None } else { Some(self - rhs) } }
}
//@extract Cid
//@extract CHANGELOG_MAX_AGE
pub const NIL_UUID: Uuid = Uuid(0);
pub enum OperationError { InvalidReplChangeId, DatabaseLockAcquisitionTimeout, Backend, Other }
impl Cid {
//@extract new_lamport
//@extract sub_secs
}
// ---- the server's shared cells and the handles a write transaction holds: opaque, except the change-id cell ----
pub struct Cell<T> { pub v: T }
pub struct Txn<T> { pub v: T }
impl<T: Copy> Cell<T> {
    #[verifier::external_body] pub fn write(&self) -> (r: Txn<T>) { unimplemented!() }
    #[verifier::external_body] pub fn read(&self) -> (r: Txn<T>) { unimplemented!() }
}
// CowCell<Cid>::write(): a private, writable copy of the published maximum change id (concread documentation)
pub struct CidCell { pub max: Cid }
impl CidCell { pub fn write(&self) -> (r: Box<Cid>) ensures *r == self.max { Box::new(Cid { ts: self.max.ts, s_uuid: self.max.s_uuid }) } }
pub struct Backend { pub o: u8 }
pub struct BackendWriteTransaction { pub o: u8 }
impl Backend { #[verifier::external_body] pub fn write(&self) -> (r: Result<BackendWriteTransaction, OperationError>) { unimplemented!() } }
#[derive(Clone, Copy)] pub struct ServerPhase { pub o: u8 }
#[derive(Clone, Copy)] pub struct DomainInfo { pub o: u8 }
#[derive(Clone, Copy)] pub struct SystemConfig { pub o: u8 }
#[derive(Clone, Copy)] pub struct FeatureConfig { pub o: u8 }
#[derive(Clone, Copy)] pub struct SchemaInner { pub o: u8 }
#[derive(Clone, Copy)] pub struct AcpInner { pub o: u8 }
#[derive(Clone, Copy)] pub struct KeyInner { pub o: u8 }
#[derive(Clone, Copy)] pub struct CacheInner { pub o: u8 }
#[derive(Clone, Copy)] pub struct DynGroupCache { pub o: u8 }
pub struct SemaphorePermit { pub o: u8 }
pub struct ChangeFlag { pub o: u64 }
impl ChangeFlag { pub fn empty() -> (r: ChangeFlag) { ChangeFlag { o: 0 } } }
pub struct HashSet<T> { pub v: Option<T> }
impl<T> HashSet<T> { pub fn new() -> (r: HashSet<T>) { HashSet { v: None } } }
pub struct NameMap { pub o: u8 }
pub fn kvx_default_name_map() -> (r: NameMap) { NameMap { o: 0 } }
pub struct QueryServerWriteTransaction {
    pub committed: bool, pub phase: Txn<ServerPhase>, pub d_info: Txn<DomainInfo>, pub system_config: Txn<SystemConfig>, pub feature_config: Txn<FeatureConfig>,
    pub curtime: Duration, pub cid: Box<Cid>, pub trim_cid: Cid, pub be_txn: BackendWriteTransaction, pub schema: Txn<SchemaInner>,
    pub accesscontrols: Txn<AcpInner>, pub key_providers: Txn<KeyInner>, pub changed_flags: ChangeFlag, pub changed_uuid: HashSet<Uuid>,
    pub _db_ticket: SemaphorePermit, pub _write_ticket: SemaphorePermit, pub resolve_filter_cache_clear: bool,
    pub resolve_filter_cache_write: Txn<CacheInner>, pub resolve_filter_cache: Txn<CacheInner>, pub dyngroup_cache: Txn<DynGroupCache>, pub txn_name_to_uuid: NameMap,
}
pub struct QueryServer {
    pub phase: Cell<ServerPhase>, pub d_info: Cell<DomainInfo>, pub system_config: Cell<SystemConfig>, pub feature_config: Cell<FeatureConfig>,
    pub be: Backend, pub schema: Cell<SchemaInner>, pub accesscontrols: Cell<AcpInner>, pub cid_max: CidCell,
    pub resolve_filter_cache: Cell<CacheInner>, pub dyngroup_cache: Cell<DynGroupCache>, pub key_providers: Cell<KeyInner>,
}
pub open spec fn dsecs(n: u64) -> Duration { Duration { secs: n, nanos: 0 } }
impl QueryServer {
    // semaphore acquisition (tokio): opaque
    #[verifier::external_body] pub fn write_acquire_ticket(&self) -> (r: Option<(SemaphorePermit, SemaphorePermit)>) { unimplemented!() }
//@extract qs_write
}
}
fn main(){}
