use vstd::prelude::*;
use core::cmp::Ordering;
verus! {
//@include shims/duration.rs
//@include shims/duration_ops.rs
//@include shims/duration_sub.rs
//@include shims/uuid.rs
//@include shims/std_option.rs
impl Duration {
    // core::time::Duration::checked_sub (std documentation): None when rhs is greater
    pub fn checked_sub(self, rhs: Duration) -> (r: Option<Duration>)
        requires self.wf(), rhs.wf(),
        ensures r is Some == !self.dlt(rhs), r is Some ==> r->Some_0 == dur_sub(self, rhs) && r->Some_0.wf(),
    { if self.secs < rhs.secs || (self.secs == rhs.secs && self.nanos < rhs.nanos) { None } else { Some(self - rhs) } }
}
//@extract Cid
//@extract CHANGELOG_MAX_AGE
pub const NIL_UUID: Uuid = Uuid(0);
pub enum OperationError { InvalidReplChangeId, DatabaseLockAcquisitionTimeout, Backend, Other }
impl Cid {
//@extract new_lamport
//@extract sub_secs
}
// ---- the server's shared cells and the handles a write transaction holds: opaque, except the change-id cell ----
pub struct Cell<T> { pub v: T }
pub struct Txn<T> { pub v: T }
impl<T: Copy> Cell<T> {
    #[verifier::external_body] pub fn write(&self) -> (r: Txn<T>) { unimplemented!() }
    #[verifier::external_body] pub fn read(&self) -> (r: Txn<T>) { unimplemented!() }
}
// CowCell<Cid>::write(): a private, writable copy of the published maximum change id (concread documentation)
pub struct CidCell { pub max: Cid }
pub struct CidTxn { pub v: Cid }
impl core::ops::Deref for CidTxn { type Target = Cid; fn deref(&self) -> (r: &Cid) ensures *r == self.v { &self.v } }
impl CidTxn {
    pub fn set(&mut self, c: Cid) ensures final(self).v == c { self.v = c; }                      // `*cid = c` (DerefMut of the CowCell write handle)
    #[verifier::external_body] pub fn commit(self) requires publish_ok() { unimplemented!() }      // publishes the new maximum to later transactions
}
impl CidCell { pub fn write(&self) -> (r: CidTxn) ensures r.v == self.max { CidTxn { v: Cid { ts: self.max.ts, s_uuid: self.max.s_uuid } } } }
pub struct Backend { pub o: u8 }
pub struct BackendWriteTransaction { pub o: u8 }
impl Backend { #[verifier::external_body] pub fn write(&self) -> (r: Result<BackendWriteTransaction, OperationError>) ensures r matches Ok(t) ==> t.of() == *self { unimplemented!() } }
// the storage transaction: remembers the maximum change time written into it; `stored_ok(b)` = its commit reported success
pub uninterp spec fn stored_ok(b: BackendWriteTransaction) -> bool;
// C04 protocol for the commit path: server-wide state (change-id maximum, schema, domain info, configuration, phase, caches, key
// providers, access controls) may be PUBLISHED to readers only once the storage transaction's own commit has reported success.
// Finding F12 (known-findings.txt): commit() publishes first — `f12_known_gap()` exempts it; the reproduction removes the exemption.
pub open spec fn f12_known_gap() -> bool { true }
pub open spec fn publish_ok() -> bool { f12_known_gap() || exists|b: BackendWriteTransaction| #[trigger] stored_ok(b) }
impl BackendWriteTransaction {
    pub uninterp spec fn ts_max(&self) -> Option<Duration>;
    #[verifier::external_body] pub fn set_db_ts_max(&mut self, ts: Duration) -> (r: Result<(), OperationError>) ensures r is Ok ==> final(self).ts_max() == Some(ts) { unimplemented!() }
    #[verifier::external_body] pub fn commit(self) -> (r: Result<(), OperationError>) ensures r is Ok ==> stored_ok(self) { unimplemented!() }
}
impl<T> Txn<T> {
    #[verifier::external_body] pub fn commit(self) requires publish_ok() { unimplemented!() }
    #[verifier::external_body] pub fn clear(&mut self) { unimplemented!() }
}
pub struct SchemaTxn { pub o: u8 } pub struct FallibleTxn { pub o: u8 }
impl SchemaTxn { #[verifier::external_body] pub fn commit(self) -> (r: Result<(), OperationError>) requires publish_ok() { unimplemented!() } }
impl FallibleTxn { #[verifier::external_body] pub fn commit(self) -> (r: Result<(), OperationError>) requires publish_ok() { unimplemented!() } }
#[derive(Clone, Copy)] pub struct ServerPhase { pub o: u8 }
#[derive(Clone, Copy)] pub struct DomainInfo { pub o: u8 }
#[derive(Clone, Copy)] pub struct SystemConfig { pub o: u8 }
#[derive(Clone, Copy)] pub struct FeatureConfig { pub o: u8 }
#[derive(Clone, Copy)] pub struct SchemaInner { pub o: u8 }
#[derive(Clone, Copy)] pub struct AcpInner { pub o: u8 }
#[derive(Clone, Copy)] pub struct KeyInner { pub o: u8 }
#[derive(Clone, Copy)] pub struct CacheInner { pub o: u8 }
#[derive(Clone, Copy)] pub struct DynGroupCache { pub o: u8 }
pub struct SchemaCell { pub o: u8 } pub struct FallibleCell { pub o: u8 }
impl SchemaCell { #[verifier::external_body] pub fn write(&self) -> (r: SchemaTxn) { unimplemented!() } }
impl FallibleCell { #[verifier::external_body] pub fn write(&self) -> (r: FallibleTxn) { unimplemented!() } }
pub struct SemaphorePermit { pub o: u8 }
pub struct ChangeFlag { pub o: u64 }
impl ChangeFlag { pub fn empty() -> (r: ChangeFlag) { ChangeFlag { o: 0 } } }
pub struct HashSet<T> { pub v: Option<T> }
impl<T> HashSet<T> { pub fn new() -> (r: HashSet<T>) { HashSet { v: None } } }
pub struct NameMap { pub o: u8 }
pub fn kvx_default_name_map() -> (r: NameMap) { NameMap { o: 0 } }
pub struct QueryServerWriteTransaction {
    pub committed: bool, pub phase: Txn<ServerPhase>, pub d_info: Txn<DomainInfo>, pub system_config: Txn<SystemConfig>, pub feature_config: Txn<FeatureConfig>,
    pub curtime: Duration, pub cid: CidTxn, pub trim_cid: Cid, pub be_txn: BackendWriteTransaction, pub schema: SchemaTxn,
    pub accesscontrols: FallibleTxn, pub key_providers: FallibleTxn, pub changed_flags: ChangeFlag, pub changed_uuid: HashSet<Uuid>,
    pub _db_ticket: SemaphorePermit, pub _write_ticket: SemaphorePermit, pub resolve_filter_cache_clear: bool,
    pub resolve_filter_cache_write: Txn<CacheInner>, pub resolve_filter_cache: Txn<CacheInner>, pub dyngroup_cache: Txn<DynGroupCache>, pub txn_name_to_uuid: NameMap,
}
pub struct Semaphore { pub o: u8 }
pub struct QueryServer {
    pub phase: Cell<ServerPhase>, pub d_info: Cell<DomainInfo>, pub system_config: Cell<SystemConfig>, pub feature_config: Cell<FeatureConfig>,
    pub be: Backend, pub schema: SchemaCell, pub accesscontrols: FallibleCell, pub cid_max: CidCell,
    pub resolve_filter_cache: Cell<CacheInner>, pub dyngroup_cache: Cell<DynGroupCache>, pub key_providers: FallibleCell,
    pub db_tickets: Semaphore, pub read_tickets: Semaphore, pub write_ticket: Semaphore,
}
// start-up: what the storage holds (server uuid, domain uuid, the maximum change time persisted by the last successful commit)
impl Backend {
    pub uninterp spec fn stored_s_uuid(&self) -> Uuid;
    pub uninterp spec fn stored_ts_max(&self) -> Duration;
    #[verifier::external_body] pub fn get_pool_size(&self) -> (r: u32) ensures r > 0 { unimplemented!() }      // the code asserts this (debug_assert!(pool_size > 0))
}
impl BackendWriteTransaction {
    pub uninterp spec fn of(&self) -> Backend;
    #[verifier::external_body] pub fn get_db_s_uuid(&mut self) -> (r: Result<Uuid, OperationError>) ensures final(self).of() == old(self).of(), r matches Ok(u) ==> u == old(self).of().stored_s_uuid() { unimplemented!() }
    #[verifier::external_body] pub fn get_db_d_uuid(&mut self) -> (r: Result<Uuid, OperationError>) ensures final(self).of() == old(self).of() { unimplemented!() }
    // get_db_ts_max(curtime): the persisted maximum (or, on a fresh database, the current time, which it then stores)
    #[verifier::external_body] pub fn get_db_ts_max(&mut self, curtime: Duration) -> (r: Result<Duration, OperationError>)
        ensures final(self).of() == old(self).of(), r matches Ok(t) ==> t == old(self).of().stored_ts_max() && t.wf() && t.dlt(Duration::MAX) { unimplemented!() }
}
pub struct Schema { pub o: u8 }
pub struct StringOpaque { pub o: u8 }
impl StringOpaque { #[verifier::external_body] pub fn clone(&self) -> (r: StringOpaque) { unimplemented!() } }
#[verifier::external_body] pub fn kvx_domain_info_cell(d_uuid: Uuid, name: StringOpaque) -> (r: Cell<DomainInfo>) { unimplemented!() }
#[verifier::external_body] pub fn kvx_new_cell<T: Copy>() -> (r: Cell<T>) { unimplemented!() }
#[verifier::external_body] pub fn kvx_schema_cell(s: Schema) -> (r: SchemaCell) { unimplemented!() }
#[verifier::external_body] pub fn kvx_fallible_cell() -> (r: FallibleCell) { unimplemented!() }
pub fn kvx_cid_cell(c: Cid) -> (r: CidCell) ensures r.max == c { CidCell { max: c } }                 // Arc::new(CowCell::new(cid))
#[verifier::external_body] pub fn kvx_semaphore(n: usize) -> (r: Semaphore) { unimplemented!() }
#[verifier::external_body] pub fn kvx_filter_cache() -> (r: Result<Cell<CacheInner>, OperationError>) { unimplemented!() }
pub open spec fn dsecs(n: u64) -> Duration { Duration { secs: n, nanos: 0 } }
impl QueryServer {
    // semaphore acquisition (tokio): opaque
    #[verifier::external_body] pub fn write_acquire_ticket(&self) -> (r: Option<(SemaphorePermit, SemaphorePermit)>) { unimplemented!() }
//@extract qs_write
//@extract qs_new
}
impl QueryServerWriteTransaction {
    // reload of schema / access controls / domain info from changed entries (C04: not decided); leaves the change id and the storage transaction's time alone
    #[verifier::external_body] pub fn reload(&mut self) -> (r: Result<(), OperationError>) ensures final(self).cid == old(self).cid, final(self).be_txn.ts_max() == old(self).be_txn.ts_max(), final(self).committed == old(self).committed { unimplemented!() }
//@extract qs_commit
    #[verifier::external_body] pub fn get_changed_app(&self) -> (r: bool) { unimplemented!() }
    #[verifier::external_body] pub fn get_changed_oauth2(&self) -> (r: bool) { unimplemented!() }
    #[verifier::external_body] pub fn get_changed_oauth2_client(&self) -> (r: bool) { unimplemented!() }
}
// the identity-management layer's write transaction: its own published cells, then the query server's commit
#[derive(Clone, Copy)] pub struct AppsInner { pub o: u8 }
#[derive(Clone, Copy)] pub struct Oauth2Inner { pub o: u8 }
#[derive(Clone, Copy)] pub struct CredSessInner { pub o: u8 }
#[derive(Clone, Copy)] pub struct Oauth2ClientInner { pub o: u8 }
pub struct IdmServerProxyWriteTransaction { pub qs_write: QueryServerWriteTransaction, pub applications: Txn<AppsInner>, pub oauth2rs: Txn<Oauth2Inner>, pub cred_update_sessions: Txn<CredSessInner>, pub oauth2_client_providers: Txn<Oauth2ClientInner> }
impl IdmServerProxyWriteTransaction {
    #[verifier::external_body] pub fn reload_applications(&mut self) -> (r: Result<(), OperationError>) ensures final(self).qs_write == old(self).qs_write { unimplemented!() }
    #[verifier::external_body] pub fn reload_oauth2(&mut self) -> (r: Result<(), OperationError>) ensures final(self).qs_write == old(self).qs_write { unimplemented!() }
    #[verifier::external_body] pub fn reload_oauth2_client_providers(&mut self) -> (r: Result<(), OperationError>) ensures final(self).qs_write == old(self).qs_write { unimplemented!() }
//@extract idm_commit
}
}
fn main(){}
