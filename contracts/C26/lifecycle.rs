use vstd::prelude::*;
use core::cmp::Ordering;
use vstd::std_specs::iter::IteratorSpec;
verus! {
//@include shims/duration.rs
//@include shims/duration_ops.rs
//@include shims/duration_sub.rs
//@include shims/uuid.rs
//@include shims/std_option.rs
impl Duration {
    // core::time::Duration::checked_sub (std documentation): None when rhs is greater
    pub fn checked_sub(self, rhs: Duration) -> (r: Option<Duration>)
        requires self.wf(), rhs.wf(),
        ensures r is Some == !self.dlt(rhs), r is Some ==> r->Some_0 == dur_sub(self, rhs) && r->Some_0.wf(),
    { if self.secs < rhs.secs || (self.secs == rhs.secs && self.nanos < rhs.nanos) { None } else { Some(self - rhs) } }
}
pub struct AttrString { pub o: u64 }
//@extract Attribute
// values compared against: classes, change ids, anything else
pub enum EntryClass { Tombstone, Recycled, Other(u64) }
pub enum PartialValue { Class(EntryClass), Cid(Cid), Other(u64) }
#[verifier::external_body] pub fn kvx_class_pv(c: EntryClass) -> (r: PartialValue) ensures r == PartialValue::Class(c) { unimplemented!() }
//@extract Cid
pub const NIL_UUID: Uuid = Uuid(0);
pub enum OperationError { InvalidReplChangeId, Backend, ReplInvalidRUVState, SchemaViolation, Other }
//@extract FilterComp
//@extract FilterValid
//@extract FilterInvalid
//@extract Filter

// ---- meaning of a filter for one entry (the arms of Entry::entry_match_no_index_inner; leaves uninterpreted) ----
#[verifier::external_body] pub struct EntryView { _p: u8 }
pub uninterp spec fn leaf(f: FilterComp, e: EntryView) -> bool;      // Eq / Cnt / Stw / Enw / Pres / LessThan / SelfUuid against the entry's values
pub open spec fn is_class(e: EntryView, c: EntryClass) -> bool { leaf(FilterComp::Eq(Attribute::Class, PartialValue::Class(c)), e) }
pub open spec fn fc_match(f: FilterComp, e: EntryView) -> bool decreases f {
    match f {
        FilterComp::Or(l) => exists|i: int| 0 <= i < l@.len() && fc_match(#[trigger] l@[i], e),
        FilterComp::And(l) => forall|i: int| 0 <= i < l@.len() ==> fc_match(#[trigger] l@[i], e),
        FilterComp::AndNot(b) => !fc_match(*b, e),
        FilterComp::Inclusion(_) => false,
        FilterComp::Invalid(_) => false,
        _ => leaf(f, e),
    }
}
// C26 / C23: what normal and recycle-bin searches can see
pub open spec fn hidden(e: EntryView) -> bool { is_class(e, EntryClass::Tombstone) || is_class(e, EntryClass::Recycled) }

impl FilterComp {
//@extract fc_new_ignore_hidden
//@extract fc_new_recycled
}
impl Filter<FilterValid> {
//@extract into_ignore_hidden
//@extract into_recycled
}
impl Cid {
//@extract sub_secs
}
}
fn main(){}
