use vstd::prelude::*;
use vstd::std_specs::iter::IteratorSpec;
verus! {
pub enum OperationError { Backend }
#[derive(Clone, Copy)] pub struct AttrString { pub o: u64 }
//@extract Attribute
pub struct QueryServerWriteTransaction { pub o: u8 }
pub struct DeleteEvent { pub o: u8 }
// a value set is opaque here: what matters is WHICH attribute's set ends up where
pub struct ValueSet { pub o: int }
// an entry about to be recycled: attribute -> value set (ghost)
pub struct EntryInvalidCommitted { pub o: int }
impl EntryInvalidCommitted {
    pub uninterp spec fn ava(&self, a: Attribute) -> Option<ValueSet>;
    // Entry::pop_ava: removes the attribute and returns its value set
    #[verifier::external_body] pub fn pop_ava(&mut self, a: Attribute) -> (r: Option<ValueSet>)
        ensures r == old(self).ava(a), final(self).ava(a) is None, forall|b: Attribute| b != a ==> #[trigger] final(self).ava(b) == old(self).ava(b) { unimplemented!() }
    // Entry::set_ava_set: replaces the attribute's value set
    #[verifier::external_body] pub fn set_ava_set(&mut self, a: &Attribute, vs: ValueSet)
        ensures final(self).ava(*a) == Some(vs), forall|b: Attribute| b != *a ==> #[trigger] final(self).ava(b) == old(self).ava(b) { unimplemented!() }
    // Entry::purge_ava: removes the attribute
    #[verifier::external_body] pub fn purge_ava(&mut self, a: Attribute)
        ensures final(self).ava(a) is None, forall|b: Attribute| b != a ==> #[trigger] final(self).ava(b) == old(self).ava(b) { unimplemented!() }
}
// C26: "... returning with its direct memberships": what the revive later reads (recycled_directmemberof) is exactly the direct
// memberships the entry had when it was deleted; computed memberships do not survive into the recycle bin
pub open spec fn recycled_ok(before: EntryInvalidCommitted, after: EntryInvalidCommitted) -> bool {
    after.ava(Attribute::RecycledDirectMemberOf) == before.ava(Attribute::DirectMemberOf)
    && after.ava(Attribute::MemberOf) is None && after.ava(Attribute::DirectMemberOf) is None
}
pub open spec fn others_kept(before: EntryInvalidCommitted, after: EntryInvalidCommitted) -> bool {
    forall|b: Attribute| b != Attribute::RecycledDirectMemberOf && b != Attribute::MemberOf && b != Attribute::DirectMemberOf ==> #[trigger] after.ava(b) == before.ava(b)
}
pub struct MemberOf;
impl MemberOf {
//@extract memberof_pre_delete
}
}
fn main(){}
