use vstd::prelude::*;
verus! {
pub enum OperationError { Backend }
// Whether the storage commit of transaction t succeeds — a fact about the future, fixed per transaction, that only the result of
// the id layer's commit reveals. Publishing in-memory state `requires` it: code that publishes before it knows the storage commit
// succeeded cannot discharge the precondition (C04: a failed operation leaves no trace).
pub uninterp spec fn will_store(t: int) -> bool;
pub struct IdSet { pub o: u8 }
pub struct Ruv { pub t: Ghost<int> }
impl Ruv {
    #[verifier::external_body] pub fn added(&self) -> (r: IdSet) { unimplemented!() }
    #[verifier::external_body] pub fn removed(&self) -> (r: IdSet) { unimplemented!() }
    // publishes the new replication update vector to later transactions
    #[verifier::external_body] pub fn commit(self) requires will_store(self.t@) { unimplemented!() }
}
pub struct IdxMetaWr { pub t: Ghost<int> }
impl IdxMetaWr {
    // publishes the new index metadata
    #[verifier::external_body] pub fn commit(self) requires will_store(self.t@) { unimplemented!() }
}
pub struct IdLayerWr { pub t: Ghost<int> }
impl IdLayerWr {
    #[verifier::external_body] pub fn write_db_ruv(&mut self, a: IdSet, r: IdSet) -> (res: Result<(), OperationError>) ensures final(self).t@ == old(self).t@ { unimplemented!() }
    // flushes the caches to SQLite and issues COMMIT: Ok exactly when the storage commit succeeded
    #[verifier::external_body] pub fn commit(self) -> (r: Result<(), OperationError>) ensures r is Ok == will_store(self.t@) { unimplemented!() }
}
pub struct BackendWriteTransaction { pub idlayer: IdLayerWr, pub idxmeta_wr: IdxMetaWr, pub ruv: Ruv }
impl BackendWriteTransaction {
    // the three parts belong to one transaction
    pub open spec fn wf(&self) -> bool { self.ruv.t@ == self.idlayer.t@ && self.idxmeta_wr.t@ == self.idlayer.t@ }
//@extract be_commit
}
}
fn main(){}
