use vstd::prelude::*;
use core::cmp::Ordering;
use vstd::std_specs::iter::IteratorSpec;
verus! {
//@include shims/uuid.rs
//@include shims/kvx_btreemap.rs
//@include shims/std_option.rs
pub enum OperationError { InvalidEntryState, InvalidState, Backend }
#[derive(Clone, Copy)] pub struct AttrString { pub o: u64 }
//@extract Attribute
pub struct Identity { pub o: u8 }
// a dyngroup's stored filter (kanidm_proto::v1::Filter) and its resolved form; what a filter selects is the search semantics (C01)
pub struct ProtoFilter { pub o: int }
impl Clone for ProtoFilter { #[verifier::external_body] fn clone(&self) -> (r: ProtoFilter) ensures r == *self { unimplemented!() } }
pub struct FilterInvalid;
#[verifier::reject_recursive_types(S)] pub struct Filter<S> { pub from: ProtoFilter, pub p: core::marker::PhantomData<S> }
impl Filter<FilterInvalid> {
    // Filter::from_rw: the resolved form of that stored filter (reads the transaction, changes nothing)
    #[verifier::external_body] pub fn from_rw(ident: &Identity, f: &ProtoFilter, qs: &mut QueryServerWriteTransaction) -> (r: Result<Filter<FilterInvalid>, OperationError>)
        ensures r matches Ok(x) ==> x.from == *f, *final(qs) == *old(qs) { unimplemented!() }
    #[verifier::external_body] pub fn clone(&self) -> (r: Filter<FilterInvalid>) ensures r == *self { unimplemented!() }
}
// reference value sets and uuid collections
pub struct ValueSet { pub o: int }
impl ValueSet { pub uninterp spec fn set(&self) -> Set<Uuid>;
    #[verifier::external_body] pub fn as_ref_uuid_iter(&self) -> (r: Option<UuidIter>) { unimplemented!() } }
pub struct UuidIter { pub o: u8 }
#[verifier::external_body] #[verifier::reject_recursive_types(T)] pub struct BTreeSet<T> { p: core::marker::PhantomData<T> }
impl BTreeSet<Uuid> {
    #[verifier::external_body] pub fn insert(&mut self, u: Uuid) -> (r: bool) { unimplemented!() }
    #[verifier::external_body] pub fn extend(&mut self, it: UuidIter) { unimplemented!() }
}
// the filter cache the other hooks match candidate entries against: dyn group uuid -> resolved filter
pub struct DynGroupCache { pub insts: BTreeMap<Uuid, Filter<FilterInvalid>> }
// ---- entries ----
pub struct EntrySealed; pub struct EntryCommitted;
#[verifier::reject_recursive_types(S)] #[verifier::reject_recursive_types(C)] pub struct Entry<S, C> { pub o: int, pub p: core::marker::PhantomData<(S, C)> }
pub struct EntrySealedCommitted { pub o: int }
impl EntrySealedCommitted { pub uninterp spec fn uuid(&self) -> Uuid; }
pub struct Arc<T> { pub v: T }
impl Arc<EntrySealedCommitted> {
    #[verifier::external_body] pub fn get_uuid(&self) -> (r: Uuid) ensures r == self.v.uuid() { unimplemented!() }
    #[verifier::external_body] pub fn get_ava_as_refuuid(&self, a: Attribute) -> (r: Option<UuidIter>) { unimplemented!() }
}
// the writeable copy of a dyn group: its stored filter and its dynmember set (empty when the attribute is absent) — ghost views
pub struct EntryInvalidCommitted { pub o: int }
impl EntryInvalidCommitted {
    pub uninterp spec fn dyn_filter(&self) -> Option<ProtoFilter>;
    pub uninterp spec fn dynmember(&self) -> Set<Uuid>;
    #[verifier::external_body] pub fn get_ava_single_protofilter(&self, a: Attribute) -> (r: Option<&ProtoFilter>)
        ensures a == Attribute::DynGroupFilter ==> ((r is Some) == (self.dyn_filter() is Some) && (r matches Some(f) ==> Some(*f) == self.dyn_filter())) { unimplemented!() }
    #[verifier::external_body] pub fn set_ava_set(&mut self, a: &Attribute, vs: ValueSet)
        ensures *a == Attribute::DynMember ==> final(self).dynmember() == vs.set(), final(self).dyn_filter() == old(self).dyn_filter() || *a == Attribute::DynGroupFilter,
                *a != Attribute::DynMember ==> final(self).dynmember() == old(self).dynmember() { unimplemented!() }
    #[verifier::external_body] pub fn purge_ava(&mut self, a: Attribute)
        ensures a == Attribute::DynMember ==> final(self).dynmember() == Set::<Uuid>::empty(), final(self).dyn_filter() == old(self).dyn_filter() || a == Attribute::DynGroupFilter,
                a != Attribute::DynMember ==> final(self).dynmember() == old(self).dynmember() { unimplemented!() }
}
// ---- the write transaction ----
pub struct Db { pub o: int }
// the uuids of the live entries a filter selects in that database (search semantics: C01)
pub uninterp spec fn matching(db: Db, f: ProtoFilter) -> Set<Uuid>;

pub struct QueryServerWriteTransaction { pub o: int }
impl QueryServerWriteTransaction {
    pub uninterp spec fn db(&self) -> Db;
    pub uninterp spec fn applied(&self) -> Seq<(Arc<EntrySealedCommitted>, EntryInvalidCommitted)>;     // ghost log of internal_apply_writable
    #[verifier::external_body] pub fn kvx_before_schema_ready(&self) -> (r: bool) { unimplemented!() }
    // a search result holds each entry once (uuids are unique)
    #[verifier::external_body] pub fn internal_search_writeable(&mut self, f: &Filter<FilterInvalid>) -> (r: Result<Vec<(Arc<EntrySealedCommitted>, EntryInvalidCommitted)>, OperationError>)
        ensures *final(self) == *old(self), r matches Ok(v) ==> forall|i: int, j: int| 0 <= i < j < v@.len() ==> (#[trigger] v@[i]).0.v.uuid() != (#[trigger] v@[j]).0.v.uuid() { unimplemented!() }
    #[verifier::external_body] pub fn internal_search(&mut self, f: Filter<FilterInvalid>) -> (r: Result<Vec<Arc<EntrySealedCommitted>>, OperationError>)
        ensures *final(self) == *old(self), r matches Ok(v) ==> members_are(v@, matching(old(self).db(), f.from)) { unimplemented!() }
    #[verifier::external_body] pub fn internal_apply_writable(&mut self, w: Vec<(Arc<EntrySealedCommitted>, EntryInvalidCommitted)>) -> (r: Result<(), OperationError>)
        ensures final(self).applied() == old(self).applied() + w@ { unimplemented!() }
}
// the entries of v are exactly the members of s
pub open spec fn in_entries(v: Seq<Arc<EntrySealedCommitted>>, u: Uuid) -> bool { exists|i: int| 0 <= i < v.len() && (#[trigger] v[i]).v.uuid() == u }
pub open spec fn members_are(v: Seq<Arc<EntrySealedCommitted>>, s: Set<Uuid>) -> bool { forall|u: Uuid| #[trigger] s.contains(u) <==> in_entries(v, u) }
// `filter!(FC::Or(n_dyn_groups.iter().map(|e| f_eq(Uuid, e.get_uuid())).collect()))`
#[verifier::external_body] pub fn kvx_uuid_filter(g: &[&Entry<EntrySealed, EntryCommitted>]) -> (r: Filter<FilterInvalid>) { unimplemented!() }
// `ValueSetRefer::from_iter(entries.iter().map(|e| e.get_uuid()))`: None for no entries, else the set of their uuids
#[verifier::external_body] pub fn kvx_refer_from_entries(v: &Vec<Arc<EntrySealedCommitted>>) -> (r: Option<ValueSet>)
    ensures r is None == (v@.len() == 0), r matches Some(vs) ==> members_are(v@, vs.set()) { unimplemented!() }
// C18, one recomputation step: the group's dynamic members are exactly the entries its stored filter selects now
pub open spec fn dyn_ok(db: Db, g: EntryInvalidCommitted) -> bool {
    g.dyn_filter() matches Some(f) && g.dynmember() =~= matching(db, f)
}
// the cache entry of a recomputed group is its stored filter (later candidate changes are matched against the cache)
pub open spec fn cached_ok(cache: Map<Uuid, Filter<FilterInvalid>>, g: (Arc<EntrySealedCommitted>, EntryInvalidCommitted)) -> bool {
    cache.contains_key(g.0.v.uuid()) && Some(cache[g.0.v.uuid()].from) == g.1.dyn_filter()
}
pub open spec fn log_extends<T>(old_log: Seq<T>, new_log: Seq<T>) -> bool {
    old_log.len() <= new_log.len() && forall|i: int| 0 <= i < old_log.len() ==> #[trigger] new_log[i] == old_log[i]
}
pub struct DynGroup;
impl DynGroup {
//@extract apply_dyngroup_change
}
}
fn main(){}
