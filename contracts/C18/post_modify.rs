use vstd::prelude::*;
use core::cmp::Ordering;
use vstd::std_specs::iter::IteratorSpec;
verus! {
//@include shims/uuid.rs
pub struct SchemaError { pub o: u8 }
pub enum OperationError { InvalidEntryState, InvalidState, Backend, SchemaViolation(SchemaError) }
pub enum Attribute { Class, DynMember, Uuid, Other }
pub enum EntryClass { DynGroup, Other }
pub enum PartialValue { Class(EntryClass), Refer(Uuid), Uuid(Uuid), Other }
impl vstd::std_specs::convert::FromSpecImpl<EntryClass> for PartialValue { open spec fn obeys_from_spec() -> bool { true } open spec fn from_spec(v: EntryClass) -> PartialValue { PartialValue::Class(v) } }
impl From<EntryClass> for PartialValue { fn from(v: EntryClass) -> (r: PartialValue) { PartialValue::Class(v) } }
pub enum Value { Refer(Uuid), Other }
pub struct Identity { pub o: u8 }
impl Identity { #[verifier::external_body] pub fn from_internal() -> (r: Identity) { unimplemented!() } }
// ---- filters: a dyn group's cached filter, its resolved form, and what a filter selects (entry_match_no_index: C01) ----
pub struct ProtoFilter { pub o: int }
pub struct FilterInvalid; pub struct FilterValidResolved;
#[verifier::reject_recursive_types(S)] pub struct Filter<S> { pub from: ProtoFilter, pub p: core::marker::PhantomData<S> }
pub uninterp spec fn sp_match(e: Entry<EntrySealed, EntryCommitted>, f: ProtoFilter) -> bool;
pub enum FC { Eq(Attribute, PartialValue) }
pub fn f_eq(a: Attribute, v: PartialValue) -> (r: FC) ensures r == FC::Eq(a, v) { FC::Eq(a, v) }
pub struct UuidFilter { pub fc: FC }
pub fn kvx_filter(fc: FC) -> (r: UuidFilter) ensures r.fc == fc { UuidFilter { fc } }
// ---- sets of uuids (the affected-uuid bookkeeping handed to memberof: C17; unspecified here) ----
#[verifier::external_body] #[verifier::reject_recursive_types(T)] pub struct BTreeSet<T> { p: core::marker::PhantomData<T> }
#[verifier::external_body] pub struct KvxSymDiff<'a> { p: core::marker::PhantomData<&'a u8> }
pub trait KvxUuids { }
impl<'a> KvxUuids for &'a BTreeSet<Uuid> { }
impl<'a> KvxUuids for KvxSymDiff<'a> { }
impl BTreeSet<Uuid> {
    #[verifier::external_body] pub fn new() -> (r: BTreeSet<Uuid>) { unimplemented!() }
    #[verifier::external_body] pub fn len(&self) -> (r: usize) { unimplemented!() }
    #[verifier::external_body] pub fn is_empty(&self) -> (r: bool) { unimplemented!() }
    #[verifier::external_body] pub fn symmetric_difference<'a>(&'a self, o: &'a BTreeSet<Uuid>) -> (r: KvxSymDiff<'a>) { unimplemented!() }
    #[verifier::external_body] pub fn extend<S: KvxUuids>(&mut self, s: S) { unimplemented!() }
}
// ---- entries ----
pub struct EntrySealed; pub struct EntryCommitted;
#[verifier::reject_recursive_types(S)] #[verifier::reject_recursive_types(C)] pub struct Entry<S, C> { pub o: int, pub p: core::marker::PhantomData<(S, C)> }
impl Entry<EntrySealed, EntryCommitted> {
    pub uninterp spec fn uuid(&self) -> Uuid;
    pub uninterp spec fn is_dyngroup(&self) -> bool;
    pub uninterp spec fn dynmember(&self) -> Set<Uuid>;
    #[verifier::external_body] pub fn get_uuid(&self) -> (r: Uuid) ensures r == self.uuid() { unimplemented!() }
    #[verifier::external_body] pub fn attribute_equality(&self, a: Attribute, v: &PartialValue) -> (r: bool)
        ensures (a is Class && *v == PartialValue::Class(EntryClass::DynGroup)) ==> r == self.is_dyngroup() { unimplemented!() }
    #[verifier::external_body] pub fn entry_match_no_index(&self, f: &Filter<FilterValidResolved>) -> (r: bool) ensures r == sp_match(*self, f.from) { unimplemented!() }
    #[verifier::external_body] pub fn get_ava_refer(&self, a: Attribute) -> (r: Option<&BTreeSet<Uuid>>) { unimplemented!() }
}
pub struct Arc<T> { pub v: T }
impl Arc<Entry<EntrySealed, EntryCommitted>> {
    pub fn attribute_equality(&self, a: Attribute, v: &PartialValue) -> (r: bool) ensures (a is Class && *v == PartialValue::Class(EntryClass::DynGroup)) ==> r == self.v.is_dyngroup() { self.v.attribute_equality(a, v) }
    pub fn entry_match_no_index(&self, f: &Filter<FilterValidResolved>) -> (r: bool) ensures r == sp_match(self.v, f.from) { self.v.entry_match_no_index(f) }
    pub fn get_ava_refer(&self, a: Attribute) -> (r: Option<&BTreeSet<Uuid>>) { self.v.get_ava_refer(a) }
}
// the writeable copy of a dyn group: its dynmember set (empty when the attribute is absent) — a ghost view
pub struct EntryInvalidCommitted { pub o: int }
impl EntryInvalidCommitted {
    pub uninterp spec fn dynmember(&self) -> Set<Uuid>;
    #[verifier::external_body] pub fn add_ava(&mut self, a: Attribute, v: Value)
        ensures (a is DynMember && v matches Value::Refer(u)) ==> final(self).dynmember() == old(self).dynmember().insert(v->Refer_0) { unimplemented!() }
    #[verifier::external_body] pub fn remove_ava(&mut self, a: Attribute, v: &PartialValue)
        ensures (a is DynMember && *v matches PartialValue::Refer(u)) ==> final(self).dynmember() == old(self).dynmember().remove(v->Refer_0) { unimplemented!() }
    #[verifier::external_body] pub fn get_ava_refer(&self, a: Attribute) -> (r: Option<&BTreeSet<Uuid>>) { unimplemented!() }
}
pub type Choice = Result<Uuid, Uuid>;
pub type WTuple = (Arc<Entry<EntrySealed, EntryCommitted>>, EntryInvalidCommitted);
// ---- the filter cache: dyn group uuid -> filter; read here as a list of its (distinct) keys with their filters ----
pub struct DynGroupCache { pub insts: KvxInsts }
#[verifier::external_body] pub struct KvxInsts { p: u8 }
impl KvxInsts {
    pub uninterp spec fn map(&self) -> Map<Uuid, Filter<FilterInvalid>>;
    // machine arithmetic: the cache holds far fewer than 2^28 groups (only used for a capacity hint)
    #[verifier::external_body] pub fn len(&self) -> (r: usize) ensures r < 0x1000_0000 { unimplemented!() }
}
// `dyn_groups.insts.iter()` (BTreeMap iteration): every key once, with its value
pub open spec fn cache_listed(c: Map<Uuid, Filter<FilterInvalid>>, r: Seq<(&Uuid, &Filter<FilterInvalid>)>) -> bool {
    &&& forall|k: int| 0 <= k < r.len() ==> c.contains_key(*(#[trigger] r[k]).0) && c[*r[k].0] == *r[k].1
    &&& forall|a: int, b: int| 0 <= a < b < r.len() ==> *(#[trigger] r[a]).0 != *(#[trigger] r[b]).0
    &&& forall|u: Uuid| #[trigger] c.contains_key(u) ==> exists|k: int| 0 <= k < r.len() && *(#[trigger] r[k]).0 == u
}
#[verifier::external_body] pub fn kvx_cache_list<'a>(c: &'a DynGroupCache) -> (r: Vec<(&'a Uuid, &'a Filter<FilterInvalid>)>)
    ensures cache_listed(c.insts.map(), r@) { unimplemented!() }

// ---- C18, the candidate half: membership follows changes to candidate entries. For one dyn group with filter f and one changed
// candidate (pre -> post): if post matches f and pre did not, the candidate becomes a member; if pre matched and post does not, it
// stops being one; the members that are not candidates of this operation stay as they were; and the group so changed is written. ----
pub open spec fn joins(pre: Entry<EntrySealed, EntryCommitted>, post: Entry<EntrySealed, EntryCommitted>, f: ProtoFilter) -> bool { sp_match(post, f) && !sp_match(pre, f) }
pub open spec fn leaves(pre: Entry<EntrySealed, EntryCommitted>, post: Entry<EntrySealed, EntryCommitted>, f: ProtoFilter) -> bool { sp_match(pre, f) && !sp_match(post, f) }
pub open spec fn chosen(v: Seq<Choice>, c: Choice) -> bool { exists|m: int| 0 <= m < v.len() && #[trigger] v[m] == c }
pub open spec fn not_cand(post: Seq<&Entry<EntrySealed, EntryCommitted>>, u: Uuid) -> bool { forall|k: int| 0 <= k < post.len() ==> (#[trigger] post[k]).uuid() != u }
pub open spec fn tuple_ok(t: WTuple, pre: Seq<&Arc<Entry<EntrySealed, EntryCommitted>>>, post: Seq<&Entry<EntrySealed, EntryCommitted>>, f: ProtoFilter) -> bool {
    &&& forall|k: int| 0 <= k < post.len() && k < pre.len() && joins(pre[k].v, *#[trigger] post[k], f) ==> t.1.dynmember().contains(post[k].uuid())
    &&& forall|k: int| 0 <= k < post.len() && k < pre.len() && leaves(pre[k].v, *#[trigger] post[k], f) ==> !t.1.dynmember().contains(post[k].uuid())
    &&& forall|u: Uuid| not_cand(post, u) ==> (#[trigger] t.1.dynmember().contains(u) == t.0.v.dynmember().contains(u))
}
pub open spec fn needs(pre: Seq<&Arc<Entry<EntrySealed, EntryCommitted>>>, post: Seq<&Entry<EntrySealed, EntryCommitted>>, f: ProtoFilter) -> bool {
    exists|k: int| 0 <= k < post.len() && k < pre.len() && (joins(pre[k].v, *#[trigger] post[k], f) || leaves(pre[k].v, *post[k], f))
}
pub open spec fn written(w: Seq<WTuple>, u: Uuid) -> bool { exists|t: int| 0 <= t < w.len() && (#[trigger] w[t]).0.v.uuid() == u }
pub open spec fn all_tuples_ok(w: Seq<WTuple>, cache: Map<Uuid, Filter<FilterInvalid>>, pre: Seq<&Arc<Entry<EntrySealed, EntryCommitted>>>, post: Seq<&Entry<EntrySealed, EntryCommitted>>) -> bool {
    forall|t: int| 0 <= t < w.len() ==> cache.contains_key((#[trigger] w[t]).0.v.uuid()) && tuple_ok(w[t], pre, post, cache[w[t].0.v.uuid()].from)
}
pub open spec fn all_needed_written(w: Seq<WTuple>, db: Db, cache: Map<Uuid, Filter<FilterInvalid>>, pre: Seq<&Arc<Entry<EntrySealed, EntryCommitted>>>, post: Seq<&Entry<EntrySealed, EntryCommitted>>) -> bool {
    forall|u: Uuid| #[trigger] cache.contains_key(u) && needs(pre, post, cache[u].from) && found(db, u) ==> written(w, u)
}
// ---- the write transaction ----
pub struct Db { pub o: int }
pub uninterp spec fn found(db: Db, u: Uuid) -> bool;    // a live entry with that uuid exists (search semantics: C01)
pub struct Schema { pub o: u8 }
pub struct ResolveCache { pub o: u8 }
pub struct QueryServerWriteTransaction { pub o: int }
impl QueryServerWriteTransaction {
    pub uninterp spec fn db(&self) -> Db;
    #[verifier::external_body] pub fn kvx_before_schema_ready(&self) -> (r: bool) { unimplemented!() }
    // the filter cache lives inside the transaction and is borrowed through a raw pointer in the real code (unsafe: not verified);
    // here it is handed out as a separate value
    #[verifier::external_body] pub fn kvx_dyngroup_cache(&mut self) -> (r: DynGroupCache) ensures *final(self) == *old(self) { unimplemented!() }
    // internal_search_writeable(uuid = u): the writeable copy of that entry if it exists (uuids are unique), starting from its stored members
    #[verifier::external_body] pub fn internal_search_writeable(&mut self, f: &UuidFilter) -> (r: Result<Vec<WTuple>, OperationError>)
        ensures *final(self) == *old(self),
                r matches Ok(v) ==> (f.fc matches FC::Eq(Attribute::Uuid, PartialValue::Uuid(u)) ==> (v@.len() > 0) == found(old(self).db(), u) && v@.len() <= 1
                    && forall|i: int| 0 <= i < v@.len() ==> (#[trigger] v@[i]).0.v.uuid() == u && v@[i].1.dynmember() == v@[i].0.v.dynmember()) { unimplemented!() }
    // internal_apply_writable(tuples). Ghost arguments: the cache and the changed candidates; the call must show that every dyn group it
    // writes has followed the candidates' changes, and that every dyn group that had to change is among those written
    #[verifier::external_body] pub fn internal_apply_writable(&mut self, Ghost(cache): Ghost<Map<Uuid, Filter<FilterInvalid>>>, Ghost(pre): Ghost<Seq<&Arc<Entry<EntrySealed, EntryCommitted>>>>, Ghost(post): Ghost<Seq<&Entry<EntrySealed, EntryCommitted>>>,
            w: Vec<WTuple>) -> (r: Result<(), OperationError>)
        requires all_tuples_ok(w@, cache, pre, post), all_needed_written(w@, old(self).db(), cache, pre, post) { unimplemented!() }
    // the same call in post_create (R3 redirect): ghost arguments are the cache and the created non-dyngroup entries
    #[verifier::external_body] pub fn kvx_internal_apply_writable_created(&mut self, Ghost(cache): Ghost<Map<Uuid, Filter<FilterInvalid>>>, Ghost(ents): Ghost<Seq<&Entry<EntrySealed, EntryCommitted>>>, w: Vec<WTuple>) -> (r: Result<(), OperationError>)
        requires all_tuples_ok_c(w@, cache, ents), all_needed_written_c(w@, old(self).db(), cache, ents) { unimplemented!() }
}
// `dg_filter.validate(schema).map_err(..).and_then(|f| f.resolve(ident, None, cache))`: the same filter, resolved; reads only
#[verifier::external_body] pub fn kvx_resolve_filter(f: &Filter<FilterInvalid>, qs: &mut QueryServerWriteTransaction, ident: &Identity) -> (r: Result<Filter<FilterValidResolved>, OperationError>)
    ensures *final(qs) == *old(qs), r matches Ok(x) ==> x.from == f.from { unimplemented!() }
// `pre_cand.iter().partition(is_dyn)` / `cand.iter().partition(is_dyn)`: (dyn groups, the others), order kept. The entries of one
// operation keep their class dyngroup (precondition of this unit), so both calls select the same positions: the position list is a
// function of the flags alone
pub uninterp spec fn nd_idx(flags: Seq<bool>) -> Seq<int>;
// what the partition closure answered for each element (it is a pure function: some answer exists, and it satisfies the step's contract)
pub uninterp spec fn ran_pre(s: Seq<Arc<Entry<EntrySealed, EntryCommitted>>>) -> Seq<bool>;
pub uninterp spec fn ran_post(s: Seq<Entry<EntrySealed, EntryCommitted>>) -> Seq<bool>;
#[verifier::external_body] pub fn kvx_partition_pre<'a>(s: &'a [Arc<Entry<EntrySealed, EntryCommitted>>]) -> (r: (Vec<&'a Arc<Entry<EntrySealed, EntryCommitted>>>, Vec<&'a Arc<Entry<EntrySealed, EntryCommitted>>>))
    ensures ran_pre(s@).len() == s@.len(), forall|i: int| #![trigger ran_pre(s@)[i]] 0 <= i < s@.len() ==> call_ensures(dyn_step_pre, (&&s@[i],), ran_pre(s@)[i]),
            r.1@.len() == nd_idx(ran_pre(s@)).len(),
            forall|k: int| 0 <= k < r.1@.len() ==> 0 <= nd_idx(ran_pre(s@))[k] < s@.len() && *(#[trigger] r.1@[k]) == s@[nd_idx(ran_pre(s@))[k]] { unimplemented!() }
#[verifier::external_body] pub fn kvx_partition_post<'a>(s: &'a [Entry<EntrySealed, EntryCommitted>]) -> (r: (Vec<&'a Entry<EntrySealed, EntryCommitted>>, Vec<&'a Entry<EntrySealed, EntryCommitted>>))
    ensures ran_post(s@).len() == s@.len(), forall|i: int| #![trigger ran_post(s@)[i]] 0 <= i < s@.len() ==> call_ensures(dyn_step_post, (&&s@[i],), ran_post(s@)[i]),
            r.1@.len() == nd_idx(ran_post(s@)).len(),
            forall|k: int| 0 <= k < r.1@.len() ==> 0 <= nd_idx(ran_post(s@))[k] < s@.len() && *(#[trigger] r.1@[k]) == s@[nd_idx(ran_post(s@))[k]],
            forall|a: int, b: int| 0 <= a < b < r.1@.len() ==> nd_idx(ran_post(s@))[a] != nd_idx(ran_post(s@))[b] { unimplemented!() }
pub uninterp spec fn ran_create(s: Seq<Entry<EntrySealed, EntryCommitted>>) -> Seq<bool>;
#[verifier::external_body] pub fn kvx_partition_create<'a>(s: &'a [Entry<EntrySealed, EntryCommitted>]) -> (r: (Vec<&'a Entry<EntrySealed, EntryCommitted>>, Vec<&'a Entry<EntrySealed, EntryCommitted>>))
    ensures ran_create(s@).len() == s@.len(), forall|i: int| #![trigger ran_create(s@)[i]] 0 <= i < s@.len() ==> call_ensures(dyn_step_create, (&&s@[i],), ran_create(s@)[i]),
            r.1@.len() == nd_idx(ran_create(s@)).len(),
            forall|k: int| 0 <= k < r.1@.len() ==> 0 <= nd_idx(ran_create(s@))[k] < s@.len() && *(#[trigger] r.1@[k]) == s@[nd_idx(ran_create(s@))[k]] { unimplemented!() }
// `pre_entries.iter().zip(post_entries.iter()).filter_map(match_step).collect()`: the Some results (std), through the step's contract
#[verifier::external_body] pub fn kvx_matches(pre: &Vec<&Arc<Entry<EntrySealed, EntryCommitted>>>, post: &Vec<&Entry<EntrySealed, EntryCommitted>>, f: &Filter<FilterValidResolved>, force: bool) -> (r: Vec<Choice>)
    ensures matches_ok(r@, pre@, post@, f, force) { unimplemented!() }
pub open spec fn only_choice(force: bool, f: &Filter<FilterValidResolved>, pre: &Arc<Entry<EntrySealed, EntryCommitted>>, post: &Entry<EntrySealed, EntryCommitted>, c: Choice) -> bool {
    forall|o: Option<Choice>| call_ensures(match_step, (force, f, (&pre, &post)), o) ==> o == Some(c)
}
// `matches.iter().copied().for_each(apply_step)`: the step applied to each choice in order (std). Stated for the resulting member set:
// a uuid only ever added is a member, one only ever removed is not, one not mentioned is unchanged (any order gives this)
#[verifier::external_body] pub fn kvx_apply_choices(m: &Vec<Choice>, g: &mut EntryInvalidCommitted)
    ensures applied_ok(m@, old(g).dynmember(), final(g).dynmember()) { unimplemented!() }
// ---- proof support ----
pub open spec fn aligned(pre: Seq<&Arc<Entry<EntrySealed, EntryCommitted>>>, post: Seq<&Entry<EntrySealed, EntryCommitted>>) -> bool {
    &&& pre.len() == post.len()
    &&& forall|k: int| 0 <= k < post.len() ==> pre[k].v.uuid() == (#[trigger] post[k]).uuid()
    &&& forall|a: int, b: int| 0 <= a < b < post.len() ==> (#[trigger] post[a]).uuid() != (#[trigger] post[b]).uuid()
}
pub open spec fn matches_ok(m: Seq<Choice>, pre: Seq<&Arc<Entry<EntrySealed, EntryCommitted>>>, post: Seq<&Entry<EntrySealed, EntryCommitted>>, fv: &Filter<FilterValidResolved>, force: bool) -> bool {
    &&& forall|k: int, c: Choice| 0 <= k < post.len() && k < pre.len() && only_choice(force, fv, #[trigger] pre[k], #[trigger] post[k], c) ==> #[trigger] chosen(m, c)
    &&& forall|mm: int| 0 <= mm < m.len() ==> exists|k: int| 0 <= k < post.len() && k < pre.len() && #[trigger] call_ensures(match_step, (force, fv, (&pre[k], &post[k])), Some(#[trigger] m[mm]))
}
pub open spec fn applied_ok(m: Seq<Choice>, start: Set<Uuid>, end: Set<Uuid>) -> bool {
    &&& forall|u: Uuid| chosen(m, Ok::<Uuid, Uuid>(u)) && !chosen(m, Err::<Uuid, Uuid>(u)) ==> #[trigger] end.contains(u)
    &&& forall|u: Uuid| chosen(m, Err::<Uuid, Uuid>(u)) && !chosen(m, Ok::<Uuid, Uuid>(u)) ==> !#[trigger] end.contains(u)
    &&& forall|u: Uuid| !chosen(m, Ok::<Uuid, Uuid>(u)) && !chosen(m, Err::<Uuid, Uuid>(u)) ==> (#[trigger] end.contains(u) == start.contains(u))
}
pub proof fn lemma_choice_origin(m: Seq<Choice>, pre: Seq<&Arc<Entry<EntrySealed, EntryCommitted>>>, post: Seq<&Entry<EntrySealed, EntryCommitted>>, fv: &Filter<FilterValidResolved>, force: bool, mm: int) -> (k: int)
    requires matches_ok(m, pre, post, fv, force), 0 <= mm < m.len()
    ensures 0 <= k < post.len(), k < pre.len(),
            m[mm] matches Ok(u) ==> u == post[k].uuid() && sp_match(*post[k], fv.from),
            m[mm] matches Err(u) ==> u == post[k].uuid() && !sp_match(*post[k], fv.from),
{
    let k = choose|k: int| 0 <= k < post.len() && k < pre.len() && #[trigger] call_ensures(match_step, (force, fv, (&pre[k], &post[k])), Some(#[trigger] m[mm]));
    k
}
pub proof fn lemma_tuple_ok(t: WTuple, m: Seq<Choice>, pre: Seq<&Arc<Entry<EntrySealed, EntryCommitted>>>, post: Seq<&Entry<EntrySealed, EntryCommitted>>, fv: &Filter<FilterValidResolved>, force: bool)
    requires aligned(pre, post), matches_ok(m, pre, post, fv, force), applied_ok(m, t.0.v.dynmember(), t.1.dynmember())
    ensures tuple_ok(t, pre, post, fv.from)
{
    assert forall|k: int| 0 <= k < post.len() && k < pre.len() && joins(pre[k].v, *#[trigger] post[k], fv.from) implies t.1.dynmember().contains(post[k].uuid()) by {
        let u = post[k].uuid();
        assert(only_choice(force, fv, pre[k], post[k], Ok::<Uuid, Uuid>(u)));
        assert(chosen(m, Ok::<Uuid, Uuid>(u)));
        if chosen(m, Err::<Uuid, Uuid>(u)) {
            let mm = choose|mm: int| 0 <= mm < m.len() && #[trigger] m[mm] == Err::<Uuid, Uuid>(u);
            let k2 = lemma_choice_origin(m, pre, post, fv, force, mm);
            assert(k2 == k);
        }
    }
    assert forall|k: int| 0 <= k < post.len() && k < pre.len() && leaves(pre[k].v, *#[trigger] post[k], fv.from) implies !t.1.dynmember().contains(post[k].uuid()) by {
        let u = post[k].uuid();
        assert(only_choice(force, fv, pre[k], post[k], Err::<Uuid, Uuid>(u)));
        assert(chosen(m, Err::<Uuid, Uuid>(u)));
        if chosen(m, Ok::<Uuid, Uuid>(u)) {
            let mm = choose|mm: int| 0 <= mm < m.len() && #[trigger] m[mm] == Ok::<Uuid, Uuid>(u);
            let k2 = lemma_choice_origin(m, pre, post, fv, force, mm);
            assert(k2 == k);
        }
    }
    assert forall|u: Uuid| not_cand(post, u) implies (#[trigger] t.1.dynmember().contains(u) == t.0.v.dynmember().contains(u)) by {
        if chosen(m, Ok::<Uuid, Uuid>(u)) {
            let mm = choose|mm: int| 0 <= mm < m.len() && #[trigger] m[mm] == Ok::<Uuid, Uuid>(u);
            let k2 = lemma_choice_origin(m, pre, post, fv, force, mm);
        }
        if chosen(m, Err::<Uuid, Uuid>(u)) {
            let mm = choose|mm: int| 0 <= mm < m.len() && #[trigger] m[mm] == Err::<Uuid, Uuid>(u);
            let k2 = lemma_choice_origin(m, pre, post, fv, force, mm);
        }
    }
}
pub proof fn lemma_needs_nonempty(m: Seq<Choice>, pre: Seq<&Arc<Entry<EntrySealed, EntryCommitted>>>, post: Seq<&Entry<EntrySealed, EntryCommitted>>, fv: &Filter<FilterValidResolved>, force: bool)
    requires matches_ok(m, pre, post, fv, force), needs(pre, post, fv.from)
    ensures m.len() > 0
{
    let k = choose|k: int| 0 <= k < post.len() && k < pre.len() && (joins(pre[k].v, *#[trigger] post[k], fv.from) || leaves(pre[k].v, *post[k], fv.from));
    let u = post[k].uuid();
    if joins(pre[k].v, *post[k], fv.from) {
        assert(only_choice(force, fv, pre[k], post[k], Ok::<Uuid, Uuid>(u)));
        assert(chosen(m, Ok::<Uuid, Uuid>(u)));
    } else {
        assert(only_choice(force, fv, pre[k], post[k], Err::<Uuid, Uuid>(u)));
        assert(chosen(m, Err::<Uuid, Uuid>(u)));
    }
}
// ---- the same for created entries (post_create): a created entry that matches a cached filter becomes a member of that group ----
pub open spec fn chosen_u(v: Seq<Uuid>, u: Uuid) -> bool { exists|m: int| 0 <= m < v.len() && #[trigger] v[m] == u }
pub open spec fn tuple_ok_c(t: WTuple, ents: Seq<&Entry<EntrySealed, EntryCommitted>>, f: ProtoFilter) -> bool {
    &&& forall|k: int| 0 <= k < ents.len() && sp_match(*#[trigger] ents[k], f) ==> t.1.dynmember().contains(ents[k].uuid())
    &&& forall|u: Uuid| (forall|k: int| 0 <= k < ents.len() && (#[trigger] ents[k]).uuid() == u ==> !sp_match(*ents[k], f)) ==> (#[trigger] t.1.dynmember().contains(u) == t.0.v.dynmember().contains(u))
}
pub open spec fn needs_c(ents: Seq<&Entry<EntrySealed, EntryCommitted>>, f: ProtoFilter) -> bool { exists|k: int| 0 <= k < ents.len() && sp_match(*#[trigger] ents[k], f) }
pub open spec fn all_tuples_ok_c(w: Seq<WTuple>, cache: Map<Uuid, Filter<FilterInvalid>>, ents: Seq<&Entry<EntrySealed, EntryCommitted>>) -> bool {
    forall|t: int| 0 <= t < w.len() ==> cache.contains_key((#[trigger] w[t]).0.v.uuid()) && tuple_ok_c(w[t], ents, cache[w[t].0.v.uuid()].from)
}
pub open spec fn all_needed_written_c(w: Seq<WTuple>, db: Db, cache: Map<Uuid, Filter<FilterInvalid>>, ents: Seq<&Entry<EntrySealed, EntryCommitted>>) -> bool {
    forall|u: Uuid| #[trigger] cache.contains_key(u) && needs_c(ents, cache[u].from) && found(db, u) ==> written(w, u)
}
pub open spec fn only_uuid(f: &Filter<FilterValidResolved>, e: &Entry<EntrySealed, EntryCommitted>, u: Uuid) -> bool {
    forall|o: Option<Uuid>| call_ensures(create_match_step, (f, &e), o) ==> o == Some(u)
}
pub open spec fn matches_ok_c(m: Seq<Uuid>, ents: Seq<&Entry<EntrySealed, EntryCommitted>>, fv: &Filter<FilterValidResolved>) -> bool {
    &&& forall|k: int, u: Uuid| 0 <= k < ents.len() && only_uuid(fv, #[trigger] ents[k], u) ==> #[trigger] chosen_u(m, u)
    &&& forall|mm: int| 0 <= mm < m.len() ==> exists|k: int| 0 <= k < ents.len() && #[trigger] call_ensures(create_match_step, (fv, &ents[k]), Some(#[trigger] m[mm]))
}
// `entries.iter().filter_map(create_match_step).collect()`
#[verifier::external_body] pub fn kvx_matches_create(ents: &Vec<&Entry<EntrySealed, EntryCommitted>>, f: &Filter<FilterValidResolved>) -> (r: Vec<Uuid>)
    ensures matches_ok_c(r@, ents@, f) { unimplemented!() }
// `matches.iter().copied().for_each(create_apply_step)`: every listed uuid is added, nothing else changes
#[verifier::external_body] pub fn kvx_apply_adds(m: &Vec<Uuid>, g: &mut EntryInvalidCommitted)
    ensures forall|u: Uuid| #[trigger] final(g).dynmember().contains(u) == (old(g).dynmember().contains(u) || chosen_u(m@, u)) { unimplemented!() }
pub proof fn lemma_tuple_ok_c(t: WTuple, m: Seq<Uuid>, ents: Seq<&Entry<EntrySealed, EntryCommitted>>, fv: &Filter<FilterValidResolved>)
    requires matches_ok_c(m, ents, fv), forall|u: Uuid| #[trigger] t.1.dynmember().contains(u) == (t.0.v.dynmember().contains(u) || chosen_u(m, u))
    ensures tuple_ok_c(t, ents, fv.from)
{
    assert forall|k: int| 0 <= k < ents.len() && sp_match(*#[trigger] ents[k], fv.from) implies t.1.dynmember().contains(ents[k].uuid()) by {
        assert(only_uuid(fv, ents[k], ents[k].uuid()));
        assert(chosen_u(m, ents[k].uuid()));
    }
    assert forall|u: Uuid| (forall|k: int| 0 <= k < ents.len() && (#[trigger] ents[k]).uuid() == u ==> !sp_match(*ents[k], fv.from)) implies (#[trigger] t.1.dynmember().contains(u) == t.0.v.dynmember().contains(u)) by {
        if chosen_u(m, u) {
            let mm = choose|mm: int| 0 <= mm < m.len() && #[trigger] m[mm] == u;
            let k = choose|k: int| 0 <= k < ents.len() && #[trigger] call_ensures(create_match_step, (fv, &ents[k]), Some(#[trigger] m[mm]));
            assert(ents[k].uuid() == u && sp_match(*ents[k], fv.from));
        }
    }
}
pub proof fn lemma_needs_nonempty_c(m: Seq<Uuid>, ents: Seq<&Entry<EntrySealed, EntryCommitted>>, fv: &Filter<FilterValidResolved>)
    requires matches_ok_c(m, ents, fv), needs_c(ents, fv.from)
    ensures m.len() > 0
{
    let k = choose|k: int| 0 <= k < ents.len() && sp_match(*#[trigger] ents[k], fv.from);
    assert(only_uuid(fv, ents[k], ents[k].uuid()));
    assert(chosen_u(m, ents[k].uuid()));
}
//@extract dyn_step_pre
//@extract dyn_step_post
//@extract match_step
//@extract apply_step
//@extract dyn_step_create
//@extract create_match_step
//@extract create_apply_step
pub struct DynGroup;
impl DynGroup {
    // the filter half of C18 (unit dyngroup_step); here only: it may change the cache
    #[verifier::external_body] pub fn apply_dyngroup_change(qs: &mut QueryServerWriteTransaction, affected: &mut BTreeSet<Uuid>, expect: bool, ident: &Identity, dyn_groups: &mut DynGroupCache, n: &[&Entry<EntrySealed, EntryCommitted>]) -> (r: Result<(), OperationError>)
        { unimplemented!() }
//@extract post_modify
//@extract post_create
}
}
fn main(){}
