use vstd::prelude::*;
use core::cmp::Ordering;
macro_rules! filter { ($e:expr) => { Filter { fc: $e } }; }
verus! {
//@include shims/duration.rs
//@include shims/duration_ops.rs
//@include shims/uuid.rs
//@include shims/offsetdatetime.rs
//@include shims/time_ops.rs
//@include shims/kvx_btreemap.rs
//@include shims/std_option.rs
pub const MAXIMUM_CRED_UPDATE_TTL: Duration = Duration { secs: 900, nanos: 0 };
pub enum OperationError { InvalidState, SessionExpired, Wait(OffsetDateTime), CU0004SessionInconsistent, CU0005IntentTokenConflict, CU0006IntentTokenInvalidated, SerdeJsonError, Backend }
#[derive(Clone, PartialEq, Eq)]
pub struct AttrString { pub o: u64 }
// ---- real types extracted from /repo ----
//@extract Attribute
//@extract CredUpdateSessionPerms
//@extract IntentTokenState
//@extract CredentialUpdateIntentTokenExchange
//@extract CredentialUpdateSessionTokenInner
//@extract CredentialState
// ---- values and modifications: what is written is observed through a recording ModifyList and a log of issued modifies ----
pub struct Credential { pub o: u8 }
impl Credential { #[verifier::external_body] pub fn clone(&self) -> (r: Credential) { unimplemented!() }
    #[verifier::external_body] pub fn timestamp(&self) -> (r: OffsetDateTime) { unimplemented!() } }
pub struct Opaque { pub o: u8 }
pub enum PartialValue { IntentToken(String), Uuid(Uuid), Other(u8) }
pub enum Value { IntentToken(String, IntentTokenState), Cred(Credential), DateTime(OffsetDateTime), Passkey(Opaque), AttestedPasskey(Opaque), SshKey(Opaque) }
impl Value { #[verifier::external_body] pub fn new_credential(tag: &str, c: Credential) -> (r: Value) ensures r is Cred { unimplemented!() } }
pub enum Modify { Present(Attribute, Value), Removed(Attribute, PartialValue), Purged(Attribute) }
pub struct ModifyInvalid;
pub struct ModifyList<S> { pub s: S, pub mods: Vec<Modify> }
impl<S> ModifyList<S> { pub uninterp spec fn pushed(&self) -> Set<Modify>; }       // the modifications in the list, as a set
impl ModifyList<ModifyInvalid> {
    #[verifier::external_body] pub fn new() -> (r: ModifyList<ModifyInvalid>) ensures r.pushed() == Set::<Modify>::empty() { unimplemented!() }
    #[verifier::external_body] pub fn push_mod(&mut self, m: Modify) ensures final(self).pushed() == old(self).pushed().insert(m) { unimplemented!() }
    #[verifier::external_body] pub fn is_empty(&self) -> (r: bool) ensures r == (self.pushed() =~= Set::<Modify>::empty()) { unimplemented!() }
}
pub enum FC { Eq(Attribute, PartialValue) }
pub fn f_eq(a: Attribute, v: PartialValue) -> (r: FC) ensures r == FC::Eq(a, v) { FC::Eq(a, v) }
pub struct Filter { pub fc: FC }
// ---- entries, accounts, the write transaction ----
#[verifier::external_body] pub struct EntrySealedCommitted { p: u8 }
pub struct Arc<T> { pub v: T }
impl Arc<EntrySealedCommitted> { pub fn as_ref(&self) -> (r: &EntrySealedCommitted) ensures *r == self.v { &self.v }
    #[verifier::external_body] pub fn get_uuid(&self) -> (r: Uuid) ensures r == self.v.uuid() { unimplemented!() } }
impl EntrySealedCommitted { pub uninterp spec fn uuid(&self) -> Uuid; pub uninterp spec fn intent_tokens(&self) -> Map<String, IntentTokenState>; }
pub struct ResolvedAccountPolicy { pub o: u8 }
pub struct Account { pub uuid: Uuid, pub credential_update_intent_tokens: BTreeMap<String, IntentTokenState> }
pub struct QueryServerWriteTransaction { pub o: u8 }
impl QueryServerWriteTransaction {
    pub uninterp spec fn log(&self) -> Seq<(FC, Set<Modify>)>;       // the modifies issued in this transaction, in order
    #[verifier::external_body] pub fn internal_search(&mut self, f: Filter) -> (r: Result<Vec<Arc<EntrySealedCommitted>>, OperationError>) ensures final(self).log() == old(self).log() { unimplemented!() }
    #[verifier::external_body] pub fn internal_search_uuid(&mut self, u: Uuid) -> (r: Result<Arc<EntrySealedCommitted>, OperationError>) ensures final(self).log() == old(self).log(), r matches Ok(e) ==> e.v.uuid() == u { unimplemented!() }
    #[verifier::external_body] pub fn internal_modify(&mut self, f: &Filter, m: &ModifyList<ModifyInvalid>) -> (r: Result<(), OperationError>)
        ensures r is Ok ==> final(self).log() == old(self).log().push((f.fc, m.pushed())), r is Err ==> final(self).log() == old(self).log() { unimplemented!() }
}
impl Account {
    // the account read from an entry carries that entry's uuid and intent-token states (Account::try_from_entry_*: ASSUMED)
    #[verifier::external_body] pub fn try_from_entry_with_policy(e: &EntrySealedCommitted, qs: &mut QueryServerWriteTransaction) -> (r: Result<(Account, ResolvedAccountPolicy), OperationError>)
        ensures final(qs).log() == old(qs).log(), r matches Ok(p) ==> (p.0.uuid == e.uuid() && p.0.credential_update_intent_tokens@ == e.intent_tokens()) { unimplemented!() }
    #[verifier::external_body] pub fn try_from_entry_rw(e: &EntrySealedCommitted, qs: &mut QueryServerWriteTransaction) -> (r: Result<Account, OperationError>)
        ensures final(qs).log() == old(qs).log(), r matches Ok(a) ==> (a.uuid == e.uuid() && a.credential_update_intent_tokens@ == e.intent_tokens()) { unimplemented!() }
}
// String::clone returns an equal string (vstd only states equal views)
#[verifier::external_body] pub fn kvx_clone_string(s: &String) -> (r: String) ensures r == *s { unimplemented!() }
pub uninterp spec fn sid_uuid(d: Duration, sid: Seq<u8>) -> Uuid;
#[verifier::external_body] pub fn uuid_from_duration(d: Duration, sid: [u8; 4]) -> (r: Uuid) ensures r == sid_uuid(d, sid@) { unimplemented!() }
pub struct CredentialUpdateSessionToken { pub o: u8 }
pub struct CredentialUpdateSessionStatus { pub o: u8 }
pub uninterp spec fn token_session(t: &CredentialUpdateSessionToken) -> Uuid;
pub struct IdmServerProxyWriteTransaction { pub qs_write: QueryServerWriteTransaction, pub sid: [u8; 4] }

// ---- statement of C37, as steps of the intent-token state machine ----
// the modification that moves the link `id` of account `acct` to state `st`
pub open spec fn sets_state(entry: (FC, Set<Modify>), acct: Uuid, id: String, st: IntentTokenState) -> bool {
    &&& entry.0 == FC::Eq(Attribute::Uuid, PartialValue::Uuid(acct))
    &&& entry.1.contains(Modify::Present(Attribute::CredentialUpdateIntentToken, Value::IntentToken(id, st)))
    &&& entry.1.contains(Modify::Removed(Attribute::CredentialUpdateIntentToken, PartialValue::IntentToken(id)))
    // and the link is given no other state in the same modification
    &&& forall|st2: IntentTokenState| #[trigger] entry.1.contains(Modify::Present(Attribute::CredentialUpdateIntentToken, Value::IntentToken(id, st2))) ==> st2 == st
}
// exchange: only from Valid or InProgress, only before the link's max_ttl, and it issues exactly one modification, which moves the
// link to InProgress for the NEW session id (superseding whatever session held it)
pub open spec fn exchange_step(pre: &IdmServerProxyWriteTransaction, post: &IdmServerProxyWriteTransaction, id: String, ct: Duration, new_session: Uuid) -> bool {
    exists|e: EntrySealedCommitted| #![trigger e.intent_tokens()] e.intent_tokens().contains_key(id) && ({
        let st = e.intent_tokens()[id];
        &&& !(st is Consumed)
        &&& (st matches IntentTokenState::Valid { max_ttl, perms } ==> ct.dlt(max_ttl))
        &&& (st matches IntentTokenState::InProgress { max_ttl, perms, session_id, session_ttl } ==> ct.dlt(max_ttl))
        &&& post.qs_write.log() == pre.qs_write.log().push(post.qs_write.log().last())
        &&& exists|nst: IntentTokenState| #![trigger sets_state(post.qs_write.log().last(), e.uuid(), id, nst)] sets_state(post.qs_write.log().last(), e.uuid(), id, nst)
              && (nst matches IntentTokenState::InProgress { max_ttl, perms, session_id, session_ttl } && session_id == new_session)
    })
}
// commit of a session that came from a link: only while the link is InProgress FOR THIS VERY SESSION, and the one modification issued
// moves the link to Consumed; cancel: same guard, moves it back to Valid
pub open spec fn link_step(pre: &IdmServerProxyWriteTransaction, post: &IdmServerProxyWriteTransaction, acct: Uuid, id: String, this_session: Uuid, consumed: bool) -> bool {
    exists|e: EntrySealedCommitted| #![trigger e.intent_tokens()] e.uuid() == acct && e.intent_tokens().contains_key(id)
        && (e.intent_tokens()[id] matches IntentTokenState::InProgress { max_ttl, perms, session_id, session_ttl } && session_id == this_session)
        && post.qs_write.log() == pre.qs_write.log().push(post.qs_write.log().last())
        && exists|nst: IntentTokenState| #![trigger sets_state(post.qs_write.log().last(), acct, id, nst)] sets_state(post.qs_write.log().last(), acct, id, nst)
              && (if consumed { nst is Consumed } else { nst is Valid })
}
impl IdmServerProxyWriteTransaction {
    // create_credupdate_session: registers the in-memory session under that id and seals a token for it (not covered here)
    #[verifier::external_body] pub fn create_credupdate_session(&mut self, sessionid: Uuid, intent_token_id: Option<String>, account: Account, resolved_account_policy: ResolvedAccountPolicy, perms: CredUpdateSessionPerms, ct: Duration) -> (r: Result<(CredentialUpdateSessionToken, CredentialUpdateSessionStatus), OperationError>)
        ensures final(self).qs_write.log() == old(self).qs_write.log(), r matches Ok(p) ==> token_session(&p.0) == sessionid { unimplemented!() }
//@extract exchange_intent_credential_update
}
// ---- commit / cancel ----
pub struct CUExtPortal { pub o: u8 }
pub struct SshPublicKey { pub o: u8 }
pub struct PasskeyV4 { pub o: u8 }
pub struct AttestedPasskeyV4 { pub o: u8 }
pub struct MfaRegState { pub o: u8 }
pub struct CredentialUpdateSessionStatusWarnings { pub o: u8 }
impl ResolvedAccountPolicy { #[verifier::external_body] pub fn allow_primary_cred_fallback(&self) -> (r: Option<bool>) { unimplemented!() } }
//@extract CredentialUpdateSession
impl CredentialUpdateSession { #[verifier::external_body] pub fn can_commit(&self) -> (r: (bool, Vec<CredentialUpdateSessionStatusWarnings>)) { unimplemented!() } }
// R3: the pushes of credential CONTENT (passkeys, attested passkeys, ssh keys: closures / a loop over BTreeMaps of key material) are
// replaced by this stand-in: it appends Present modifications of attributes other than the intent-token attribute, nothing else
#[verifier::external_body] pub fn kvx_push_content(m: &mut ModifyList<ModifyInvalid>)
    ensures old(m).pushed().subset_of(final(m).pushed()),
            forall|x: Modify| #[trigger] final(m).pushed().contains(x) && !old(m).pushed().contains(x) ==> (x matches Modify::Present(a, _) && a != Attribute::CredentialUpdateIntentToken) { unimplemented!() }
#[verifier::external_body] pub fn kvx_get_or_insert(o: &mut Option<OffsetDateTime>, v: OffsetDateTime) ensures *old(o) is Some ==> *final(o) == *old(o), *old(o) is None ==> *final(o) == Some(v) { unimplemented!() }
// the in-memory session registered under the token's session id at the time of the call
pub uninterp spec fn session_of(this: &IdmServerProxyWriteTransaction, c: &CredentialUpdateSessionToken, ct: Duration) -> CredentialUpdateSession;
impl IdmServerProxyWriteTransaction {
    // credential_update_commit_common: decrypts the session token, checks its ttl, takes the in-memory session registered under its id
    #[verifier::external_body] pub fn credential_update_commit_common(&mut self, cust: &CredentialUpdateSessionToken, ct: Duration) -> (r: Result<(ModifyList<ModifyInvalid>, CredentialUpdateSession, CredentialUpdateSessionTokenInner), OperationError>)
        ensures final(self).qs_write.log() == old(self).qs_write.log(), r matches Ok(p) ==> (p.0.pushed() =~= Set::<Modify>::empty() && p.2.sessionid == token_session(cust) && p.1 == session_of(old(self), cust, ct)) { unimplemented!() }
//@extract commit_credential_update
//@extract cancel_credential_update
}

// ---- the history statement: "a link can lead to at most one committed credential change; once it commits it can no longer be
// exchanged; a session superseded by a later exchange cannot commit". The three contracts above are the transitions; applying the
// issued modification (Removed old state + Present new state) is what makes the written state the next state (database semantics,
// ASSUMED). ----
pub enum LinkStep { Exchange { new_session: Uuid }, Commit { session: Uuid }, Cancel { session: Uuid } }
pub open spec fn enabled(st: IntentTokenState, s: LinkStep) -> bool {
    match s {
        LinkStep::Exchange { new_session } => !(st is Consumed),                                                                  // exchange_step
        LinkStep::Commit { session } => st matches IntentTokenState::InProgress { max_ttl, perms, session_id, session_ttl } && session_id == session,   // link_step(.., true)
        LinkStep::Cancel { session } => st matches IntentTokenState::InProgress { max_ttl, perms, session_id, session_ttl } && session_id == session,   // link_step(.., false)
    }
}
pub open spec fn after(st: IntentTokenState, s: LinkStep, nst: IntentTokenState) -> bool {
    match s {
        LinkStep::Exchange { new_session } => nst matches IntentTokenState::InProgress { max_ttl, perms, session_id, session_ttl } && session_id == new_session,
        LinkStep::Commit { session } => nst is Consumed,
        LinkStep::Cancel { session } => nst is Valid,
    }
}
// a run: states.len() == steps.len() + 1, each step enabled in its state and leading to the next
pub open spec fn run(states: Seq<IntentTokenState>, steps: Seq<LinkStep>) -> bool {
    &&& states.len() == steps.len() + 1
    &&& forall|i: int| 0 <= i < steps.len() ==> enabled(#[trigger] states[i], steps[i]) && after(states[i], steps[i], states[i + 1])
}
pub proof fn lemma_consumed_is_final(states: Seq<IntentTokenState>, steps: Seq<LinkStep>, i: int)
    requires run(states, steps), 0 <= i < steps.len(), steps[i] is Commit
    ensures i == steps.len() - 1          // nothing is enabled after a commit: it is the last step of every run
{
    if i < steps.len() - 1 {
        assert(enabled(states[i], steps[i]) && after(states[i], steps[i], states[i + 1]));
        assert(states[i + 1] is Consumed);
        assert(enabled(states[i + 1], steps[i + 1]));
    }
}
pub proof fn lemma_at_most_one_commit(states: Seq<IntentTokenState>, steps: Seq<LinkStep>, i: int, j: int)
    requires run(states, steps), 0 <= i < steps.len(), 0 <= j < steps.len(), steps[i] is Commit, steps[j] is Commit
    ensures i == j
{ lemma_consumed_is_final(states, steps, i); lemma_consumed_is_final(states, steps, j); }
pub proof fn lemma_superseded_cannot_commit(states: Seq<IntentTokenState>, steps: Seq<LinkStep>, i: int, s_old: Uuid, s_new: Uuid)
    requires run(states, steps), 0 <= i < steps.len() - 1, steps[i] == (LinkStep::Exchange { new_session: s_new }), s_old != s_new
    ensures !(steps[i + 1] == (LinkStep::Commit { session: s_old }))     // right after a later exchange the older session's commit is not enabled
{
    assert(enabled(states[i], steps[i]) && after(states[i], steps[i], states[i + 1]));
    assert(enabled(states[i + 1], steps[i + 1]));
}
}
fn main(){}
