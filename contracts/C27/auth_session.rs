use vstd::prelude::*;
use core::cmp::Ordering;
use ::std::collections::HashSet;
verus! {
//@include shims/duration.rs
//@include shims/duration_ops.rs
//@include shims/uuid.rs
//@include shims/offsetdatetime.rs
//@include shims/time_ops.rs
// ---- real enums extracted from /repo ----
//@extract AuthMech
//@extract AuthType
//@extract AuthSessionState
//@extract AuthState
//@extract CredState
pub const BAD_CREDENTIALS: &'static str = "x";
// ---- stand-ins: the credential handlers are opaque here (their contracts are proved in the unit cred_handlers) ----
pub struct PublicKeyCredential { pub o: u8 }
pub struct RequestChallengeResponse { pub o: u8 }
pub struct AuthCredential { pub o: u8 }
pub struct AuthAllowed { pub o: u8 }
pub struct AuthExternal { pub o: u8 }
pub struct JwsCompact { pub o: u8 }
pub struct Jws { pub o: u8 }
#[derive(Clone, Copy)] pub struct AuthIssueSession { pub o: u8 }
pub struct SessionExtMetadata { pub o: u8 }
pub struct Webauthn { pub o: u8 }
pub struct UserAuthToken { pub o: u8 }
pub struct SerdeErr { pub o: u8 }
pub enum OperationError { InvalidAuthState(String), AU0002JwsSerialisation, AU0003JwsSignature, Other }
pub struct DelayedAction { pub o: u8 }
pub struct AuditSource { pub o: u8 }
pub enum AuditEvent { AuthenticationDenied { source: AuditSource, spn: String, uuid: Uuid, time: OffsetDateTime }, Other }
pub struct SendError { pub o: u8 }
#[verifier::external_body] #[verifier::reject_recursive_types(T)] pub struct UnboundedSender<T> { _p: core::marker::PhantomData<T> }
impl<T> UnboundedSender<T> { #[verifier::external_body] pub fn send(&self, m: T) -> (r: Result<(), SendError>) { unimplemented!() } }
pub struct CredHandler { pub o: u64 }
impl CredHandler {
    #[verifier::external_body] pub fn can_proceed(&self, mech: &AuthMech) -> (r: bool) { unimplemented!() }
    #[verifier::external_body] pub fn next_auth_state(&self) -> (r: AuthState) ensures r is Continue || r is External { unimplemented!() }
    #[verifier::external_body] pub fn validate(&mut self, cred: &AuthCredential, ts: Duration, who: Uuid, async_tx: &UnboundedSender<DelayedAction>, webauthn: &Webauthn,
        pw_badlist_set: &HashSet<String>) -> (r: CredState) { unimplemented!() }
}
// nonempty::NonEmpty<CredHandler>: `.iter().filter(f).cloned().collect()` and `into_iter().collect()` are inherent methods of the
// stand-ins below (same names as std); only their results' emptiness matters here, so they carry no specification
pub struct NonEmpty<T> { pub head: T, pub tail: Vec<T> }
#[verifier::external_body] #[verifier::reject_recursive_types(T)] pub struct KvxIt<'a, T> { p: core::marker::PhantomData<&'a T> }
#[verifier::external_body] #[verifier::reject_recursive_types(T)] pub struct KvxOwnedIt<T> { p: core::marker::PhantomData<T> }
impl<T> NonEmpty<T> {
    #[verifier::external_body] pub fn iter(&self) -> (r: KvxIt<'_, T>) { unimplemented!() }
    #[verifier::external_body] pub fn into_iter(self) -> (r: KvxOwnedIt<T>) { unimplemented!() }
    #[verifier::external_body] pub fn first(&self) -> (r: &T) { unimplemented!() }
    #[verifier::external_body] pub fn last(&self) -> (r: &T) { unimplemented!() }
    #[verifier::external_body] pub fn len(&self) -> (r: usize) { unimplemented!() }
}
impl<'a, T> KvxIt<'a, T> {
    #[verifier::external_body] pub fn filter<F: Fn(&&'a T) -> bool>(self, f: F) -> (r: KvxIt<'a, T>) { unimplemented!() }
    #[verifier::external_body] pub fn rev(self) -> (r: KvxIt<'a, T>) { unimplemented!() }
    #[verifier::external_body] pub fn find<F: Fn(&&'a T) -> bool>(self, f: F) -> (r: Option<&'a T>) { unimplemented!() }
    #[verifier::external_body] pub fn next(&mut self) -> (r: Option<&'a T>) { unimplemented!() }
    #[verifier::external_body] pub fn last(self) -> (r: Option<&'a T>) { unimplemented!() }
    #[verifier::external_body] pub fn any<F: Fn(&'a T) -> bool>(self, f: F) -> (r: bool) { unimplemented!() }
    #[verifier::external_body] pub fn cloned(self) -> (r: KvxOwnedIt<T>) { unimplemented!() }
}
impl<T> KvxOwnedIt<T> {
    #[verifier::external_body] pub fn collect(self) -> (r: Vec<T>) { unimplemented!() }
    #[verifier::external_body] pub fn next(&mut self) -> (r: Option<T>) { unimplemented!() }
    #[verifier::external_body] pub fn last(self) -> (r: Option<T>) { unimplemented!() }
}
impl Clone for CredHandler { #[verifier::external_body] fn clone(&self) -> (r: CredHandler) { unimplemented!() } }
pub struct Source { pub o: u8 }
impl Source { #[verifier::external_body] pub fn clone(&self) -> (r: Source) { unimplemented!() } }
impl From<Source> for AuditSource { #[verifier::external_body] fn from(s: Source) -> (r: AuditSource) { unimplemented!() } }
pub struct Account { pub uuid: Uuid }
impl Account { #[verifier::external_body] pub fn spn(&self) -> (r: &str) { unimplemented!() } }
#[verifier::external_body] pub struct KeyObject { p: u8 }
impl KeyObject { #[verifier::external_body] pub fn jws_es256_sign(&self, jwt: &Jws, time: Duration) -> (r: Result<JwsCompact, OperationError>) { unimplemented!() } }
impl Jws { #[verifier::external_body] pub fn into_json(u: &UserAuthToken) -> (r: Result<Jws, SerdeErr>) { unimplemented!() } }
pub struct Arc<T> { pub v: T }
impl<T> core::ops::Deref for Arc<T> { type Target = T; fn deref(&self) -> (r: &T) ensures *r == self.v { &self.v } }
pub struct AuthSession { pub account: Account, pub state: AuthSessionState, pub issue: AuthIssueSession, pub source: Source, pub key_object: Arc<KeyObject> }
impl AuthSession {
    // contract proved in C33's unit privilege_window; opaque here
    #[verifier::external_body] pub fn issue_uat(&mut self, auth_type: AuthType, time: Duration, async_tx: &UnboundedSender<DelayedAction>, cred_id: Uuid, ext: SessionExtMetadata)
        -> (r: Result<UserAuthToken, OperationError>) ensures final(self).state == old(self).state { unimplemented!() }
//@extract start_session
//@extract validate_creds
}
}
fn main(){}
