use vstd::prelude::*;
use core::cmp::Ordering;
use std::collections::BTreeMap;
use std::collections::HashSet;
verus! {
//@include shims/duration.rs
//@include shims/uuid.rs
// ---- real enums / structs extracted from /repo ----
pub struct PublicKeyCredential { pub o: u8 }
pub struct RequestChallengeResponse { pub o: u8 }
pub struct AccessTokenResponse { pub o: u8 }
pub struct AccessTokenIntrospectResponse { pub o: u8 }
pub struct OidcToken { pub o: u8 }
pub struct Url { pub o: u8 }
pub struct JwsCompact { pub o: u8 }
//@extract AuthCredential
//@extract AuthAllowed
//@extract AuthType
//@extract CredVerifyState
//@extract CredTotp
//@extract CredBackupCode
//@extract CredState
pub struct AuthExternal { pub o: u8 }
pub struct SessionExtMetadata { pub o: u8 }
impl Default for SessionExtMetadata { fn default() -> Self { SessionExtMetadata { o: 0 } } }
pub struct NonEmpty<T> { pub head: T, pub tail: Vec<T> }
// ---- credential primitives: uninterpreted acceptance predicates (cryptography / C29 / set lookup) ----
pub struct Password { pub p: u64 }
impl Password {
    pub uninterp spec fn ok(&self, s: Seq<char>) -> bool;
    #[verifier::external_body] pub fn verify(&self, c: &str) -> (r: Result<bool, ()>) ensures r matches Ok(b) ==> b == self.ok(c@) { unimplemented!() }
}
pub struct Totp { pub t: u64 }
impl Totp {
    pub uninterp spec fn accepts(&self, chal: u32, ts: Duration) -> bool;   // == C29's window rule
    #[verifier::external_body] pub fn verify(&self, chal: u32, ts: Duration) -> (r: bool) ensures r == self.accepts(chal, ts) { unimplemented!() }
}
pub struct BackupCodes { pub b: u64 }
impl BackupCodes {
    pub uninterp spec fn has(&self, code: Seq<char>) -> bool;
    #[verifier::external_body] pub fn verify(&self, code_chal: &str) -> (r: bool) ensures r == self.has(code_chal@) { unimplemented!() }
}
pub struct BackupCodeRemoval { pub target_uuid: Uuid, pub code_to_remove: String }
pub enum DelayedAction { BackupCodeRemoval(BackupCodeRemoval), Other }
pub struct SendError { pub o: u8 }
#[verifier::external_body] #[verifier::reject_recursive_types(T)] pub struct UnboundedSender<T> { _p: core::marker::PhantomData<T> }
impl<T> UnboundedSender<T> { #[verifier::external_body] pub fn send(&self, m: T) -> (r: Result<(), SendError>) { unimplemented!() } }
pub const BAD_AUTH_TYPE_MSG: &'static str = "a";
pub const BAD_TOTP_MSG: &'static str = "b";
pub const BAD_PASSWORD_MSG: &'static str = "c";
pub const PW_BADLIST_MSG: &'static str = "d";
pub const BAD_BACKUPCODE_MSG: &'static str = "e";
pub assume_specification<T, E>[ Result::<T, E>::unwrap_or ](r: Result<T, E>, d: T) -> (o: T) ensures o == (match r { Ok(v) => v, Err(_) => d });
pub uninterp spec fn lower(s: Seq<char>) -> Seq<char>;
pub assume_specification[ str::to_lowercase ](s: &str) -> (r: String) ensures r@ == lower(s@);

// ---- specification from the statement of C27 ----
// the password factor was verified in this call: the supplied cleartext verifies against the stored password
pub open spec fn pw_verified(pw: &Password, cred: &AuthCredential) -> bool { cred matches AuthCredential::Password(c) && pw.ok(c@) }
// ---- layer 3: over any sequence of handler calls, Success needs both factors, second factor first, in this session ----
// One call, abstracted to what the woven postconditions of validate_password_totp / validate_password_backup_code say about it
// (mfa_ok: the supplied credential was an accepted TOTP / backup code; pw_ok: it was the verifying password).
pub enum V { Init, Success, Fail }
pub struct Step { pub pre_mfa: V, pub pre_pw: V, pub post_mfa: V, pub post_pw: V, pub success: bool, pub mfa_ok: bool, pub pw_ok: bool }
pub open spec fn step_obeys_contract(s: Step) -> bool {
    &&& (s.success ==> (s.pre_mfa is Success && s.pre_pw is Init && s.pw_ok))                          // ensures.0
    &&& ((s.post_mfa is Success && !(s.pre_mfa is Success)) ==> (s.pre_mfa is Init && s.pre_pw is Init && s.mfa_ok))   // ensures.1
}
pub open spec fn chained(t: Seq<Step>) -> bool {
    &&& forall|i: int| 0 <= i < t.len() ==> step_obeys_contract(#[trigger] t[i])
    &&& (t.len() > 0 ==> t[0].pre_mfa is Init && t[0].pre_pw is Init)                                  // a fresh handler
    &&& forall|i: int| 0 <= i < t.len() - 1 ==> (#[trigger] t[i]).post_mfa == t[i + 1].pre_mfa && t[i].post_pw == t[i + 1].pre_pw
}
pub proof fn lemma_mfa_state_has_a_witness(t: Seq<Step>, n: int)
    requires chained(t), 0 <= n < t.len(), t[n].pre_mfa is Success,
    ensures exists|m: int| 0 <= m < n && (#[trigger] t[m]).mfa_ok,
    decreases n,
{
    if n == 0 { } else {
        if t[n - 1].pre_mfa is Success { lemma_mfa_state_has_a_witness(t, n - 1); let m = choose|m: int| 0 <= m < n - 1 && (#[trigger] t[m]).mfa_ok; assert(t[m].mfa_ok); }
        else { assert(t[n - 1].post_mfa == t[n].pre_mfa); assert(step_obeys_contract(t[n - 1])); assert(t[n - 1].mfa_ok); }
    }
}
pub proof fn lemma_success_needs_every_factor(t: Seq<Step>, n: int)
    requires chained(t), 0 <= n < t.len(), t[n].success,
    ensures t[n].pw_ok, exists|m: int| 0 <= m < n && (#[trigger] t[m]).mfa_ok,
{
    assert(step_obeys_contract(t[n]));
    lemma_mfa_state_has_a_witness(t, n);
}

pub struct CredHandler;
impl CredHandler {
    #[verifier::external_body] pub fn maybe_pw_upgrade(pw: &Password, who: Uuid, cleartext: &str, async_tx: &UnboundedSender<DelayedAction>) { unimplemented!() }
//@extract validate_anonymous
//@extract validate_password
//@extract validate_password_totp
//@extract validate_password_backup_code
}
}
fn main(){}
