use vstd::prelude::*;
use core::cmp::Ordering;
verus! {
//@include shims/duration.rs
//@include shims/uuid.rs
//@include shims/offsetdatetime.rs
//@include shims/std_option.rs
// opaque credential material
#[derive(Clone)] pub struct Password { pub o: u64 }
impl Password { #[verifier::external_body] pub fn clone(&self) -> (r: Password) ensures r == *self { unimplemented!() } }
pub struct Totp { pub o: u8 } pub struct SecurityKey { pub o: u8 } pub struct Passkey { pub o: u8 }
pub struct BackupCodes { pub o: u8 }
impl BackupCodes { #[verifier::external_body] pub fn clone(&self) -> (r: BackupCodes) { unimplemented!() } }
#[verifier::external_body] #[verifier::reject_recursive_types(K)] #[verifier::reject_recursive_types(V)] pub struct HashMap<K, V> { p: core::marker::PhantomData<(K, V)> }
impl<K, V> HashMap<K, V> { pub uninterp spec fn empty(&self) -> bool; #[verifier::external_body] pub fn is_empty(&self) -> (r: bool) ensures r == self.empty() { unimplemented!() } }
//@extract CredentialType
pub struct Credential { pub type_: CredentialType, pub uuid: Uuid, pub timestamp: OffsetDateTime }
pub struct CredTotp { pub o: u8 } pub struct CredBackupCode { pub o: u8 } pub struct CredSecurityKey { pub o: u8 } pub struct CredPasskey { pub o: u8 } pub struct CredAttestedPasskey { pub o: u8 }
pub struct CredentialID { pub o: u8 } pub struct AttestationCaList { pub o: u8 } pub struct AttestedPasskeyV4 { pub o: u8 } pub struct CredHandlerOAuth2Client { pub o: u8 }
#[verifier::external_body] #[verifier::reject_recursive_types(K)] #[verifier::reject_recursive_types(V)] pub struct BTreeMap<K, V> { p: core::marker::PhantomData<(K, V)> }
pub struct Arc<T> { pub v: T }
impl<T> Arc<T> { pub fn new(v: T) -> (r: Arc<T>) ensures r.v == v { Arc { v } } }
//@extract CredHandler
#[verifier::external_body] pub fn kvx_cred_totp(pw: &Password, t: &HashMap<String, Totp>) -> (r: CredTotp) { unimplemented!() }
#[verifier::external_body] pub fn kvx_cred_backup(pw: &Password, b: &BackupCodes) -> (r: CredBackupCode) { unimplemented!() }
pub struct Webauthn { pub o: u8 }
pub struct OAuth2ClientProvider { pub o: u8 } pub struct TrustUser { pub o: u8 }
impl CredHandlerOAuth2Client { #[verifier::external_body] pub fn new(p: &OAuth2ClientProvider, t: &TrustUser) -> (r: CredHandlerOAuth2Client) { unimplemented!() } }
// the statement's vocabulary
pub open spec fn is_mfa(c: Credential) -> bool { c.type_ is PasswordMfa }
pub open spec fn pw_only(h: CredHandler) -> bool { h is Password }
impl CredHandler {
//@extract build_from_password_totp
//@extract build_from_password_backup_code
//@extract build_from_password_only
    // webauthn-backed builders (challenge generation in webauthn-rs): they never yield a password-only handler
    #[verifier::external_body] pub fn build_from_password_security_key(cred: &Credential, w: &Webauthn) -> (r: Option<CredHandler>) ensures r is Some ==> r->Some_0 is PasswordSecurityKey { unimplemented!() }
    #[verifier::external_body] pub fn kvx_build_passkeys(a: &Account, w: &Webauthn) -> (r: Option<CredHandler>) ensures r is Some ==> r->Some_0 is Passkey { unimplemented!() }
    #[verifier::external_body] pub fn kvx_build_attested(a: &Account, l: &AttestationCaList, w: &Webauthn) -> (r: Option<CredHandler>) ensures r is Some ==> r->Some_0 is AttestedPasskey { unimplemented!() }
}
pub struct Account { pub uuid: Uuid, pub primary: Option<Credential>, pub o: u64 }
impl Account {
    pub uninterp spec fn valid_at(&self, ct: Duration) -> bool;
    pub uninterp spec fn anonymous(&self) -> bool;
    #[verifier::external_body] pub fn is_within_valid_time(&self, ct: Duration) -> (r: bool) ensures r == self.valid_at(ct) { unimplemented!() }
    #[verifier::external_body] pub fn is_anonymous(&self) -> (r: bool) ensures r == self.anonymous() { unimplemented!() }
    #[verifier::external_body] pub fn oauth2_client_provider(&self) -> (r: Option<&TrustUser>) { unimplemented!() }
}
pub struct ResolvedAccountPolicy { pub o: u8 }
impl ResolvedAccountPolicy { #[verifier::external_body] pub fn webauthn_attestation_ca_list(&self) -> (r: Option<&AttestationCaList>) { unimplemented!() } }
pub struct NonEmpty<T> { pub head: T, pub tail: Vec<T> }
pub open spec fn ne_seq<T>(n: NonEmpty<T>) -> Seq<T> { seq![n.head] + n.tail@ }
impl<T> NonEmpty<T> {
    // nonempty::NonEmpty::collect (crate source): None for an empty input, otherwise head = first item, tail = the rest
    #[verifier::external_body] pub fn collect(v: Vec<T>) -> (r: Option<NonEmpty<T>>) ensures r is None <==> v@.len() == 0, r is Some ==> ne_seq(r->Some_0) == v@ { unimplemented!() }
}
pub const ACCOUNT_EXPIRED: &'static str = "x";
//@extract AuthSessionState
impl AuthSessionState {
//@extract is_denied
}
pub enum AuthState { Choose(Vec<AuthMech>), Denied(String), Other }
pub struct AuthMech { pub o: u8 }
#[derive(Clone, Copy)] pub struct AuthIssueSession { pub o: u8 }
pub enum AuthIntent { InitialAuth { privileged: bool }, Other }
pub struct Source { pub o: u8 } pub struct ClientAuthInfo { pub source: Source }
pub struct KeyObject { pub o: u8 }
pub struct AuthSessionData<'a> { pub account: Account, pub account_policy: ResolvedAccountPolicy, pub issue: AuthIssueSession, pub webauthn: &'a Webauthn, pub ct: Duration, pub client_auth_info: ClientAuthInfo, pub oauth2_client_provider: Option<&'a OAuth2ClientProvider> }
pub struct AuthSession { pub account: Account, pub account_policy: ResolvedAccountPolicy, pub state: AuthSessionState, pub issue: AuthIssueSession, pub intent: AuthIntent, pub source: Source, pub key_object: Arc<KeyObject> }
#[verifier::external_body] pub fn kvx_to_string(s: &str) -> (r: String) { unimplemented!() }
// what a session offers: the handlers it was initialised with
pub open spec fn offered(s: AuthSession) -> Seq<CredHandler> { match s.state { AuthSessionState::Init(h) => ne_seq(h), _ => Seq::empty() } }
impl AuthSession {
    #[verifier::external_body] pub fn valid_auth_mechs(&self) -> (r: Vec<AuthMech>) { unimplemented!() }
//@extract as_new
}
}
fn main(){}
