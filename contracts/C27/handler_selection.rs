use vstd::prelude::*;
use core::cmp::Ordering;
verus! {
//@include shims/duration.rs
//@include shims/uuid.rs
//@include shims/offsetdatetime.rs
//@include shims/std_option.rs
// opaque credential material
#[derive(Clone)] pub struct Password { pub o: u64 }
impl Password { #[verifier::external_body] pub fn clone(&self) -> (r: Password) ensures r == *self { unimplemented!() } }
pub struct Totp { pub o: u8 } pub struct SecurityKey { pub o: u8 } pub struct Passkey { pub o: u8 }
pub struct BackupCodes { pub o: u8 }
impl BackupCodes { #[verifier::external_body] pub fn clone(&self) -> (r: BackupCodes) { unimplemented!() } }
#[verifier::external_body] #[verifier::reject_recursive_types(K)] #[verifier::reject_recursive_types(V)] pub struct HashMap<K, V> { p: core::marker::PhantomData<(K, V)> }
impl<K, V> HashMap<K, V> { pub uninterp spec fn empty(&self) -> bool; #[verifier::external_body] pub fn is_empty(&self) -> (r: bool) ensures r == self.empty() { unimplemented!() } }
//@extract CredentialType
pub struct Credential { pub type_: CredentialType, pub uuid: Uuid, pub timestamp: OffsetDateTime }
pub struct CredTotp { pub o: u8 } pub struct CredBackupCode { pub o: u8 } pub struct CredSecurityKey { pub o: u8 } pub struct CredPasskey { pub o: u8 } pub struct CredAttestedPasskey { pub o: u8 }
pub struct CredentialID { pub o: u8 } pub struct AttestationCaList { pub o: u8 } pub struct AttestedPasskeyV4 { pub o: u8 } pub struct CredHandlerOAuth2Client { pub o: u8 }
#[verifier::external_body] #[verifier::reject_recursive_types(K)] #[verifier::reject_recursive_types(V)] pub struct BTreeMap<K, V> { p: core::marker::PhantomData<(K, V)> }
pub struct Arc<T> { pub v: T }
impl<T> Arc<T> { pub fn new(v: T) -> (r: Arc<T>) ensures r.v == v { Arc { v } } }
//@extract CredHandler
#[verifier::external_body] pub fn kvx_cred_totp(pw: &Password, t: &HashMap<String, Totp>) -> (r: CredTotp) { unimplemented!() }
#[verifier::external_body] pub fn kvx_cred_backup(pw: &Password, b: &BackupCodes) -> (r: CredBackupCode) { unimplemented!() }
pub struct Webauthn { pub o: u8 }
pub struct OAuth2ClientProvider { pub o: u8 } pub struct TrustUser { pub o: u8 }
impl CredHandlerOAuth2Client { #[verifier::external_body] pub fn new(p: &OAuth2ClientProvider, t: &TrustUser) -> (r: CredHandlerOAuth2Client) { unimplemented!() } }
// the statement's vocabulary
pub open spec fn is_mfa(c: Credential) -> bool { c.type_ is PasswordMfa }
pub open spec fn pw_only(h: CredHandler) -> bool { h is Password }
impl CredHandler {
//@extract build_from_password_totp
//@extract build_from_password_backup_code
//@extract build_from_password_only
    // webauthn-backed builders (challenge generation in webauthn-rs): they never yield a password-only handler
    #[verifier::external_body] pub fn build_from_password_security_key(cred: &Credential, w: &Webauthn) -> (r: Option<CredHandler>) ensures r is Some ==> r->Some_0 is PasswordSecurityKey { unimplemented!() }
    #[verifier::external_body] pub fn kvx_build_passkeys(a: &Account, w: &Webauthn) -> (r: Option<CredHandler>) ensures r is Some ==> r->Some_0 is Passkey { unimplemented!() }
    #[verifier::external_body] pub fn kvx_build_attested(a: &Account, l: &AttestationCaList, w: &Webauthn) -> (r: Option<CredHandler>) ensures r is Some ==> r->Some_0 is AttestedPasskey { unimplemented!() }
    // re-authentication: the single passkey / attested passkey with that credential id, if the account still has it
    #[verifier::external_body] pub fn kvx_build_single_passkey(a: &Account, cred_id: Uuid, w: &Webauthn) -> (r: Option<CredHandler>) ensures r is Some ==> r->Some_0 is Passkey { unimplemented!() }
    #[verifier::external_body] pub fn kvx_build_single_attested(a: &Account, cred_id: Uuid, l: &AttestationCaList, w: &Webauthn) -> (r: Option<CredHandler>) ensures r is Some ==> r->Some_0 is AttestedPasskey { unimplemented!() }
    #[verifier::external_body] pub fn next_auth_state(&self) -> (r: AuthState) ensures !(r is Denied) { unimplemented!() }
}
pub struct Account { pub uuid: Uuid, pub primary: Option<Credential>, pub o: u64 }
impl Account {
    pub uninterp spec fn valid_at(&self, ct: Duration) -> bool;
    pub uninterp spec fn anonymous(&self) -> bool;
    #[verifier::external_body] pub fn is_within_valid_time(&self, ct: Duration) -> (r: bool) ensures r == self.valid_at(ct) { unimplemented!() }
    #[verifier::external_body] pub fn is_anonymous(&self) -> (r: bool) ensures r == self.anonymous() { unimplemented!() }
    #[verifier::external_body] pub fn oauth2_client_provider(&self) -> (r: Option<&TrustUser>) { unimplemented!() }
}
pub struct ResolvedAccountPolicy { pub o: u8 }
impl ResolvedAccountPolicy { #[verifier::external_body] pub fn webauthn_attestation_ca_list(&self) -> (r: Option<&AttestationCaList>) { unimplemented!() } }
pub struct NonEmpty<T> { pub head: T, pub tail: Vec<T> }
pub open spec fn ne_seq<T>(n: NonEmpty<T>) -> Seq<T> { seq![n.head] + n.tail@ }
impl<T> NonEmpty<T> {
    // nonempty::NonEmpty::collect (crate source): None for an empty input, otherwise head = first item, tail = the rest
    #[verifier::external_body] pub fn collect(v: Vec<T>) -> (r: Option<NonEmpty<T>>) ensures r is None <==> v@.len() == 0, r is Some ==> ne_seq(r->Some_0) == v@ { unimplemented!() }
}
pub const ACCOUNT_EXPIRED: &'static str = "x";
//@extract AuthSessionState
impl AuthSessionState {
//@extract is_denied
}
pub enum AuthState { Choose(Vec<AuthMech>), Denied(String), Other }
pub struct AuthMech { pub o: u8 }
#[derive(Clone, Copy)] pub struct AuthIssueSession { pub o: u8 }
//@extract AuthIntent
//@extract AuthType
//@extract ReauthRequest
// value::Session / SessionState: the fields new_reauth reads
pub struct Cid { pub o: u8 }
pub enum SessionState { RevokedAt(Cid), ExpiresAt(OffsetDateTime), NeverExpires }
pub struct Session { pub state: SessionState, pub cred_id: Uuid, pub type_: AuthType }
// the inner `enum State` of new_reauth, lifted out of the function body (R6)
pub enum State { Expired, NoMatchingCred, Proceed(CredHandler) }
pub const BAD_CREDENTIALS: &'static str = "y";
pub struct Source { pub o: u8 } pub struct ClientAuthInfo { pub source: Source }
pub struct KeyObject { pub o: u8 }
pub struct AuthSessionData<'a> { pub account: Account, pub account_policy: ResolvedAccountPolicy, pub issue: AuthIssueSession, pub webauthn: &'a Webauthn, pub ct: Duration, pub client_auth_info: ClientAuthInfo, pub oauth2_client_provider: Option<&'a OAuth2ClientProvider> }
pub struct AuthSession { pub account: Account, pub account_policy: ResolvedAccountPolicy, pub state: AuthSessionState, pub issue: AuthIssueSession, pub intent: AuthIntent, pub source: Source, pub key_object: Arc<KeyObject> }
#[verifier::external_body] pub fn kvx_to_string(s: &str) -> (r: String) { unimplemented!() }
// ---- re-authentication (C33 / C27 / C49) ----
// the handler a re-authentication proceeds with is of the kind the session was created with, on the same credential
pub open spec fn reauth_handler_ok(h: CredHandler, t: AuthType, cred_id: Uuid, a: Account) -> bool {
    match t {
        AuthType::Password | AuthType::GeneratedPassword | AuthType::PasswordBackupCode => h is Password && (a.primary matches Some(p) && p.uuid == cred_id && !is_mfa(p)),
        AuthType::PasswordTotp => h is PasswordTotp && (a.primary matches Some(p) && p.uuid == cred_id),
        AuthType::PasswordSecurityKey => h is PasswordSecurityKey && (a.primary matches Some(p) && p.uuid == cred_id),
        AuthType::Passkey => h is Passkey,
        AuthType::AttestedPasskey => h is AttestedPasskey,
        AuthType::Anonymous | AuthType::OAuth2Trust => false,
    }
}
// "re-authentication never extends the overall session expiry": the re-auth session carries the original session's expiry
pub open spec fn reauth_intent_ok(i: AuthIntent, session_id: Uuid, st: SessionState) -> bool {
    i matches AuthIntent::Reauth { read_write, session_id: sid, session_expiry } && sid == session_id
    && match st { SessionState::ExpiresAt(o) => session_expiry == Some(o), SessionState::NeverExpires => session_expiry is None, SessionState::RevokedAt(_) => false }
}
// what a session offers: the handlers it was initialised with
pub open spec fn offered(s: AuthSession) -> Seq<CredHandler> { match s.state { AuthSessionState::Init(h) => ne_seq(h), _ => Seq::empty() } }
impl AuthSession {
    #[verifier::external_body] pub fn valid_auth_mechs(&self) -> (r: Vec<AuthMech>) { unimplemented!() }
//@extract as_new
//@extract as_new_reauth
}
}
fn main(){}
