use vstd::prelude::*;
verus! {
//@extract CODEC_MIMIMUM_BYTESMUT_ALLOCATION
//@extract CODEC_BYTESMUT_ALLOCATION_LIMIT
pub mod io {
    use vstd::prelude::*;
    verus!{
    pub enum ErrorKind { InvalidInput, OutOfMemory, Other }
    pub struct Error { pub kind: ErrorKind }
    impl Error {
        #[verifier::external_body] pub fn new(kind: ErrorKind, msg: &str) -> (r: Error) ensures r.kind == kind { unimplemented!() }
        #[verifier::external_body] pub fn other(msg: &str) -> (r: Error) ensures r.kind == ErrorKind::Other { unimplemented!() }
    }
    }
}
// JSON (de)serialisation: uninterpreted `parse`; serde_json::from_slice succeeds exactly when parse does
pub trait DeserializeOwned: Sized { spec fn parse(b: Seq<u8>) -> Option<Self>; }
pub mod serde_json {
    use vstd::prelude::*;
    verus!{
    pub struct Error;
    // appends the JSON text of msg to the writer, or fails (then the content written so far is unspecified)
    #[verifier::external_body]
    pub fn to_writer<R: super::Serialize>(w: &mut super::Writer, msg: &R) -> (r: Result<(), Error>)
        ensures r is Ok ==> final(w)@ == old(w)@ + msg.json()
    { unimplemented!() }
    #[verifier::external_body]
    pub fn from_slice<T: super::DeserializeOwned>(b: &[u8]) -> (r: Result<T, Error>)
        ensures r is Ok == T::parse(b@) is Some, r is Ok ==> r->Ok_0 == T::parse(b@)->Some_0
    { unimplemented!() }
    }
}
// bytes::BytesMut as a byte sequence (ASSUMED contracts, from the bytes crate documentation)
#[verifier::external_body]
pub struct BytesMut { _p: u8 }
impl View for BytesMut { type V = Seq<u8>; uninterp spec fn view(&self) -> Seq<u8>; }
impl BytesMut {
    #[verifier::external_body] pub fn with_capacity(n: usize) -> (r: BytesMut) ensures r@.len() == 0 { unimplemented!() }
    #[verifier::external_body] pub fn len(&self) -> (r: usize) ensures r == self@.len() { unimplemented!() }
    #[verifier::external_body] pub fn capacity(&self) -> (r: usize) { unimplemented!() }
    // capacity management never changes the contents
    #[verifier::external_body] pub fn reserve(&mut self, additional: usize) ensures final(self)@ == old(self)@ { unimplemented!() }
    #[verifier::external_body] pub fn remaining(&self) -> (r: usize) ensures r == self@.len() { unimplemented!() }
    #[verifier::external_body] pub fn truncate(&mut self, len: usize) ensures final(self)@ == (if len <= old(self)@.len() { old(self)@.subrange(0, len as int) } else { old(self)@ }) { unimplemented!() }
    #[verifier::external_body] pub fn split_to(&mut self, at: usize) -> (r: BytesMut)
        requires at <= old(self)@.len() ensures r@ == old(self)@.subrange(0, at as int), final(self)@ == old(self)@.subrange(at as int, old(self)@.len() as int) { unimplemented!() }
    #[verifier::external_body] pub fn clear(&mut self) ensures final(self)@.len() == 0 { unimplemented!() }
    #[verifier::external_body] pub fn split_at(&self, mid: usize) -> (r: (&[u8], &[u8]))
        requires mid <= self@.len() ensures r.0@ == self@.subrange(0, mid as int), r.1@ == self@.subrange(mid as int, self@.len() as int) { unimplemented!() }
    #[verifier::external_body] pub fn is_empty(&self) -> (r: bool) ensures r == (self@.len() == 0) { unimplemented!() }
    // split_off(at): self keeps [0, at), the returned buffer holds [at, len)
    #[verifier::external_body] pub fn split_off(&mut self, at: usize) -> (r: BytesMut)
        requires at <= old(self)@.len() ensures final(self)@ == old(self)@.subrange(0, at as int), r@ == old(self)@.subrange(at as int, old(self)@.len() as int) { unimplemented!() }
    #[verifier::external_body] pub fn extend_from_slice(&mut self, extend: &[u8]) ensures final(self)@ == old(self)@ + extend@ { unimplemented!() }
    // <[u8]>::copy_from_slice through DerefMut: panics unless the lengths are equal
    #[verifier::external_body] pub fn copy_from_slice(&mut self, src: &[u8]) requires old(self)@.len() == src@.len() ensures final(self)@ == src@ { unimplemented!() }
    // unsplit(other): appends other
    #[verifier::external_body] pub fn unsplit(&mut self, other: BytesMut) ensures final(self)@ == old(self)@ + other@ { unimplemented!() }
    #[verifier::external_body] pub fn writer(self) -> (r: Writer) ensures r@ == self@ { unimplemented!() }
    #[verifier::external_body] pub fn advance(&mut self, cnt: usize)
        requires cnt <= old(self)@.len() ensures final(self)@ == old(self)@.subrange(cnt as int, old(self)@.len() as int) { unimplemented!() }
}
#[verifier::external_body]
pub struct Writer { _p: u8 }
impl View for Writer { type V = Seq<u8>; uninterp spec fn view(&self) -> Seq<u8>; }
impl Writer { #[verifier::external_body] pub fn into_inner(self) -> (r: BytesMut) ensures r@ == self@ { unimplemented!() } }
pub trait Serialize: Sized { spec fn json(&self) -> Seq<u8>; }
#[verifier::external_body] pub fn shim_u64_to_be_bytes(n: u64) -> (r: [u8; 8]) ensures r@ == enc64(n as nat) { unimplemented!() }
// R3 stand-in for u64::from_be_bytes (this Verus cannot attach a spec to the const-generic std signature);
// `be64` is the big-endian value; be64(enc64(n)) == n is checked on the real std functions by the kani unit codec_kani
#[verifier::external_body] pub fn shim_u64_from_be_bytes(bytes: [u8; 8]) -> (r: u64) ensures r == be64(bytes@) { unimplemented!() }
pub mod std { pub mod mem { pub use core::mem::swap; } }

// ---- decode contract as a spec function (this IS the woven postcondition of decode_length_checked_json) ----
pub uninterp spec fn be64(b: Seq<u8>) -> nat;             // big-endian value of 8 bytes
pub uninterp spec fn enc64(n: nat) -> Seq<u8>;            // its inverse on [0, 2^64)
#[verifier::external_body]
pub broadcast proof fn ax_be64(n: nat) requires n < 0x1_0000_0000_0000_0000 ensures (#[trigger] enc64(n)).len() == 8, be64(enc64(n)) == n {}

pub enum D { More, Bad, Msg(Seq<u8>) }
pub open spec fn dec(buf: Seq<u8>, max: nat) -> (D, Seq<u8>) {
    if buf.len() < 8 { (D::More, buf) } else {
        let req = be64(buf.subrange(0, 8));
        if req == 0 || req > max { (D::Bad, buf) }
        else if buf.len() - 8 < req { (D::More, buf) }
        else { (D::Msg(buf.subrange(8, 8 + req as int)), buf.subrange(8 + req as int, buf.len() as int)) }
    }
}
pub open spec fn frame(body: Seq<u8>) -> Seq<u8> { enc64(body.len()) + body }      // == postcondition of encode_length_checked_json

// The consumer loop of a Framed<_, Codec>: append a chunk, then decode until More/Bad.
pub open spec fn drain(buf: Seq<u8>, max: nat) -> (Seq<Seq<u8>>, Seq<u8>, bool)   // (messages, rest, poisoned)
    decreases buf.len()
{
    let (d, rest) = dec(buf, max);
    match d {
        D::More => (seq![], buf, false),
        D::Bad => (seq![], buf, true),
        D::Msg(m) => if rest.len() < buf.len() { let (ms, r, p) = drain(rest, max); (seq![m] + ms, r, p) } else { (seq![], buf, true) },
    }
}
pub open spec fn feed(chunks: Seq<Seq<u8>>, max: nat) -> (Seq<Seq<u8>>, Seq<u8>, bool)
    decreases chunks.len()
{
    if chunks.len() == 0 { (seq![], seq![], false) } else {
        let (ms, buf, p) = feed(chunks.drop_last(), max);
        if p { (ms, buf, true) } else { let (ms2, r, p2) = drain(buf + chunks.last(), max); (ms + ms2, r, p2) }
    }
}
pub open spec fn flat(chunks: Seq<Seq<u8>>) -> Seq<u8> decreases chunks.len() { if chunks.len() == 0 { seq![] } else { flat(chunks.drop_last()) + chunks.last() } }
pub open spec fn frames(bs: Seq<Seq<u8>>) -> Seq<u8> decreases bs.len() { if bs.len() == 0 { seq![] } else { frame(bs[0]) + frames(bs.drop_first()) } }
pub open spec fn good(bs: Seq<Seq<u8>>, max: nat) -> bool { forall|i: int| 0 <= i < bs.len() ==> 0 < (#[trigger] bs[i]).len() <= max }

// 1. decoding is stable under appending more bytes
pub proof fn lemma_dec_extend(buf: Seq<u8>, x: Seq<u8>, max: nat)
    ensures
        dec(buf, max).0 is Bad ==> dec(buf + x, max).0 is Bad,
        dec(buf, max).0 matches D::Msg(m) ==> dec(buf + x, max) == (D::Msg(m), dec(buf, max).1 + x),
{
    if buf.len() >= 8 {
        assert((buf + x).subrange(0, 8) =~= buf.subrange(0, 8));
        let req = be64(buf.subrange(0, 8));
        if !(req == 0 || req > max) && buf.len() - 8 >= req {
            assert((buf + x).subrange(8, 8 + req as int) =~= buf.subrange(8, 8 + req as int));
            assert((buf + x).subrange(8 + req as int, (buf + x).len() as int) =~= buf.subrange(8 + req as int, buf.len() as int) + x);
        }
    }
}

// 2. draining is compositional: what is left after draining buf, extended by x, drains to the rest of the answer
pub proof fn lemma_drain_extend(buf: Seq<u8>, x: Seq<u8>, max: nat)
    ensures ({
        let (ms, r, p) = drain(buf, max);
        let (ms2, r2, p2) = drain(r + x, max);
        let (ma, ra, pa) = drain(buf + x, max);
        if p { pa && ma == ms } else { ma == ms + ms2 && ra == r2 && pa == p2 }
    })
    decreases buf.len()
{
    let (d, rest) = dec(buf, max);
    lemma_dec_extend(buf, x, max);
    match d {
        D::More => { assert(drain(buf, max) == (Seq::<Seq<u8>>::empty(), buf, false)); assert(seq![] + drain(buf + x, max).0 =~= drain(buf + x, max).0); }
        D::Bad => {}
        D::Msg(m) => {
            if rest.len() < buf.len() {
                lemma_drain_extend(rest, x, max);
                assert(dec(buf + x, max) == (D::Msg(m), rest + x));
                assert((rest + x).len() < (buf + x).len());
                let (ms1, r1, p1) = drain(rest, max);
                let (ms2, r2, p2) = drain(r1 + x, max);
                assert(seq![m] + (ms1 + ms2) =~= (seq![m] + ms1) + ms2);
            } else {
                assert((rest + x).len() >= (buf + x).len());
            }
        }
    }
}
// 3. chunk-by-chunk feeding yields the same messages as decoding the whole stream at once
pub proof fn lemma_feed_is_drain(chunks: Seq<Seq<u8>>, max: nat)
    ensures ({
        let (ms, r, p) = feed(chunks, max);
        let (ma, ra, pa) = drain(flat(chunks), max);
        ms == ma && p == pa && (!p ==> r == ra)
    })
    decreases chunks.len()
{
    if chunks.len() == 0 {
        assert(flat(chunks) =~= Seq::<u8>::empty());
        assert(drain(Seq::<u8>::empty(), max) == (Seq::<Seq<u8>>::empty(), Seq::<u8>::empty(), false));
    } else {
        let pre = chunks.drop_last(); let x = chunks.last();
        lemma_feed_is_drain(pre, max);
        lemma_drain_extend(flat(pre), x, max);
        let (ms, r, p) = feed(pre, max);
    }
}
// 4. a stream of well-formed frames drains to exactly its bodies
pub proof fn lemma_frames_drain(bs: Seq<Seq<u8>>, max: nat)
    requires good(bs, max), max < 0x1_0000_0000_0000_0000
    ensures drain(frames(bs), max) == (bs, Seq::<u8>::empty(), false)
    decreases bs.len()
{
    broadcast use ax_be64;
    if bs.len() == 0 {
        assert(drain(frames(bs), max).0 =~= bs);
    } else {
        let b = bs[0]; let tail = bs.drop_first();
        assert(good(tail, max)) by { assert forall|i: int| 0 <= i < tail.len() implies 0 < (#[trigger] tail[i]).len() <= max by { assert(tail[i] == bs[i + 1]); } }
        lemma_frames_drain(tail, max);
        let buf = frames(bs);
        assert(buf == (enc64(b.len()) + b) + frames(tail));
        assert(buf.subrange(0, 8) =~= enc64(b.len()));
        assert(buf.subrange(8, 8 + b.len() as int) =~= b);
        assert(buf.subrange(8 + b.len() as int, buf.len() as int) =~= frames(tail));
        assert(dec(buf, max) == (D::Msg(b), frames(tail)));
        assert(seq![b] + tail =~= bs);
    }
}
// C14: however the byte stream of well-formed frames is split into read chunks, the decoder yields exactly the
// original message bodies, in order, and never errors.
pub proof fn c14_fragmentation(bs: Seq<Seq<u8>>, chunks: Seq<Seq<u8>>, max: nat)
    requires good(bs, max), max < 0x1_0000_0000_0000_0000, flat(chunks) == frames(bs)
    ensures feed(chunks, max).0 == bs, !feed(chunks, max).2, feed(chunks, max).1 == Seq::<u8>::empty()
{
    lemma_feed_is_drain(chunks, max);
    lemma_frames_drain(bs, max);
}

// ---- the result of one decode call, as a function of (old buffer, limit) ----
pub open spec fn decode_post<T: DeserializeOwned>(s: Seq<u8>, max: nat, r: Result<Option<T>, io::Error>, n: Seq<u8>) -> bool {
    match dec(s, max).0 {
        D::More => r matches Ok(None) && n == s,                       // nothing consumed, waits for more bytes
        D::Bad => r is Err && n == s,                                  // zero / oversize length: rejected, not buffered
        D::Msg(m) => n == dec(s, max).1                                // exactly one frame consumed
            && (T::parse(m) matches Some(v) ==> r == Ok::<Option<T>, io::Error>(Some(v)))
            && (T::parse(m) is None ==> r is Err),
    }
}
//@extract decode_length_checked_json
//@extract encode_length_checked_json

// C14 end to end at the contract level: what encode appends is a frame that decode (with a sufficient limit) returns unchanged
pub proof fn lemma_encode_then_decode(body: Seq<u8>, max: nat)
    requires 0 < body.len() <= max, max < 0x1_0000_0000_0000_0000,
    ensures dec(frame(body), max) == (D::Msg(body), Seq::<u8>::empty())
{
    broadcast use ax_be64;
    let buf = frame(body);
    assert(buf.subrange(0, 8) =~= enc64(body.len()));
    assert(buf.subrange(8, 8 + body.len() as int) =~= body);
    assert(buf.subrange(8 + body.len() as int, buf.len() as int) =~= Seq::<u8>::empty());
}
}
fn main(){}
