use vstd::prelude::*;
verus! {
pub mod lemmas {
    use vstd::prelude::*;
    // Bit-vector fact about the code's OWN constants (substituted from the source on every run):
    // whatever the 32-bit hash of the uuid is, masking and prefixing lands outside every reserved range and below 2^31.
    pub broadcast proof fn lemma_gid_mask(x: u32)
        ensures ({ let g = #[trigger] ((x & @@const:GID_SYSTEM_NUMBER_MASK@@u32) | @@const:GID_SYSTEM_NUMBER_PREFIX@@u32);
                   1000u32 <= g && g <= 0x7fff_ffffu32 && !(60001u32 <= g && g <= 60577u32) && !(61184u32 <= g && g <= 65519u32) && g != 65534u32 && g != 65535u32 })
    { assert({ let g = ((x & @@const:GID_SYSTEM_NUMBER_MASK@@u32) | @@const:GID_SYSTEM_NUMBER_PREFIX@@u32);
                   1000u32 <= g && g <= 0x7fff_ffffu32 && !(60001u32 <= g && g <= 60577u32) && !(61184u32 <= g && g <= 65519u32) && g != 65534u32 && g != 65535u32 }) by (bit_vector); }
}
pub mod code {
use vstd::prelude::*;
broadcast use super::lemmas::lemma_gid_mask;
#[derive(Clone, Copy, PartialEq, Eq)]
pub struct Uuid(pub u128);
// abstract attribute / class / value names: only the ones this function mentions are distinguished
#[derive(Clone, Copy, PartialEq, Eq)]
pub enum Attribute { Class, GidNumber, Uuid, Other(u64) }
#[derive(Clone, Copy, PartialEq, Eq)]
pub enum EntryClass { PosixGroup, PosixAccount, Other(u64) }
#[derive(Clone, Copy, PartialEq, Eq)]
pub enum PartialValue { Class(EntryClass), Other(u64) }
impl From<EntryClass> for PartialValue { fn from(c: EntryClass) -> (r: PartialValue) ensures r == PartialValue::Class(c) { PartialValue::Class(c) } }
impl vstd::std_specs::convert::FromSpecImpl<EntryClass> for PartialValue {
    open spec fn obeys_from_spec() -> bool { true }
    open spec fn from_spec(c: EntryClass) -> PartialValue { PartialValue::Class(c) }
}
#[derive(Clone, Copy, PartialEq, Eq)]
pub enum Value { Uint32(u32), Other(u64) }
impl Value { pub fn new_uint32(u: u32) -> (r: Value) ensures r == Value::Uint32(u) { Value::Uint32(u) } }
pub enum OperationError { InvalidEntryState, PL0001GidOverlapsSystemRange }
pub struct EntryInvalid;
// ---- Entry stand-in: uninterpreted view; accessor contracts read off server/lib/src/entry.rs (ASSUMED) ----
pub struct EntryV { pub uuid: Option<Uuid>, pub classes: Set<EntryClass>, pub gid: Option<u32>, pub rest: int }
#[verifier::external_body]
#[verifier::reject_recursive_types(V)]
#[verifier::reject_recursive_types(S)]
pub struct Entry<V, S> { _p: core::marker::PhantomData<(V, S)> }
impl<V, S> View for Entry<V, S> { type V = EntryV; uninterp spec fn view(&self) -> EntryV; }
impl<V, S> Entry<V, S> {
    #[verifier::external_body]
    pub fn attribute_equality(&self, a: Attribute, v: &PartialValue) -> (r: bool)
        ensures a == Attribute::Class ==> r == ((*v) matches PartialValue::Class(c) && self@.classes.contains(c)) { unimplemented!() }
    #[verifier::external_body]
    pub fn attribute_pres(&self, a: Attribute) -> (r: bool) ensures a == Attribute::GidNumber ==> r == self@.gid.is_some() { unimplemented!() }
    #[verifier::external_body]
    pub fn get_uuid(&self) -> (r: Option<Uuid>) ensures r == self@.uuid { unimplemented!() }
    #[verifier::external_body]
    pub fn get_ava_single_uint32(&self, a: Attribute) -> (r: Option<u32>) ensures a == Attribute::GidNumber ==> r == self@.gid { unimplemented!() }
    #[verifier::external_body]
    pub fn set_ava(&mut self, a: &Attribute, v: core::iter::Once<Value>)
        ensures *a == Attribute::GidNumber ==> (forall|g: u32| once_val(v) == Value::Uint32(g) ==> final(self)@ == (EntryV { gid: Some(g), ..old(self)@ })) { unimplemented!() }
}
pub assume_specification<T, E, F: FnOnce(&E)>[ Result::<T, E>::inspect_err ](r: Result<T, E>, f: F) -> (o: Result<T, E>)
    ensures o == r;
pub uninterp spec fn once_val(o: core::iter::Once<Value>) -> Value;
#[verifier::external_type_specification]
#[verifier::external_body]
#[verifier::reject_recursive_types(T)]
pub struct ExOnce<T>(core::iter::Once<T>);
#[verifier::external_body]
pub fn once(v: Value) -> (r: core::iter::Once<Value>) ensures once_val(r) == v { unimplemented!() }
// uuid_to_gid_u32: a pure function of the uuid (proved on the real Uuid by the kani unit uuid_to_gid_kani)
pub uninterp spec fn gid_of_uuid(u: Uuid) -> u32;
#[verifier::external_body]
pub fn uuid_to_gid_u32(u: Uuid) -> (r: u32) ensures r == gid_of_uuid(u) { unimplemented!() }

// ---- specification, from the statement of C21 ------------------------------------------------
// reserved: OS users (<1000), systemd-homed 60001-60577, systemd dynamic users 61184-65519, nobody 65534, 16-bit sentinel 65535
pub open spec fn reserved(g: u32) -> bool { g < 1000 || (60001 <= g <= 60577) || (61184 <= g <= 65519) || g == 65534 || g == 65535 }
pub open spec fn is_posix(e: EntryV) -> bool { e.classes.contains(EntryClass::PosixGroup) || e.classes.contains(EntryClass::PosixAccount) }

//@extract GID_SYSTEM_NUMBER_PREFIX
//@extract GID_SYSTEM_NUMBER_MASK
//@extract GID_REGULAR_USER_MIN
//@extract GID_REGULAR_USER_MAX
//@extract GID_UNUSED_A_MIN
//@extract GID_UNUSED_A_MAX
//@extract GID_UNUSED_B_MIN
//@extract GID_UNUSED_B_MAX
//@extract GID_UNUSED_C_MIN
//@extract GID_UNUSED_C_MAX
//@extract GID_NSPAWN_MIN
//@extract GID_NSPAWN_MAX
//@extract GID_UNUSED_D_MIN
//@extract GID_UNUSED_D_MAX
//@extract apply_gidnumber
// ---- the plugin drivers: `cand.iter_mut().try_for_each(apply_gidnumber)` ----
// the woven postcondition of apply_gidnumber, as a predicate over (entry before, entry after, returned Ok?)
pub open spec fn apply_post(o: EntryV, n: EntryV, ok: bool) -> bool {
    &&& (ok ==> (n.gid matches Some(g) ==> !reserved(g)))
    &&& ((ok && is_posix(o)) ==> n.gid is Some)
    &&& ((o.gid matches Some(g) && reserved(g)) ==> !ok)
    &&& n.uuid == o.uuid && n.classes == o.classes
}
// R3: the expression `cand.iter_mut().try_for_each(apply_gidnumber)` is redirected to this stand-in, which states the std semantics of
// iter_mut + try_for_each (apply the function to every element in order, stop at the first Err, Ok only if every call returned Ok)
// in terms of apply_gidnumber's own contract, which is proved above
#[verifier::external_body]
pub fn kvx_try_for_each_apply_gidnumber<T: Clone>(cand: &mut Vec<Entry<EntryInvalid, T>>) -> (r: Result<(), OperationError>)
    ensures final(cand)@.len() == old(cand)@.len(),
            r is Ok ==> forall|i: int| #![trigger old(cand)@[i]] #![trigger final(cand)@[i]] 0 <= i < old(cand)@.len() ==> apply_post(old(cand)@[i]@, final(cand)@[i]@, true),
            (exists|i: int| 0 <= i < old(cand)@.len() && ((#[trigger] old(cand)@[i])@.gid matches Some(g) && reserved(g))) ==> r is Err,
{ unimplemented!() }
#[derive(Clone, Copy)] pub struct EntryNew; #[derive(Clone, Copy)] pub struct EntryCommitted; pub struct EntrySealedCommitted { pub o: u8 }
pub struct QueryServerWriteTransaction { pub o: u8 }
pub struct CreateEvent { pub o: u8 } pub struct ModifyEvent { pub o: u8 } pub struct BatchModifyEvent { pub o: u8 }
pub struct Arc<T> { pub v: T }
// every candidate ends outside the reserved ranges, and every POSIX candidate has a gid
pub open spec fn all_safe<T>(before: Seq<Entry<EntryInvalid, T>>, after: Seq<Entry<EntryInvalid, T>>) -> bool {
    after.len() == before.len() && forall|i: int| #![trigger after[i]] #![trigger before[i]] 0 <= i < after.len() ==> (after[i]@.gid matches Some(g) ==> !reserved(g)) && (is_posix(before[i]@) ==> after[i]@.gid is Some)
}
pub open spec fn some_supplied_reserved<T>(before: Seq<Entry<EntryInvalid, T>>) -> bool { exists|i: int| 0 <= i < before.len() && ((#[trigger] before[i])@.gid matches Some(g) && reserved(g)) }
pub struct GidNumber {}
impl GidNumber {
//@extract pre_create_transform
//@extract pre_modify
//@extract pre_batch_modify
}
}
}
fn main(){}
