use vstd::prelude::*;
use core::cmp::Ordering;
verus! {
//@include shims/duration.rs
//@include shims/uuid.rs
//@include shims/std_option.rs
impl Duration { pub fn as_secs(&self) -> (r: u64) ensures r == self.secs { self.secs } }
pub enum OperationError { Backend }
pub enum Oauth2Error { AuthenticationRequired, InvalidRequest, InvalidClientId, InvalidToken, ServerError(OperationError) }
#[verifier::external_body] #[verifier::reject_recursive_types(T)] pub struct BTreeSet<T> { p: core::marker::PhantomData<T> }
impl<T> BTreeSet<T> {
    #[verifier::external_body] pub fn default() -> (r: BTreeSet<T>) { unimplemented!() }
    #[verifier::external_body] pub fn clone(&self) -> (r: BTreeSet<T>) { unimplemented!() }
}
pub enum AccessTokenType { Bearer, Other }
//@extract AccessTokenIntrospectResponse
impl AccessTokenIntrospectResponse {
//@extract inactive
}
#[derive(Clone)] pub struct OAuth2RFC9068TokenExtensions { pub auth_time: Option<i64>, pub acr: Option<String>, pub amr: Option<Vec<String>>, pub scope: BTreeSet<String>, pub nonce: Option<String>, pub session_id: Uuid, pub parent_session_id: Option<Uuid> }
impl Clone for BTreeSet<String> { #[verifier::external_body] fn clone(&self) -> (r: BTreeSet<String>) { unimplemented!() } }
pub struct OAuth2RFC9068Token<V> { pub iss: String, pub sub: Uuid, pub aud: String, pub exp: i64, pub nbf: i64, pub iat: i64, pub jti: Uuid, pub client_id: String, pub extensions: V }
// ---- signed access tokens ----
pub struct JwsHeader { pub kid: Option<String> }
pub struct JwsCompact { pub o: int }
impl JwsCompact { #[verifier::external_body] pub fn header(&self) -> (r: &JwsHeader) { unimplemented!() } }
pub struct Jws { pub o: int }
impl Jws {
    pub uninterp spec fn token(&self) -> OAuth2RFC9068Token<OAuth2RFC9068TokenExtensions>;    // the access token the payload is the JSON of
    #[verifier::external_body] pub fn from_json(&self) -> (r: Result<OAuth2RFC9068Token<OAuth2RFC9068TokenExtensions>, ()>) ensures r matches Ok(t) ==> t == self.token() { unimplemented!() }
}
pub struct KeyObject { pub o: int }
// the payload the client's key object accepts for that compact token (signature by a usable key: C34)
pub uninterp spec fn verified(k: KeyObject, t: JwsCompact) -> Option<Jws>;
pub struct Arc<T> { pub v: T }
impl Arc<KeyObject> {
    #[verifier::external_body] pub fn jws_verify(&self, t: &JwsCompact) -> (r: Result<Jws, OperationError>) ensures r matches Ok(j) ==> verified(self.v, *t) == Some(j) { unimplemented!() }
}
pub struct Url { pub o: u8 }
impl Url { #[verifier::external_body] pub fn to_string(&self) -> (r: String) { unimplemented!() } }
impl Url { #[verifier::external_body] pub fn clone(&self) -> (r: Url) { unimplemented!() } }
pub struct ClaimMap { pub o: u8 }
pub struct Oauth2RS { pub name: String, pub key_object: Arc<KeyObject>, pub prefer_short_username: bool, pub iss: Url, pub claim_map: ClaimMap }
pub struct Oauth2RSInner { pub o: u8 }
impl Oauth2RSInner {
    pub uninterp spec fn rs_of(&self, kid: Seq<char>) -> Option<Oauth2RS>;
    #[verifier::external_body] pub fn rs_from_kid(&self, kid: &str) -> (r: Option<&Oauth2RS>) ensures (r is Some) == (self.rs_of(kid@) is Some), r matches Some(x) ==> Some(*x) == self.rs_of(kid@) { unimplemented!() }
}
pub struct Oauth2RSRead { pub inner: Oauth2RSInner }
pub struct EntrySealedCommitted { pub o: int }
pub struct Account { pub o: int }
impl Account {
    #[verifier::external_body] pub fn try_from_entry_ro(e: &Arc<EntrySealedCommitted>, qs: &mut QueryServerReadTransaction) -> (r: Result<Account, OperationError>) { unimplemented!() }
    #[verifier::external_body] pub fn name(&self) -> (r: &str) { unimplemented!() }
    #[verifier::external_body] pub fn spn(&self) -> (r: &str) { unimplemented!() }
}
#[verifier::external_body] pub fn kvx_string_of(s: &str) -> (r: String) { unimplemented!() }
// OIDC userinfo answer and its claim builders (contents are not part of the clause decided here)
pub struct SClaims { pub o: u8 } pub struct ExtraClaims { pub o: u8 }
pub enum OidcSubject { U(Uuid), S(String) }
pub struct OidcToken { pub iss: Url, pub sub: OidcSubject, pub aud: String, pub iat: i64, pub nbf: Option<i64>, pub exp: i64, pub auth_time: Option<i64>, pub nonce: Option<String>, pub at_hash: Option<String>, pub acr: Option<String>, pub amr: Option<Vec<String>>, pub azp: Option<String>, pub jti: Option<String>, pub s_claims: SClaims, pub claims: ExtraClaims }
#[verifier::external_body] pub fn s_claims_for_account(o2rs: &Oauth2RS, a: &Account, scopes: &BTreeSet<String>) -> (r: SClaims) { unimplemented!() }
#[verifier::external_body] pub fn extra_claims_for_account(a: &Account, m: &ClaimMap, scopes: &BTreeSet<String>) -> (r: ExtraClaims) { unimplemented!() }
#[verifier::external_body] pub fn kvx_uuid_string(u: Uuid) -> (r: String) { unimplemented!() }
pub struct QueryServerReadTransaction { pub o: int }
// C39: what check_oauth2_account_uuid_valid establishes when it returns an entry (unit account_valid proves it of the real function):
// the account is inside its validity window and the token's OAuth2 session (and parent) is recorded, not revoked, or in grace
pub uninterp spec fn oauth2_valid(qs: QueryServerReadTransaction, sub: Uuid, session_id: Uuid, parent: Option<Uuid>, iat: i64, ct: Duration) -> bool;
pub struct IdmServerProxyReadTransaction { pub qs_read: QueryServerReadTransaction, pub oauth2rs: Oauth2RSRead }
impl IdmServerProxyReadTransaction {
    #[verifier::external_body] pub fn check_oauth2_account_uuid_valid(&mut self, uuid: Uuid, session_id: Uuid, parent: Option<Uuid>, iat: i64, ct: Duration) -> (r: Result<Option<Arc<EntrySealedCommitted>>, OperationError>)
        ensures r matches Ok(Some(_)) ==> oauth2_valid(old(self).qs_read, uuid, session_id, parent, iat, ct), final(self).oauth2rs == old(self).oauth2rs, final(self).qs_read == old(self).qs_read { unimplemented!() }
    // an introspection answer may say `active` only for a token that the client's key verified, that has not expired and whose
    // account / session check passed
    pub open spec fn active_justified(&self, jwsc: JwsCompact, ct: Duration) -> bool {
        exists|rs: Oauth2RS, j: Jws| #![trigger verified(rs.key_object.v, jwsc), j.token()] verified(rs.key_object.v, jwsc) == Some(j) && ({
            let t = j.token();
            t.exp > ct.secs as i64 && oauth2_valid(self.qs_read, t.sub, t.extensions.session_id, t.extensions.parent_session_id, t.iat, ct) })
    }
    // the client configuration for that client id (the code strips the borrow's lifetime through a raw pointer: replaced, R3)
    #[verifier::external_body] pub fn kvx_rs_of(&self, client_id: &str) -> (r: Result<&'static Oauth2RS, Oauth2Error>) { unimplemented!() }
    pub open spec fn token_justified(&self, jwsc: JwsCompact, ct: Duration) -> bool { self.active_justified(jwsc, ct) }
//@extract oauth2_token_introspect_jwt
//@extract oauth2_openid_userinfo
}
}
fn main(){}
