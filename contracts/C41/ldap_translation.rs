use vstd::prelude::*;
use vstd::std_specs::iter::IteratorSpec;
verus! {
pub mod specs { use vstd::prelude::*; use vstd::std_specs::iter::IteratorSpec;
#[derive(Clone, Copy, PartialEq, Eq)]
pub struct Attribute(pub u64);
impl Attribute { pub const Spn: Attribute = Attribute(1); }
impl vstd::std_specs::cmp::PartialEqSpecImpl for Attribute { open spec fn obeys_eq_spec() -> bool { true } open spec fn eq_spec(&self, o: &Attribute) -> bool { self.0 == o.0 } }
#[derive(Clone, Copy, PartialEq, Eq)]
pub struct PartialValue(pub u64);
pub enum OperationError { ResourceLimit, FilterGeneration, Other(u64) }
// ldap3_proto::proto::{LdapFilter, LdapSubstringFilter}: stand-ins with the crate's variants
pub struct LdapSubstringFilter { pub initial: Option<String>, pub any: Vec<String>, pub final_: Option<String> }
pub struct LdapMatchingRuleAssertion { pub o: u8 }
pub enum LdapFilter { And(Vec<LdapFilter>), Or(Vec<LdapFilter>), Not(Box<LdapFilter>), Equality(String, String), Substring(String, LdapSubstringFilter), GreaterOrEqual(String, String), LessOrEqual(String, String), Present(String), Approx(String, String), Extensible(LdapMatchingRuleAssertion) }
//@extract FilterComp
#[verifier::external_body] pub struct EntryView { _p: u8 }
pub uninterp spec fn vals(a: Attribute, e: EntryView) -> Set<int>;
pub uninterp spec fn ord(v: PartialValue) -> int;
pub uninterp spec fn str_cnt(a: Attribute, x: int, e: EntryView) -> bool;
pub uninterp spec fn str_stw(a: Attribute, x: int, e: EntryView) -> bool;
pub uninterp spec fn str_enw(a: Attribute, x: int, e: EntryView) -> bool;
pub open spec fn has_any(s: Set<int>) -> bool { exists|x: int| #[trigger] s.contains(x) }
pub open spec fn any_lt(s: Set<int>, v: int) -> bool { exists|x: int| #[trigger] s.contains(x) && x < v }
// the ordinary boolean meaning of the internal filter over the same leaves (as in unit scim_translation)
pub open spec fn fc_sem(f: FilterComp, e: EntryView) -> bool decreases f {
    match f {
        FilterComp::Or(l) => exists|i: int| 0 <= i < l@.len() && fc_sem(#[trigger] l@[i], e),
        FilterComp::And(l) => forall|i: int| 0 <= i < l@.len() ==> fc_sem(#[trigger] l@[i], e),
        FilterComp::AndNot(b) => !fc_sem(*b, e),
        FilterComp::Eq(a, v) => vals(a, e).contains(ord(v)),
        FilterComp::Cnt(a, v) => str_cnt(a, ord(v), e),
        FilterComp::Stw(a, v) => str_stw(a, ord(v), e),
        FilterComp::Enw(a, v) => str_enw(a, ord(v), e),
        FilterComp::Pres(a) => has_any(vals(a, e)),
        FilterComp::LessThan(a, v) => any_lt(vals(a, e), ord(v)),
        _ => false,
    }
}
// attribute-name mapping (LDAP names and virtual attributes to directory attributes) and value resolution by the attribute's syntax
pub uninterp spec fn amap(name: Seq<char>) -> Attribute;
pub uninterp spec fn pval(a: Attribute, text: Seq<char>) -> Option<PartialValue>;       // None: the text is not a value of that attribute's syntax
#[verifier::external_body] pub fn ldap_attr_filter_map(input: &str) -> (r: Attribute) ensures r == amap(input@) { unimplemented!() }
pub struct QueryServerReadTransaction { pub o: u8 }
impl QueryServerReadTransaction {
    #[verifier::external_body] pub fn clone_partialvalue(&mut self, a: &Attribute, v: &str) -> (r: Result<PartialValue, OperationError>)
        ensures r is Ok == pval(*a, v@) is Some, r is Ok ==> r->Ok_0 == pval(*a, v@)->Some_0 { unimplemented!() }
}
// RFC 4511 §4.5.1 meaning of an LDAP filter on one entry: and / or / not as usual; equality and presence on the mapped attribute;
// a substring assertion holds when the initial, every `any` and the final piece each hold (order of the pieces is not checked by this
// server: stated as is); a value that cannot be an spn matches nothing; the unsupported operators are refused, never translated
pub open spec fn sub_sem(a: Attribute, s: LdapSubstringFilter, e: EntryView) -> bool {
    &&& s.initial matches Some(i) ==> pval(a, i@) matches Some(v) && str_stw(a, ord(v), e)
    &&& forall|k: int| 0 <= k < s.any@.len() ==> (pval(a, (#[trigger] s.any@[k])@) matches Some(v) && str_cnt(a, ord(v), e))
    &&& s.final_ matches Some(f) ==> pval(a, f@) matches Some(v) && str_enw(a, ord(v), e)
}
pub open spec fn ldap_sem(f: LdapFilter, e: EntryView) -> bool decreases f {
    match f {
        LdapFilter::And(l) => forall|i: int| 0 <= i < l@.len() ==> ldap_sem(#[trigger] l@[i], e),
        LdapFilter::Or(l) => exists|i: int| 0 <= i < l@.len() && ldap_sem(#[trigger] l@[i], e),
        LdapFilter::Not(b) => !ldap_sem(*b, e),
        LdapFilter::Equality(a, v) => pval(amap(a@), v@) matches Some(pv) && vals(amap(a@), e).contains(ord(pv)),
        LdapFilter::Present(a) => has_any(vals(amap(a@), e)),
        LdapFilter::Substring(a, s) => sub_sem(amap(a@), s, e),
        _ => false,
    }
}
pub open spec fn translation_ok(f: LdapFilter, fc: FilterComp) -> bool { forall|e: EntryView| #[trigger] fc_sem(fc, e) == ldap_sem(f, e) }
// l.iter().map(|f| Self::from_ldap_ro(f, qs, ndepth, elems)).collect::<Result<Vec<_>, _>>(): the closure (closure-converted below) is one
// recursive call per element, in order; the first error is returned. Its result is described by the function's own contract.
#[verifier::external_body]
pub fn kvx_ldap_map(l: &Vec<LdapFilter>, qs: &mut QueryServerReadTransaction, depth: usize, elems: &mut usize) -> (r: Result<Vec<FilterComp>, OperationError>)
    ensures r matches Ok(v) ==> (v@.len() == l@.len() && forall|i: int| 0 <= i < l@.len() ==> translation_ok(l@[i], #[trigger] v@[i])) { unimplemented!() }
pub proof fn lemma_and(l: Vec<LdapFilter>, v: Vec<FilterComp>)
    requires v@.len() == l@.len(), forall|i: int| 0 <= i < l@.len() ==> translation_ok(l@[i], #[trigger] v@[i])
    ensures translation_ok(LdapFilter::And(l), FilterComp::And(v))
{
    let lf = LdapFilter::And(l); let fc = FilterComp::And(v);
    assert forall|e: EntryView| #[trigger] fc_sem(fc, e) == ldap_sem(lf, e) by {
        reveal_with_fuel(fc_sem, 2); reveal_with_fuel(ldap_sem, 2);
        assert(fc matches FilterComp::And(vv) && vv == v); assert(lf matches LdapFilter::And(ll) && ll == l);
        assert(fc_sem(fc, e) == (forall|i: int| 0 <= i < v@.len() ==> fc_sem(#[trigger] v@[i], e)));
        assert(ldap_sem(lf, e) == (forall|i: int| 0 <= i < l@.len() ==> ldap_sem(#[trigger] l@[i], e)));
        if fc_sem(fc, e) { assert forall|i: int| 0 <= i < l@.len() implies ldap_sem(#[trigger] l@[i], e) by { assert(fc_sem(v@[i], e)); } }
        if ldap_sem(lf, e) { assert forall|i: int| 0 <= i < v@.len() implies fc_sem(#[trigger] v@[i], e) by { assert(ldap_sem(l@[i], e)); assert(translation_ok(l@[i], v@[i])); } }
    }
}
pub proof fn lemma_or(l: Vec<LdapFilter>, v: Vec<FilterComp>)
    requires v@.len() == l@.len(), forall|i: int| 0 <= i < l@.len() ==> translation_ok(l@[i], #[trigger] v@[i])
    ensures translation_ok(LdapFilter::Or(l), FilterComp::Or(v))
{
    let lf = LdapFilter::Or(l); let fc = FilterComp::Or(v);
    assert forall|e: EntryView| #[trigger] fc_sem(fc, e) == ldap_sem(lf, e) by {
        reveal_with_fuel(fc_sem, 2); reveal_with_fuel(ldap_sem, 2);
        assert(fc matches FilterComp::Or(vv) && vv == v); assert(lf matches LdapFilter::Or(ll) && ll == l);
        assert(fc_sem(fc, e) == (exists|i: int| 0 <= i < v@.len() && fc_sem(#[trigger] v@[i], e)));
        assert(ldap_sem(lf, e) == (exists|i: int| 0 <= i < l@.len() && ldap_sem(#[trigger] l@[i], e)));
        if fc_sem(fc, e) { let i = choose|i: int| 0 <= i < v@.len() && fc_sem(#[trigger] v@[i], e); assert(translation_ok(l@[i], v@[i])); assert(ldap_sem(l@[i], e)); }
        if ldap_sem(lf, e) { let i = choose|i: int| 0 <= i < l@.len() && ldap_sem(#[trigger] l@[i], e); assert(translation_ok(l@[i], v@[i])); assert(fc_sem(v@[i], e)); }
    }
}
// substring assembly: the terms pushed so far mean "the initial piece and the first `upto` middle pieces hold"
pub open spec fn all_sem(ts: Seq<FilterComp>, e: EntryView) -> bool { forall|i: int| 0 <= i < ts.len() ==> fc_sem(#[trigger] ts[i], e) }
pub open spec fn pieces(a: Attribute, s: LdapSubstringFilter, upto: int, fin: bool, e: EntryView) -> bool {
    &&& s.initial matches Some(i) ==> pval(a, i@) matches Some(v) && str_stw(a, ord(v), e)
    &&& forall|k: int| 0 <= k < upto ==> (pval(a, (#[trigger] s.any@[k])@) matches Some(v) && str_cnt(a, ord(v), e))
    &&& fin ==> (s.final_ matches Some(f) ==> pval(a, f@) matches Some(v) && str_enw(a, ord(v), e))
}
pub proof fn lemma_push(ts: Seq<FilterComp>, t: FilterComp, e: EntryView)
    ensures all_sem(ts.push(t), e) == (all_sem(ts, e) && fc_sem(t, e))
{
    if all_sem(ts.push(t), e) { assert forall|i: int| 0 <= i < ts.len() implies fc_sem(#[trigger] ts[i], e) by { assert(ts.push(t)[i] == ts[i]); } assert(ts.push(t)[ts.len() as int] == t); }
    if all_sem(ts, e) && fc_sem(t, e) { assert forall|i: int| 0 <= i < ts.push(t).len() implies fc_sem(#[trigger] ts.push(t)[i], e) by { if i < ts.len() { assert(ts.push(t)[i] == ts[i]); } } }
}
impl FilterComp {
//@extract ldap_step
//@extract from_ldap_ro
}
} // mod specs
}
fn main(){}
