use vstd::prelude::*;
verus! {
pub mod specs { use vstd::prelude::*;

#[derive(Clone, Copy, PartialEq, Eq)]
pub struct Attribute(pub u64);
#[derive(Clone, Copy, PartialEq, Eq)]
pub struct PartialValue(pub u64);
pub struct JsonValue { pub j: u64 }
pub type SubAttribute = u64;
pub struct ScimComplexFilter { pub o: u8 }
// ---- real enums extracted from /repo (kanidm_proto::scim_v1::{ScimFilter, ScimAttrPath}, kanidmd_lib::filter::FilterComp) ----
//@extract AttrPath
pub use AttrPath as ScimAttrPath;
//@extract ScimFilter
//@extract FilterComp

#[verifier::external_body]
pub struct EntryView { _p: u8 }
pub uninterp spec fn vals(a: Attribute, e: EntryView) -> Set<int>;
pub uninterp spec fn ord(v: PartialValue) -> int;
pub uninterp spec fn jval(a: Attribute, j: JsonValue) -> int;
pub uninterp spec fn str_cnt(a: Attribute, x: int, e: EntryView) -> bool;
pub uninterp spec fn str_stw(a: Attribute, x: int, e: EntryView) -> bool;
pub uninterp spec fn str_enw(a: Attribute, x: int, e: EntryView) -> bool;
pub open spec fn has_any(s: Set<int>) -> bool { exists|x: int| #[trigger] s.contains(x) }
pub open spec fn any_lt(s: Set<int>, v: int) -> bool { exists|x: int| #[trigger] s.contains(x) && x < v }
pub open spec fn any_gt(s: Set<int>, v: int) -> bool { exists|x: int| #[trigger] s.contains(x) && x > v }
pub open spec fn single(s: Set<int>) -> bool { forall|x: int, y: int| #[trigger] s.contains(x) && #[trigger] s.contains(y) ==> x == y }
pub open spec fn fc_sem(f: FilterComp, e: EntryView) -> bool decreases f {
    match f {
        FilterComp::Or(l) => exists|i: int| 0 <= i < l@.len() && fc_sem(#[trigger] l@[i], e),
        FilterComp::And(l) => forall|i: int| 0 <= i < l@.len() ==> fc_sem(#[trigger] l@[i], e),
        FilterComp::AndNot(b) => !fc_sem(*b, e),
        FilterComp::Eq(a, v) => vals(a, e).contains(ord(v)),
        FilterComp::Cnt(a, v) => str_cnt(a, ord(v), e),
        FilterComp::Stw(a, v) => str_stw(a, ord(v), e),
        FilterComp::Enw(a, v) => str_enw(a, ord(v), e),
        FilterComp::Pres(a) => has_any(vals(a, e)),
        FilterComp::LessThan(a, v) => any_lt(vals(a, e), ord(v)),
        _ => false,
    }
}
// RFC 7644 §3.4.2.2 meaning; a multi-valued attribute matches when ANY value satisfies the comparison
pub open spec fn scim_sem(f: ScimFilter, e: EntryView) -> bool decreases f {
    match f {
        ScimFilter::Or(l, r) => scim_sem(*l, e) || scim_sem(*r, e),
        ScimFilter::And(l, r) => scim_sem(*l, e) && scim_sem(*r, e),
        ScimFilter::Not(x) => !scim_sem(*x, e),
        ScimFilter::Present(p) => has_any(vals(p.a, e)),
        ScimFilter::Equal(p, j) => vals(p.a, e).contains(jval(p.a, j)),
        ScimFilter::Contains(p, j) => str_cnt(p.a, jval(p.a, j), e),
        ScimFilter::StartsWith(p, j) => str_stw(p.a, jval(p.a, j), e),
        ScimFilter::EndsWith(p, j) => str_enw(p.a, jval(p.a, j), e),
        ScimFilter::Greater(p, j) => any_gt(vals(p.a, e), jval(p.a, j)),
        ScimFilter::Less(p, j) => any_lt(vals(p.a, e), jval(p.a, j)),
        ScimFilter::GreaterOrEqual(p, j) => any_gt(vals(p.a, e), jval(p.a, j)) || vals(p.a, e).contains(jval(p.a, j)),
        ScimFilter::LessOrEqual(p, j) => any_lt(vals(p.a, e), jval(p.a, j)) || vals(p.a, e).contains(jval(p.a, j)),
        _ => false,
    }
}
pub enum OperationError { ResourceLimit, FilterGeneration, Other }
#[verifier::external_body]
pub struct QueryServerReadTransaction { _p: u8 }
impl QueryServerReadTransaction {
    #[verifier::external_body]
    pub fn resolve_scim_json_get(&mut self, a: &Attribute, j: &JsonValue) -> (r: Result<PartialValue, OperationError>)
        ensures r matches Ok(pv) ==> ord(pv) == jval(*a, *j)
    { unimplemented!() }
}
// ---- known finding F10: `gt` / `ge` are rewritten through `lt`/`eq`, which is only right when the attribute is single-valued in the
// entry. multi_gt(f, e): some Greater / GreaterOrEqual leaf of f names an attribute holding two or more values in e ----
pub open spec fn multi_gt(f: ScimFilter, e: EntryView) -> bool decreases f {
    match f {
        ScimFilter::Or(l, r) => multi_gt(*l, e) || multi_gt(*r, e),
        ScimFilter::And(l, r) => multi_gt(*l, e) || multi_gt(*r, e),
        ScimFilter::Not(x) => multi_gt(*x, e),
        ScimFilter::Greater(p, j) => !single(vals(p.a, e)),
        ScimFilter::GreaterOrEqual(p, j) => !single(vals(p.a, e)),
        _ => false,
    }
}
pub open spec fn f10_exempt(f: ScimFilter, e: EntryView) -> bool { multi_gt(f, e) }
pub open spec fn translation_ok(f: ScimFilter, fc: FilterComp) -> bool { forall|e: EntryView| f10_exempt(f, e) || #[trigger] fc_sem(fc, e) == scim_sem(f, e) }

// ---- broadcast lemmas (sibling module; `broadcast use` in the code module): unfold the semantics of the two-element lists the
// translation builds, and the single-valued facts behind the gt/ge rewrites ----
pub broadcast proof fn lemma_and2(l: Vec<FilterComp>, e: EntryView)
    requires l@.len() == 2
    ensures #[trigger] fc_sem(FilterComp::And(l), e) == (fc_sem(l@[0], e) && fc_sem(l@[1], e))
{
    reveal_with_fuel(fc_sem, 2);
    let a = FilterComp::And(l);
    if fc_sem(a, e) { assert(fc_sem(l@[0], e)); assert(fc_sem(l@[1], e)); }
    if fc_sem(l@[0], e) && fc_sem(l@[1], e) {
        assert forall|i: int| 0 <= i < l@.len() implies fc_sem(#[trigger] l@[i], e) by { if i == 0 { } else { assert(i == 1); } }
        assert(fc_sem(a, e));
    }
}
pub broadcast proof fn lemma_not(b: Box<FilterComp>, e: EntryView)
    ensures #[trigger] fc_sem(FilterComp::AndNot(b), e) == !fc_sem(*b, e)
{ reveal_with_fuel(fc_sem, 2); }
pub broadcast proof fn lemma_or2(l: Vec<FilterComp>, e: EntryView)
    requires l@.len() == 2
    ensures #[trigger] fc_sem(FilterComp::Or(l), e) == (fc_sem(l@[0], e) || fc_sem(l@[1], e))
{ reveal_with_fuel(fc_sem, 2); }
pub broadcast proof fn lemma_single_gt(s: Set<int>, v: int)
    requires single(s)
    ensures (has_any(s) && !(any_lt(s, v) || s.contains(v))) == #[trigger] any_gt(s, v),
            (has_any(s) && !any_lt(s, v)) == (any_gt(s, v) || s.contains(v))
{
    if has_any(s) { let x = choose|x: int| s.contains(x); assert(s.contains(x));
        if x < v { assert(any_lt(s, v)); } if x > v { assert(any_gt(s, v)); }
        if any_gt(s, v) { let y = choose|y: int| s.contains(y) && y > v; assert(x == y); }
        if any_lt(s, v) { let y = choose|y: int| s.contains(y) && y < v; assert(x == y); }
        if s.contains(v) { assert(x == v); }
    }
}
}
pub mod code { use vstd::prelude::*; use super::specs::*;
broadcast use {super::specs::lemma_and2, super::specs::lemma_or2, super::specs::lemma_not, super::specs::lemma_single_gt};
impl FilterComp {
//@extract from_scim_ro
}
}
}
fn main(){}
