use vstd::prelude::*;
use core::cmp::Ordering;
verus! {
//@include shims/uuid.rs
pub struct SchemaError { pub o: u8 }
pub enum OperationError { EmptyRequest, AccessDenied, Backend, NoMatchingEntries, SchemaViolation(SchemaError) }
pub struct Cid { pub o: int }
impl Clone for Cid { #[verifier::external_body] fn clone(&self) -> (r: Cid) ensures r == *self { unimplemented!() } }
pub struct Schema { pub o: int }
pub struct Identity { pub o: u8 }
impl Identity { #[verifier::external_body] pub fn is_internal(&self) -> (r: bool) { unimplemented!() } }
// ---- the entry states a create moves through: opaque values; the per-entry operations are named by uninterpreted functions ----
pub struct EntryInit; pub struct EntryNew; pub struct EntryInvalid; pub struct EntryValid; pub struct EntrySealed; pub struct EntryCommitted;
#[verifier::reject_recursive_types(A)] #[verifier::reject_recursive_types(B)] pub struct Entry<A, B> { pub o: int, pub p: core::marker::PhantomData<(A, B)> }
pub type EntryInitNew = Entry<EntryInit, EntryNew>;
pub type EntryInvalidNew = Entry<EntryInvalid, EntryNew>;
pub type EntryValidNew = Entry<EntryValid, EntryNew>;
pub type EntrySealedNew = Entry<EntrySealed, EntryNew>;
pub type EntrySealedCommitted = Entry<EntrySealed, EntryCommitted>;
pub uninterp spec fn sp_live(e: EntryInitNew) -> bool;                                    // neither recycled nor a tombstone
pub uninterp spec fn sp_assign(e: EntryInitNew, cid: Cid, s: Schema) -> EntryInvalidNew;
pub uninterp spec fn sp_validate(e: EntryInvalidNew, s: Schema) -> Result<EntryValidNew, SchemaError>;   // the schema check (C15 units)
pub uninterp spec fn sp_seal(e: EntryValidNew, s: Schema) -> EntrySealedNew;
impl Entry<EntryInit, EntryNew> {
    #[verifier::external_body] pub fn mask_recycled_ts(&self) -> (r: Option<&EntryInitNew>) ensures r is Some == sp_live(*self) { unimplemented!() }
    #[verifier::external_body] pub fn assign_cid(self, cid: Cid, schema: &Schema) -> (r: EntryInvalidNew) ensures r == sp_assign(self, cid, *schema) { unimplemented!() }
}
impl Entry<EntryInvalid, EntryNew> {
    #[verifier::external_body] pub fn validate(self, schema: &Schema) -> (r: Result<EntryValidNew, SchemaError>) ensures r == sp_validate(self, *schema) { unimplemented!() }
}
impl Entry<EntryValid, EntryNew> {
    #[verifier::external_body] pub fn seal(self, schema: &Schema) -> (r: EntrySealedNew) ensures r == sp_seal(self, *schema) { unimplemented!() }
}
pub struct Filter { pub o: int }
impl Clone for Filter { #[verifier::external_body] fn clone(&self) -> (r: Filter) ensures r == *self { unimplemented!() } }
pub struct ModifyList { pub o: int }
impl ModifyList { #[verifier::external_body] pub fn is_empty(&self) -> (r: bool) { unimplemented!() } }
pub struct ModifyEvent { pub ident: Identity, pub filter: Filter, pub filter_orig: Filter, pub modlist: ModifyList }
pub struct Arc<T> { pub v: T }
impl<T> Arc<T> { pub fn as_ref(&self) -> (r: &T) ensures *r == self.v { &self.v } }
pub type EntryInvalidCommitted = Entry<EntryInvalid, EntryCommitted>;
pub type EntryValidCommitted = Entry<EntryValid, EntryCommitted>;
pub uninterp spec fn m_live(e: EntrySealedCommitted) -> bool;
pub uninterp spec fn m_live_inv(e: EntryInvalidCommitted) -> bool;
pub uninterp spec fn m_invalidate(e: EntrySealedCommitted, cid: Cid, trim: Cid) -> EntryInvalidCommitted;
pub uninterp spec fn m_apply(e: EntryInvalidCommitted, ml: ModifyList) -> Result<EntryInvalidCommitted, OperationError>;   // apply_modlist: the entry afterwards, or the error
pub uninterp spec fn m_validate(e: EntryInvalidCommitted, s: Schema) -> Result<EntryValidCommitted, SchemaError>;
pub uninterp spec fn m_seal(e: EntryValidCommitted, s: Schema) -> EntrySealedCommitted;
impl Entry<EntrySealed, EntryCommitted> {
    #[verifier::external_body] pub fn clone(&self) -> (r: EntrySealedCommitted) ensures r == *self { unimplemented!() }
    #[verifier::external_body] pub fn invalidate(self, cid: Cid, trim: &Cid) -> (r: EntryInvalidCommitted) ensures r == m_invalidate(self, cid, *trim) { unimplemented!() }
}
impl Entry<EntryInvalid, EntryCommitted> {
    #[verifier::external_body] pub fn apply_modlist(&mut self, ml: &ModifyList) -> (r: Result<(), OperationError>)
        ensures r is Ok ==> m_apply(*old(self), *ml) == Ok::<EntryInvalidCommitted, OperationError>(*final(self)) { unimplemented!() }
    #[verifier::external_body] pub fn get_uuid(&self) -> (r: Option<Uuid>) { unimplemented!() }
    #[verifier::external_body] pub fn validate(self, schema: &Schema) -> (r: Result<EntryValidCommitted, SchemaError>) ensures r == m_validate(self, *schema) { unimplemented!() }
}
impl Entry<EntryValid, EntryCommitted> {
    #[verifier::external_body] pub fn seal(self, schema: &Schema) -> (r: EntrySealedCommitted) ensures r == m_seal(self, *schema) { unimplemented!() }
}
pub assume_specification<T, E, F: FnOnce(&E)>[ Result::<T, E>::inspect_err ](r: Result<T, E>, f: F) -> (o: Result<T, E>)
    ensures o == r;
pub struct AccessControls { pub o: int }
pub uninterp spec fn acp_allows_modify(a: AccessControls, me: ModifyEvent, pre: Seq<Arc<EntrySealedCommitted>>) -> bool;
impl AccessControls {
    #[verifier::external_body] pub fn modify_allow_operation(&self, me: &ModifyEvent, pre: &Vec<Arc<EntrySealedCommitted>>) -> (r: Result<bool, OperationError>)
        ensures r matches Ok(b) ==> b == acp_allows_modify(*self, *me, pre@) { unimplemented!() }
}
pub struct BackendWriteTransaction { pub o: int }
impl BackendWriteTransaction {
    // be_txn.modify(cid, pre, post). Ghost arguments: the partial result being applied; the backend must be handed exactly its entries,
    // before-states and results in matching order, under this transaction's change id
    #[verifier::external_body] pub fn modify(&mut self, Ghost(gpre): Ghost<Seq<Arc<EntrySealedCommitted>>>, Ghost(gnorm): Ghost<Seq<EntrySealedCommitted>>, Ghost(gcid): Ghost<Cid>,
            cid: &Cid, pre: &Vec<Arc<EntrySealedCommitted>>, post: &Vec<EntrySealedCommitted>) -> (r: Result<(), OperationError>)
        requires pre@ == gpre, post@ == gnorm, *cid == gcid { unimplemented!() }
}
pub struct QueryServerWriteTransaction { pub be_txn: BackendWriteTransaction, pub cid: Cid, pub trim_cid: Cid, pub schema: Schema, pub acp: AccessControls, pub g: int }
pub uninterp spec fn m_found(qs: QueryServerWriteTransaction, me: ModifyEvent) -> Seq<Arc<EntrySealedCommitted>>;   // the impersonated search (C23 / C01 units)
impl QueryServerWriteTransaction {
    pub fn get_accesscontrols(&self) -> (r: &AccessControls) ensures *r == self.acp { &self.acp }
    #[verifier::external_body] pub fn impersonate_search_valid(&mut self, f: Filter, fo: Filter, ident: &Identity) -> (r: Result<Vec<Arc<EntrySealedCommitted>>, OperationError>)
        ensures *final(self) == *old(self) { unimplemented!() }
}
pub uninterp spec fn m_transformed(pre: Seq<Arc<EntrySealedCommitted>>, before: Seq<EntryInvalidCommitted>, me: ModifyEvent, qs0: QueryServerWriteTransaction) -> Seq<EntryInvalidCommitted>;
pub struct Plugins;
impl Plugins {
    #[verifier::external_body] pub fn run_pre_modify(qs: &mut QueryServerWriteTransaction, pre: &Vec<Arc<EntrySealedCommitted>>, cand: &mut Vec<EntryInvalidCommitted>, me: &ModifyEvent) -> (r: Result<(), OperationError>)
        ensures final(qs).cid == old(qs).cid, final(qs).trim_cid == old(qs).trim_cid, final(qs).schema == old(qs).schema, final(qs).acp == old(qs).acp,
                r is Ok ==> final(cand)@ == m_transformed(pre@, old(cand)@, *me, *old(qs)) && final(cand)@.len() == old(cand)@.len() { unimplemented!() }
}
impl Plugins {
    #[verifier::external_body] pub fn run_post_modify(Ghost(gpre): Ghost<Seq<Arc<EntrySealedCommitted>>>, Ghost(gnorm): Ghost<Seq<EntrySealedCommitted>>,
            qs: &mut QueryServerWriteTransaction, pre: &Vec<Arc<EntrySealedCommitted>>, cand: &Vec<EntrySealedCommitted>, me: &ModifyEvent) -> (r: Result<(), OperationError>)
        requires pre@ == gpre, cand@ == gnorm { unimplemented!() }
}
pub struct ModifyPartial<'x> { pub norm_cand: Vec<EntrySealedCommitted>, pub pre_candidates: Vec<Arc<EntrySealedCommitted>>, pub me: &'x ModifyEvent }
// ---- what modify_pre_apply may hand on to be written (C24: the access controls allowed this modify on exactly the entries it will
// change; C26: no entry crosses the live / recycled boundary; C15: every result schema-checked; the modlist applied to every candidate) ----
pub open spec fn partial_ok(mp: ModifyPartial, me: ModifyEvent, qs0: QueryServerWriteTransaction) -> bool {
    let pre = mp.pre_candidates@;
    let applied = Seq::new(pre.len(), |k: int| m_apply(m_invalidate(pre[k].v, qs0.cid, qs0.trim_cid), me.modlist));
    &&& acp_allows_modify(qs0.acp, me, pre)
    &&& forall|k: int| 0 <= k < pre.len() ==> (#[trigger] applied[k]) is Ok && m_live(pre[k].v) == m_live_inv(applied[k]->Ok_0)
    &&& mp.norm_cand@.len() == pre.len()
    &&& exists|tr: Seq<EntryInvalidCommitted>| tr == m_transformed(pre, Seq::new(pre.len(), |k: int| applied[k]->Ok_0), me, qs0) && tr.len() == pre.len()
            && forall|k: int| 0 <= k < pre.len() ==> (m_validate(#[trigger] tr[k], qs0.schema) matches Ok(v) && mp.norm_cand@[k] == m_seal(v, qs0.schema))
}
// ---- R5 stand-ins ----
#[verifier::external_body] pub fn kvx_map_invalidate(v: &Vec<Arc<EntrySealedCommitted>>, qs: &QueryServerWriteTransaction) -> (r: Vec<EntryInvalidCommitted>)
    ensures r@.len() == v@.len(), forall|k: int| 0 <= k < v@.len() ==> call_ensures(invalidate_step, (qs, &#[trigger] v@[k]), r@[k]) { unimplemented!() }
// `candidates.iter_mut().try_for_each(apply_step)`: Ok iff every step was Ok; then every element is what its step left (std)
#[verifier::external_body] pub fn kvx_apply_all(v: &mut Vec<EntryInvalidCommitted>, me: &ModifyEvent) -> (r: Result<(), OperationError>)
    ensures r is Ok ==> final(v)@.len() == old(v)@.len() && forall|k: int| 0 <= k < old(v)@.len() ==> m_apply(#[trigger] old(v)@[k], me.modlist) == Ok::<EntryInvalidCommitted, OperationError>(final(v)@[k]) { unimplemented!() }
// `zip(pre.iter().map(|e| e.mask_recycled_ts().is_none()), cand.iter().map(|e| e.mask_recycled_ts().is_none())).any(|(a, b)| a != b)`
// (exact text): false only if every pair agrees on being live
#[verifier::external_body] pub fn kvx_mask_changed(pre: &Vec<Arc<EntrySealedCommitted>>, cand: &Vec<EntryInvalidCommitted>) -> (r: bool)
    ensures !r ==> forall|k: int| 0 <= k < pre@.len() && k < cand@.len() ==> m_live((#[trigger] pre@[k]).v) == m_live_inv(cand@[k]) { unimplemented!() }
#[verifier::external_body] pub fn kvx_map_validate(v: Vec<EntryInvalidCommitted>, qs: &QueryServerWriteTransaction) -> (r: Result<Vec<EntrySealedCommitted>, OperationError>)
    ensures r matches Ok(n) ==> n@.len() == v@.len() && forall|k: int| 0 <= k < v@.len() ==> call_ensures(validate_step, (qs, #[trigger] v@[k]), Ok::<EntrySealedCommitted, OperationError>(n@[k])) { unimplemented!() }
//@extract invalidate_step
//@extract apply_step
//@extract validate_step
impl QueryServerWriteTransaction {
//@extract modify_pre_apply
//@extract modify_apply
}
}
fn main(){}
