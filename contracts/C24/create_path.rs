use vstd::prelude::*;
use core::cmp::Ordering;
verus! {
//@include shims/uuid.rs
pub struct SchemaError { pub o: u8 }
pub enum OperationError { EmptyRequest, AccessDenied, Backend, SchemaViolation(SchemaError) }
pub struct Cid { pub o: int }
impl Clone for Cid { #[verifier::external_body] fn clone(&self) -> (r: Cid) ensures r == *self { unimplemented!() } }
pub struct Schema { pub o: int }
pub struct Identity { pub o: u8 }
impl Identity { #[verifier::external_body] pub fn is_internal(&self) -> (r: bool) { unimplemented!() } }
// ---- the entry states a create moves through: opaque values; the per-entry operations are named by uninterpreted functions ----
pub struct EntryInit; pub struct EntryNew; pub struct EntryInvalid; pub struct EntryValid; pub struct EntrySealed; pub struct EntryCommitted;
#[verifier::reject_recursive_types(A)] #[verifier::reject_recursive_types(B)] pub struct Entry<A, B> { pub o: int, pub p: core::marker::PhantomData<(A, B)> }
pub type EntryInitNew = Entry<EntryInit, EntryNew>;
pub type EntryInvalidNew = Entry<EntryInvalid, EntryNew>;
pub type EntryValidNew = Entry<EntryValid, EntryNew>;
pub type EntrySealedNew = Entry<EntrySealed, EntryNew>;
pub type EntrySealedCommitted = Entry<EntrySealed, EntryCommitted>;
pub uninterp spec fn sp_live(e: EntryInitNew) -> bool;                                    // neither recycled nor a tombstone
pub uninterp spec fn sp_assign(e: EntryInitNew, cid: Cid, s: Schema) -> EntryInvalidNew;
pub uninterp spec fn sp_validate(e: EntryInvalidNew, s: Schema) -> Result<EntryValidNew, SchemaError>;   // the schema check (C15 units)
pub uninterp spec fn sp_seal(e: EntryValidNew, s: Schema) -> EntrySealedNew;
impl Entry<EntryInit, EntryNew> {
    #[verifier::external_body] pub fn mask_recycled_ts(&self) -> (r: Option<&EntryInitNew>) ensures r is Some == sp_live(*self) { unimplemented!() }
    #[verifier::external_body] pub fn assign_cid(self, cid: Cid, schema: &Schema) -> (r: EntryInvalidNew) ensures r == sp_assign(self, cid, *schema) { unimplemented!() }
}
impl Entry<EntryInvalid, EntryNew> {
    #[verifier::external_body] pub fn validate(self, schema: &Schema) -> (r: Result<EntryValidNew, SchemaError>) ensures r == sp_validate(self, *schema) { unimplemented!() }
}
impl Entry<EntryValid, EntryNew> {
    #[verifier::external_body] pub fn seal(self, schema: &Schema) -> (r: EntrySealedNew) ensures r == sp_seal(self, *schema) { unimplemented!() }
}
pub struct CreateEvent { pub ident: Identity, pub entries: Vec<EntryInitNew> }
// ---- access controls (the decision itself: units create_access / related of C24) ----
pub struct AccessControls { pub o: int }
pub uninterp spec fn acp_allows(a: AccessControls, ce: CreateEvent, cand: Seq<EntryInitNew>) -> bool;
impl AccessControls {
    #[verifier::external_body] pub fn create_allow_operation(&self, ce: &CreateEvent, cand: &Vec<EntryInitNew>) -> (r: Result<bool, OperationError>)
        ensures r matches Ok(b) ==> b == acp_allows(*self, *ce, cand@) { unimplemented!() }
}
// ---- the write transaction ----
pub struct BackendWriteTransaction { pub o: int }
pub struct QueryServerWriteTransaction { pub be_txn: BackendWriteTransaction, pub cid: Cid, pub schema: Schema, pub acp: AccessControls, pub g: int }
impl QueryServerWriteTransaction {
    pub fn get_accesscontrols(&self) -> (r: &AccessControls) ensures *r == self.acp { &self.acp }
}
// the plugin dispatchers (unit plugin_dispatch): the transform may rewrite the candidates; none of them changes what this function
// reads from the transaction afterwards (change id, schema, access controls)
pub uninterp spec fn sp_transformed(before: Seq<EntryInvalidNew>, ce: CreateEvent, qs0: QueryServerWriteTransaction) -> Seq<EntryInvalidNew>;
pub struct Plugins;
impl Plugins {
    #[verifier::external_body] pub fn run_pre_create_transform(qs: &mut QueryServerWriteTransaction, cand: &mut Vec<EntryInvalidNew>, ce: &CreateEvent) -> (r: Result<(), OperationError>)
        ensures final(qs).cid == old(qs).cid, final(qs).schema == old(qs).schema, final(qs).acp == old(qs).acp,
                r is Ok ==> final(cand)@ == sp_transformed(old(cand)@, *ce, *old(qs)) { unimplemented!() }
    #[verifier::external_body] pub fn run_pre_create(qs: &mut QueryServerWriteTransaction, cand: &Vec<EntrySealedNew>, ce: &CreateEvent) -> (r: Result<(), OperationError>)
        ensures final(qs).cid == old(qs).cid, final(qs).schema == old(qs).schema, final(qs).acp == old(qs).acp { unimplemented!() }
    // run_post_create(qs, committed, ce). Ghost argument: what the backend returned for this create; the hooks must be shown exactly that
    #[verifier::external_body] pub fn run_post_create(Ghost(committed): Ghost<Seq<EntrySealedCommitted>>, qs: &mut QueryServerWriteTransaction, cand: &Vec<EntrySealedCommitted>, ce: &CreateEvent) -> (r: Result<(), OperationError>)
        requires cand@ == committed { unimplemented!() }
}
// ---- what a create may hand to the backend (C24: only what the access controls allow for THIS request's entries; C26: nothing that is
// recycled or a tombstone; C15: every entry schema-checked, none skipped; the pre-create transform applied to all of them) ----
pub open spec fn written_ok(ce: CreateEvent, qs0: QueryServerWriteTransaction, norm: Seq<EntrySealedNew>) -> bool {
    let assigned = Seq::new(ce.entries@.len(), |i: int| sp_assign(ce.entries@[i], qs0.cid, qs0.schema));
    let tr = sp_transformed(assigned, ce, qs0);
    &&& acp_allows(qs0.acp, ce, ce.entries@)
    &&& forall|i: int| 0 <= i < ce.entries@.len() ==> sp_live(#[trigger] ce.entries@[i])
    &&& norm.len() == tr.len()
    &&& forall|k: int| 0 <= k < tr.len() ==> (sp_validate(#[trigger] tr[k], qs0.schema) matches Ok(v) && norm[k] == sp_seal(v, qs0.schema))
}
impl BackendWriteTransaction {
    #[verifier::external_body] pub fn create(&mut self, Ghost(ce): Ghost<CreateEvent>, Ghost(qs0): Ghost<QueryServerWriteTransaction>, cid: &Cid, norm: Vec<EntrySealedNew>) -> (r: Result<Vec<EntrySealedCommitted>, OperationError>)
        requires written_ok(ce, qs0, norm@), *cid == qs0.cid { unimplemented!() }
}
// ---- R5 stand-ins, stated through the converted closures' own postconditions ----
// `ce.entries.clone()`
#[verifier::external_body] pub fn kvx_clone_entries(v: &Vec<EntryInitNew>) -> (r: Vec<EntryInitNew>) ensures r@ == v@ { unimplemented!() }
// `candidates.iter().any(dead_step)`: what the step answered for each element; true iff some answer was true (std)
pub uninterp spec fn ran_dead(s: Seq<EntryInitNew>) -> Seq<bool>;
#[verifier::external_body] pub fn kvx_any_dead(v: &Vec<EntryInitNew>) -> (r: bool)
    ensures ran_dead(v@).len() == v@.len(), forall|i: int| #![trigger ran_dead(v@)[i]] 0 <= i < v@.len() ==> call_ensures(dead_step, (&v@[i],), ran_dead(v@)[i]),
            !r ==> forall|i: int| 0 <= i < v@.len() ==> !#[trigger] ran_dead(v@)[i] { unimplemented!() }
// `candidates.into_iter().map(assign_step).collect()`
#[verifier::external_body] pub fn kvx_map_assign(v: Vec<EntryInitNew>, qs: &QueryServerWriteTransaction) -> (r: Vec<EntryInvalidNew>)
    ensures r@.len() == v@.len(), forall|k: int| 0 <= k < v@.len() ==> call_ensures(assign_step, (qs, #[trigger] v@[k]), r@[k]) { unimplemented!() }
// `candidates.into_iter().map(validate_step).collect::<Result<Vec<_>, _>>()`: Ok holds every step's Ok value, in order; any Err makes it Err
#[verifier::external_body] pub fn kvx_map_validate(v: Vec<EntryInvalidNew>, qs: &QueryServerWriteTransaction) -> (r: Result<Vec<EntrySealedNew>, OperationError>)
    ensures r matches Ok(n) ==> n@.len() == v@.len() && forall|k: int| 0 <= k < v@.len() ==> call_ensures(validate_step, (qs, #[trigger] v@[k]), Ok::<EntrySealedNew, OperationError>(n@[k])) { unimplemented!() }
//@extract dead_step
//@extract assign_step
//@extract validate_step
impl QueryServerWriteTransaction {
//@extract create
}
}
fn main(){}
