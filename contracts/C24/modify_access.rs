use vstd::prelude::*;
use core::cmp::Ordering;
use vstd::std_specs::iter::IteratorSpec;
macro_rules! btreeset { ($($e:expr),+ $(,)?) => { BTreeSet::kvx_from_array([$($e),+]) }; }
verus! {
//@include shims/duration.rs
//@include shims/uuid.rs
//@include shims/offsetdatetime.rs
#[derive(Clone, PartialEq, Eq)]
pub struct AttrString { pub o: u64 }
// ---- real enums extracted from /repo ----
//@extract Attribute
//@extract EntryClass
//@extract InternalRole
//@extract IdentType
//@extract AccessScope
//@extract Identity
//@include shims/access_common.rs
//@include shims/access_identity.rs
pub const UUID_ANONYMOUS: Uuid = Uuid(@@constexpr:UUID_ANONYMOUS:uuid!\("([0-9a-f-]+)"\):uuidhex@@);
impl Identity {
//@extract access_scope
}
//@include shims/access_statics.rs
//@extract AccessControlReceiverCondition
//@extract AccessControlTargetCondition
// AccessControlModify (server/access/profiles.rs): the four grant lists are viewed as sequences (Vec<Attribute> / Vec<AttrString>)
#[verifier::external_body] pub struct KvxAttrVec { p: u8 }
impl View for KvxAttrVec { type V = Seq<Attribute>; uninterp spec fn view(&self) -> Seq<Attribute>; }
#[verifier::external_body] pub struct KvxAttrIter<'a> { p: core::marker::PhantomData<&'a Attribute> }
impl<'a> KvxAttrIter<'a> { pub uninterp spec fn items(&self) -> Seq<Attribute>; #[verifier::external_body] pub fn cloned(self) -> (r: KvxAttrIter<'a>) ensures r.items() == self.items() { unimplemented!() } }
impl KvxAttrVec { #[verifier::external_body] pub fn iter(&self) -> (r: KvxAttrIter<'_>) ensures r.items() == self@ { unimplemented!() } }
#[verifier::external_body] pub struct KvxClsVec { p: u8 }
impl View for KvxClsVec { type V = Seq<String>; uninterp spec fn view(&self) -> Seq<String>; }   // class names
#[verifier::external_body] pub struct KvxClsIter<'a> { p: core::marker::PhantomData<&'a AttrString> }
#[verifier::external_body] pub struct KvxStrIter<'a> { p: core::marker::PhantomData<&'a str> }
impl<'a> KvxClsIter<'a> { pub uninterp spec fn names(&self) -> Seq<String>;
    // `.map(|s| s.as_str())`: the same names, borrowed
    #[verifier::external_body] pub fn map<F: Fn(&'a AttrString) -> &'a str>(self, f: F) -> (r: KvxStrIter<'a>)
        ensures KvxItems::items(&r).len() == self.names().len(), forall|i: int| 0 <= i < self.names().len() ==> (#[trigger] KvxItems::items(&r)[i]).as_key() == self.names()[i] { unimplemented!() } }
impl KvxClsVec { #[verifier::external_body] pub fn iter(&self) -> (r: KvxClsIter<'_>) ensures r.names() == self@ { unimplemented!() } }
// R3: Iterator::flat_map (provided trait method) redirected; `.collect()` is an inherent method of the stand-in result. Soundness direction
// only: every collected element comes from an iterator that the closure returned for some element of the slice.
// R3: Iterator::filter_map (provided trait method) redirected; `.collect()` into a Vec is an inherent method of the stand-in result.
// Soundness direction: every collected element is a value the closure returned as Some(..) for some element of the slice.
#[verifier::external_body] #[verifier::reject_recursive_types(B)] pub struct KvxFm<B> { p: core::marker::PhantomData<B> }
impl<B> KvxFm<B> {
    pub uninterp spec fn outs(&self) -> Seq<B>;
    #[verifier::external_body] pub fn collect(self) -> (r: Vec<B>) ensures r@ == self.outs() { unimplemented!() }
}
pub trait KvxFilterMap<'b, T: 'b>: Sized {
    #[verifier::prophetic] spec fn kvx_fm_items(&self) -> Seq<&'b T>;
    fn kvx_filter_map<B, F: Fn(&'b T) -> Option<B>>(self, f: F) -> (r: KvxFm<B>)
        requires forall|i: int| 0 <= i < self.kvx_fm_items().len() ==> f.requires((#[trigger] self.kvx_fm_items()[i],)),
        ensures self.kvx_fm_items().len() >= 0,
                forall|j: int| 0 <= j < r.outs().len() ==> exists|i: int| 0 <= i < self.kvx_fm_items().len() && f.ensures((#[trigger] self.kvx_fm_items()[i],), Some(#[trigger] r.outs()[j]));
}
impl<'b, T> KvxFilterMap<'b, T> for core::slice::Iter<'b, T> {
    #[verifier::prophetic] open spec fn kvx_fm_items(&self) -> Seq<&'b T> { self.remaining() }
    #[verifier::external_body] fn kvx_filter_map<B, F: Fn(&'b T) -> Option<B>>(self, f: F) -> (r: KvxFm<B>) { unimplemented!() }
}
pub trait KvxItems { type Item; spec fn items(&self) -> Seq<Self::Item>; }
impl<'a> KvxItems for KvxAttrIter<'a> { type Item = Attribute; open spec fn items(&self) -> Seq<Attribute> { KvxAttrIter::items(self) } }
impl<'a> KvxItems for KvxStrIter<'a> { type Item = &'a str; uninterp spec fn items(&self) -> Seq<&'a str>; }
#[verifier::external_body] #[verifier::reject_recursive_types(X)] pub struct KvxFlat<X> { p: core::marker::PhantomData<X> }
impl<X> KvxFlat<X> {
    pub uninterp spec fn parts(&self) -> Seq<Seq<X>>;
    #[verifier::external_body] pub fn collect(self) -> (r: BTreeSet<X>)
        ensures forall|x: X| #[trigger] r@.contains(x) ==> exists|p: int, j: int| 0 <= p < self.parts().len() && 0 <= j < self.parts()[p].len() && self.parts()[p][j] == x { unimplemented!() }
}
pub trait KvxFlatMap<'b, T: 'b>: Sized {
    #[verifier::prophetic] spec fn kvx_items(&self) -> Seq<&'b T>;
    fn kvx_flat_map<I: KvxItems, F: Fn(&'b T) -> I>(self, f: F) -> (r: KvxFlat<I::Item>)
        requires forall|i: int| 0 <= i < self.kvx_items().len() ==> f.requires((#[trigger] self.kvx_items()[i],)),
        ensures self.kvx_items().len() >= 0,
                forall|p: int| 0 <= p < r.parts().len() ==> exists|i: int, it: I| 0 <= i < self.kvx_items().len() && #[trigger] f.ensures((self.kvx_items()[i],), it) && it.items() == #[trigger] r.parts()[p];
}
impl<'b, T> KvxFlatMap<'b, T> for core::slice::Iter<'b, T> {
    #[verifier::prophetic] open spec fn kvx_items(&self) -> Seq<&'b T> { self.remaining() }
    #[verifier::external_body] fn kvx_flat_map<I: KvxItems, F: Fn(&'b T) -> I>(self, f: F) -> (r: KvxFlat<I::Item>) { unimplemented!() }
}
impl AttrString { #[verifier::external_body] pub fn as_str(&self) -> (r: &str) { unimplemented!() } }
pub struct AccessControlModify { pub acp: AccessControlProfile, pub presattrs: KvxAttrVec, pub remattrs: KvxAttrVec, pub pres_classes: KvxClsVec, pub rem_classes: KvxClsVec }
//@extract AccessControlModifyResolved
//@extract AccessBasicResult
//@extract AccessModResult
//@extract ModifyResult

// ---- specification from the statements of C24 (modify) and C50 (user edits of synchronised entries) ----
pub open spec fn builtin(e: &EntrySealedCommitted) -> bool { e.uuid().0 <= UUID_ANONYMOUS.0 }
pub open spec fn has_class(e: &EntrySealedCommitted, ec: EntryClass) -> bool { e.classes() matches Some(c) && c.contains(ec_string(ec)) }
pub open spec fn protected_mod(e: &EntrySealedCommitted) -> bool { e.classes() matches Some(c) && !c.disjoint(protected_mod_entry_classes()) }
// "session and credential-reset state": the four attributes a user may always touch on a synchronised entry
pub open spec fn sync_user_base_attrs() -> Set<Attribute> {
    set![Attribute::UserAuthTokenSession, Attribute::OAuth2Session, Attribute::OAuth2ConsentScopeMap, Attribute::CredentialUpdateIntentToken]
}
// ... plus the attributes the owning agreement handed over to Kanidm's authority
pub open spec fn sync_user_allowed(e: &EntrySealedCommitted, ag: Map<Uuid, BTreeSet<Attribute>>) -> Set<Attribute> {
    match e.refer(Attribute::SyncParentUuid) {
        Some(p) => if ag.contains_key(p) { sync_user_base_attrs().union(ag[p]@) } else { sync_user_base_attrs() },
        None => Set::empty(),
    }
}
pub proof fn lemma_class_lists_cover_statement()
    ensures
        // tombstones are locked, and every locked class is also in the protected-modify list (so the lock rule is reached)
        locked_entry_classes().contains(ec_string(EntryClass::Tombstone)),
        locked_entry_classes().subset_of(protected_mod_entry_classes()),
        // classes no user may add
        protected_mod_pres_entry_classes().contains(ec_string(EntryClass::System)),
        protected_mod_pres_entry_classes().contains(ec_string(EntryClass::Tombstone)),
        protected_mod_pres_entry_classes().contains(ec_string(EntryClass::Recycled)),
        protected_mod_pres_entry_classes().contains(ec_string(EntryClass::SyncObject)),
        protected_mod_pres_entry_classes().contains(ec_string(EntryClass::DynGroup)),
        // classes no user may remove ('recycled' is deliberately absent: reviving removes it)
        protected_mod_rem_entry_classes().contains(ec_string(EntryClass::System)),
        protected_mod_rem_entry_classes().contains(ec_string(EntryClass::Tombstone)),
        protected_mod_rem_entry_classes().contains(ec_string(EntryClass::SyncObject)),
        protected_mod_rem_entry_classes().contains(ec_string(EntryClass::DynGroup)),
{}

//@extract modify_ident_test
//@extract modify_protected_entry_attrs
//@extract modify_protected_attrs
//@extract modify_sync_constrain
#[verifier::external_body] pub fn migration_entry_attrs(classes: &BTreeSet<String>) -> (r: (BTreeSet<Attribute>, BTreeSet<&'static str>)) { unimplemented!() }
// "matching that user and that entry": the profile's receiver condition holds for the identity and its target filter matches the entry
pub open spec fn receiver_ok(c: AccessControlReceiverCondition, i: &Identity, e: &EntrySealedCommitted) -> bool {
    match c {
        AccessControlReceiverCondition::GroupChecked => true,
        AccessControlReceiverCondition::EntryManager => e.refers(Attribute::EntryManagedBy) matches Some(m)
            && ((i.memberof() matches Some(g) && !g.disjoint(m)) || m.contains(i.uuid())),
    }
}
pub open spec fn target_ok(c: AccessControlTargetCondition, e: &EntrySealedCommitted) -> bool { match c { AccessControlTargetCondition::Scope(f) => e.matches_filter(&f) } }
pub open spec fn modify_acp_applies(a: &AccessControlModifyResolved, i: &Identity, e: &EntrySealedCommitted) -> bool { receiver_ok(a.receiver_condition, i, e) && target_ok(a.target_condition, e) }
// every attribute / class in the four allowed sets is listed by some supplied profile that applies to (identity, entry)
pub open spec fn all_granted(acps: &[AccessControlModifyResolved], i: &Identity, e: &EntrySealedCommitted,
                             pres: Set<Attribute>, rem: Set<Attribute>, pres_cls: Set<&str>, rem_cls: Set<&str>) -> bool {
    &&& forall|x: Attribute| #[trigger] pres.contains(x) ==> exists|k: int| 0 <= k < acps@.len() && modify_acp_applies(#[trigger] &acps@[k], i, e) && lists_pres(acps@[k].acp, x)
    &&& forall|x: Attribute| #[trigger] rem.contains(x) ==> exists|k: int| 0 <= k < acps@.len() && modify_acp_applies(#[trigger] &acps@[k], i, e) && lists_rem(acps@[k].acp, x)
    &&& forall|c: &str| #[trigger] pres_cls.contains(c) ==> exists|k: int| 0 <= k < acps@.len() && modify_acp_applies(#[trigger] &acps@[k], i, e) && lists_pres_cls(acps@[k].acp, c.as_key())
    &&& forall|c: &str| #[trigger] rem_cls.contains(c) ==> exists|k: int| 0 <= k < acps@.len() && modify_acp_applies(#[trigger] &acps@[k], i, e) && lists_rem_cls(acps@[k].acp, c.as_key())
}
// "granted by a profile": membership of the profile's grant lists
pub open spec fn lists_pres(a: &AccessControlModify, x: Attribute) -> bool { exists|j: int| 0 <= j < a.presattrs@.len() && #[trigger] a.presattrs@[j] == x }
pub open spec fn lists_rem(a: &AccessControlModify, x: Attribute) -> bool { exists|j: int| 0 <= j < a.remattrs@.len() && #[trigger] a.remattrs@[j] == x }
pub open spec fn lists_pres_cls(a: &AccessControlModify, c: String) -> bool { exists|j: int| 0 <= j < a.pres_classes@.len() && #[trigger] a.pres_classes@[j] == c }
pub open spec fn lists_rem_cls(a: &AccessControlModify, c: String) -> bool { exists|j: int| 0 <= j < a.rem_classes@.len() && #[trigger] a.rem_classes@[j] == c }
//@extract modify_migration_attrs
//@extract modify_pres_test
//@extract apply_modify_access
}
fn main(){}
