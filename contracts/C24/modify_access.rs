use vstd::prelude::*;
use core::cmp::Ordering;
macro_rules! btreeset { ($($e:expr),+ $(,)?) => { BTreeSet::kvx_from_array([$($e),+]) }; }
verus! {
//@include shims/duration.rs
//@include shims/uuid.rs
//@include shims/offsetdatetime.rs
#[derive(Clone, PartialEq, Eq)]
pub struct AttrString { pub o: u64 }
// ---- real enums extracted from /repo ----
//@extract Attribute
//@extract EntryClass
//@extract InternalRole
//@extract IdentType
//@extract AccessScope
//@extract Identity
//@include shims/access_common.rs
//@include shims/access_identity.rs
pub const UUID_ANONYMOUS: Uuid = Uuid(@@constexpr:UUID_ANONYMOUS:uuid!\("([0-9a-f-]+)"\):uuidhex@@);
impl Identity {
//@extract access_scope
}
//@include shims/access_statics.rs
//@extract AccessControlReceiverCondition
//@extract AccessControlTargetCondition
//@extract AccessControlModify
//@extract AccessControlModifyResolved
//@extract AccessBasicResult
//@extract AccessModResult
//@extract ModifyResult

// ---- specification from the statements of C24 (modify) and C50 (user edits of synchronised entries) ----
pub open spec fn builtin(e: &EntrySealedCommitted) -> bool { e.uuid().0 <= UUID_ANONYMOUS.0 }
pub open spec fn has_class(e: &EntrySealedCommitted, ec: EntryClass) -> bool { e.classes() matches Some(c) && c.contains(ec_string(ec)) }
pub open spec fn protected_mod(e: &EntrySealedCommitted) -> bool { e.classes() matches Some(c) && !c.disjoint(protected_mod_entry_classes()) }
// "session and credential-reset state": the four attributes a user may always touch on a synchronised entry
pub open spec fn sync_user_base_attrs() -> Set<Attribute> {
    set![Attribute::UserAuthTokenSession, Attribute::OAuth2Session, Attribute::OAuth2ConsentScopeMap, Attribute::CredentialUpdateIntentToken]
}
// ... plus the attributes the owning agreement handed over to Kanidm's authority
pub open spec fn sync_user_allowed(e: &EntrySealedCommitted, ag: Map<Uuid, BTreeSet<Attribute>>) -> Set<Attribute> {
    match e.refer(Attribute::SyncParentUuid) {
        Some(p) => if ag.contains_key(p) { sync_user_base_attrs().union(ag[p]@) } else { sync_user_base_attrs() },
        None => Set::empty(),
    }
}
pub proof fn lemma_class_lists_cover_statement()
    ensures
        // tombstones are locked, and every locked class is also in the protected-modify list (so the lock rule is reached)
        locked_entry_classes().contains(ec_string(EntryClass::Tombstone)),
        locked_entry_classes().subset_of(protected_mod_entry_classes()),
        // classes no user may add
        protected_mod_pres_entry_classes().contains(ec_string(EntryClass::System)),
        protected_mod_pres_entry_classes().contains(ec_string(EntryClass::Tombstone)),
        protected_mod_pres_entry_classes().contains(ec_string(EntryClass::Recycled)),
        protected_mod_pres_entry_classes().contains(ec_string(EntryClass::SyncObject)),
        protected_mod_pres_entry_classes().contains(ec_string(EntryClass::DynGroup)),
        // classes no user may remove ('recycled' is deliberately absent: reviving removes it)
        protected_mod_rem_entry_classes().contains(ec_string(EntryClass::System)),
        protected_mod_rem_entry_classes().contains(ec_string(EntryClass::Tombstone)),
        protected_mod_rem_entry_classes().contains(ec_string(EntryClass::SyncObject)),
        protected_mod_rem_entry_classes().contains(ec_string(EntryClass::DynGroup)),
{}

//@extract modify_ident_test
//@extract modify_protected_entry_attrs
//@extract modify_protected_attrs
//@extract modify_sync_constrain
}
fn main(){}
