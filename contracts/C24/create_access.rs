use vstd::prelude::*;
use core::cmp::Ordering;
macro_rules! btreeset { ($($e:expr),+ $(,)?) => { BTreeSet::kvx_from_array([$($e),+]) }; }
verus! {
//@include shims/duration.rs
//@include shims/uuid.rs
//@include shims/offsetdatetime.rs
#[derive(Clone, PartialEq, Eq)]
pub struct AttrString { pub o: u64 }
// ---- real enums extracted from /repo ----
//@extract Attribute
//@extract EntryClass
//@extract InternalRole
//@extract IdentType
//@extract AccessScope
//@extract Identity
//@include shims/access_common.rs
//@include shims/access_identity.rs
pub const UUID_ANONYMOUS: Uuid = Uuid(@@constexpr:UUID_ANONYMOUS:uuid!\("([0-9a-f-]+)"\):uuidhex@@);
impl Identity {
//@extract access_scope
}
//@include shims/access_statics.rs
//@extract AccessControlReceiverCondition
//@extract AccessControlTargetCondition
// AccessControlCreate (server/access/profiles.rs): the attribute and class grant lists are vectors whose elements have a schema name
pub trait KvxNamed { spec fn name(&self) -> String; }
pub uninterp spec fn attr_name(a: Attribute) -> String;
impl KvxNamed for Attribute { open spec fn name(&self) -> String { attr_name(*self) } }
impl KvxNamed for AttrString { uninterp spec fn name(&self) -> String; }
impl Attribute { #[verifier::external_body] pub fn as_str(&self) -> (r: &str) ensures r.as_key() == self.name() { unimplemented!() } }
impl AttrString { #[verifier::external_body] pub fn as_str(&self) -> (r: &str) ensures r.as_key() == self.name() { unimplemented!() } }
#[verifier::external_body] #[verifier::reject_recursive_types(T)] pub struct KvxNameVec<T> { p: core::marker::PhantomData<T> }
impl<T> View for KvxNameVec<T> { type V = Seq<T>; uninterp spec fn view(&self) -> Seq<T>; }
#[verifier::external_body] #[verifier::reject_recursive_types(T)] pub struct KvxNameIter<'a, T> { p: core::marker::PhantomData<&'a T> }
// an iterator of borrowed names, observed as the set of names it yields
#[verifier::external_body] pub struct KvxStrIter<'a> { p: core::marker::PhantomData<&'a str> }
impl<'a> KvxStrIter<'a> {
    pub uninterp spec fn set(&self) -> Set<&'a str>;
    // Iterator::collect::<BTreeSet<&str>>(): exactly the yielded names
    #[verifier::external_body] pub fn collect<B: KvxCollectStrs<'a>>(self) -> (r: B) ensures r.kvx_set() == self.set() { unimplemented!() }
}
pub trait KvxCollectStrs<'a>: Sized { spec fn kvx_set(&self) -> Set<&'a str>; }
impl<'a> KvxCollectStrs<'a> for BTreeSet<&'a str> { open spec fn kvx_set(&self) -> Set<&'a str> { self@ } }
#[verifier::external_body] pub struct KvxAttrKeys<'a> { p: core::marker::PhantomData<&'a Attribute> }
impl<'a> KvxAttrKeys<'a> { pub uninterp spec fn set(&self) -> Set<Attribute>;
    #[verifier::external_body] pub fn cloned(self) -> (r: KvxAttrKeys<'a>) ensures r.set() == self.set() { unimplemented!() }
    #[verifier::external_body] pub fn collect(self) -> (r: BTreeSet<Attribute>) ensures r@ == self.set() { unimplemented!() } }
// BTreeSet<String>::iter(): yields exactly the members
impl BTreeSet<String> { #[verifier::external_body] pub fn iter(&self) -> (r: KvxNameIter<'_, String>) ensures forall|x: String| #![trigger self@.contains(x)] #![trigger r.items().contains(x)] self@.contains(x) <==> r.items().contains(x) { unimplemented!() } }
pub open spec fn kvx_maps_into<'a, T: 'a, F: Fn(&'a T) -> &'a str>(f: F, x: T, s: Set<&'a str>) -> bool { exists|c: &'a str| #[trigger] s.contains(c) && f.ensures((&x,), c) }
impl<'a, T> KvxNameIter<'a, T> { pub uninterp spec fn items(&self) -> Seq<T>;
    // Iterator::map: yields f(x) for every element x, nothing else
    #[verifier::external_body] pub fn map<F: Fn(&'a T) -> &'a str>(self, f: F) -> (r: KvxStrIter<'a>)
        requires forall|i: int| 0 <= i < self.items().len() ==> f.requires((&#[trigger] self.items()[i],))
        ensures forall|c: &'a str| #[trigger] r.set().contains(c) ==> exists|i: int| 0 <= i < self.items().len() && f.ensures((&#[trigger] self.items()[i],), c),
                forall|i: int| 0 <= i < self.items().len() ==> kvx_maps_into(f, #[trigger] self.items()[i], r.set())
    { unimplemented!() } }
impl<T> KvxNameVec<T> { #[verifier::external_body] pub fn iter(&self) -> (r: KvxNameIter<'_, T>) ensures r.items() == self@ { unimplemented!() } }
pub struct AccessControlCreate { pub acp: AccessControlProfile, pub classes: KvxNameVec<AttrString>, pub attrs: KvxNameVec<Attribute> }
// Entry accessors used by create_filter_entry (entry.rs get_ava_names / get_ava_iter_iutf8): the attribute names present, the class values
impl Entry<EntryInit, EntryNew> {
    pub uninterp spec fn attr_keyset(&self) -> Set<Attribute>;      // the attributes present on the entry (keys of its attribute map)
    pub open spec fn attr_names(&self) -> Set<String> { self.attr_keyset().map(|a: Attribute| attr_name(a)) }
    // `attr_keys().cloned().collect::<BTreeSet<_>>()`: the key set
    #[verifier::external_body] pub fn attr_keys(&self) -> (r: KvxAttrKeys<'_>) ensures r.set() == self.attr_keyset() { unimplemented!() }
    #[verifier::external_body] pub fn get_ava_names(&self) -> (r: KvxStrIter<'_>)
        ensures forall|c: &str| #[trigger] r.set().contains(c) ==> self.attr_names().contains(c.as_key()),
                forall|n: String| #[trigger] self.attr_names().contains(n) ==> exists|c: &str| r.set().contains(c) && #[trigger] c.as_key() == n { unimplemented!() }
    #[verifier::external_body] pub fn get_ava_iter_iutf8(&self, a: Attribute) -> (r: Option<KvxStrIter<'_>>)
        ensures a == Attribute::Class ==> ((r is Some) == (self.classes() is Some)),
                (a == Attribute::Class && r is Some) ==> (forall|c: &str| #[trigger] r->Some_0.set().contains(c) ==> self.classes()->Some_0.contains(c.as_key())),
                (a == Attribute::Class && r is Some) ==> (forall|n: String| #[trigger] self.classes()->Some_0.contains(n) ==> exists|c: &str| r->Some_0.set().contains(c) && #[trigger] c.as_key() == n) { unimplemented!() }
}
//@extract AccessControlCreateResolved
//@extract IResult
//@extract CreateResult

// ---- specification from the statements of C20 / C24 (create) ----
pub open spec fn builtin_new(e: &Entry<EntryInit, EntryNew>) -> bool { e.uuid_opt() matches Some(u) && u.0 <= UUID_ANONYMOUS.0 }
pub open spec fn protected_new(e: &Entry<EntryInit, EntryNew>) -> bool { e.classes() matches Some(c) && !c.disjoint(protected_entry_classes()) }

//@extract protected_filter_entry

// "every attribute and class it adds is granted by an access control profile matching that user and that entry" (create)
pub open spec fn names_in<T: KvxNamed>(allowed: Seq<T>, n: String) -> bool { exists|i: int| 0 <= i < allowed.len() && (#[trigger] allowed[i]).name() == n }
pub open spec fn create_profile_grants(p: &AccessControlCreateResolved, e: &Entry<EntryInit, EntryNew>) -> bool {
    &&& p.receiver_condition is GroupChecked     // group membership was resolved when the profile was selected for this identity; entry-manager profiles never apply to a create
    &&& (p.target_condition matches AccessControlTargetCondition::Scope(f) && e.matches_filter(&f))
    &&& forall|n: String| #[trigger] e.attr_names().contains(n) ==> names_in(p.acp.attrs@, n)
    &&& e.classes() is Some
    &&& forall|n: String| #[trigger] e.classes()->Some_0.contains(n) ==> names_in(p.acp.classes@, n)
}
pub open spec fn create_fully_granted(acps: Seq<AccessControlCreateResolved>, e: &Entry<EntryInit, EntryNew>) -> bool {
    exists|k: int| 0 <= k < acps.len() && create_profile_grants(&#[trigger] acps[k], e)
}

//@extract create_filter_entry

// access/migration.rs: which attributes / classes a migration may set for a class set (not a user path; left unspecified)
#[verifier::external_body] pub fn migration_entry_attrs(classes: &BTreeSet<String>) -> (r: (BTreeSet<Attribute>, BTreeSet<&'static str>)) { unimplemented!() }
//@extract migration_filter_entry
//@extract message_queue

pub open spec fn strs_disjoint_from(s: Set<&str>, names: Set<String>) -> bool { forall|c: &str| #[trigger] s.contains(c) ==> !names.contains(c.as_key()) }
//@extract apply_create_access

//@include shims/access_resolve.rs

// ---- create_allow_operation (access/mod.rs): the driver ----
pub struct CreateEvent { pub ident: Identity }
pub struct AcpTxn<'a> { pub create: Vec<AccessControlCreate>, pub cache: &'a u8 }
impl<'a> AcpTxn<'a> {
    pub fn get_create(&self) -> (r: &Vec<AccessControlCreate>) ensures *r == self.create { &self.create }
    #[verifier::external_body] pub fn get_acp_resolve_filter_cache(&self) -> (r: &mut ResolveFilterCacheReadTxn<'a>) { unimplemented!() }
}
// statement of C24 for create: "succeeds only if every attribute and class it adds is granted by an access control profile matching
// that user and that entry"
pub open spec fn profile_matches(acp: &AccessControlProfile, ident: &Identity, e: &Entry<EntryInit, EntryNew>) -> bool {
    receiver_matches_user(&acp.receiver, ident) && (acp.target matches AccessControlTarget::Scope(f) && e.matches_filter(&resolved_filter(f, ident)))
}
pub open spec fn create_stmt_granted(state: Seq<AccessControlCreate>, ident: &Identity, e: &Entry<EntryInit, EntryNew>) -> bool {
    &&& forall|n: String| #[trigger] e.attr_names().contains(n) ==> exists|i: int| 0 <= i < state.len() && profile_matches(&(#[trigger] state[i]).acp, ident, e) && names_in(state[i].attrs@, n)
    &&& e.classes() matches Some(cls) && forall|n: String| #[trigger] cls.contains(n) ==> exists|i: int| 0 <= i < state.len() && profile_matches(&(#[trigger] state[i]).acp, ident, e) && names_in(state[i].classes@, n)
}
// what the profile-selection closure (closure 0) establishes for each element it keeps
pub open spec fn related_create_ok(state: Seq<AccessControlCreate>, ident: &Identity, r: &AccessControlCreateResolved) -> bool {
    exists|i: int| 0 <= i < state.len() && *r.acp == #[trigger] state[i] && conditions_resolved(ident, &state[i].acp.receiver, &state[i].acp.target, r.receiver_condition, r.target_condition)
}
pub open spec fn create_entry_post(state: Seq<AccessControlCreate>, ce: &CreateEvent, e: &Entry<EntryInit, EntryNew>, o: bool) -> bool {
    &&& (o && is_user(&ce.ident)) ==> create_stmt_granted(state, &ce.ident, e)
    &&& ce.ident.origin is Synch ==> !o
    &&& (is_user(&ce.ident) && read_only(&ce.ident)) ==> !o
    &&& (is_user(&ce.ident) && (builtin_new(e) || protected_new(e))) ==> !o
}
//@extract related_create_step
//@extract create_entry_allowed
// `state.iter().filter_map(step).collect::<Vec<_>>()`: every kept element is a Some(..) result of the step on an element of the state
// (std documentation); the step's contract is the one proved for related_create_step above
#[verifier::external_body] pub fn kvx_related_create<'b>(state: &'b Vec<AccessControlCreate>, ce: &CreateEvent, ident_memberof: Option<&BTreeSet<Uuid>>, cache: &mut ResolveFilterCacheReadTxn<'_>) -> (r: Vec<AccessControlCreateResolved<'b>>)
    requires ident_memberof is Some == ce.ident.memberof() is Some, ident_memberof matches Some(m) ==> m@ == ce.ident.memberof()->Some_0
    ensures forall|k: int| 0 <= k < r@.len() ==> related_create_ok(state@, &ce.ident, &#[trigger] r@[k]) { unimplemented!() }
// `entries.iter().all(f)`: true iff f returned true for every entry (std documentation; short-circuit does not change the result);
// f's contract is the one proved for create_entry_allowed above
#[verifier::external_body] pub fn kvx_all_create(entries: &[Entry<EntryInit, EntryNew>], ce: &CreateEvent, related_acp: &Vec<AccessControlCreateResolved<'_>>, Ghost(state): Ghost<Seq<AccessControlCreate>>) -> (r: bool)
    requires forall|k: int| 0 <= k < related_acp@.len() ==> related_create_ok(state, &ce.ident, &#[trigger] related_acp@[k])
    ensures r ==> forall|i: int| 0 <= i < entries@.len() ==> create_entry_post(state, ce, &#[trigger] entries@[i], true),
            !r ==> exists|i: int| 0 <= i < entries@.len() && create_entry_post(state, ce, &#[trigger] entries@[i], false) { unimplemented!() }
impl<'a> AcpTxn<'a> {
//@extract create_allow_operation
}

}
fn main(){}
