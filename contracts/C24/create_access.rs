use vstd::prelude::*;
use core::cmp::Ordering;
macro_rules! btreeset { ($($e:expr),+ $(,)?) => { BTreeSet::kvx_from_array([$($e),+]) }; }
verus! {
//@include shims/duration.rs
//@include shims/uuid.rs
//@include shims/offsetdatetime.rs
#[derive(Clone, PartialEq, Eq)]
pub struct AttrString { pub o: u64 }
// ---- real enums extracted from /repo ----
//@extract Attribute
//@extract EntryClass
//@extract InternalRole
//@extract IdentType
//@extract AccessScope
//@extract Identity
//@include shims/access_common.rs
//@include shims/access_identity.rs
pub const UUID_ANONYMOUS: Uuid = Uuid(@@constexpr:UUID_ANONYMOUS:uuid!\("([0-9a-f-]+)"\):uuidhex@@);
impl Identity {
//@extract access_scope
}
//@include shims/access_statics.rs
//@extract AccessControlReceiverCondition
//@extract AccessControlTargetCondition
// AccessControlCreate (server/access/profiles.rs): the attribute and class grant lists are vectors whose elements have a schema name
pub trait KvxNamed { spec fn name(&self) -> String; }
pub uninterp spec fn attr_name(a: Attribute) -> String;
impl KvxNamed for Attribute { open spec fn name(&self) -> String { attr_name(*self) } }
impl KvxNamed for AttrString { uninterp spec fn name(&self) -> String; }
impl Attribute { #[verifier::external_body] pub fn as_str(&self) -> (r: &str) ensures r.as_key() == self.name() { unimplemented!() } }
impl AttrString { #[verifier::external_body] pub fn as_str(&self) -> (r: &str) ensures r.as_key() == self.name() { unimplemented!() } }
#[verifier::external_body] #[verifier::reject_recursive_types(T)] pub struct KvxNameVec<T> { p: core::marker::PhantomData<T> }
impl<T> View for KvxNameVec<T> { type V = Seq<T>; uninterp spec fn view(&self) -> Seq<T>; }
#[verifier::external_body] #[verifier::reject_recursive_types(T)] pub struct KvxNameIter<'a, T> { p: core::marker::PhantomData<&'a T> }
// an iterator of borrowed names, observed as the set of names it yields
#[verifier::external_body] pub struct KvxStrIter<'a> { p: core::marker::PhantomData<&'a str> }
impl<'a> KvxStrIter<'a> {
    pub uninterp spec fn set(&self) -> Set<&'a str>;
    // Iterator::collect::<BTreeSet<&str>>(): exactly the yielded names
    #[verifier::external_body] pub fn collect(self) -> (r: BTreeSet<&'a str>) ensures r@ == self.set() { unimplemented!() }
}
pub open spec fn kvx_maps_into<'a, T: 'a, F: Fn(&'a T) -> &'a str>(f: F, x: T, s: Set<&'a str>) -> bool { exists|c: &'a str| #[trigger] s.contains(c) && f.ensures((&x,), c) }
impl<'a, T> KvxNameIter<'a, T> { pub uninterp spec fn items(&self) -> Seq<T>;
    // Iterator::map: yields f(x) for every element x, nothing else
    #[verifier::external_body] pub fn map<F: Fn(&'a T) -> &'a str>(self, f: F) -> (r: KvxStrIter<'a>)
        requires forall|i: int| 0 <= i < self.items().len() ==> f.requires((&#[trigger] self.items()[i],))
        ensures forall|c: &'a str| #[trigger] r.set().contains(c) ==> exists|i: int| 0 <= i < self.items().len() && f.ensures((&#[trigger] self.items()[i],), c),
                forall|i: int| 0 <= i < self.items().len() ==> kvx_maps_into(f, #[trigger] self.items()[i], r.set())
    { unimplemented!() } }
impl<T> KvxNameVec<T> { #[verifier::external_body] pub fn iter(&self) -> (r: KvxNameIter<'_, T>) ensures r.items() == self@ { unimplemented!() } }
pub struct AccessControlCreate { pub acp: AccessControlProfile, pub classes: KvxNameVec<AttrString>, pub attrs: KvxNameVec<Attribute> }
// Entry accessors used by create_filter_entry (entry.rs get_ava_names / get_ava_iter_iutf8): the attribute names present, the class values
impl Entry<EntryInit, EntryNew> {
    pub uninterp spec fn attr_names(&self) -> Set<String>;
    #[verifier::external_body] pub fn get_ava_names(&self) -> (r: KvxStrIter<'_>)
        ensures forall|c: &str| #[trigger] r.set().contains(c) ==> self.attr_names().contains(c.as_key()),
                forall|n: String| #[trigger] self.attr_names().contains(n) ==> exists|c: &str| r.set().contains(c) && #[trigger] c.as_key() == n { unimplemented!() }
    #[verifier::external_body] pub fn get_ava_iter_iutf8(&self, a: Attribute) -> (r: Option<KvxStrIter<'_>>)
        ensures a == Attribute::Class ==> ((r is Some) == (self.classes() is Some)),
                (a == Attribute::Class && r is Some) ==> (forall|c: &str| #[trigger] r->Some_0.set().contains(c) ==> self.classes()->Some_0.contains(c.as_key())),
                (a == Attribute::Class && r is Some) ==> (forall|n: String| #[trigger] self.classes()->Some_0.contains(n) ==> exists|c: &str| r->Some_0.set().contains(c) && #[trigger] c.as_key() == n) { unimplemented!() }
}
//@extract AccessControlCreateResolved
//@extract IResult
//@extract CreateResult

// ---- specification from the statements of C20 / C24 (create) ----
pub open spec fn builtin_new(e: &Entry<EntryInit, EntryNew>) -> bool { e.uuid_opt() matches Some(u) && u.0 <= UUID_ANONYMOUS.0 }
pub open spec fn protected_new(e: &Entry<EntryInit, EntryNew>) -> bool { e.classes() matches Some(c) && !c.disjoint(protected_entry_classes()) }

//@extract protected_filter_entry

// "every attribute and class it adds is granted by an access control profile matching that user and that entry" (create)
pub open spec fn names_in<T: KvxNamed>(allowed: Seq<T>, n: String) -> bool { exists|i: int| 0 <= i < allowed.len() && (#[trigger] allowed[i]).name() == n }
pub open spec fn create_profile_grants(p: &AccessControlCreateResolved, e: &Entry<EntryInit, EntryNew>) -> bool {
    &&& p.receiver_condition is GroupChecked     // group membership was resolved when the profile was selected for this identity; entry-manager profiles never apply to a create
    &&& (p.target_condition matches AccessControlTargetCondition::Scope(f) && e.matches_filter(&f))
    &&& forall|n: String| #[trigger] e.attr_names().contains(n) ==> names_in(p.acp.attrs@, n)
    &&& e.classes() is Some
    &&& forall|n: String| #[trigger] e.classes()->Some_0.contains(n) ==> names_in(p.acp.classes@, n)
}
pub open spec fn create_fully_granted(acps: Seq<AccessControlCreateResolved>, e: &Entry<EntryInit, EntryNew>) -> bool {
    exists|k: int| 0 <= k < acps.len() && create_profile_grants(&#[trigger] acps[k], e)
}

//@extract create_filter_entry

// access/migration.rs: which attributes / classes a migration may set for a class set (not a user path; left unspecified)
#[verifier::external_body] pub fn migration_entry_attrs(classes: &BTreeSet<String>) -> (r: (BTreeSet<Attribute>, BTreeSet<&'static str>)) { unimplemented!() }
//@extract migration_filter_entry
//@extract message_queue

pub open spec fn strs_disjoint_from(s: Set<&str>, names: Set<String>) -> bool { forall|c: &str| #[trigger] s.contains(c) ==> !names.contains(c.as_key()) }
//@extract apply_create_access

// ---- which profiles are handed to the per-entry checks: resolve_access_conditions (access/mod.rs) ----
pub struct OperationError { pub o: u8 }
pub struct IdxMeta { pub o: u8 }
pub struct ResolveFilterCacheReadTxn<'a> { pub o: &'a u8 }
// Filter::resolve (filter.rs): substitutes the identity into the profile's target filter; an uninterpreted function of (filter, identity)
pub uninterp spec fn resolved_filter(f: Filter<FilterValid>, ident: &Identity) -> Filter<FilterValidResolved>;
impl Filter<FilterValid> {
    #[verifier::external_body] pub fn resolve(&self, ev: &Identity, idxmeta: Option<&IdxMeta>, rsv_cache: Option<&mut ResolveFilterCacheReadTxn<'_>>) -> (r: Result<Filter<FilterValidResolved>, OperationError>)
        ensures r matches Ok(f) ==> f == resolved_filter(*self, ev) { unimplemented!() }
}
// "an access control profile matching that user": the profile's receiver names a group the identity is a member of
pub open spec fn receiver_matches_user(rcv: &AccessControlReceiver, ident: &Identity) -> bool {
    rcv matches AccessControlReceiver::Group(g) && ident.memberof() matches Some(m) && !m.disjoint(g@)
}
pub open spec fn conditions_resolved(ident: &Identity, rcv: &AccessControlReceiver, tgt: &AccessControlTarget, rc: AccessControlReceiverCondition, tc: AccessControlTargetCondition) -> bool {
    &&& (rc is GroupChecked ==> receiver_matches_user(rcv, ident))
    &&& (rc is EntryManager ==> rcv is EntryManager)
    &&& (tgt matches AccessControlTarget::Scope(f) && tc == AccessControlTargetCondition::Scope(resolved_filter(*f, ident)))
}
//@extract resolve_access_conditions

}
fn main(){}
