use vstd::prelude::*;
use core::cmp::Ordering;
macro_rules! btreeset { ($($e:expr),+ $(,)?) => { BTreeSet::kvx_from_array([$($e),+]) }; }
verus! {
//@include shims/duration.rs
//@include shims/uuid.rs
//@include shims/offsetdatetime.rs
#[derive(Clone, PartialEq, Eq)]
pub struct AttrString { pub o: u64 }
// ---- real enums extracted from /repo ----
//@extract Attribute
//@extract EntryClass
//@extract InternalRole
//@extract IdentType
//@extract AccessScope
//@extract Identity
//@include shims/access_common.rs
//@include shims/access_identity.rs
pub const UUID_ANONYMOUS: Uuid = Uuid(@@constexpr:UUID_ANONYMOUS:uuid!\("([0-9a-f-]+)"\):uuidhex@@);
impl Identity {
//@extract access_scope
}
//@include shims/access_statics.rs
//@extract AccessControlReceiverCondition
//@extract AccessControlTargetCondition
//@extract AccessControlCreate
//@extract AccessControlCreateResolved
//@extract IResult
//@extract CreateResult

// ---- specification from the statements of C20 / C24 (create) ----
pub open spec fn builtin_new(e: &Entry<EntryInit, EntryNew>) -> bool { e.uuid_opt() matches Some(u) && u.0 <= UUID_ANONYMOUS.0 }
pub open spec fn protected_new(e: &Entry<EntryInit, EntryNew>) -> bool { e.classes() matches Some(c) && !c.disjoint(protected_entry_classes()) }

//@extract protected_filter_entry

}
fn main(){}
