use vstd::prelude::*;
use core::cmp::Ordering;
use vstd::std_specs::iter::IteratorSpec;
macro_rules! btreeset { ($($e:expr),+ $(,)?) => { BTreeSet::kvx_from_array([$($e),+]) }; }
verus! {
//@include shims/duration.rs
//@include shims/uuid.rs
//@include shims/offsetdatetime.rs
#[derive(Clone, PartialEq, Eq)]
pub struct AttrString { pub o: u64 }
// ---- real enums extracted from /repo ----
//@extract Attribute
//@extract EntryClass
//@extract InternalRole
//@extract IdentType
//@extract AccessScope
//@extract Identity
//@include shims/access_common.rs
//@include shims/access_identity.rs
pub const UUID_ANONYMOUS: Uuid = Uuid(@@constexpr:UUID_ANONYMOUS:uuid!\("([0-9a-f-]+)"\):uuidhex@@);
impl Identity {
//@extract access_scope
}
//@include shims/access_statics.rs
//@extract AccessControlReceiverCondition
//@extract AccessControlTargetCondition
#[verifier::external_body] pub struct KvxAttrVec { p: u8 }
impl View for KvxAttrVec { type V = Seq<Attribute>; uninterp spec fn view(&self) -> Seq<Attribute>; }
#[verifier::external_body] pub struct KvxClsVec { p: u8 }
impl View for KvxClsVec { type V = Seq<String>; uninterp spec fn view(&self) -> Seq<String>; }
pub struct AccessControlModify { pub acp: AccessControlProfile, pub presattrs: KvxAttrVec, pub remattrs: KvxAttrVec, pub pres_classes: KvxClsVec, pub rem_classes: KvxClsVec }
//@extract AccessControlModifyResolved
//@extract ModifyResult
// ---- modification lists (server/lib/src/modify.rs): the real Modify enum over stand-in value types ----
#[verifier::external_body] pub struct Value { p: u8 }
impl Value { pub uninterp spec fn str_of(&self) -> Option<&str>; #[verifier::external_body] pub fn to_str(&self) -> (r: Option<&str>) ensures r == self.str_of() { unimplemented!() } }
impl PartialValue { pub uninterp spec fn str_of(&self) -> Option<&str>; #[verifier::external_body] pub fn to_str(&self) -> (r: Option<&str>) ensures r == self.str_of() { unimplemented!() } }
impl ValueSet { pub uninterp spec fn iutf8_opt(&self) -> Option<Set<String>>;
    #[verifier::external_body] pub fn as_iutf8_set(&self) -> (r: Option<&BTreeSet<String>>) ensures r is Some == self.iutf8_opt() is Some, r is Some ==> r->Some_0@ == self.iutf8_opt()->Some_0 { unimplemented!() } }
//@extract Modify
pub struct ModifyValid;
pub struct ModifyList<V> { pub valid: V, pub mods: Vec<Modify> }
impl<V> ModifyList<V> { pub fn iter(&self) -> (r: core::slice::Iter<'_, Modify>)
    ensures r.remaining().len() == self.mods@.len(), forall|i: int| #![trigger r.remaining()[i]] #![trigger self.mods@[i]] 0 <= i < self.mods@.len() ==> *r.remaining()[i] == self.mods@[i] { self.mods.iter() } }
impl Attribute {
    pub fn as_ref(&self) -> (r: &Attribute) ensures *r == *self { self }
    #[verifier::external_body] pub fn clone(&self) -> (r: Attribute) ensures r == *self { unimplemented!() }
}
impl vstd::std_specs::cmp::PartialEqSpecImpl for Attribute { open spec fn obeys_eq_spec() -> bool { true } open spec fn eq_spec(&self, other: &Attribute) -> bool { *self == *other } }
// ---- std iterator adaptors used to build the requested sets: redirected (R3) to stand-ins specified in BOTH directions through the
// closures' own contracts (std documentation: filter_map keeps exactly the Some(..) results; collect into a set keeps exactly those) ----
#[verifier::external_body] #[verifier::reject_recursive_types(B)] pub struct KvxFm<B> { p: core::marker::PhantomData<B> }
impl<B> KvxFm<B> {
    pub uninterp spec fn outs(&self) -> Set<B>;
    #[verifier::external_body] pub fn collect(self) -> (r: BTreeSet<B>) ensures r@ == self.outs() { unimplemented!() }
}
// The redirect passes, as a ghost argument, the specification function `g` that the closure computes (the closure's woven contract is
// `o == g(*m)`, which is CHECKED against the closure body); the result is then exactly the set of Some(..) values of g over the slice.
pub trait KvxFilterMap<'b, T: 'b>: Sized {
    #[verifier::prophetic] spec fn kvx_fm_items(&self) -> Seq<&'b T>;
    fn kvx_filter_map<B, F: Fn(&'b T) -> Option<B>>(self, g: Ghost<spec_fn(T) -> Option<B>>, f: F) -> (r: KvxFm<B>)
        requires forall|i: int| 0 <= i < self.kvx_fm_items().len() ==> f.requires((#[trigger] self.kvx_fm_items()[i],)),
                 forall|x: &'b T, o: Option<B>| #[trigger] f.ensures((x,), o) ==> o == g@(*x),
        ensures self.kvx_fm_items().len() >= 0,
                forall|b: B| #[trigger] r.outs().contains(b) <==> exists|i: int| 0 <= i < self.kvx_fm_items().len() && g@(*#[trigger] self.kvx_fm_items()[i]) == Some(b);
}
impl<'b, T> KvxFilterMap<'b, T> for core::slice::Iter<'b, T> {
    #[verifier::prophetic] open spec fn kvx_fm_items(&self) -> Seq<&'b T> { self.remaining() }
    #[verifier::external_body] fn kvx_filter_map<B, F: Fn(&'b T) -> Option<B>>(self, g: Ghost<spec_fn(T) -> Option<B>>, f: F) -> (r: KvxFm<B>) { unimplemented!() }
}
// Iterator::any redirected (R3) with the std semantics in both directions (vstd specifies only `true ==> some element`)
pub trait KvxAny<'b, T: 'b>: Sized {
    #[verifier::prophetic] spec fn kvx_any_items(&self) -> Seq<&'b T>;
    fn kvx_any<F: Fn(&'b T) -> bool>(self, f: F) -> (r: bool)
        requires forall|i: int| 0 <= i < self.kvx_any_items().len() ==> f.requires((#[trigger] self.kvx_any_items()[i],)),
        ensures self.kvx_any_items().len() >= 0,
                r ==> exists|i: int| 0 <= i < self.kvx_any_items().len() && f.ensures((#[trigger] self.kvx_any_items()[i],), true),
                !r ==> forall|i: int| 0 <= i < self.kvx_any_items().len() ==> f.ensures((#[trigger] self.kvx_any_items()[i],), false);
}
impl<'b, T> KvxAny<'b, T> for core::slice::Iter<'b, T> {
    #[verifier::prophetic] open spec fn kvx_any_items(&self) -> Seq<&'b T> { self.remaining() }
    #[verifier::external_body] fn kvx_any<F: Fn(&'b T) -> bool>(self, f: F) -> (r: bool) { unimplemented!() }
}
// `set.extend(opt)` / `set.extend(a.difference(b).map(|s| s.as_str()))` on a set of borrowed class names: redirected (R3)
impl<'a> BTreeSet<&'a str> {
    #[verifier::external_body] pub fn kvx_extend_opt(&mut self, o: Option<&'a str>)
        ensures final(self)@ == (match o { Some(s) => old(self)@.insert(s), None => old(self)@ }) { unimplemented!() }
    // adds (as borrowed strings) exactly the names of `a` that are not in `b`
    #[verifier::external_body] pub fn kvx_extend_difference(&mut self, a: &'a BTreeSet<String>, b: &BTreeSet<String>)
        ensures forall|c: &'a str| #[trigger] final(self)@.contains(c) <==> (old(self)@.contains(c) || (a@.contains(c.as_key()) && !b@.contains(c.as_key()))),
                forall|n: String| a@.contains(n) && !b@.contains(n) ==> exists|c: &'a str| #[trigger] final(self)@.contains(c) && c.as_key() == n { unimplemented!() }
}
// ---- apply_modify_access: stand-in carrying the contract PROVED on its real text in the unit modify_access ----
pub open spec fn receiver_ok(c: AccessControlReceiverCondition, i: &Identity, e: &EntrySealedCommitted) -> bool {
    match c { AccessControlReceiverCondition::GroupChecked => true,
              AccessControlReceiverCondition::EntryManager => e.refers(Attribute::EntryManagedBy) matches Some(m) && ((i.memberof() matches Some(g) && !g.disjoint(m)) || m.contains(i.uuid())) } }
pub open spec fn target_ok(c: AccessControlTargetCondition, e: &EntrySealedCommitted) -> bool { match c { AccessControlTargetCondition::Scope(f) => e.matches_filter(&f) } }
pub open spec fn modify_acp_applies(a: &AccessControlModifyResolved, i: &Identity, e: &EntrySealedCommitted) -> bool { receiver_ok(a.receiver_condition, i, e) && target_ok(a.target_condition, e) }
pub open spec fn lists_pres(a: &AccessControlModify, x: Attribute) -> bool { exists|j: int| 0 <= j < a.presattrs@.len() && #[trigger] a.presattrs@[j] == x }
pub open spec fn lists_rem(a: &AccessControlModify, x: Attribute) -> bool { exists|j: int| 0 <= j < a.remattrs@.len() && #[trigger] a.remattrs@[j] == x }
pub open spec fn lists_pres_cls(a: &AccessControlModify, c: String) -> bool { exists|j: int| 0 <= j < a.pres_classes@.len() && #[trigger] a.pres_classes@[j] == c }
pub open spec fn lists_rem_cls(a: &AccessControlModify, c: String) -> bool { exists|j: int| 0 <= j < a.rem_classes@.len() && #[trigger] a.rem_classes@[j] == c }
pub open spec fn granted_pres(acps: Seq<AccessControlModifyResolved>, i: &Identity, e: &EntrySealedCommitted, x: Attribute) -> bool { exists|k: int| 0 <= k < acps.len() && modify_acp_applies(#[trigger] &acps[k], i, e) && lists_pres(acps[k].acp, x) }
pub open spec fn granted_rem(acps: Seq<AccessControlModifyResolved>, i: &Identity, e: &EntrySealedCommitted, x: Attribute) -> bool { exists|k: int| 0 <= k < acps.len() && modify_acp_applies(#[trigger] &acps[k], i, e) && lists_rem(acps[k].acp, x) }
pub open spec fn granted_pres_cls(acps: Seq<AccessControlModifyResolved>, i: &Identity, e: &EntrySealedCommitted, c: String) -> bool { exists|k: int| 0 <= k < acps.len() && modify_acp_applies(#[trigger] &acps[k], i, e) && lists_pres_cls(acps[k].acp, c) }
pub open spec fn granted_rem_cls(acps: Seq<AccessControlModifyResolved>, i: &Identity, e: &EntrySealedCommitted, c: String) -> bool { exists|k: int| 0 <= k < acps.len() && modify_acp_applies(#[trigger] &acps[k], i, e) && lists_rem_cls(acps[k].acp, c) }
#[verifier::external_body]
pub fn apply_modify_access<'a>(ident: &Identity, related_acp: &'a [AccessControlModifyResolved], sync_agreements: &HashMap<Uuid, BTreeSet<Attribute>>, entry: &Arc<EntrySealedCommitted>) -> (r: ModifyResult<'a>)
    ensures
        ident.origin is Synch ==> r is Deny,
        is_user(ident) && read_only(ident) ==> r is Deny,
        is_user(ident) ==> !(r is Grant),
        is_user(ident) ==> (r matches ModifyResult::Allow { pres, rem, pres_cls, rem_cls } ==>
            (forall|x: Attribute| #[trigger] pres@.contains(x) ==> granted_pres(related_acp@, ident, &entry.v, x))
            && (forall|x: Attribute| #[trigger] rem@.contains(x) ==> granted_rem(related_acp@, ident, &entry.v, x))
            && (forall|c: &str| #[trigger] pres_cls@.contains(c) ==> granted_pres_cls(related_acp@, ident, &entry.v, c.as_key()))
            && (forall|c: &str| #[trigger] rem_cls@.contains(c) ==> granted_rem_cls(related_acp@, ident, &entry.v, c.as_key()))),
        r matches ModifyResult::Allow { pres, rem, pres_cls, rem_cls } ==> (forall|c: &str| #[trigger] pres_cls@.contains(c) ==> !protected_mod_pres_entry_classes().contains(c.as_key()))
            && (forall|c: &str| #[trigger] rem_cls@.contains(c) ==> !protected_mod_rem_entry_classes().contains(c.as_key())),
{ unimplemented!() }

// ---- specification from the statement of C24 (modify): what a modification list asks for ----
pub open spec fn adds_attr(m: Modify) -> Option<Attribute> { match m { Modify::Present(a, _) => Some(a), Modify::Set(a, _) => Some(a), Modify::Assert(a, _) => Some(a), _ => None } }
pub open spec fn removes_attr(m: Modify) -> Option<Attribute> { match m { Modify::Removed(a, _) => Some(a), Modify::Purged(a) => Some(a), Modify::Set(a, _) => Some(a), _ => None } }
// a class name the list adds: a Present(class, v) with a string value, or a name in a Set(class, ..) that the entry does not have
pub open spec fn adds_class(m: Modify, e: &EntrySealedCommitted, n: String) -> bool {
    match m {
        Modify::Present(a, v) => a == Attribute::Class && v.str_of() is Some && v.str_of()->Some_0.as_key() == n,
        Modify::Set(a, vs) => a == Attribute::Class && vs.iutf8_opt() is Some && e.classes() is Some && vs.iutf8_opt()->Some_0.contains(n) && !e.classes()->Some_0.contains(n),
        _ => false,
    }
}
pub open spec fn removes_class(m: Modify, e: &EntrySealedCommitted, n: String) -> bool {
    match m {
        Modify::Removed(a, v) => a == Attribute::Class && v.str_of() is Some && v.str_of()->Some_0.as_key() == n,
        Modify::Set(a, vs) => a == Attribute::Class && vs.iutf8_opt() is Some && e.classes() is Some && e.classes()->Some_0.contains(n) && !vs.iutf8_opt()->Some_0.contains(n),
        _ => false,
    }
}
// the statement: a user's modify succeeds only if everything it adds or removes is granted by a profile matching that user and entry,
// it never purges the class attribute, and never adds / removes a protected class
pub open spec fn modify_fully_granted(acps: Seq<AccessControlModifyResolved>, i: &Identity, e: &EntrySealedCommitted, ml: Seq<Modify>) -> bool {
    forall|k: int| 0 <= k < ml.len() ==> {
        let m = #[trigger] ml[k];
        &&& !(m matches Modify::Purged(a) && a == Attribute::Class)
        &&& (adds_attr(m) matches Some(a) ==> granted_pres(acps, i, e, a))
        &&& (removes_attr(m) matches Some(a) ==> granted_rem(acps, i, e, a))
        &&& (forall|n: String| adds_class(m, e, n) ==> granted_pres_cls(acps, i, e, n) && !protected_mod_pres_entry_classes().contains(n))
        &&& (forall|n: String| removes_class(m, e, n) ==> granted_rem_cls(acps, i, e, n) && !protected_mod_rem_entry_classes().contains(n))
    }
}
//@include shims/access_resolve.rs
//@include shims/iter_all.rs
//@include shims/kvx_btreemap.rs
// ---- the drivers: modify_related_acp / modify_allow_operation / batch_modify_allow_operation (access/mod.rs) ----
pub struct ModifyEvent { pub ident: Identity, pub modlist: ModifyList<ModifyValid> }
pub struct BatchModifyEvent { pub ident: Identity, pub modset: BTreeMap<Uuid, ModifyList<ModifyValid>> }
// statement level: "granted by an access control profile matching that user and that entry", over the profile state itself
pub open spec fn entry_manager_matches(i: &Identity, e: &EntrySealedCommitted) -> bool {
    e.refers(Attribute::EntryManagedBy) matches Some(m) && ((i.memberof() matches Some(g) && !g.disjoint(m)) || m.contains(i.uuid()))
}
pub open spec fn modify_profile_matches(acp: &AccessControlProfile, ident: &Identity, e: &EntrySealedCommitted) -> bool {
    &&& (receiver_matches_user(&acp.receiver, ident) || (acp.receiver is EntryManager && entry_manager_matches(ident, e)))
    &&& (acp.target matches AccessControlTarget::Scope(f) && e.matches_filter(&resolved_filter(f, ident)))
}
pub open spec fn sgranted_pres(st: Seq<AccessControlModify>, i: &Identity, e: &EntrySealedCommitted, x: Attribute) -> bool { exists|j: int| 0 <= j < st.len() && modify_profile_matches(&(#[trigger] st[j]).acp, i, e) && lists_pres(&st[j], x) }
pub open spec fn sgranted_rem(st: Seq<AccessControlModify>, i: &Identity, e: &EntrySealedCommitted, x: Attribute) -> bool { exists|j: int| 0 <= j < st.len() && modify_profile_matches(&(#[trigger] st[j]).acp, i, e) && lists_rem(&st[j], x) }
pub open spec fn sgranted_pres_cls(st: Seq<AccessControlModify>, i: &Identity, e: &EntrySealedCommitted, c: String) -> bool { exists|j: int| 0 <= j < st.len() && modify_profile_matches(&(#[trigger] st[j]).acp, i, e) && lists_pres_cls(&st[j], c) }
pub open spec fn sgranted_rem_cls(st: Seq<AccessControlModify>, i: &Identity, e: &EntrySealedCommitted, c: String) -> bool { exists|j: int| 0 <= j < st.len() && modify_profile_matches(&(#[trigger] st[j]).acp, i, e) && lists_rem_cls(&st[j], c) }
pub open spec fn modify_stmt_granted(st: Seq<AccessControlModify>, i: &Identity, e: &EntrySealedCommitted, ml: Seq<Modify>) -> bool {
    forall|k: int| 0 <= k < ml.len() ==> {
        let m = #[trigger] ml[k];
        &&& !(m matches Modify::Purged(a) && a == Attribute::Class)
        &&& (adds_attr(m) matches Some(a) ==> sgranted_pres(st, i, e, a))
        &&& (removes_attr(m) matches Some(a) ==> sgranted_rem(st, i, e, a))
        &&& (forall|n: String| adds_class(m, e, n) ==> sgranted_pres_cls(st, i, e, n) && !protected_mod_pres_entry_classes().contains(n))
        &&& (forall|n: String| removes_class(m, e, n) ==> sgranted_rem_cls(st, i, e, n) && !protected_mod_rem_entry_classes().contains(n))
    }
}
pub open spec fn related_modify_ok(state: Seq<AccessControlModify>, ident: &Identity, r: &AccessControlModifyResolved) -> bool {
    exists|i: int| 0 <= i < state.len() && *r.acp == #[trigger] state[i] && conditions_resolved(ident, &state[i].acp.receiver, &state[i].acp.target, r.receiver_condition, r.target_condition)
}
// a related (resolved) profile that applies to the entry is a profile of the state matching the user and the entry
pub proof fn lemma_related_applies(st: Seq<AccessControlModify>, r: &AccessControlModifyResolved, i: &Identity, e: &EntrySealedCommitted)
    requires related_modify_ok(st, i, r), modify_acp_applies(r, i, e)
    ensures exists|j: int| 0 <= j < st.len() && *r.acp == #[trigger] st[j] && modify_profile_matches(&st[j].acp, i, e)
{
    let j = choose|j: int| 0 <= j < st.len() && *r.acp == #[trigger] st[j] && conditions_resolved(i, &st[j].acp.receiver, &st[j].acp.target, r.receiver_condition, r.target_condition);
    assert(modify_profile_matches(&st[j].acp, i, e));
}
pub proof fn lemma_modify_lift(st: Seq<AccessControlModify>, acps: Seq<AccessControlModifyResolved>, i: &Identity, e: &EntrySealedCommitted, ml: Seq<Modify>)
    requires forall|k: int| 0 <= k < acps.len() ==> related_modify_ok(st, i, &#[trigger] acps[k])
    ensures modify_fully_granted(acps, i, e, ml) ==> modify_stmt_granted(st, i, e, ml)
{
    assert forall|x: Attribute| granted_pres(acps, i, e, x) implies sgranted_pres(st, i, e, x) by {
        let k = choose|k: int| 0 <= k < acps.len() && modify_acp_applies(#[trigger] &acps[k], i, e) && lists_pres(acps[k].acp, x);
        lemma_related_applies(st, &acps[k], i, e);
    }
    assert forall|x: Attribute| granted_rem(acps, i, e, x) implies sgranted_rem(st, i, e, x) by {
        let k = choose|k: int| 0 <= k < acps.len() && modify_acp_applies(#[trigger] &acps[k], i, e) && lists_rem(acps[k].acp, x);
        lemma_related_applies(st, &acps[k], i, e);
    }
    assert forall|c: String| granted_pres_cls(acps, i, e, c) implies sgranted_pres_cls(st, i, e, c) by {
        let k = choose|k: int| 0 <= k < acps.len() && modify_acp_applies(#[trigger] &acps[k], i, e) && lists_pres_cls(acps[k].acp, c);
        lemma_related_applies(st, &acps[k], i, e);
    }
    assert forall|c: String| granted_rem_cls(acps, i, e, c) implies sgranted_rem_cls(st, i, e, c) by {
        let k = choose|k: int| 0 <= k < acps.len() && modify_acp_applies(#[trigger] &acps[k], i, e) && lists_rem_cls(acps[k].acp, c);
        lemma_related_applies(st, &acps[k], i, e);
    }
}
//@extract related_modify_step
#[verifier::external_body] pub fn kvx_related_modify<'b>(state: &'b Vec<AccessControlModify>, ident: &Identity, ident_memberof: Option<&BTreeSet<Uuid>>, cache: &mut ResolveFilterCacheReadTxn<'_>) -> (r: Vec<AccessControlModifyResolved<'b>>)
    requires ident_memberof is Some == ident.memberof() is Some, ident_memberof matches Some(m) ==> m@ == ident.memberof()->Some_0
    ensures forall|k: int| 0 <= k < r@.len() ==> related_modify_ok(state@, ident, &#[trigger] r@[k]) { unimplemented!() }
pub struct AcpTxn<'a> { pub sync: HashMap<Uuid, BTreeSet<Attribute>>, pub modify: Vec<AccessControlModify>, pub cache: &'a u8 }
impl<'a> AcpTxn<'a> {
    pub fn get_sync_agreements(&self) -> (r: &HashMap<Uuid, BTreeSet<Attribute>>) { &self.sync }
    pub fn get_modify(&self) -> (r: &Vec<AccessControlModify>) ensures *r == self.modify { &self.modify }
    #[verifier::external_body] pub fn get_acp_resolve_filter_cache(&self) -> (r: &mut ResolveFilterCacheReadTxn<'a>) { unimplemented!() }
//@extract modify_allow_operation_per_entry
//@extract modify_related_acp
//@extract modify_allow_operation
//@extract batch_modify_allow_operation
}
}
fn main(){}
