use vstd::prelude::*;
use core::cmp::Ordering;
verus! {
//@include shims/duration.rs
//@include shims/uuid.rs
//@include shims/offsetdatetime.rs
#[derive(Clone, PartialEq, Eq)]
pub struct AttrString { pub o: u64 }
// ---- real enums extracted from /repo ----
//@extract Attribute
//@extract EntryClass
//@extract InternalRole
//@extract IdentType
//@extract AccessScope
//@extract Identity
//@include shims/access_common.rs
pub const UUID_ANONYMOUS: Uuid = Uuid(@@constexpr:UUID_ANONYMOUS:uuid!\("([0-9a-f-]+)"\):uuidhex@@);
//@include shims/access_identity.rs
impl Identity {
//@extract access_scope
}
//@include shims/access_statics.rs
//@extract AccessControlReceiverCondition
//@extract AccessControlTargetCondition
//@extract AccessControlDelete
//@extract AccessControlDeleteResolved

// ---- specification from the statements of C20 / C24 (delete) ----
// a built-in entry: its uuid lies in the system range [0, UUID_ANONYMOUS]
pub open spec fn builtin(e: &EntrySealedCommitted) -> bool { e.uuid().0 <= UUID_ANONYMOUS.0 }
// a protected entry: carries one of the protected classes named by the statement (system, domain/system info+config, dyngroup,
// sync object, tombstone, recycled) — the list is the code's own PROTECTED_ENTRY_CLASSES, compared with the statement's list below
pub open spec fn protected(e: &EntrySealedCommitted) -> bool { e.classes() matches Some(c) && !c.disjoint(protected_entry_classes()) }
// "granted by an access control profile matching that user and that entry": the profile's receiver condition holds for the
// identity (group membership was checked when the profile was selected; entry-manager needs a back reference) and its target
// filter matches the entry
pub open spec fn receiver_ok(c: AccessControlReceiverCondition, i: &Identity, e: &EntrySealedCommitted) -> bool {
    match c {
        AccessControlReceiverCondition::GroupChecked => true,
        AccessControlReceiverCondition::EntryManager => e.refers(Attribute::EntryManagedBy) matches Some(m)
            && ((i.memberof() matches Some(g) && !g.disjoint(m)) || m.contains(i.uuid())),
    }
}
pub open spec fn target_ok(c: AccessControlTargetCondition, e: &EntrySealedCommitted) -> bool {
    match c { AccessControlTargetCondition::Scope(f) => e.matches_filter(&f) }
}
pub open spec fn delete_acp_applies(a: &AccessControlDeleteResolved, i: &Identity, e: &EntrySealedCommitted) -> bool {
    receiver_ok(a.receiver_condition, i, e) && target_ok(a.target_condition, e)
}
pub open spec fn some_delete_acp_applies(acps: &[AccessControlDeleteResolved], i: &Identity, e: &EntrySealedCommitted) -> bool {
    exists|k: int| 0 <= k < acps@.len() && #[trigger] delete_acp_applies(&acps@[k], i, e)
}
// the statement's own list of protected classes must be inside the code's list (auxiliary consistency lemma)
pub proof fn lemma_protected_list_covers_statement()
    ensures
        protected_entry_classes().contains(ec_string(EntryClass::System)),
        protected_entry_classes().contains(ec_string(EntryClass::Tombstone)),
        protected_entry_classes().contains(ec_string(EntryClass::Recycled)),
        protected_entry_classes().contains(ec_string(EntryClass::DomainInfo)),
        protected_entry_classes().contains(ec_string(EntryClass::SystemInfo)),
        protected_entry_classes().contains(ec_string(EntryClass::SystemConfig)),
        protected_entry_classes().contains(ec_string(EntryClass::DynGroup)),
        protected_entry_classes().contains(ec_string(EntryClass::SyncObject)),
{}

//@extract IResult
//@extract DeleteResult
//@extract apply_delete_access
//@extract delete_filter_entry
//@extract protected_filter_entry
}
fn main(){}
