use vstd::prelude::*;
use core::cmp::Ordering;
use vstd::std_specs::iter::IteratorSpec;
verus! {
//@include shims/duration.rs
//@include shims/uuid.rs
//@include shims/offsetdatetime.rs
#[derive(Clone, PartialEq, Eq)]
pub struct AttrString { pub o: u64 }
// ---- real enums extracted from /repo ----
//@extract Attribute
//@extract EntryClass
//@extract InternalRole
//@extract IdentType
//@extract AccessScope
//@extract Identity
//@include shims/access_common.rs
pub const UUID_ANONYMOUS: Uuid = Uuid(@@constexpr:UUID_ANONYMOUS:uuid!\("([0-9a-f-]+)"\):uuidhex@@);
//@include shims/access_identity.rs
impl Identity {
//@extract access_scope
}
//@include shims/access_statics.rs
//@extract AccessControlReceiverCondition
//@extract AccessControlTargetCondition
//@extract AccessControlDelete
//@extract AccessControlDeleteResolved

// ---- specification from the statements of C20 / C24 (delete) ----
// a built-in entry: its uuid lies in the system range [0, UUID_ANONYMOUS]
pub open spec fn builtin(e: &EntrySealedCommitted) -> bool { e.uuid().0 <= UUID_ANONYMOUS.0 }
// a protected entry: carries one of the protected classes named by the statement (system, domain/system info+config, dyngroup,
// sync object, tombstone, recycled) — the list is the code's own PROTECTED_ENTRY_CLASSES, compared with the statement's list below
pub open spec fn protected(e: &EntrySealedCommitted) -> bool { e.classes() matches Some(c) && !c.disjoint(protected_entry_classes()) }
// "granted by an access control profile matching that user and that entry": the profile's receiver condition holds for the
// identity (group membership was checked when the profile was selected; entry-manager needs a back reference) and its target
// filter matches the entry
pub open spec fn receiver_ok(c: AccessControlReceiverCondition, i: &Identity, e: &EntrySealedCommitted) -> bool {
    match c {
        AccessControlReceiverCondition::GroupChecked => true,
        AccessControlReceiverCondition::EntryManager => e.refers(Attribute::EntryManagedBy) matches Some(m)
            && ((i.memberof() matches Some(g) && !g.disjoint(m)) || m.contains(i.uuid())),
    }
}
pub open spec fn target_ok(c: AccessControlTargetCondition, e: &EntrySealedCommitted) -> bool {
    match c { AccessControlTargetCondition::Scope(f) => e.matches_filter(&f) }
}
pub open spec fn delete_acp_applies(a: &AccessControlDeleteResolved, i: &Identity, e: &EntrySealedCommitted) -> bool {
    receiver_ok(a.receiver_condition, i, e) && target_ok(a.target_condition, e)
}
pub open spec fn some_delete_acp_applies(acps: &[AccessControlDeleteResolved], i: &Identity, e: &EntrySealedCommitted) -> bool {
    exists|k: int| 0 <= k < acps@.len() && #[trigger] delete_acp_applies(&acps@[k], i, e)
}
// the statement's own list of protected classes must be inside the code's list (auxiliary consistency lemma)
pub proof fn lemma_protected_list_covers_statement()
    ensures
        protected_entry_classes().contains(ec_string(EntryClass::System)),
        protected_entry_classes().contains(ec_string(EntryClass::Tombstone)),
        protected_entry_classes().contains(ec_string(EntryClass::Recycled)),
        protected_entry_classes().contains(ec_string(EntryClass::DomainInfo)),
        protected_entry_classes().contains(ec_string(EntryClass::SystemInfo)),
        protected_entry_classes().contains(ec_string(EntryClass::SystemConfig)),
        protected_entry_classes().contains(ec_string(EntryClass::DynGroup)),
        protected_entry_classes().contains(ec_string(EntryClass::SyncObject)),
{}

//@extract IResult
//@extract DeleteResult
//@extract apply_delete_access
//@extract delete_filter_entry
//@extract protected_filter_entry

//@include shims/access_resolve.rs
//@include shims/iter_all.rs
// ---- delete_related_acp / delete_allow_operation (access/mod.rs): the driver ----
pub struct DeleteEvent { pub ident: Identity }
pub struct AcpTxn<'a> { pub delete: Vec<AccessControlDelete>, pub cache: &'a u8 }
// statement of C24 for delete: "succeeds only if ... granted by an access control profile matching that user and that entry"
pub open spec fn entry_manager_matches(i: &Identity, e: &EntrySealedCommitted) -> bool {
    e.refers(Attribute::EntryManagedBy) matches Some(m) && ((i.memberof() matches Some(g) && !g.disjoint(m)) || m.contains(i.uuid()))
}
pub open spec fn delete_profile_matches(acp: &AccessControlProfile, ident: &Identity, e: &EntrySealedCommitted) -> bool {
    &&& (receiver_matches_user(&acp.receiver, ident) || (acp.receiver is EntryManager && entry_manager_matches(ident, e)))
    &&& (acp.target matches AccessControlTarget::Scope(f) && e.matches_filter(&resolved_filter(f, ident)))
}
pub open spec fn delete_stmt_granted(state: Seq<AccessControlDelete>, ident: &Identity, e: &EntrySealedCommitted) -> bool {
    exists|i: int| 0 <= i < state.len() && delete_profile_matches(&(#[trigger] state[i]).acp, ident, e)
}
pub open spec fn related_delete_ok(state: Seq<AccessControlDelete>, ident: &Identity, r: &AccessControlDeleteResolved) -> bool {
    exists|i: int| 0 <= i < state.len() && *r.acp == #[trigger] state[i] && conditions_resolved(ident, &state[i].acp.receiver, &state[i].acp.target, r.receiver_condition, r.target_condition)
}
//@extract related_delete_step
// `state.iter().filter_map(step).collect::<Vec<_>>()`: every kept element is a Some(..) result of the step on an element of the state
#[verifier::external_body] pub fn kvx_related_delete<'b>(state: &'b Vec<AccessControlDelete>, ident: &Identity, ident_memberof: Option<&BTreeSet<Uuid>>, cache: &mut ResolveFilterCacheReadTxn<'_>) -> (r: Vec<AccessControlDeleteResolved<'b>>)
    requires ident_memberof is Some == ident.memberof() is Some, ident_memberof matches Some(m) ==> m@ == ident.memberof()->Some_0
    ensures forall|k: int| 0 <= k < r@.len() ==> related_delete_ok(state@, ident, &#[trigger] r@[k]) { unimplemented!() }
impl<'a> AcpTxn<'a> {
    pub fn get_delete(&self) -> (r: &Vec<AccessControlDelete>) ensures *r == self.delete { &self.delete }
    #[verifier::external_body] pub fn get_acp_resolve_filter_cache(&self) -> (r: &mut ResolveFilterCacheReadTxn<'a>) { unimplemented!() }
//@extract delete_related_acp
//@extract delete_allow_operation
}
}
fn main(){}
