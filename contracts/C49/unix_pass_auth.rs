use vstd::prelude::*;
use core::cmp::Ordering;
verus! {
//@include shims/duration.rs
//@include shims/uuid.rs
//@include shims/std_option.rs
pub enum OperationError { InvalidState, CryptographyError, NoMatchingEntries, Backend }
pub struct OffsetDateTime { pub o: i64 }
impl OffsetDateTime { #[verifier::external_body] pub fn unix_timestamp(&self) -> (r: i64) { unimplemented!() } }
impl Duration { #[verifier::external_body] pub fn from_secs(s: u64) -> (r: Duration) { unimplemented!() } }
// ---- entry / account / credentials: what this function reads ----
pub struct EntrySealedCommitted { pub o: int }
impl EntrySealedCommitted { pub uninterp spec fn uuid(&self) -> Uuid; }
pub struct Arc<T> { pub v: T }
impl Arc<EntrySealedCommitted> { pub fn as_ref(&self) -> (r: &EntrySealedCommitted) ensures *r == self.v { &self.v } }
pub struct CredSoftLockPolicy { pub o: u8 }
pub struct Password { pub o: int }
impl Password {
    pub uninterp spec fn accepts(&self, pw: Seq<char>) -> bool;
    #[verifier::external_body] pub fn requires_upgrade(&self) -> (r: bool) { unimplemented!() }
    // hash verification (C30); the ghost argument is the caller's claim that the credential's soft lock was valid after the
    // time step — checked at the call (C28: no password oracle while the credential is locked)
    #[verifier::external_body] pub fn kvx_verify(&self, cleartext: &str, Ghost(lock_valid): Ghost<bool>) -> (r: Result<bool, ()>)
        requires lock_valid
        ensures r matches Ok(b) ==> b == self.accepts(cleartext@) { unimplemented!() }
}
pub struct Credential { pub uuid: Uuid, pub o: int }
impl Credential {
    #[verifier::external_body] pub fn softlock_policy(&self) -> (r: CredSoftLockPolicy) { unimplemented!() }
    #[verifier::external_body] pub fn password_ref(&self) -> (r: Result<&Password, OperationError>) { unimplemented!() }
}
pub struct UnixExtensions { pub o: int }
impl UnixExtensions { #[verifier::external_body] pub fn ucred(&self) -> (r: Option<&Credential>) { unimplemented!() } }
pub struct ResolvedAccountPolicy { pub o: u8 }
impl ResolvedAccountPolicy { #[verifier::external_body] pub fn allow_primary_cred_fallback(&self) -> (r: Option<bool>) { unimplemented!() } }
pub struct Account { pub uuid: Uuid, pub o: int }
impl Account {
    pub uninterp spec fn valid_at(&self, ct: Duration) -> bool;          // inside [valid_from, expire): proved of the real function in C32 / C49 units
    #[verifier::external_body] pub fn try_from_entry_with_policy(e: &EntrySealedCommitted, qs: &mut QueryServerReadTransaction) -> (r: Result<(Account, ResolvedAccountPolicy), OperationError>)
        ensures r matches Ok(p) ==> p.0.uuid == e.uuid() { unimplemented!() }
    #[verifier::external_body] pub fn is_within_valid_time(&self, ct: Duration) -> (r: bool) ensures r == self.valid_at(ct) { unimplemented!() }
    #[verifier::external_body] pub fn softlock_expire(&self) -> (r: Option<OffsetDateTime>) { unimplemented!() }
    #[verifier::external_body] pub fn unix_extn(&self) -> (r: Option<&UnixExtensions>) { unimplemented!() }
    #[verifier::external_body] pub fn primary(&self) -> (r: Option<&Credential>) { unimplemented!() }
}
pub struct QueryServerReadTransaction { pub o: int }
impl QueryServerReadTransaction {
    #[verifier::external_body] pub fn internal_search_uuid(&mut self, uuid: Uuid) -> (r: Result<Arc<EntrySealedCommitted>, OperationError>)
        ensures r matches Ok(e) ==> e.v.uuid() == uuid { unimplemented!() }
}
// ---- the in-memory soft lock of one credential, behind a mutex: the guard exposes the state machine of CredSoftLock
// (proved in C28's unit softlock); here only the ORDER of its use matters ----
pub struct SlockGuard { pub stepped: Ghost<Option<Duration>>, pub valid: Ghost<bool>, pub failures: Ghost<nat> }
impl SlockGuard {
    #[verifier::external_body] pub fn apply_time_step(&mut self, ct: Duration, exp: Option<Duration>)
        ensures final(self).stepped@ == Some(ct), final(self).failures@ == old(self).failures@ { unimplemented!() }
    // is_valid is meaningful only after the time step for the current time
    #[verifier::external_body] pub fn is_valid(&self) -> (r: bool) ensures r == self.valid@ { unimplemented!() }
    #[verifier::external_body] pub fn record_failure(&mut self, ct: Duration)
        ensures final(self).failures@ == old(self).failures@ + 1, final(self).stepped@ == old(self).stepped@ { unimplemented!() }
    pub open spec fn usable_at(&self, ct: Duration) -> bool { self.stepped@ == Some(ct) && self.valid@ }
}
pub struct CredSoftLockMutex { pub o: u8 }
impl CredSoftLockMutex {
    #[verifier::external_body] pub fn clone(&self) -> (r: CredSoftLockMutex) { unimplemented!() }
    #[verifier::external_body] pub fn lock(&self) -> (r: SlockGuard) ensures r.stepped@ is None, r.failures@ == 0 { unimplemented!() }
}
pub struct CredSoftLock;
impl CredSoftLock { #[verifier::external_body] pub fn new(p: CredSoftLockPolicy) -> (r: CredSoftLock) { unimplemented!() } }
#[verifier::external_body] pub fn kvx_new_slock_mutex(l: CredSoftLock) -> (r: CredSoftLockMutex) { unimplemented!() }     // Arc::new(Mutex::new(l))
pub struct SoftlockRead { pub o: u8 }
impl SoftlockRead { #[verifier::external_body] pub fn get(&self, k: &Uuid) -> (r: Option<&CredSoftLockMutex>) { unimplemented!() } }
pub struct SoftlockWrite { pub o: u8 }
impl SoftlockWrite {
    #[verifier::external_body] pub fn insert(&mut self, k: Uuid, v: CredSoftLockMutex) -> (r: Option<CredSoftLockMutex>) { unimplemented!() }
    #[verifier::external_body] pub fn commit(self) { unimplemented!() }
}
pub struct Softlocks { pub o: u8 }
impl Softlocks {
    #[verifier::external_body] pub fn read(&self) -> (r: SoftlockRead) { unimplemented!() }
    #[verifier::external_body] pub fn write(&self) -> (r: SoftlockWrite) { unimplemented!() }
}
pub struct Semaphore { pub o: u8 }
pub struct Permit { pub o: u8 }
impl Semaphore { #[verifier::external_body] pub fn acquire(&self) -> (r: Permit) { unimplemented!() } }
pub struct UnixPasswordUpgrade { pub target_uuid: Uuid, pub existing_password: String }
pub enum DelayedAction { UnixPwUpgrade(UnixPasswordUpgrade), Other }
pub struct Sender { pub o: u8 }
impl Sender { #[verifier::external_body] pub fn send(&self, a: DelayedAction) -> (r: Result<(), ()>) { unimplemented!() } }
#[verifier::external_body] pub fn kvx_to_string(s: &str) -> (r: String) { unimplemented!() }
pub struct IdmServerAuthTransaction { pub qs_read: QueryServerReadTransaction, pub softlocks: Softlocks, pub session_ticket: Semaphore, pub async_tx: Sender }
impl IdmServerAuthTransaction {
//@extract auth_with_unix_pass
}
}
fn main(){}
