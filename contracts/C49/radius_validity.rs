use vstd::prelude::*;
use core::cmp::Ordering;
use std::collections::BTreeMap;
use std::sync::Arc;
verus! {
//@include shims/duration.rs
//@include shims/duration_ops.rs
//@include shims/uuid.rs
//@include shims/offsetdatetime.rs
//@include shims/time_ops.rs
//@include shims/idm_common.rs

// ---- stand-ins for what RadiusAccount touches besides the validity window (opaque) ----
pub enum EntryClass { Account, Other(u64) }
pub enum PartialValue { Class(EntryClass), Other(u64) }
impl From<EntryClass> for PartialValue { fn from(c: EntryClass) -> (r: PartialValue) { PartialValue::Class(c) } }
impl vstd::std_specs::convert::FromSpecImpl<EntryClass> for PartialValue {
    open spec fn obeys_from_spec() -> bool { true }
    open spec fn from_spec(c: EntryClass) -> PartialValue { PartialValue::Class(c) }
}
pub const ENTRYCLASS_ACCOUNT: &'static str = "account";
pub enum OperationError { MissingClass(String), MissingAttribute(Attribute), InvalidAccountState(String), NoMatchingEntries, Other }
pub struct ProtoGroup { pub o: u64 }
pub struct Group<T> { pub t: T }
impl<T> Group<T> {
    #[verifier::external_body] pub fn to_proto(&self) -> ProtoGroup { unimplemented!() }
}
impl Group<()> {
    #[verifier::external_body]
    pub fn try_from_account_reduced(value: &Entry<EntryReduced, EntryCommitted>, qs: &mut QueryServerReadTransaction) -> (r: Result<Vec<Group<()>>, OperationError>)
        ensures final(qs).db() == old(qs).db() { unimplemented!() }
}
pub struct RadiusAuthToken { pub name: String, pub displayname: String, pub uuid: String, pub secret: String, pub groups: Vec<ProtoGroup> }
pub struct Hyphenated;
impl Hyphenated { #[verifier::external_body] pub fn to_string(&self) -> String { unimplemented!() } }
impl Uuid { #[verifier::external_body] pub fn as_hyphenated(&self) -> Hyphenated { unimplemented!() } }
pub struct Secret; impl Secret { #[verifier::external_body] pub fn to_string(&self) -> String { unimplemented!() } }
pub struct IName; impl IName { #[verifier::external_body] pub fn to_string(&self) -> String { unimplemented!() } }
impl<V, S> Entry<V, S> {
    #[verifier::external_body] pub fn attribute_equality(&self, a: Attribute, v: &PartialValue) -> bool { unimplemented!() }
    #[verifier::external_body] pub fn get_ava_single_secret(&self, a: Attribute) -> Option<&Secret> { unimplemented!() }
    #[verifier::external_body] pub fn get_ava_single_iname(&self, a: Attribute) -> Option<&IName> { unimplemented!() }
    #[verifier::external_body] pub fn get_ava_single_utf8(&self, a: Attribute) -> Option<&IName> { unimplemented!() }
}
// the read transaction: `db()` maps a uuid to the stored (unreduced) entry's validity window.
// An access-reduced entry is a view of the stored entry with the same uuid in which each attribute is either
// the stored value or absent (ASSUMED: that is what access reduction does).
#[verifier::external_body]
pub struct QueryServerReadTransaction { _p: u8 }
impl QueryServerReadTransaction {
    pub uninterp spec fn db(&self) -> Map<Uuid, (Option<OffsetDateTime>, Option<OffsetDateTime>)>;
    #[verifier::external_body]
    pub fn internal_search_uuid(&mut self, uuid: Uuid) -> (r: Result<Arc<Entry<EntrySealed, EntryCommitted>>, OperationError>)
        ensures final(self).db() == old(self).db(),
                r matches Ok(e) ==> (old(self).db().contains_key(uuid) && e.uuid() == uuid
                    && e.datetime(Attribute::AccountValidFrom) == old(self).db()[uuid].0 && e.datetime(Attribute::AccountExpire) == old(self).db()[uuid].1)
    { unimplemented!() }
}
//@extract RadiusAccount

// ---- specification (C49, RADIUS path) ----
// a RADIUS secret may be released at time ct only if the STORED entry's window contains ct
pub open spec fn stored_window_ok(ct: Duration, db: Map<Uuid, (Option<OffsetDateTime>, Option<OffsetDateTime>)>, u: Uuid) -> bool {
    db.contains_key(u) && within_valid(ct, db[u].0, db[u].1)
}
pub struct Account {}
impl Account {
//@extract check_within_valid_time
}
impl RadiusAccount {
//@extract try_from_entry_reduced
//@extract is_within_valid_time
//@extract to_radiusauthtoken
}
// composition (get_radiusauthtoken = impersonate_search_ext_uuid → try_from_entry_reduced → to_radiusauthtoken):
// an Ok token implies the stored window contains ct
pub proof fn c49_radius_release_only_within_stored_window(ct: Duration, acct: RadiusAccount, db: Map<Uuid, (Option<OffsetDateTime>, Option<OffsetDateTime>)>)
    requires db.contains_key(acct.uuid) && acct.valid_from == db[acct.uuid].0 && acct.expire == db[acct.uuid].1,   // try_from_entry_reduced's postcondition
             within_valid(ct, acct.valid_from, acct.expire),                                                      // to_radiusauthtoken's postcondition on Ok
    ensures stored_window_ok(ct, db, acct.uuid)
{}
}
fn main(){}
