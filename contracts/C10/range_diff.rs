use vstd::prelude::*;
use core::cmp::Ordering;
use std::collections::BTreeMap;
use vstd::std_specs::iter::IteratorSpec;
verus! {
//@include shims/duration.rs
//@include shims/uuid.rs

//@extract ReplCidRange
//@extract RangeDiffStatus

// ---- specification, written from the statement of C10 -----------------------------------
// lagging:  the consumer's newest change from a server is older than the supplier's oldest
// advanced: (not lagging and) the supplier's newest is older than the consumer's oldest
// need:     otherwise, the consumer's newest is older than the supplier's newest
pub open spec fn lag(c: ReplCidRange, s: ReplCidRange) -> bool { c.ts_max.dlt(s.ts_min) }
pub open spec fn adv(c: ReplCidRange, s: ReplCidRange) -> bool { !lag(c, s) && s.ts_max.dlt(c.ts_min) }
pub open spec fn need(c: ReplCidRange, s: ReplCidRange) -> bool { !lag(c, s) && !adv(c,s) && c.ts_max.dlt(s.ts_max) }
pub open spec fn overlap(c: Map<Uuid, ReplCidRange>, s: Map<Uuid, ReplCidRange>) -> bool { exists|k: Uuid| s.contains_key(k) && c.contains_key(k) }
pub open spec fn any_lag(c: Map<Uuid, ReplCidRange>, s: Map<Uuid, ReplCidRange>) -> bool { exists|k: Uuid| s.contains_key(k) && c.contains_key(k) && lag(c[k], s[k]) }
pub open spec fn any_adv(c: Map<Uuid, ReplCidRange>, s: Map<Uuid, ReplCidRange>) -> bool { exists|k: Uuid| s.contains_key(k) && c.contains_key(k) && adv(c[k], s[k]) }
// the supplied ranges: exactly the servers unknown to the consumer (from zero) or where the
// consumer is behind (from the consumer's newest), each up to the supplier's newest
pub open spec fn diff_ok(c: Map<Uuid, ReplCidRange>, s: Map<Uuid, ReplCidRange>, d: Map<Uuid, ReplCidRange>) -> bool {
    forall|k: Uuid| #![auto]
        (d.contains_key(k) <==> (s.contains_key(k) && (!c.contains_key(k) || need(c[k], s[k]))))
        && (d.contains_key(k) ==> d[k].ts_max == s[k].ts_max
              && d[k].ts_min == (if c.contains_key(k) { c[k].ts_max } else { Duration::ZERO }))
}
pub open spec fn range_diff_post(c: Map<Uuid, ReplCidRange>, s: Map<Uuid, ReplCidRange>, r: RangeDiffStatus) -> bool {
    if !overlap(c, s) { r is NoRUVOverlap }
    else if any_lag(c, s) && any_adv(c, s) { r is Critical }
    else if any_lag(c, s) { r is Refresh }
    else if any_adv(c, s) { r is Unwilling }
    else { r is Ok && diff_ok(c, s, r->Ok_0@) }
}
pub open spec fn mv(m: &BTreeMap<Uuid, ReplCidRange>) -> Map<Uuid, ReplCidRange> { m@ }

pub struct ReplicationUpdateVector {}
impl ReplicationUpdateVector {
//@extract range_diff
}
}
fn main(){}
