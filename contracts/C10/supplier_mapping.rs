use vstd::prelude::*;
use core::cmp::Ordering;
use std::collections::BTreeMap;
verus! {
//@include shims/duration.rs
//@include shims/uuid.rs
//@extract ReplCidRange
//@extract RangeDiffStatus
pub struct ReplAnchoredCidRange { pub o: u8 }
pub struct ReplIncrementalEntryV1 { pub o: u8 }
pub type DomainVersion = u32;
//@extract ReplRuvRange
//@extract ReplIncrementalContext
// ---- specification, written from the statement of C10 -----------------------------------
// lagging:  the consumer's newest change from a server is older than the supplier's oldest
// advanced: (not lagging and) the supplier's newest is older than the consumer's oldest
// need:     otherwise, the consumer's newest is older than the supplier's newest
pub open spec fn lag(c: ReplCidRange, s: ReplCidRange) -> bool { c.ts_max.dlt(s.ts_min) }
pub open spec fn adv(c: ReplCidRange, s: ReplCidRange) -> bool { !lag(c, s) && s.ts_max.dlt(c.ts_min) }
pub open spec fn need(c: ReplCidRange, s: ReplCidRange) -> bool { !lag(c, s) && !adv(c,s) && c.ts_max.dlt(s.ts_max) }
pub open spec fn overlap(c: Map<Uuid, ReplCidRange>, s: Map<Uuid, ReplCidRange>) -> bool { exists|k: Uuid| s.contains_key(k) && c.contains_key(k) }
pub open spec fn any_lag(c: Map<Uuid, ReplCidRange>, s: Map<Uuid, ReplCidRange>) -> bool { exists|k: Uuid| s.contains_key(k) && c.contains_key(k) && lag(c[k], s[k]) }
pub open spec fn any_adv(c: Map<Uuid, ReplCidRange>, s: Map<Uuid, ReplCidRange>) -> bool { exists|k: Uuid| s.contains_key(k) && c.contains_key(k) && adv(c[k], s[k]) }
// the supplied ranges: exactly the servers unknown to the consumer (from zero) or where the
// consumer is behind (from the consumer's newest), each up to the supplier's newest
pub open spec fn diff_ok(c: Map<Uuid, ReplCidRange>, s: Map<Uuid, ReplCidRange>, d: Map<Uuid, ReplCidRange>) -> bool {
    forall|k: Uuid| #![auto]
        (d.contains_key(k) <==> (s.contains_key(k) && (!c.contains_key(k) || need(c[k], s[k]))))
        && (d.contains_key(k) ==> d[k].ts_max == s[k].ts_max
              && d[k].ts_min == (if c.contains_key(k) { c[k].ts_max } else { Duration::ZERO }))
}
pub open spec fn range_diff_post(c: Map<Uuid, ReplCidRange>, s: Map<Uuid, ReplCidRange>, r: RangeDiffStatus) -> bool {
    if !overlap(c, s) { r is NoRUVOverlap }
    else if any_lag(c, s) && any_adv(c, s) { r is Critical }
    else if any_lag(c, s) { r is Refresh }
    else if any_adv(c, s) { r is Unwilling }
    else { r is Ok && diff_ok(c, s, r->Ok_0@) }
}
pub open spec fn mv(m: &BTreeMap<Uuid, ReplCidRange>) -> Map<Uuid, ReplCidRange> { m@ }


pub struct ReplicationUpdateVector { pub o: u8 }
impl ReplicationUpdateVector {
    // contract PROVED on the real text in the unit range_diff
    #[verifier::external_body] pub fn range_diff(consumer_range: &BTreeMap<Uuid, ReplCidRange>, supplier_range: &BTreeMap<Uuid, ReplCidRange>) -> (r: RangeDiffStatus)
        ensures range_diff_post(consumer_range@, supplier_range@, r) { unimplemented!() }
    #[verifier::external_body] pub fn filter_ruv_range(&self, trim: &Cid) -> (r: Result<BTreeMap<Uuid, ReplCidRange>, OperationError>)
        ensures r matches Ok(m) ==> m@ == self.ranges_after(*trim) { unimplemented!() }
    pub uninterp spec fn ranges_after(&self, trim: Cid) -> Map<Uuid, ReplCidRange>;
    #[verifier::external_body] pub fn get_anchored_ranges(&self, ranges: BTreeMap<Uuid, ReplCidRange>) -> (r: Result<BTreeMap<Uuid, ReplAnchoredCidRange>, OperationError>) { unimplemented!() }
}
pub struct Cid { pub ts: Duration, pub s_uuid: Uuid }
impl Cid { pub fn clone(&self) -> (r: Cid) ensures r == *self { Cid { ts: self.ts, s_uuid: self.s_uuid } } }
pub enum OperationError { Backend, Other }
// entries, schema and the iterator pipelines that only assemble the reply payload: stand-ins without specification
#[verifier::external_body] pub struct EntrySealedCommitted { p: u8 }
#[verifier::external_body] pub struct ValueSet { p: u8 }
pub enum Attribute { Class, Other(u64) }
pub enum EntryClass { AttributeType, ClassType, DomainInfo, SystemInfo, SystemConfig, KeyProvider, Other(u64) }
pub struct PartialValue { pub o: u64 }
impl vstd::std_specs::convert::FromSpecImpl<EntryClass> for PartialValue { open spec fn obeys_from_spec() -> bool { false } uninterp spec fn from_spec(v: EntryClass) -> PartialValue; }
impl From<EntryClass> for PartialValue { #[verifier::external_body] fn from(v: EntryClass) -> (r: PartialValue) { unimplemented!() } }
impl EntrySealedCommitted { #[verifier::external_body] pub fn get_ava_set(&self, a: Attribute) -> (r: Option<&ValueSet>) { unimplemented!() } }
// change state observers (proved on the real text in contracts/C09/merge_state); here uninterpreted
pub struct EntryChangeState { pub o: u8 }
impl EntryChangeState { pub uninterp spec fn deletable(&self, c: Cid) -> bool; #[verifier::external_body] pub fn can_delete(&self, cid: &Cid) -> (r: bool) ensures r == self.deletable(*cid) { unimplemented!() }
                        pub uninterp spec fn live(&self) -> bool; #[verifier::external_body] pub fn is_live(&self) -> (r: bool) ensures r == self.live() { unimplemented!() } }
impl EntrySealedCommitted { #[verifier::external_body] pub fn get_changestate(&self) -> (r: &EntryChangeState) { unimplemented!() } }
impl ValueSet { #[verifier::external_body] pub fn contains(&self, pv: &PartialValue) -> (r: bool) { unimplemented!() } }
pub struct Arc<T> { pub v: T }
impl<T> Arc<T> { pub fn as_ref(&self) -> (r: &T) ensures *r == self.v { &self.v } }
impl<T> core::ops::Deref for Arc<T> { type Target = T; fn deref(&self) -> (r: &T) ensures *r == self.v { &self.v } }
pub struct SchemaTransaction { pub o: u8 }
// what is sent for one entry given the supplied windows (ReplIncrementalEntryV1::new: range-filtered attribute states; not specified here)
pub uninterp spec fn incr_of(e: EntrySealedCommitted, ranges: Map<Uuid, ReplCidRange>) -> ReplIncrementalEntryV1;
impl ReplIncrementalEntryV1 { #[verifier::external_body] pub fn new(e: &EntrySealedCommitted, schema: &SchemaTransaction, ranges: &BTreeMap<Uuid, ReplCidRange>) -> (r: ReplIncrementalEntryV1) ensures r == incr_of(*e, ranges@) { unimplemented!() } }
// Vec / IntoIter pipelines that assemble the payload (std documentation): partition splits the items between its two results, map
// applies the closure to every item (stated through the closure's own CHECKED contract), filter keeps a sub-multiset, collect keeps all
// In this unit `Vec` IS the stand-in (it shadows std's Vec, so every `into_iter()` pipeline — also ones a later change adds — goes through
// the specified adaptors below); its view is the sequence of its elements
#[verifier::external_body] #[verifier::reject_recursive_types(T)] pub struct Vec<T> { p: core::marker::PhantomData<T> }
impl<T> View for Vec<T> { type V = Seq<T>; uninterp spec fn view(&self) -> Seq<T>; }
#[verifier::external_body] #[verifier::reject_recursive_types(T)] pub struct KvxIntoIter<T> { p: core::marker::PhantomData<T> }
impl<T> Vec<T> {
    pub open spec fn seq(&self) -> Seq<T> { self@ }
    #[verifier::external_body] pub fn into_iter(self) -> (r: KvxIntoIter<T>) ensures r.seq() == self@ { unimplemented!() }
}
impl<T> KvxIntoIter<T> {
    pub uninterp spec fn seq(&self) -> Seq<T>;
    #[verifier::external_body] pub fn partition<F: Fn(&T) -> bool>(self, f: F) -> (r: (Vec<T>, Vec<T>))
        ensures r.0.seq().to_multiset().add(r.1.seq().to_multiset()) == self.seq().to_multiset() { unimplemented!() }
    #[verifier::external_body] pub fn map<U, F: Fn(T) -> U>(self, f: F) -> (r: KvxIntoIter<U>)
        requires forall|t: T| #[trigger] f.requires((t,)),
        ensures r.seq().len() == self.seq().len(), forall|i: int| 0 <= i < self.seq().len() ==> f.ensures((self.seq()[i],), #[trigger] r.seq()[i]) { unimplemented!() }
    #[verifier::external_body] pub fn filter<F: Fn(&T) -> bool>(self, f: F) -> (r: KvxIntoIter<T>)
        ensures r.seq().to_multiset().subset_of(self.seq().to_multiset()),
                forall|i: int| 0 <= i < r.seq().len() ==> f.ensures((&#[trigger] r.seq()[i],), true),
                forall|i: int| 0 <= i < self.seq().len() && f.ensures((&#[trigger] self.seq()[i],), true) && !f.ensures((&self.seq()[i],), false) ==> r.seq().contains(self.seq()[i]) { unimplemented!() }
    #[verifier::external_body] pub fn collect(self) -> (r: Vec<T>) ensures r@ == self.seq() { unimplemented!() }
}
// every entry the backend retrieved for the supplied windows is sent, in one of the three lists
pub open spec fn supplied_all(retrieved: Seq<Arc<EntrySealedCommitted>>, rg: Map<Uuid, ReplCidRange>, a: Seq<ReplIncrementalEntryV1>, b: Seq<ReplIncrementalEntryV1>, c: Seq<ReplIncrementalEntryV1>) -> bool {
    a.len() + b.len() + c.len() == retrieved.len()
    && forall|i: int| 0 <= i < retrieved.len() ==> (a.contains(incr_of((#[trigger] retrieved[i]).v, rg)) || b.contains(incr_of(retrieved[i].v, rg)) || c.contains(incr_of(retrieved[i].v, rg)))
}
pub open spec fn reply_supplies_all(be: BackendReadTransaction, reply: ReplIncrementalContext) -> bool {
    match reply {
        ReplIncrementalContext::V1 { domain_version, domain_patch_level, domain_uuid, ranges, schema_entries, meta_entries, entries } =>
            exists|rg: Map<Uuid, ReplCidRange>| #[trigger] supplied_all(be.range_entries(rg), rg, schema_entries@, meta_entries@, entries@),
        _ => true,
    }
}
pub proof fn lemma_mapped_member<T, U>(xs: Seq<T>, ys: Seq<U>, x: T, g: spec_fn(T) -> U)
    requires xs.len() == ys.len(), forall|i: int| 0 <= i < xs.len() ==> #[trigger] ys[i] == g(xs[i]), xs.contains(x)
    ensures ys.contains(g(x))
{ let i = choose|i: int| 0 <= i < xs.len() && xs[i] == x; assert(ys[i] == g(x)); }
pub proof fn lemma_three_way<T>(all: Seq<T>, s: Seq<T>, rem: Seq<T>, m: Seq<T>, e: Seq<T>)
    requires s.to_multiset().add(rem.to_multiset()) == all.to_multiset(), m.to_multiset().add(e.to_multiset()) == rem.to_multiset()
    ensures s.len() + m.len() + e.len() == all.len(), forall|x: T| all.contains(x) ==> (s.contains(x) || m.contains(x) || e.contains(x))
{
    broadcast use vstd::seq_lib::group_to_multiset_ensures;
    assert(all.to_multiset().len() == all.len()); assert(s.to_multiset().len() == s.len()); assert(rem.to_multiset().len() == rem.len());
    assert(m.to_multiset().len() == m.len()); assert(e.to_multiset().len() == e.len());
    assert forall|x: T| all.contains(x) implies (s.contains(x) || m.contains(x) || e.contains(x)) by {
        assert(all.to_multiset().count(x) > 0);
        assert(s.to_multiset().count(x) + rem.to_multiset().count(x) == all.to_multiset().count(x));
        assert(m.to_multiset().count(x) + e.to_multiset().count(x) == rem.to_multiset().count(x));
    }
}
// ---- statement of C10 at the level of the supplier's reply ----
pub open spec fn reply_ok(c: Map<Uuid, ReplCidRange>, s: Map<Uuid, ReplCidRange>, reply: ReplIncrementalContext) -> bool {
    if !overlap(c, s) { reply is UnwillingToSupply }                       // share no server at all: refuses
    else if any_lag(c, s) && any_adv(c, s) { reply is UnwillingToSupply }  // both: refuses as critical
    else if any_lag(c, s) { reply is RefreshRequired }                     // behind some window: demands a refresh
    else if any_adv(c, s) { reply is UnwillingToSupply }                   // ahead: refuses
    else { reply is NoChangesAvailable || reply is V1 }                    // supplies (possibly nothing)
}
#[verifier::external_body] pub struct BackendReadTransaction { p: u8 }
impl BackendReadTransaction {
    pub uninterp spec fn ruv(&self) -> ReplicationUpdateVector;
    #[verifier::external_body] pub fn get_ruv(&mut self) -> (r: ReplicationUpdateVector) ensures r == old(self).ruv(), final(self).ruv() == old(self).ruv(), forall|rg: Map<Uuid, ReplCidRange>| final(self).range_entries(rg) == old(self).range_entries(rg) { unimplemented!() }
    pub uninterp spec fn range_entries(&self, ranges: Map<Uuid, ReplCidRange>) -> Seq<Arc<EntrySealedCommitted>>;       // the entries changed inside the windows (be::retrieve_range)
    #[verifier::external_body] pub fn retrieve_range(&mut self, ranges: &BTreeMap<Uuid, ReplCidRange>) -> (r: Result<Vec<Arc<EntrySealedCommitted>>, OperationError>) ensures final(self).ruv() == old(self).ruv(), r matches Ok(v) ==> v.seq() == old(self).range_entries(ranges@), forall|rg: Map<Uuid, ReplCidRange>| final(self).range_entries(rg) == old(self).range_entries(rg) { unimplemented!() }
}
pub struct DomainInfo { pub d_uuid: Uuid, pub d_vers: DomainVersion, pub d_devel_taint: bool, pub d_patch_level: u32 }
pub struct QueryServerReadTransaction { pub d_info: DomainInfo, pub be: BackendReadTransaction, pub trim: Cid, pub schema: SchemaTransaction }
impl QueryServerReadTransaction {
    pub fn get_be_txn(&mut self) -> (r: &mut BackendReadTransaction) ensures *r == old(self).be, *final(r) == final(self).be, final(self).d_info == old(self).d_info, final(self).trim == old(self).trim { &mut self.be }
    pub fn trim_cid(&self) -> (r: &Cid) ensures *r == self.trim { &self.trim }
    pub fn get_schema(&self) -> (r: &SchemaTransaction) { &self.schema }

//@extract supplier_provide_changes
}
}
fn main(){}
