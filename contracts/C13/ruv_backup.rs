use vstd::prelude::*;
use core::cmp::Ordering;
verus! {
//@include shims/duration.rs
//@include shims/uuid.rs
//@extract Cid
//@extract DbCidV1
pub open spec fn db_cid(c: Cid) -> DbCidV1 { DbCidV1 { timestamp: c.ts, server_id: c.s_uuid } }
#[verifier::external_body] pub fn kvx_cid_into(c: &Cid) -> (r: DbCidV1) ensures r == db_cid(*c) { unimplemented!() }    // From<&Cid> for DbCidV1 (field-wise copy)
#[verifier::external_body] #[verifier::reject_recursive_types(T)] pub struct BTreeSet<T> { p: core::marker::PhantomData<T> }
impl<T> View for BTreeSet<T> { type V = Set<T>; uninterp spec fn view(&self) -> Set<T>; }
//@extract DbReplMeta
pub struct IDLBitRange { pub o: u8 }
impl IDLBitRange { pub uninterp spec fn empty(&self) -> bool; #[verifier::external_body] pub fn is_empty(&self) -> (r: bool) ensures r == self.empty() { unimplemented!() } }
// the RUV snapshot (BptreeMapReadSnapshot<Cid, IDLBitRange>) and the iterator adaptors, per std documentation through the closures' contracts
#[verifier::external_body] pub struct Snapshot { _p: u8 }
#[verifier::external_body] #[verifier::reject_recursive_types(T)] pub struct KvxStream<T> { p: core::marker::PhantomData<T> }
impl<T> KvxStream<T> {
    pub uninterp spec fn seq(&self) -> Seq<T>;
    #[verifier::external_body] pub fn map<U, F: Fn(T) -> U>(self, f: F) -> (r: KvxStream<U>)
        requires forall|t: T| #[trigger] f.requires((t,)),
        ensures r.seq().len() == self.seq().len(), forall|i: int| 0 <= i < self.seq().len() ==> f.ensures((self.seq()[i],), #[trigger] r.seq()[i]) { unimplemented!() }
    // Iterator::filter: a subsequence; every kept item satisfied the predicate, every dropped one did not
    #[verifier::external_body] pub fn filter<F: Fn(&T) -> bool>(self, f: F) -> (r: KvxStream<T>)
        requires forall|t: &T| #[trigger] f.requires((t,)),
        ensures forall|i: int| 0 <= i < r.seq().len() ==> self.seq().contains(#[trigger] r.seq()[i]),
                forall|i: int| 0 <= i < self.seq().len() && !r.seq().contains(#[trigger] self.seq()[i]) ==> f.ensures((&self.seq()[i],), false) { unimplemented!() }
    #[verifier::external_body] pub fn collect(self) -> (r: BTreeSet<T>) ensures forall|x: T| #[trigger] r@.contains(x) <==> self.seq().contains(x) { unimplemented!() }
}
impl Snapshot {
    pub uninterp spec fn pairs(&self) -> Seq<(Cid, IDLBitRange)>;
    #[verifier::external_body] pub fn keys(&self) -> (r: KvxStream<&Cid>) ensures r.seq().len() == self.pairs().len(), forall|i: int| 0 <= i < self.pairs().len() ==> *(#[trigger] r.seq()[i]) == self.pairs()[i].0 { unimplemented!() }
    #[verifier::external_body] pub fn iter(&self) -> (r: KvxStream<(&Cid, &IDLBitRange)>) ensures r.seq().len() == self.pairs().len(), forall|i: int| 0 <= i < self.pairs().len() ==> *(#[trigger] r.seq()[i]).0 == self.pairs()[i].0 && *r.seq()[i].1 == self.pairs()[i].1 { unimplemented!() }
}
pub struct Ruv { pub o: u8 }
impl Ruv {
    pub uninterp spec fn snap(&self) -> Seq<(Cid, IDLBitRange)>;
    #[verifier::external_body] pub fn ruv_snapshot(&self) -> (r: Snapshot) ensures r.pairs() == self.snap() { unimplemented!() }
    // the statement (C13): the replication metadata written into a backup names every change id of the vector
    pub open spec fn has_cid(&self, c: Cid) -> bool { exists|i: int| 0 <= i < self.snap().len() && (#[trigger] self.snap()[i]).0 == c }
//@extract to_db_backup_ruv
}
}
fn main(){}
