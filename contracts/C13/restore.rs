use vstd::prelude::*;
use core::cmp::Ordering;
verus! {
//@include shims/duration.rs
//@include shims/uuid.rs
//@include shims/std_option.rs
pub enum OperationError { InvalidDbState, FsError, SerdeJsonError, SerdeCborError, DB0001MismatchedRestoreVersion, DB0002MismatchedRestoreVersion, ConsistencyError(ErrList), Backend, Other }
pub struct ErrList { pub o: u8 }
pub struct ConsistencyError { pub o: u8 }
// stored entry, key material, replication metadata as they appear in a backup: opaque
pub struct DbEntry { pub o: u64 }
pub struct KeyHandles { pub o: u64 }
pub struct DbReplMeta { pub o: u64 }
pub struct KeyHandleId { pub o: u8 } pub struct KeyHandle { pub o: u8 }
// In this unit `Vec` / `BTreeMap<KeyHandleId, KeyHandle>` are stand-ins (the function only moves them around)
#[verifier::external_body] #[verifier::accept_recursive_types(T)] pub struct Vec<T> { p: core::marker::PhantomData<T> }
impl<T> View for Vec<T> { type V = Seq<T>; uninterp spec fn view(&self) -> Seq<T>; }
impl<T> Vec<T> {
    #[verifier::external_body] pub fn len(&self) -> (r: usize) ensures r == self@.len() { unimplemented!() }
    #[verifier::external_body] pub fn is_empty(&self) -> (r: bool) ensures r == (self@.len() == 0) { unimplemented!() }
}
#[verifier::external_body] #[verifier::reject_recursive_types(K)] #[verifier::reject_recursive_types(V)] pub struct BTreeMap<K, V> { p: core::marker::PhantomData<(K, V)> }
//@extract DbBackup
//@extract BackupCompression
//@extract IdRawEntry
// the series string of this build (env!("KANIDM_PKG_SERIES")) and string comparison
pub uninterp spec fn pkg_series() -> Seq<char>;
#[verifier::external_body] pub fn kvx_pkg_series() -> (r: &'static str) ensures r@ == pkg_series() { unimplemented!() }
// String == &str / != (std: content comparison)
pub assume_specification<'a>[ <String as PartialEq<&'a str>>::ne ](a: &String, b: &&str) -> (r: bool) ensures r == (a@ != b@);
pub assume_specification<'a>[ <String as PartialEq<&'a str>>::eq ](a: &String, b: &&str) -> (r: bool) ensures r == (a@ == b@);
// reading and decoding the backup stream (serde_json, flate2): the decoded value is an uninterpreted function of (stream, compression)
pub trait KvxRead: Sized { spec fn content(&self) -> Seq<u8>; }
pub struct SerdeError { pub o: u8 }
pub struct GzDecoder<IN> { pub inner: IN }
impl<IN: KvxRead> KvxRead for GzDecoder<IN> { uninterp spec fn content(&self) -> Seq<u8>; }
pub uninterp spec fn json_decode(bytes: Seq<u8>) -> Option<DbBackup>;
#[verifier::external_body] pub fn kvx_from_reader<R: KvxRead>(r: R) -> (o: Result<DbBackup, SerdeError>) ensures o matches Ok(b) ==> json_decode(r.content()) == Some(b) { unimplemented!() }
#[verifier::external_body] pub fn kvx_gz<IN: KvxRead>(r: IN) -> (o: GzDecoder<IN>) ensures o.inner == r { unimplemented!() }
pub uninterp spec fn json_encode(e: DbEntry) -> Seq<u8>;
#[verifier::external_body] pub fn kvx_to_vec(e: &DbEntry) -> (o: Result<Vec<u8>, SerdeError>) ensures o matches Ok(v) ==> v@ == json_encode(*e) { unimplemented!() }
// ---- the statement (C13), restore side: a successful restore decoded a current-version backup and wrote exactly its identity ----
pub open spec fn decoded(bytes: Seq<u8>, c: BackupCompression, g: Seq<u8>) -> Option<DbBackup> { match c { BackupCompression::NoCompression => json_decode(bytes), BackupCompression::Gzip => json_decode(g) } }
pub open spec fn restored_ok(bytes: Seq<u8>, c: BackupCompression, be: &BackendWriteTransaction) -> bool {
    exists|b: DbBackup| #[trigger] is_current_backup(b) && (c is NoCompression ==> json_decode(bytes) == Some(b))
        && be.idlayer.s_uuid() == Some(b->V5_db_s_uuid) && be.idlayer.d_uuid() == Some(b->V5_db_d_uuid) && be.idlayer.ts_max() == Some(b->V5_db_ts_max)
        && be.idlayer.key_handles() == Some(b->V5_keyhandles) && be.ruv.restored_from() == Some(b->V5_repl_meta)
        && be.idlayer.raw().len() == b->V5_entries@.len()
        && (forall|i: int| 0 <= i < be.idlayer.raw().len() ==> (#[trigger] be.idlayer.raw()[i]).id == i + 1 && be.idlayer.raw()[i].data@ == json_encode(b->V5_entries@[i]))
        && be.idlayer.consistent()
}
// backup side: what is written is the encoding of a current-version backup holding the database's identity and its decoded rows
pub open spec fn backup_ok(be: &BackendWriteTransaction, c: BackupCompression, before: Seq<u8>, after: Seq<u8>) -> bool {
    exists|b: DbBackup| #[trigger] is_current_backup(b)
        && Some(b->V5_db_s_uuid) == be.idlayer.s_uuid() && Some(b->V5_db_d_uuid) == be.idlayer.d_uuid() && Some(b->V5_db_ts_max) == be.idlayer.ts_max()
        && Some(b->V5_keyhandles) == be.idlayer.key_handles() && b->V5_repl_meta == be.ruv.meta()
        && b->V5_entries@.len() == be.idlayer.raw().len()
        && (forall|i: int| 0 <= i < be.idlayer.raw().len() ==> entry_decode(be.idlayer.raw()[i].data@) == Some(#[trigger] b->V5_entries@[i]))
        && after == before + (match c { BackupCompression::NoCompression => backup_encode(b), BackupCompression::Gzip => gz(backup_encode(b)) })
}
// backups from any other server version (or the older formats, which carry none) are refused
pub open spec fn is_current_backup(b: DbBackup) -> bool { b is V5 && b->V5_version@ == pkg_series() }
// backup followed by restore (uncompressed stream), IF decoding inverts encoding (the serde round trip: hypothesis, not proved):
// the restored database carries the original's identity, change time, key handles and replication metadata, and as many rows
pub proof fn lemma_backup_then_restore(src: &BackendWriteTransaction, dst: &BackendWriteTransaction, bytes: Seq<u8>)
    requires forall|b: DbBackup| json_decode(#[trigger] backup_encode(b)) == Some(b),
             backup_ok(src, BackupCompression::NoCompression, Seq::<u8>::empty(), bytes),
             restored_ok(bytes, BackupCompression::NoCompression, dst),
    ensures dst.idlayer.s_uuid() == src.idlayer.s_uuid(), dst.idlayer.d_uuid() == src.idlayer.d_uuid(), dst.idlayer.ts_max() == src.idlayer.ts_max(),
            dst.idlayer.key_handles() == src.idlayer.key_handles(), dst.ruv.restored_from() == Some(src.ruv.meta()),
            dst.idlayer.raw().len() == src.idlayer.raw().len(), dst.idlayer.consistent(),
{
    let b1 = choose|b: DbBackup| #[trigger] is_current_backup(b)
        && Some(b->V5_db_s_uuid) == src.idlayer.s_uuid() && Some(b->V5_db_d_uuid) == src.idlayer.d_uuid() && Some(b->V5_db_ts_max) == src.idlayer.ts_max()
        && Some(b->V5_keyhandles) == src.idlayer.key_handles() && b->V5_repl_meta == src.ruv.meta()
        && b->V5_entries@.len() == src.idlayer.raw().len()
        && (forall|i: int| 0 <= i < src.idlayer.raw().len() ==> entry_decode(src.idlayer.raw()[i].data@) == Some(#[trigger] b->V5_entries@[i]))
        && bytes == Seq::<u8>::empty() + backup_encode(b);
    assert(bytes =~= backup_encode(b1));
    assert(json_decode(bytes) == Some(b1));
}
// ---- id layer and replication vector: what a restore writes ----
pub struct IdLayer { pub o: u8 }
impl IdLayer {
    pub uninterp spec fn s_uuid(&self) -> Option<Uuid>;
    pub uninterp spec fn d_uuid(&self) -> Option<Uuid>;
    pub uninterp spec fn ts_max(&self) -> Option<Duration>;
    pub uninterp spec fn key_handles(&self) -> Option<BTreeMap<KeyHandleId, KeyHandle>>;
    pub uninterp spec fn raw(&self) -> Seq<IdRawEntry>;
    pub uninterp spec fn consistent(&self) -> bool;                   // verify() finds nothing
    pub open spec fn same_but(&self, o: IdLayer, f: int) -> bool {
        (f == 0 || self.s_uuid() == o.s_uuid()) && (f == 1 || self.d_uuid() == o.d_uuid()) && (f == 2 || self.ts_max() == o.ts_max()) && (f == 3 || self.key_handles() == o.key_handles()) && (f == 4 || self.raw() == o.raw())
    }
    #[verifier::external_body] pub fn get_identry(&mut self, l: &IdList) -> (r: Result<std::vec::Vec<KvxStoredEntry>, OperationError>) ensures *final(self) == *old(self) { unimplemented!() }
    #[verifier::external_body] pub fn write_db_s_uuid(&mut self, u: Uuid) -> (r: Result<(), OperationError>) ensures final(self).same_but(*old(self), 0), r is Ok ==> final(self).s_uuid() == Some(u) { unimplemented!() }
    #[verifier::external_body] pub fn write_db_d_uuid(&mut self, u: Uuid) -> (r: Result<(), OperationError>) ensures final(self).same_but(*old(self), 1), r is Ok ==> final(self).d_uuid() == Some(u) { unimplemented!() }
    #[verifier::external_body] pub fn set_db_ts_max(&mut self, t: Duration) -> (r: Result<(), OperationError>) ensures final(self).same_but(*old(self), 2), r is Ok ==> final(self).ts_max() == Some(t) { unimplemented!() }
    #[verifier::external_body] pub fn set_key_handles(&mut self, k: BTreeMap<KeyHandleId, KeyHandle>) -> (r: Result<(), OperationError>) ensures final(self).same_but(*old(self), 3), r is Ok ==> final(self).key_handles() == Some(k) { unimplemented!() }
    #[verifier::external_body] pub fn write_identries_raw(&mut self, it: KvxIntoIter<IdRawEntry>) -> (r: Result<(), OperationError>) ensures final(self).same_but(*old(self), 4), r is Ok ==> final(self).raw() == old(self).raw() + it.seq() { unimplemented!() }
    #[verifier::external_body] pub fn verify(&mut self) -> (r: Vec<Result<(), ConsistencyError>>) ensures *final(self) == *old(self), (r@.len() == 0) == old(self).consistent() { unimplemented!() }
    // reading side (backup)
    #[verifier::external_body] pub fn get_identry_raw(&mut self, idl: &IdList) -> (r: Result<Vec<IdRawEntry>, OperationError>) ensures *final(self) == *old(self), r matches Ok(v) ==> v@ == old(self).raw() { unimplemented!() }
    #[verifier::external_body] pub fn get_db_s_uuid(&mut self) -> (r: Result<Option<Uuid>, OperationError>) ensures *final(self) == *old(self), r matches Ok(v) ==> v == old(self).s_uuid() { unimplemented!() }
    #[verifier::external_body] pub fn get_db_d_uuid(&mut self) -> (r: Result<Option<Uuid>, OperationError>) ensures *final(self) == *old(self), r matches Ok(v) ==> v == old(self).d_uuid() { unimplemented!() }
    #[verifier::external_body] pub fn get_db_ts_max(&mut self) -> (r: Result<Option<Duration>, OperationError>) ensures *final(self) == *old(self), r matches Ok(v) ==> v == old(self).ts_max() { unimplemented!() }
    #[verifier::external_body] pub fn get_key_handles(&mut self) -> (r: Result<BTreeMap<KeyHandleId, KeyHandle>, OperationError>) ensures *final(self) == *old(self), r matches Ok(v) ==> old(self).key_handles() == Some(v) { unimplemented!() }
}
pub enum IdList { AllIds, Other }
impl<T> Vec<T> { #[verifier::external_body] pub fn iter(&self) -> (r: KvxIter<'_, T>) ensures r.seq() == self@ { unimplemented!() }
                 #[verifier::external_body] pub fn as_slice(&self) -> (r: &Vec<T>) ensures *r == *self { unimplemented!() } }
#[verifier::external_body] #[verifier::reject_recursive_types(T)] pub struct KvxIter<'a, T> { p: core::marker::PhantomData<&'a T> }
impl<'a, T> KvxIter<'a, T> {
    pub uninterp spec fn seq(&self) -> Seq<T>;
    #[verifier::external_body] pub fn kvx_try_map_vec<U, E, F: Fn(&'a T) -> Result<U, E>>(self, f: F) -> (r: Result<Vec<U>, E>)
        requires forall|t: &T| #[trigger] f.requires((t,)),
        ensures r matches Ok(v) ==> (v@.len() == self.seq().len() && forall|i: int| 0 <= i < v@.len() ==> f.ensures((&self.seq()[i],), Ok(#[trigger] v@[i]))) { unimplemented!() }
}
pub uninterp spec fn entry_decode(bytes: Seq<u8>) -> Option<DbEntry>;
#[verifier::external_body] pub fn kvx_from_slice(d: &Vec<u8>) -> (o: Result<DbEntry, SerdeError>) ensures o matches Ok(e) ==> entry_decode(d@) == Some(e) { unimplemented!() }
pub uninterp spec fn backup_encode(b: DbBackup) -> Seq<u8>;
pub uninterp spec fn gz(b: Seq<u8>) -> Seq<u8>;
#[verifier::external_body] pub fn kvx_to_string(b: &DbBackup) -> (o: Result<String, SerdeError>) ensures o matches Ok(s) ==> s.as_bytes_spec() == backup_encode(*b) { unimplemented!() }
pub trait KvxStr { spec fn as_bytes_spec(&self) -> Seq<u8>; }
impl KvxStr for String { uninterp spec fn as_bytes_spec(&self) -> Seq<u8>; }
#[verifier::external_body] pub fn kvx_as_bytes(s: &String) -> (r: &Vec<u8>) ensures r@ == s.as_bytes_spec() { unimplemented!() }
#[verifier::external_body] pub fn kvx_series_string() -> (r: String) ensures r@ == pkg_series() { unimplemented!() }
// the output stream (std::io::Write) and the gzip encoder around it: they record what was written
pub struct IoError { pub o: u8 }
pub trait KvxWrite: Sized {
    spec fn written(&self) -> Seq<u8>;
    fn write(&mut self, b: &Vec<u8>) -> (r: Result<usize, IoError>) ensures r is Ok ==> final(self).written() == old(self).written() + b@;
    fn flush(&mut self) -> (r: Result<(), IoError>) ensures final(self).written() == old(self).written();
}
pub struct Compression { pub o: u8 }
impl Compression { pub fn best() -> (r: Compression) { Compression { o: 9 } } }
#[verifier::external_body] pub fn kvx_gz_write_all<OUT: KvxWrite>(out: &mut OUT, c: Compression, b: &Vec<u8>) -> (r: Result<(), IoError>)
    ensures r is Ok ==> final(out).written() == old(out).written() + gz(b@) { unimplemented!() }
#[verifier::external_body] #[verifier::reject_recursive_types(T)] pub struct KvxIntoIter<T> { p: core::marker::PhantomData<T> }
impl<T> KvxIntoIter<T> { pub uninterp spec fn seq(&self) -> Seq<T>; }
impl<T> Vec<T> { #[verifier::external_body] pub fn into_iter(self) -> (r: KvxIntoIter<T>) ensures r.seq() == self@ { unimplemented!() } }
// an entry read back from the id layer (opaque)
pub struct KvxStoredEntry { pub o: int }
pub struct Ruv { pub o: u8 }
impl Ruv {
    pub uninterp spec fn meta(&self) -> DbReplMeta;                  // the change ids the vector holds, in backup form
    #[verifier::external_body] pub fn to_db_backup_ruv(&self) -> (r: DbReplMeta) ensures r == self.meta() { unimplemented!() }
    pub uninterp spec fn restored_from(&self) -> Option<DbReplMeta>;
    // update_entry_changestate(e) inserts every change id of the entry's change state: after it the vector is no longer known to be
    // the restored one (nothing is assumed about what it then holds)
    #[verifier::external_body] pub fn update_entry_changestate(&mut self, e: &KvxStoredEntry) -> (r: Result<(), OperationError>) { unimplemented!() }
    #[verifier::external_body] pub fn kvx_restore_meta(&mut self, m: DbReplMeta) -> (r: Result<(), OperationError>) ensures r is Ok ==> final(self).restored_from() == Some(m) { unimplemented!() }
}
// dbentries.iter().map(step).collect::<Result<Vec<_>, _>>(): the step applied to every entry in order, threading the counter
#[verifier::external_body] pub fn kvx_number_entries(es: &Vec<DbEntry>, id_max: &mut u64) -> (r: Result<Vec<IdRawEntry>, OperationError>)
    requires *old(id_max) == 0,      // a Vec holds at most usize::MAX <= u64::MAX elements, so the counter cannot overflow
    ensures r matches Ok(v) ==> (v@.len() == es@.len() && *final(id_max) == *old(id_max) + es@.len()
              && forall|i: int| 0 <= i < v@.len() ==> (#[trigger] v@[i]).id == *old(id_max) + i + 1 && v@[i].data@ == json_encode(es@[i])) { unimplemented!() }
pub struct BackendWriteTransaction { pub idlayer: IdLayer, pub ruv: Ruv }
impl BackendWriteTransaction {
    pub fn get_idlayer(&mut self) -> (r: &mut IdLayer) ensures *r == old(self).idlayer, *final(r) == final(self).idlayer, final(self).ruv == old(self).ruv { &mut self.idlayer }
    pub fn get_ruv(&mut self) -> (r: &mut Ruv) ensures *r == old(self).ruv, *final(r) == final(self).ruv, final(self).idlayer == old(self).idlayer { &mut self.ruv }
    // wipes entries and indexes before the restore: the raw entry table is empty afterwards
    #[verifier::external_body] pub fn danger_delete_all_db_content(&mut self) -> (r: Result<(), OperationError>) ensures r is Ok ==> final(self).idlayer.raw() == Seq::<IdRawEntry>::empty() { unimplemented!() }
    pub fn verify(&mut self) -> (r: Vec<Result<(), ConsistencyError>>) ensures *final(self) == *old(self), (r@.len() == 0) == old(self).idlayer.consistent() { self.get_idlayer().verify() }
    #[verifier::external_body] pub fn kvx_errs(v: Vec<Result<(), ConsistencyError>>) -> (r: ErrList) { unimplemented!() }
//@extract restore
//@extract backup
}
//@extract entry_step
impl BackendWriteTransaction {
}
}
fn main(){}
