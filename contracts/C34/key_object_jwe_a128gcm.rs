use vstd::prelude::*;
use core::cmp::Ordering;
verus! {
//@include shims/duration.rs
//@include shims/duration_ops.rs
//@include shims/uuid.rs
//@include shims/kvx_btreemap.rs
//@include shims/keys_common.rs
//@extract InternalJweA128GCMStatus
//@extract InternalJweA128GCM
//@extract KeyObjectInternalJweA128GCM

// ---- specification from the statement of C34 ----
pub open spec fn revoked(k: InternalJweA128GCM) -> bool { k.status is Revoked }
pub open spec fn status_matches(k: InternalJweA128GCM, s: KeyStatus) -> bool {
    match s { KeyStatus::Valid => k.status is Valid, KeyStatus::Retained => k.status is Retained, KeyStatus::Revoked => k.status is Revoked }
}
// rotation / activation only inserts: every existing key is untouched, or (identifier collision) replaced by the new valid key
pub open spec fn only_inserts(old_all: Map<KeyId, InternalJweA128GCM>, new_all: Map<KeyId, InternalJweA128GCM>, vf: u64) -> bool {
    forall|j: KeyId| #[trigger] old_all.contains_key(j) ==> new_all.contains_key(j) && (new_all[j] == old_all[j] || (new_all[j].status is Valid && new_all[j].valid_from == vf))
}

//@extract KeyUsage
//@extract KeyInternalData
// der material is moved around opaquely
#[verifier::external_body] pub fn kvx_der<T>(x: &T) -> (r: Zeroizing<Vec<u8>>) { unimplemented!() }
#[verifier::external_body] pub fn kvx_der_empty() -> (r: Zeroizing<Vec<u8>>) { unimplemented!() }
// one element of to_key_iter: what is written to the key value set for one in-memory key (closure-converted, R5)
//@extract to_key_step
impl KeyObjectInternalJweA128GCM {
//@extract get_valid_cipher
//@extract assert_active
//@extract new_active
//@extract revoke
//@extract load
//@extract decipher
}
}
fn main(){}
