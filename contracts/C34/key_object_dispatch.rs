use vstd::prelude::*;
use core::cmp::Ordering;
use std::collections::BTreeSet;
use vstd::std_specs::iter::IteratorSpec;
verus! {
//@include shims/duration.rs
//@include shims/duration_ops.rs
//@include shims/uuid.rs
pub struct ConsistencyError { pub o: u8 }
pub struct SchemaError { pub o: u8 }
pub struct PluginError { pub o: u8 }
pub struct Attribute { pub o: u8 }
pub struct PasswordFeedback { pub o: u8 }
pub mod time { pub struct OffsetDateTime { pub o: u8 } }
//@extract OperationError
pub struct Cid { pub ts: Duration, pub s_uuid: Uuid }
// ---- the five key objects as opaque stand-ins carrying the contracts PROVED on their real text in the units key_object_* ----
// A key object is observed through: which key ids it stores as Revoked, and which key ids it stores at all.
// key ids are observed as their character sequences (the Borrow<str> lookup key of a revoke id / the kid of a token)

#[verifier::external_body] pub struct KeyObjectInternalJwtEs256 { p: u8 }
#[verifier::external_body] pub struct KeyObjectInternalJwtRs256 { p: u8 }
#[verifier::external_body] pub struct KeyObjectInternalJwtHs256 { p: u8 }
#[verifier::external_body] pub struct KeyObjectInternalJweA128GCM { p: u8 }
#[verifier::external_body] pub struct KeyObjectInternalHkdfS256 { p: u8 }
pub trait KObj { spec fn has(&self, k: Seq<char>) -> bool; spec fn is_revoked(&self, k: Seq<char>) -> bool; }
//@include contracts/C34/dispatch_standins.rs
pub struct JwsCompact { pub o: u8 }
pub struct Jws { pub o: u8 }
pub struct Jwe { pub o: u8 }
pub enum JwaAlg { ES256, RS256, HS256 }
pub enum JweAlg { A128KW, ECDHESA128KW, RSAOAEP }
pub enum JweEnc { A128GCM, A128CBCHS256 }
impl JwsCompact {
    pub uninterp spec fn kid_key(&self) -> Option<Seq<char>>;
    #[verifier::external_body] pub fn alg(&self) -> (r: JwaAlg) { unimplemented!() }
}
#[verifier::external_body] pub struct JweCompact { p: u8 }
impl JweCompact {
    pub uninterp spec fn kid_key(&self) -> Option<Seq<char>>;
    #[verifier::external_body] pub fn get_alg_enc(&self) -> (r: (JweAlg, JweEnc)) { unimplemented!() }
}
pub struct KeyProviderInternal { pub o: u8 }
pub struct Arc<T> { pub v: T }
//@extract KeyObjectInternal

// ---- specification from the statement of C34, at the level of the whole key object ----
pub open spec fn revoked_somewhere(o: &KeyObjectInternal, k: Seq<char>) -> bool {
    (o.jws_es256 matches Some(x) && x.is_revoked(k)) || (o.jws_rs256 matches Some(x) && x.is_revoked(k)) || (o.jws_hs256 matches Some(x) && x.is_revoked(k))
    || (o.jwe_a128gcm matches Some(x) && x.is_revoked(k)) || (o.hkdf_s256 matches Some(x) && x.is_revoked(k))
}
// revocations are never undone by rotation / revocation of other keys
pub open spec fn revocations_kept(a: &KeyObjectInternal, b: &KeyObjectInternal) -> bool {
    &&& (a.jws_es256 matches Some(x) ==> (b.jws_es256 matches Some(y) && forall|k: Seq<char>| #[trigger] x.is_revoked(k) ==> y.is_revoked(k)))
    &&& (a.jws_rs256 matches Some(x) ==> (b.jws_rs256 matches Some(y) && forall|k: Seq<char>| #[trigger] x.is_revoked(k) ==> y.is_revoked(k)))
    &&& (a.jws_hs256 matches Some(x) ==> (b.jws_hs256 matches Some(y) && forall|k: Seq<char>| #[trigger] x.is_revoked(k) ==> y.is_revoked(k)))
    &&& (a.jwe_a128gcm matches Some(x) ==> (b.jwe_a128gcm matches Some(y) && forall|k: Seq<char>| #[trigger] x.is_revoked(k) ==> y.is_revoked(k)))
    &&& (a.hkdf_s256 matches Some(x) ==> (b.hkdf_s256 matches Some(y) && forall|k: Seq<char>| #[trigger] x.is_revoked(k) ==> y.is_revoked(k)))
}
impl KeyObjectInternal {
//@extract rotate_keys
//@extract revoke_keys
//@extract jws_verify
//@extract jwe_decrypt
}
}
fn main(){}
