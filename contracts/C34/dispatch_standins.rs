impl KObj for KeyObjectInternalJwtEs256 { uninterp spec fn has(&self, k: Seq<char>) -> bool; uninterp spec fn is_revoked(&self, k: Seq<char>) -> bool; }
impl KeyObjectInternalJwtEs256 {
    // proved in unit key_object_*: new_active only inserts (a stored revocation is never undone)
    #[verifier::external_body] pub fn new_active(&mut self, valid_from: Duration, cid: &Cid) -> (r: Result<(), OperationError>)
        ensures forall|k: Seq<char>| #[trigger] old(self).is_revoked(k) ==> final(self).is_revoked(k) { unimplemented!() }
    // proved in unit key_object_*: revoke marks the key Revoked when it is stored; other keys are untouched; Ok(false) changes nothing
    #[verifier::external_body] pub fn revoke(&mut self, revoke_key_id: &str, cid: &Cid) -> (r: Result<bool, OperationError>)
        ensures r is Ok && old(self).has(revoke_key_id@) ==> final(self).is_revoked(revoke_key_id@),
                r matches Ok(true) ==> old(self).has(revoke_key_id@),
                forall|k: Seq<char>| #[trigger] old(self).is_revoked(k) ==> final(self).is_revoked(k) { unimplemented!() }
    // proved in unit key_object_*: a token whose key is unknown or Revoked is rejected
    #[verifier::external_body] pub fn verify(&self, t: &JwsCompact) -> (r: Result<Jws, OperationError>)
        ensures r is Ok ==> (t.kid_key() matches Some(k) && self.has(k) && !self.is_revoked(k)) { unimplemented!() }
}
impl KObj for KeyObjectInternalJwtRs256 { uninterp spec fn has(&self, k: Seq<char>) -> bool; uninterp spec fn is_revoked(&self, k: Seq<char>) -> bool; }
impl KeyObjectInternalJwtRs256 {
    // proved in unit key_object_*: new_active only inserts (a stored revocation is never undone)
    #[verifier::external_body] pub fn new_active(&mut self, valid_from: Duration, cid: &Cid) -> (r: Result<(), OperationError>)
        ensures forall|k: Seq<char>| #[trigger] old(self).is_revoked(k) ==> final(self).is_revoked(k) { unimplemented!() }
    // proved in unit key_object_*: revoke marks the key Revoked when it is stored; other keys are untouched; Ok(false) changes nothing
    #[verifier::external_body] pub fn revoke(&mut self, revoke_key_id: &str, cid: &Cid) -> (r: Result<bool, OperationError>)
        ensures r is Ok && old(self).has(revoke_key_id@) ==> final(self).is_revoked(revoke_key_id@),
                r matches Ok(true) ==> old(self).has(revoke_key_id@),
                forall|k: Seq<char>| #[trigger] old(self).is_revoked(k) ==> final(self).is_revoked(k) { unimplemented!() }
    // proved in unit key_object_*: a token whose key is unknown or Revoked is rejected
    #[verifier::external_body] pub fn verify(&self, t: &JwsCompact) -> (r: Result<Jws, OperationError>)
        ensures r is Ok ==> (t.kid_key() matches Some(k) && self.has(k) && !self.is_revoked(k)) { unimplemented!() }
}
impl KObj for KeyObjectInternalJwtHs256 { uninterp spec fn has(&self, k: Seq<char>) -> bool; uninterp spec fn is_revoked(&self, k: Seq<char>) -> bool; }
impl KeyObjectInternalJwtHs256 {
    // proved in unit key_object_*: new_active only inserts (a stored revocation is never undone)
    #[verifier::external_body] pub fn new_active(&mut self, valid_from: Duration, cid: &Cid) -> (r: Result<(), OperationError>)
        ensures forall|k: Seq<char>| #[trigger] old(self).is_revoked(k) ==> final(self).is_revoked(k) { unimplemented!() }
    // proved in unit key_object_*: revoke marks the key Revoked when it is stored; other keys are untouched; Ok(false) changes nothing
    #[verifier::external_body] pub fn revoke(&mut self, revoke_key_id: &str, cid: &Cid) -> (r: Result<bool, OperationError>)
        ensures r is Ok && old(self).has(revoke_key_id@) ==> final(self).is_revoked(revoke_key_id@),
                r matches Ok(true) ==> old(self).has(revoke_key_id@),
                forall|k: Seq<char>| #[trigger] old(self).is_revoked(k) ==> final(self).is_revoked(k) { unimplemented!() }
    // proved in unit key_object_*: a token whose key is unknown or Revoked is rejected
    #[verifier::external_body] pub fn verify(&self, t: &JwsCompact) -> (r: Result<Jws, OperationError>)
        ensures r is Ok ==> (t.kid_key() matches Some(k) && self.has(k) && !self.is_revoked(k)) { unimplemented!() }
}
impl KObj for KeyObjectInternalJweA128GCM { uninterp spec fn has(&self, k: Seq<char>) -> bool; uninterp spec fn is_revoked(&self, k: Seq<char>) -> bool; }
impl KeyObjectInternalJweA128GCM {
    // proved in unit key_object_*: new_active only inserts (a stored revocation is never undone)
    #[verifier::external_body] pub fn new_active(&mut self, valid_from: Duration, cid: &Cid) -> (r: Result<(), OperationError>)
        ensures forall|k: Seq<char>| #[trigger] old(self).is_revoked(k) ==> final(self).is_revoked(k) { unimplemented!() }
    // proved in unit key_object_*: revoke marks the key Revoked when it is stored; other keys are untouched; Ok(false) changes nothing
    #[verifier::external_body] pub fn revoke(&mut self, revoke_key_id: &str, cid: &Cid) -> (r: Result<bool, OperationError>)
        ensures r is Ok && old(self).has(revoke_key_id@) ==> final(self).is_revoked(revoke_key_id@),
                r matches Ok(true) ==> old(self).has(revoke_key_id@),
                forall|k: Seq<char>| #[trigger] old(self).is_revoked(k) ==> final(self).is_revoked(k) { unimplemented!() }
    // proved in unit key_object_*: a token whose key is unknown or Revoked is rejected
    #[verifier::external_body] pub fn decipher(&self, t: &JweCompact) -> (r: Result<Jwe, OperationError>)
        ensures r is Ok ==> (t.kid_key() matches Some(k) && self.has(k) && !self.is_revoked(k)) { unimplemented!() }
}
impl KObj for KeyObjectInternalHkdfS256 { uninterp spec fn has(&self, k: Seq<char>) -> bool; uninterp spec fn is_revoked(&self, k: Seq<char>) -> bool; }
impl KeyObjectInternalHkdfS256 {
    // proved in unit key_object_*: new_active only inserts (a stored revocation is never undone)
    #[verifier::external_body] pub fn new_active(&mut self, valid_from: Duration, cid: &Cid) -> (r: Result<(), OperationError>)
        ensures forall|k: Seq<char>| #[trigger] old(self).is_revoked(k) ==> final(self).is_revoked(k) { unimplemented!() }
    // proved in unit key_object_*: revoke marks the key Revoked when it is stored; other keys are untouched; Ok(false) changes nothing
    #[verifier::external_body] pub fn revoke(&mut self, revoke_key_id: &str, cid: &Cid) -> (r: Result<bool, OperationError>)
        ensures r is Ok && old(self).has(revoke_key_id@) ==> final(self).is_revoked(revoke_key_id@),
                r matches Ok(true) ==> old(self).has(revoke_key_id@),
                forall|k: Seq<char>| #[trigger] old(self).is_revoked(k) ==> final(self).is_revoked(k) { unimplemented!() }
}
