use vstd::prelude::*;
use core::num::NonZeroU8;
verus! {
//@include shims/filter_sem.rs

// ---- statement of C02: rewriting never changes which entries the filter matches ----
#[verifier::opaque]
pub open spec fn sem_eq(a: FilterResolved, b: FilterResolved) -> bool { forall|e: EntryView| sem(a, e) == sem(b, e) }
pub proof fn lemma_sem_eq_intro(a: FilterResolved, b: FilterResolved) requires forall|e: EntryView| sem(a, e) == sem(b, e) ensures sem_eq(a, b) { reveal(sem_eq); }
pub proof fn lemma_sem_eq_sym(a: FilterResolved, b: FilterResolved) requires sem_eq(a, b) ensures sem_eq(b, a) { reveal(sem_eq); }
pub open spec fn all_sem(l: Seq<FilterResolved>, e: EntryView) -> bool { forall|i: int| 0 <= i < l.len() ==> sem(#[trigger] l[i], e) }
pub open spec fn any_sem(l: Seq<FilterResolved>, e: EntryView) -> bool { exists|i: int| 0 <= i < l.len() && sem(#[trigger] l[i], e) }
// every element of a has a semantically equal element in b
#[verifier::opaque]
pub open spec fn has_sem_eq(x: FilterResolved, b: Seq<FilterResolved>) -> bool { exists|j: int| 0 <= j < b.len() && sem_eq(x, #[trigger] b[j]) }
pub open spec fn covered(a: Seq<FilterResolved>, b: Seq<FilterResolved>) -> bool {
    forall|i: int| 0 <= i < a.len() ==> has_sem_eq(#[trigger] a[i], b)
}
pub proof fn lemma_covered_all(a: Seq<FilterResolved>, b: Seq<FilterResolved>, e: EntryView)
    requires covered(a, b)
    ensures all_sem(b, e) ==> all_sem(a, e), any_sem(a, e) ==> any_sem(b, e)
{ reveal(sem_eq); reveal(has_sem_eq);
    if all_sem(b, e) {
        assert forall|i: int| 0 <= i < a.len() implies sem(#[trigger] a[i], e) by {
            assert(has_sem_eq(a[i], b));
            let j = choose|j: int| 0 <= j < b.len() && sem_eq(a[i], #[trigger] b[j]);
            assert(sem(b[j], e));
        }
    }
    if any_sem(a, e) {
        let i = choose|i: int| 0 <= i < a.len() && sem(#[trigger] a[i], e);
        assert(has_sem_eq(a[i], b));
        let j = choose|j: int| 0 <= j < b.len() && sem_eq(a[i], #[trigger] b[j]);
        assert(sem(b[j], e));
    }
}
pub proof fn lemma_and_sem(l: Vec<FilterResolved>, x: Option<NonZeroU8>, e: EntryView)
    ensures sem(FilterResolved::And(l, x), e) == all_sem(l@, e)
{
    reveal_with_fuel(sem, 2);
    let f = FilterResolved::And(l, x);
    assert(f matches FilterResolved::And(ll, _) && ll == l);
    assert(sem(f, e) == (forall|j: int| 0 <= j < l@.len() ==> sem(#[trigger] l@[j], e)));
}
pub proof fn lemma_or_sem(l: Vec<FilterResolved>, x: Option<NonZeroU8>, e: EntryView)
    ensures sem(FilterResolved::Or(l, x), e) == any_sem(l@, e)
{
    reveal_with_fuel(sem, 2);
    let f = FilterResolved::Or(l, x);
    assert(f matches FilterResolved::Or(ll, _) && ll == l);
    assert(sem(f, e) == (exists|j: int| 0 <= j < l@.len() && sem(#[trigger] l@[j], e)));
}

// ---- std adaptors used by optimise, redirected (R3) to stand-ins over sequences ----
// `v.iter().map(f).partition(g)`: one output per element (map), every output goes to exactly one side by the predicate (partition)
// — std documentation. The outputs are related to the inputs through a ghost relation P that the closure's CHECKED contract implies.
#[verifier::opaque]
pub open spec fn kvx_from_src<T, B>(src: Seq<T>, p: spec_fn(T, B) -> bool, o: B) -> bool { exists|j: int| 0 <= j < src.len() && p(#[trigger] src[j], o) }
#[verifier::opaque]
pub open spec fn kvx_into_parts<T, B>(p: spec_fn(T, B) -> bool, x: T, a: Seq<B>, b: Seq<B>) -> bool { exists|o: B| #[trigger] p(x, o) && (a.contains(o) || b.contains(o)) }
#[verifier::external_body] #[verifier::reject_recursive_types(T)] #[verifier::reject_recursive_types(B)] pub struct KvxMapped<T, B> { p: core::marker::PhantomData<(T, B)> }
impl<T, B> KvxMapped<T, B> {
    pub uninterp spec fn src(&self) -> Seq<T>;
    pub uninterp spec fn rel(&self) -> spec_fn(T, B) -> bool;
    #[verifier::external_body] pub fn partition<G: Fn(&B) -> bool>(self, g: G) -> (r: (Vec<B>, Vec<B>))
        requires forall|o: B| #[trigger] g.requires((&o,))
        ensures forall|i: int| 0 <= i < r.0@.len() ==> g.ensures((&#[trigger] r.0@[i],), true) && kvx_from_src(self.src(), self.rel(), r.0@[i]),
                forall|i: int| 0 <= i < r.1@.len() ==> g.ensures((&#[trigger] r.1@[i],), false) && kvx_from_src(self.src(), self.rel(), r.1@[i]),
                forall|j: int| 0 <= j < self.src().len() ==> kvx_into_parts(self.rel(), #[trigger] self.src()[j], r.0@, r.1@) { unimplemented!() }
}
// `.filter(p)` between map and partition: some of the mapped elements (which ones is the predicate's business) — the parts then
// still come from the source, but nothing says every source element is represented
#[verifier::external_body] #[verifier::reject_recursive_types(T)] #[verifier::reject_recursive_types(B)] pub struct KvxFiltered<T, B> { p: core::marker::PhantomData<(T, B)> }
impl<T, B> KvxFiltered<T, B> {
    pub uninterp spec fn src(&self) -> Seq<T>;
    pub uninterp spec fn rel(&self) -> spec_fn(T, B) -> bool;
    #[verifier::external_body] pub fn partition<G: Fn(&B) -> bool>(self, g: G) -> (r: (Vec<B>, Vec<B>))
        requires forall|o: B| #[trigger] g.requires((&o,))
        ensures forall|i: int| 0 <= i < r.0@.len() ==> g.ensures((&#[trigger] r.0@[i],), true) && kvx_from_src(self.src(), self.rel(), r.0@[i]),
                forall|i: int| 0 <= i < r.1@.len() ==> g.ensures((&#[trigger] r.1@[i],), false) && kvx_from_src(self.src(), self.rel(), r.1@[i]) { unimplemented!() }
}
impl<T, B> KvxMapped<T, B> {
    #[verifier::external_body] pub fn filter<P: Fn(&B) -> bool>(self, p: P) -> (r: KvxFiltered<T, B>) ensures r.src() == self.src(), r.rel() == self.rel() { unimplemented!() }
}
#[verifier::external_body] pub fn kvx_map_vec<T, B, F: Fn(&T) -> B>(v: &Vec<T>, p: Ghost<spec_fn(T, B) -> bool>, f: F) -> (r: KvxMapped<T, B>)
    requires forall|i: int| 0 <= i < v@.len() ==> f.requires((&#[trigger] v@[i],)),
             forall|x: &T, o: B| #[trigger] f.ensures((x,), o) ==> p@(*x, o),
    ensures r.src() == v@, r.rel() == p@ { unimplemented!() }
// sort_unstable / sort_unstable_by: a permutation of the elements, whatever the comparator (std documentation)
#[verifier::external_body] pub fn kvx_sort<T>(v: &mut Vec<T>)
    ensures final(v)@.len() == old(v)@.len(), forall|x: T| final(v)@.contains(x) <==> old(v)@.contains(x) { unimplemented!() }

// Vec::dedup (PartialEq): an element is removed only if an equal element (by FilterResolved's PartialEq) is kept, nothing is added
pub open spec fn fr_eq(a: FilterResolved, b: FilterResolved) -> bool
    decreases a
{
    match (a, b) {
        (FilterResolved::Eq(a1, v1, _), FilterResolved::Eq(a2, v2, _)) => a1 == a2 && v1 == v2,
        (FilterResolved::Cnt(a1, v1, _), FilterResolved::Cnt(a2, v2, _)) => a1 == a2 && v1 == v2,
        (FilterResolved::Pres(a1, _), FilterResolved::Pres(a2, _)) => a1 == a2,
        (FilterResolved::LessThan(a1, v1, _), FilterResolved::LessThan(a2, v2, _)) => a1 == a2 && v1 == v2,
        (FilterResolved::And(vs1, _), FilterResolved::And(vs2, _)) => vs1@.len() == vs2@.len() && forall|i: int| 0 <= i < vs1@.len() ==> fr_eq(#[trigger] vs1@[i], vs2@[i]),
        (FilterResolved::Or(vs1, _), FilterResolved::Or(vs2, _)) => vs1@.len() == vs2@.len() && forall|i: int| 0 <= i < vs1@.len() ==> fr_eq(#[trigger] vs1@[i], vs2@[i]),
        (FilterResolved::Inclusion(vs1, _), FilterResolved::Inclusion(vs2, _)) => vs1@.len() == vs2@.len() && forall|i: int| 0 <= i < vs1@.len() ==> fr_eq(#[trigger] vs1@[i], vs2@[i]),
        (FilterResolved::AndNot(f1, _), FilterResolved::AndNot(f2, _)) => fr_eq(*f1, *f2),
        (_, _) => false,
    }
}
#[verifier::external_body] pub fn kvx_dedup(v: &mut Vec<FilterResolved>)
    ensures forall|i: int| 0 <= i < final(v)@.len() ==> old(v)@.contains(#[trigger] final(v)@[i]),
            forall|i: int| 0 <= i < old(v)@.len() ==> exists|j: int| 0 <= j < final(v)@.len() && (final(v)@[j] == #[trigger] old(v)@[i] || fr_eq(final(v)@[j], old(v)@[i])),
            old(v)@.len() > 0 ==> final(v)@.len() > 0, final(v)@.len() <= old(v)@.len() { unimplemented!() }
pub proof fn lemma_fr_eq_sem(a: FilterResolved, b: FilterResolved)
    requires fr_eq(a, b)
    ensures sem_eq(a, b)
    decreases a
{ reveal(sem_eq);
    match (a, b) {
        (FilterResolved::And(vs1, x1), FilterResolved::And(vs2, x2)) => {
            assert forall|e: EntryView| sem(a, e) == sem(b, e) by {
                lemma_and_sem(vs1, x1, e); lemma_and_sem(vs2, x2, e);
                assert forall|i: int| 0 <= i < vs1@.len() implies sem(#[trigger] vs1@[i], e) == sem(vs2@[i], e) by { lemma_fr_eq_sem(vs1@[i], vs2@[i]); }
                if all_sem(vs1@, e) { assert forall|j: int| 0 <= j < vs2@.len() implies sem(#[trigger] vs2@[j], e) by { assert(sem(vs1@[j], e)); } }
                if all_sem(vs2@, e) { assert forall|j: int| 0 <= j < vs1@.len() implies sem(#[trigger] vs1@[j], e) by { assert(sem(vs2@[j], e)); } }
            }
        }
        (FilterResolved::Or(vs1, x1), FilterResolved::Or(vs2, x2)) => {
            assert forall|e: EntryView| sem(a, e) == sem(b, e) by {
                lemma_or_sem(vs1, x1, e); lemma_or_sem(vs2, x2, e);
                assert forall|i: int| 0 <= i < vs1@.len() implies sem(#[trigger] vs1@[i], e) == sem(vs2@[i], e) by { lemma_fr_eq_sem(vs1@[i], vs2@[i]); }
                if any_sem(vs1@, e) { let j = choose|j: int| 0 <= j < vs1@.len() && sem(#[trigger] vs1@[j], e); assert(sem(vs2@[j], e)); }
                if any_sem(vs2@, e) { let j = choose|j: int| 0 <= j < vs2@.len() && sem(#[trigger] vs2@[j], e); assert(sem(vs1@[j], e)); }
            }
        }
        (FilterResolved::AndNot(f1, _), FilterResolved::AndNot(f2, _)) => {
            lemma_fr_eq_sem(*f1, *f2);
            assert forall|e: EntryView| sem(a, e) == sem(b, e) by { assert(sem(a, e) == !sem(*f1, e)); assert(sem(b, e) == !sem(*f2, e)); }
        }
        (FilterResolved::Eq(a1, v1, _), FilterResolved::Eq(a2, v2, _)) => { assert forall|e: EntryView| sem(a, e) == sem(b, e) by { assert(sem(a, e) == leaf_eq(a1, v1, e)); assert(sem(b, e) == leaf_eq(a2, v2, e)); } }
        (FilterResolved::Cnt(a1, v1, _), FilterResolved::Cnt(a2, v2, _)) => { assert forall|e: EntryView| sem(a, e) == sem(b, e) by { assert(sem(a, e) == leaf_cnt(a1, v1, e)); assert(sem(b, e) == leaf_cnt(a2, v2, e)); } }
        (FilterResolved::Pres(a1, _), FilterResolved::Pres(a2, _)) => { assert forall|e: EntryView| sem(a, e) == sem(b, e) by { assert(sem(a, e) == leaf_pres(a1, e)); assert(sem(b, e) == leaf_pres(a2, e)); } }
        (FilterResolved::LessThan(a1, v1, _), FilterResolved::LessThan(a2, v2, _)) => { assert forall|e: EntryView| sem(a, e) == sem(b, e) by { assert(sem(a, e) == leaf_lt(a1, v1, e)); assert(sem(b, e) == leaf_lt(a2, v2, e)); } }
        (FilterResolved::Inclusion(_, _), FilterResolved::Inclusion(_, _)) => { assert forall|e: EntryView| sem(a, e) == sem(b, e) by { assert(!sem(a, e)); assert(!sem(b, e)); } }
        _ => { assert(!fr_eq(a, b)); }
    }
}
// all_sem / any_sem only depend on the elements up to semantic equality
pub proof fn lemma_covered_both(a: Seq<FilterResolved>, b: Seq<FilterResolved>)
    requires covered(a, b), covered(b, a)
    ensures forall|e: EntryView| all_sem(a, e) == all_sem(b, e), forall|e: EntryView| any_sem(a, e) == any_sem(b, e)
{
    assert forall|e: EntryView| all_sem(a, e) == all_sem(b, e) && any_sem(a, e) == any_sem(b, e) by {
        lemma_covered_all(a, b, e); lemma_covered_all(b, a, e);
    }
}
pub proof fn lemma_sem_eq_refl(a: FilterResolved) ensures sem_eq(a, a) { reveal(sem_eq);}
// sort: same elements
pub proof fn lemma_same_elems_covered(a: Seq<FilterResolved>, b: Seq<FilterResolved>)
    requires forall|x: FilterResolved| a.contains(x) <==> b.contains(x)
    ensures covered(a, b), covered(b, a)
{ reveal(sem_eq); reveal(has_sem_eq);
    assert forall|i: int| 0 <= i < a.len() implies has_sem_eq(#[trigger] a[i], b) by {
        assert(a.contains(a[i])); assert(b.contains(a[i]));
        let j = choose|j: int| 0 <= j < b.len() && b[j] == a[i];
        assert(sem_eq(a[i], b[j]));
    }
    assert forall|i: int| 0 <= i < b.len() implies has_sem_eq(#[trigger] b[i], a) by {
        assert(b.contains(b[i])); assert(a.contains(b[i]));
        let j = choose|j: int| 0 <= j < a.len() && a[j] == b[i];
        assert(sem_eq(b[i], a[j]));
    }
}
// dedup: removed elements have an equal (hence semantically equal) kept element
pub proof fn lemma_dedup_covered(o: Seq<FilterResolved>, n: Seq<FilterResolved>)
    requires forall|i: int| 0 <= i < n.len() ==> o.contains(#[trigger] n[i]),
             forall|i: int| 0 <= i < o.len() ==> exists|j: int| 0 <= j < n.len() && (n[j] == #[trigger] o[i] || fr_eq(n[j], o[i])),
    ensures covered(o, n), covered(n, o)
{ reveal(sem_eq); reveal(has_sem_eq);
    assert forall|i: int| 0 <= i < o.len() implies has_sem_eq(#[trigger] o[i], n) by {
        let j = choose|j: int| 0 <= j < n.len() && (n[j] == o[i] || fr_eq(n[j], o[i]));
        if n[j] != o[i] { lemma_fr_eq_sem(n[j], o[i]); }
        assert(sem_eq(o[i], n[j]));
    }
    assert forall|i: int| 0 <= i < n.len() implies has_sem_eq(#[trigger] n[i], o) by {
        assert(o.contains(n[i]));
        let j = choose|j: int| 0 <= j < o.len() && o[j] == n[i];
        assert(sem_eq(n[i], o[j]));
    }
}
// what map + partition establish, stated over the named vectors (sel: the same-kind nested groups; rest: the other terms)
pub open spec fn rel_ok(p: spec_fn(FilterResolved, FilterResolved) -> bool) -> bool { forall|x: FilterResolved, o: FilterResolved| #[trigger] p(x, o) ==> sem_eq(o, x) }
pub open spec fn split_raw(p: spec_fn(FilterResolved, FilterResolved) -> bool, fl: Seq<FilterResolved>, sel: Seq<FilterResolved>, rest: Seq<FilterResolved>) -> bool {
    &&& forall|i: int| 0 <= i < sel.len() ==> kvx_from_src(fl, p, #[trigger] sel[i])
    &&& forall|i: int| 0 <= i < rest.len() ==> kvx_from_src(fl, p, #[trigger] rest[i])
    &&& forall|j: int| 0 <= j < fl.len() ==> kvx_into_parts(p, #[trigger] fl[j], sel, rest)
}
pub open spec fn split_of(fl: Seq<FilterResolved>, sel: Seq<FilterResolved>, rest: Seq<FilterResolved>) -> bool {
    &&& forall|i: int| 0 <= i < sel.len() ==> has_sem_eq(#[trigger] sel[i], fl)
    &&& forall|i: int| 0 <= i < rest.len() ==> has_sem_eq(#[trigger] rest[i], fl)
    &&& forall|j: int| 0 <= j < fl.len() ==> has_sem_eq(#[trigger] fl[j], sel) || has_sem_eq(fl[j], rest)
}
pub proof fn lemma_split(p: spec_fn(FilterResolved, FilterResolved) -> bool, fl: Seq<FilterResolved>, sel: Seq<FilterResolved>, rest: Seq<FilterResolved>)
    requires rel_ok(p), split_raw(p, fl, sel, rest)
    ensures split_of(fl, sel, rest)
{ reveal(sem_eq); reveal(has_sem_eq); reveal(kvx_from_src); reveal(kvx_into_parts);
    assert forall|i: int| 0 <= i < sel.len() implies has_sem_eq(#[trigger] sel[i], fl) by {
        assert(kvx_from_src(fl, p, sel[i]));
        let j = choose|j: int| 0 <= j < fl.len() && p(#[trigger] fl[j], sel[i]);
        assert(sem_eq(sel[i], fl[j]));
    }
    assert forall|i: int| 0 <= i < rest.len() implies has_sem_eq(#[trigger] rest[i], fl) by {
        assert(kvx_from_src(fl, p, rest[i]));
        let j = choose|j: int| 0 <= j < fl.len() && p(#[trigger] fl[j], rest[i]);
        assert(sem_eq(rest[i], fl[j]));
    }
    assert forall|j: int| 0 <= j < fl.len() implies has_sem_eq(#[trigger] fl[j], sel) || has_sem_eq(fl[j], rest) by {
        assert(kvx_into_parts(p, fl[j], sel, rest));
        let o = choose|o: FilterResolved| #[trigger] p(fl[j], o) && (sel.contains(o) || rest.contains(o));
        assert(sem_eq(o, fl[j]));
        if sel.contains(o) { let i = choose|i: int| 0 <= i < sel.len() && sel[i] == o; assert(sem_eq(fl[j], sel[i])); }
        else { let i = choose|i: int| 0 <= i < rest.len() && rest[i] == o; assert(sem_eq(fl[j], rest[i])); }
    }
}
// And: folding the terms of nested Ands into the list keeps the conjunction
pub proof fn lemma_and_flatten(fl: Seq<FilterResolved>, sel: Seq<FilterResolved>, rest: Seq<FilterResolved>, n1: Seq<FilterResolved>)
    requires split_of(fl, sel, rest), forall|i: int| 0 <= i < sel.len() ==> (#[trigger] sel[i]) is And,
        forall|x: FilterResolved| n1.contains(x) <==> (rest.contains(x) || exists|i: int| 0 <= i < sel.len() && inner_and(#[trigger] sel[i]).contains(x)),
    ensures forall|e: EntryView| all_sem(fl, e) == all_sem(n1, e)
{ reveal(sem_eq); reveal(has_sem_eq);
    assert forall|e: EntryView| all_sem(fl, e) == all_sem(n1, e) by {
        if all_sem(fl, e) {
            assert forall|k: int| 0 <= k < n1.len() implies sem(#[trigger] n1[k], e) by {
                assert(n1.contains(n1[k]));
                if rest.contains(n1[k]) {
                    let i = choose|i: int| 0 <= i < rest.len() && rest[i] == n1[k];
                    assert(has_sem_eq(rest[i], fl));
                    let j = choose|j: int| 0 <= j < fl.len() && sem_eq(rest[i], #[trigger] fl[j]);
                    assert(sem(fl[j], e));
                } else {
                    let i = choose|i: int| 0 <= i < sel.len() && inner_and(#[trigger] sel[i]).contains(n1[k]);
                    assert(has_sem_eq(sel[i], fl));
                    let j = choose|j: int| 0 <= j < fl.len() && sem_eq(sel[i], #[trigger] fl[j]);
                    assert(sem(fl[j], e)); assert(sem(sel[i], e));
                    match sel[i] { FilterResolved::And(l, x) => {
                        lemma_and_sem(l, x, e);
                        let q = choose|q: int| 0 <= q < l@.len() && l@[q] == n1[k];
                        assert(sem(l@[q], e));
                    } _ => {} }
                }
            }
        }
        if all_sem(n1, e) {
            assert forall|j: int| 0 <= j < fl.len() implies sem(#[trigger] fl[j], e) by {
                if has_sem_eq(fl[j], rest) {
                    let i = choose|i: int| 0 <= i < rest.len() && sem_eq(fl[j], #[trigger] rest[i]);
                    assert(n1.contains(rest[i]));
                    let k = choose|k: int| 0 <= k < n1.len() && n1[k] == rest[i];
                    assert(sem(n1[k], e));
                } else {
                    assert(has_sem_eq(fl[j], sel));
                    let i = choose|i: int| 0 <= i < sel.len() && sem_eq(fl[j], #[trigger] sel[i]);
                    lemma_sel_and(sel[i], n1, e);
                }
            }
        }
    }
}
// a selected term (an And, by the partition predicate) holds when all of n1 hold and n1 contains its inner terms
pub proof fn lemma_sel_and(s: FilterResolved, n1: Seq<FilterResolved>, e: EntryView)
    requires s is And, all_sem(n1, e), forall|x: FilterResolved| inner_and(s).contains(x) ==> n1.contains(x)
    ensures sem(s, e)
{
    match s { FilterResolved::And(l, x) => {
        lemma_and_sem(l, x, e);
        assert forall|t: int| 0 <= t < l@.len() implies sem(#[trigger] l@[t], e) by {
            assert(inner_and(s).contains(l@[t]));
            assert(n1.contains(l@[t]));
            let k = choose|k: int| 0 <= k < n1.len() && n1[k] == l@[t];
            assert(sem(n1[k], e));
        }
    } _ => {} }
}
// Or: folding the terms of nested Ors into the list keeps the disjunction
pub proof fn lemma_or_flatten(fl: Seq<FilterResolved>, sel: Seq<FilterResolved>, rest: Seq<FilterResolved>, n1: Seq<FilterResolved>)
    requires split_of(fl, sel, rest), forall|i: int| 0 <= i < sel.len() ==> (#[trigger] sel[i]) is Or,
        forall|x: FilterResolved| n1.contains(x) <==> (rest.contains(x) || exists|i: int| 0 <= i < sel.len() && inner_or(#[trigger] sel[i]).contains(x)),
    ensures forall|e: EntryView| any_sem(fl, e) == any_sem(n1, e)
{ reveal(sem_eq); reveal(has_sem_eq);
    assert forall|e: EntryView| any_sem(fl, e) == any_sem(n1, e) by {
        if any_sem(fl, e) {
            let j = choose|j: int| 0 <= j < fl.len() && sem(#[trigger] fl[j], e);
            if has_sem_eq(fl[j], rest) {
                let i = choose|i: int| 0 <= i < rest.len() && sem_eq(fl[j], #[trigger] rest[i]);
                assert(n1.contains(rest[i]));
                let k = choose|k: int| 0 <= k < n1.len() && n1[k] == rest[i];
                assert(sem(n1[k], e));
            } else {
                assert(has_sem_eq(fl[j], sel));
                let i = choose|i: int| 0 <= i < sel.len() && sem_eq(fl[j], #[trigger] sel[i]);
                assert(sem(sel[i], e));
                match sel[i] { FilterResolved::Or(l, x) => {
                    lemma_or_sem(l, x, e);
                    let t = choose|t: int| 0 <= t < l@.len() && sem(#[trigger] l@[t], e);
                    assert(inner_or(sel[i]).contains(l@[t]));
                    assert(n1.contains(l@[t]));
                    let k = choose|k: int| 0 <= k < n1.len() && n1[k] == l@[t];
                    assert(sem(n1[k], e));
                } _ => { } }
            }
        }
        if any_sem(n1, e) {
            let k = choose|k: int| 0 <= k < n1.len() && sem(#[trigger] n1[k], e);
            assert(n1.contains(n1[k]));
            if rest.contains(n1[k]) {
                let i = choose|i: int| 0 <= i < rest.len() && rest[i] == n1[k];
                assert(has_sem_eq(rest[i], fl));
                let j = choose|j: int| 0 <= j < fl.len() && sem_eq(rest[i], #[trigger] fl[j]);
                assert(sem(fl[j], e));
            } else {
                let i = choose|i: int| 0 <= i < sel.len() && inner_or(#[trigger] sel[i]).contains(n1[k]);
                assert(has_sem_eq(sel[i], fl));
                match sel[i] { FilterResolved::Or(l, x) => {
                    lemma_or_sem(l, x, e);
                    let q = choose|q: int| 0 <= q < l@.len() && l@[q] == n1[k];
                    assert(sem(l@[q], e));
                    assert(sem(sel[i], e));
                } _ => { } }
                let j = choose|j: int| 0 <= j < fl.len() && sem_eq(sel[i], #[trigger] fl[j]);
                assert(sem(fl[j], e));
            }
        }
    }
}
// the three fold closures of optimise (R5): append the inner terms of a same-kind nested group
pub open spec fn inner_and(fc: FilterResolved) -> Seq<FilterResolved> { match fc { FilterResolved::And(l, _) => l@, _ => Seq::empty() } }
pub open spec fn inner_or(fc: FilterResolved) -> Seq<FilterResolved> { match fc { FilterResolved::Or(l, _) => l@, _ => Seq::empty() } }
pub open spec fn inner_inc(fc: FilterResolved) -> Seq<FilterResolved> { match fc { FilterResolved::Inclusion(l, _) => l@, _ => Seq::empty() } }
//@extract fold_inc_step
//@extract fold_and_step
//@extract fold_or_step
// `v.into_iter().for_each(step)`: the step applied to every element in order (std documentation); the steps' contracts are the ones
// proved for fold_*_step above, so the target ends with its old elements plus the inner terms of every element
#[verifier::external_body] pub fn kvx_fold_and(v: Vec<FilterResolved>, t: &mut Vec<FilterResolved>)
    ensures forall|x: FilterResolved| final(t)@.contains(x) <==> (old(t)@.contains(x) || exists|i: int| 0 <= i < v@.len() && inner_and(#[trigger] v@[i]).contains(x)) { unimplemented!() }
#[verifier::external_body] pub fn kvx_fold_or(v: Vec<FilterResolved>, t: &mut Vec<FilterResolved>)
    ensures forall|x: FilterResolved| final(t)@.contains(x) <==> (old(t)@.contains(x) || exists|i: int| 0 <= i < v@.len() && inner_or(#[trigger] v@[i]).contains(x)) { unimplemented!() }
#[verifier::external_body] pub fn kvx_fold_inc(v: Vec<FilterResolved>, t: &mut Vec<FilterResolved>)
    ensures forall|x: FilterResolved| final(t)@.contains(x) <==> (old(t)@.contains(x) || exists|i: int| 0 <= i < v@.len() && inner_inc(#[trigger] v@[i]).contains(x)) { unimplemented!() }

impl FilterResolved {
    // derived Clone: an equal value (ASSUMED)
    #[verifier::external_body] pub fn clone(&self) -> (r: FilterResolved) ensures r == *self { unimplemented!() }
//@extract get_slopeyness_factor
//@extract optimise
//@extract fast_optimise
}
// ---- PartialEq for FilterResolved: the relation Vec::dedup uses ----
// opaque leaf types: derived / structural PartialEq, an equal answer means the same value (ASSUMED)
impl Attribute { #[verifier::external_body] pub fn eq(&self, o: &Attribute) -> (r: bool) ensures r == (*self == *o) { unimplemented!() } }
impl PartialValue { #[verifier::external_body] pub fn eq(&self, o: &PartialValue) -> (r: bool) ensures r == (*self == *o) { unimplemented!() } }
// `vs1 == vs2` on Vec<FilterResolved> / Box<FilterResolved>: element-wise FilterResolved::eq (std); the element contract is the one being proved
#[verifier::external_body] pub fn kvx_vec_eq(a: &Vec<FilterResolved>, b: &Vec<FilterResolved>) -> (r: bool)
    ensures r == (a@.len() == b@.len() && forall|i: int| 0 <= i < a@.len() ==> fr_eq(#[trigger] a@[i], b@[i])) { unimplemented!() }
#[verifier::external_body] pub fn kvx_box_eq(a: &Box<FilterResolved>, b: &Box<FilterResolved>) -> (r: bool)
    ensures r == fr_eq(**a, **b) { unimplemented!() }
impl FilterResolved {
//@extract fr_partial_eq
}
}
fn main(){}
