use vstd::prelude::*;
use core::cmp::Ordering;
verus! {
//@include shims/uuid.rs
pub enum OperationError { Backend, InvalidState }
// ---- opaque operands of the plugin hooks ----
pub struct EntryInvalid; pub struct EntryNew; pub struct EntrySealed; pub struct EntryCommitted;
#[verifier::reject_recursive_types(A)] #[verifier::reject_recursive_types(B)] pub struct Entry<A, B> { pub o: int, pub p: core::marker::PhantomData<(A, B)> }
pub type EntrySealedCommitted = Entry<EntrySealed, EntryCommitted>;
pub type EntryInvalidCommitted = Entry<EntryInvalid, EntryCommitted>;
pub struct EntryRefresh; pub type EntryRefreshNew = Entry<EntryRefresh, EntryNew>;
pub struct Arc<T> { pub v: T }
#[verifier::external_body] #[verifier::reject_recursive_types(T)] pub struct BTreeSet<T> { p: core::marker::PhantomData<T> }
pub struct CreateEvent { pub o: u8 } pub struct ModifyEvent { pub o: u8 } pub struct BatchModifyEvent { pub o: u8 } pub struct DeleteEvent { pub o: u8 }
// the write transaction, with a ghost record of the plugin hooks that ran in it: how many ran so far, and for each plugin (code
// below) the position at which it last ran
pub struct QueryServerWriteTransaction { pub o: int }
impl QueryServerWriteTransaction { pub uninterp spec fn count(&self) -> int; pub uninterp spec fn pos(&self, p: int) -> int; }

pub open spec fn P_BASE() -> int { 0 }
pub open spec fn P_VALUEDENY() -> int { 1 }
pub open spec fn P_OAUTH2() -> int { 2 }
pub open spec fn P_ECKEYGEN() -> int { 3 }
pub open spec fn P_KEYOBJECT() -> int { 4 }
pub open spec fn P_CRED_IMPORT() -> int { 5 }
pub open spec fn P_GIDNUMBER() -> int { 6 }
pub open spec fn P_DOMAIN() -> int { 7 }
pub open spec fn P_SPN() -> int { 8 }
pub open spec fn P_DEFAULT_VALUES() -> int { 9 }
pub open spec fn P_NAMEHISTORY() -> int { 10 }
pub open spec fn P_HMAC_NAME_UNIQUE() -> int { 11 }
pub open spec fn P_ATTRUNIQUE() -> int { 12 }
pub open spec fn P_REFINT() -> int { 13 }
pub open spec fn P_MEMBEROF() -> int { 14 }
pub open spec fn P_SESSION() -> int { 15 }
// hook_ran(o, n, p): between states o and n exactly one more hook ran, that of plugin p
pub open spec fn hook_ran(o: QueryServerWriteTransaction, n: QueryServerWriteTransaction, p: int) -> bool {
    n.count() == o.count() + 1 && n.pos(p) == o.count() && forall|q: int| q != p ==> #[trigger] n.pos(q) == o.pos(q)
}
// between o and n (one dispatcher): plugin p ran / ran last / ran first / p ran before q
pub open spec fn ran_p(o: QueryServerWriteTransaction, n: QueryServerWriteTransaction, p: int) -> bool { o.count() <= n.pos(p) < n.count() }
pub open spec fn ran_last(o: QueryServerWriteTransaction, n: QueryServerWriteTransaction, p: int) -> bool { o.count() <= n.pos(p) && n.pos(p) == n.count() - 1 }
pub open spec fn ran_first(o: QueryServerWriteTransaction, n: QueryServerWriteTransaction, p: int) -> bool { n.pos(p) == o.count() && o.count() < n.count() }
pub open spec fn ran_before(o: QueryServerWriteTransaction, n: QueryServerWriteTransaction, p: int, q: int) -> bool { o.count() <= n.pos(p) < n.pos(q) < n.count() }
// ---- one stand-in per plugin hook the dispatchers call: it runs (a successful hook is logged; a failing one ends the dispatcher) ----
pub mod base { use super::*; pub struct Base; impl Base {
    #[verifier::external_body] pub fn pre_create_transform(qs: &mut QueryServerWriteTransaction, cand: &mut Vec<Entry<EntryInvalid, EntryNew>>, ce: &CreateEvent) -> (r: Result<(), OperationError>)
        ensures r is Ok ==> hook_ran(*old(qs), *final(qs), P_BASE()) { unimplemented!() }
    #[verifier::external_body] pub fn pre_modify(qs: &mut QueryServerWriteTransaction, pre_cand: &[Arc<EntrySealedCommitted>], cand: &mut Vec<Entry<EntryInvalid, EntryCommitted>>, me: &ModifyEvent) -> (r: Result<(), OperationError>)
        ensures r is Ok ==> hook_ran(*old(qs), *final(qs), P_BASE()) { unimplemented!() }
    #[verifier::external_body] pub fn pre_batch_modify(qs: &mut QueryServerWriteTransaction, pre_cand: &[Arc<EntrySealedCommitted>], cand: &mut Vec<Entry<EntryInvalid, EntryCommitted>>, me: &BatchModifyEvent) -> (r: Result<(), OperationError>)
        ensures r is Ok ==> hook_ran(*old(qs), *final(qs), P_BASE()) { unimplemented!() }
} }
pub mod valuedeny { use super::*; pub struct ValueDeny; impl ValueDeny {
    #[verifier::external_body] pub fn pre_create_transform(qs: &mut QueryServerWriteTransaction, cand: &mut Vec<Entry<EntryInvalid, EntryNew>>, ce: &CreateEvent) -> (r: Result<(), OperationError>)
        ensures r is Ok ==> hook_ran(*old(qs), *final(qs), P_VALUEDENY()) { unimplemented!() }
    #[verifier::external_body] pub fn pre_modify(qs: &mut QueryServerWriteTransaction, pre_cand: &[Arc<EntrySealedCommitted>], cand: &mut Vec<Entry<EntryInvalid, EntryCommitted>>, me: &ModifyEvent) -> (r: Result<(), OperationError>)
        ensures r is Ok ==> hook_ran(*old(qs), *final(qs), P_VALUEDENY()) { unimplemented!() }
    #[verifier::external_body] pub fn pre_batch_modify(qs: &mut QueryServerWriteTransaction, pre_cand: &[Arc<EntrySealedCommitted>], cand: &mut Vec<Entry<EntryInvalid, EntryCommitted>>, me: &BatchModifyEvent) -> (r: Result<(), OperationError>)
        ensures r is Ok ==> hook_ran(*old(qs), *final(qs), P_VALUEDENY()) { unimplemented!() }
} }
pub mod oauth2 { use super::*; pub struct OAuth2; impl OAuth2 {
    #[verifier::external_body] pub fn pre_create_transform(qs: &mut QueryServerWriteTransaction, cand: &mut Vec<Entry<EntryInvalid, EntryNew>>, ce: &CreateEvent) -> (r: Result<(), OperationError>)
        ensures r is Ok ==> hook_ran(*old(qs), *final(qs), P_OAUTH2()) { unimplemented!() }
    #[verifier::external_body] pub fn pre_modify(qs: &mut QueryServerWriteTransaction, pre_cand: &[Arc<EntrySealedCommitted>], cand: &mut Vec<Entry<EntryInvalid, EntryCommitted>>, me: &ModifyEvent) -> (r: Result<(), OperationError>)
        ensures r is Ok ==> hook_ran(*old(qs), *final(qs), P_OAUTH2()) { unimplemented!() }
    #[verifier::external_body] pub fn pre_batch_modify(qs: &mut QueryServerWriteTransaction, pre_cand: &[Arc<EntrySealedCommitted>], cand: &mut Vec<Entry<EntryInvalid, EntryCommitted>>, me: &BatchModifyEvent) -> (r: Result<(), OperationError>)
        ensures r is Ok ==> hook_ran(*old(qs), *final(qs), P_OAUTH2()) { unimplemented!() }
} }
pub mod eckeygen { use super::*; pub struct EcdhKeyGen; impl EcdhKeyGen {
    #[verifier::external_body] pub fn pre_create_transform(qs: &mut QueryServerWriteTransaction, cand: &mut Vec<Entry<EntryInvalid, EntryNew>>, ce: &CreateEvent) -> (r: Result<(), OperationError>)
        ensures r is Ok ==> hook_ran(*old(qs), *final(qs), P_ECKEYGEN()) { unimplemented!() }
    #[verifier::external_body] pub fn pre_modify(qs: &mut QueryServerWriteTransaction, pre_cand: &[Arc<EntrySealedCommitted>], cand: &mut Vec<Entry<EntryInvalid, EntryCommitted>>, me: &ModifyEvent) -> (r: Result<(), OperationError>)
        ensures r is Ok ==> hook_ran(*old(qs), *final(qs), P_ECKEYGEN()) { unimplemented!() }
    #[verifier::external_body] pub fn pre_batch_modify(qs: &mut QueryServerWriteTransaction, pre_cand: &[Arc<EntrySealedCommitted>], cand: &mut Vec<Entry<EntryInvalid, EntryCommitted>>, me: &BatchModifyEvent) -> (r: Result<(), OperationError>)
        ensures r is Ok ==> hook_ran(*old(qs), *final(qs), P_ECKEYGEN()) { unimplemented!() }
} }
pub mod keyobject { use super::*; pub struct KeyObjectManagement; impl KeyObjectManagement {
    #[verifier::external_body] pub fn pre_create_transform(qs: &mut QueryServerWriteTransaction, cand: &mut Vec<Entry<EntryInvalid, EntryNew>>, ce: &CreateEvent) -> (r: Result<(), OperationError>)
        ensures r is Ok ==> hook_ran(*old(qs), *final(qs), P_KEYOBJECT()) { unimplemented!() }
    #[verifier::external_body] pub fn pre_modify(qs: &mut QueryServerWriteTransaction, pre_cand: &[Arc<EntrySealedCommitted>], cand: &mut Vec<Entry<EntryInvalid, EntryCommitted>>, me: &ModifyEvent) -> (r: Result<(), OperationError>)
        ensures r is Ok ==> hook_ran(*old(qs), *final(qs), P_KEYOBJECT()) { unimplemented!() }
    #[verifier::external_body] pub fn pre_batch_modify(qs: &mut QueryServerWriteTransaction, pre_cand: &[Arc<EntrySealedCommitted>], cand: &mut Vec<Entry<EntryInvalid, EntryCommitted>>, me: &BatchModifyEvent) -> (r: Result<(), OperationError>)
        ensures r is Ok ==> hook_ran(*old(qs), *final(qs), P_KEYOBJECT()) { unimplemented!() }
} }
pub mod cred_import { use super::*; pub struct CredImport; impl CredImport {
    #[verifier::external_body] pub fn pre_create_transform(qs: &mut QueryServerWriteTransaction, cand: &mut Vec<Entry<EntryInvalid, EntryNew>>, ce: &CreateEvent) -> (r: Result<(), OperationError>)
        ensures r is Ok ==> hook_ran(*old(qs), *final(qs), P_CRED_IMPORT()) { unimplemented!() }
    #[verifier::external_body] pub fn pre_modify(qs: &mut QueryServerWriteTransaction, pre_cand: &[Arc<EntrySealedCommitted>], cand: &mut Vec<Entry<EntryInvalid, EntryCommitted>>, me: &ModifyEvent) -> (r: Result<(), OperationError>)
        ensures r is Ok ==> hook_ran(*old(qs), *final(qs), P_CRED_IMPORT()) { unimplemented!() }
    #[verifier::external_body] pub fn pre_batch_modify(qs: &mut QueryServerWriteTransaction, pre_cand: &[Arc<EntrySealedCommitted>], cand: &mut Vec<Entry<EntryInvalid, EntryCommitted>>, me: &BatchModifyEvent) -> (r: Result<(), OperationError>)
        ensures r is Ok ==> hook_ran(*old(qs), *final(qs), P_CRED_IMPORT()) { unimplemented!() }
} }
pub mod gidnumber { use super::*; pub struct GidNumber; impl GidNumber {
    #[verifier::external_body] pub fn pre_create_transform(qs: &mut QueryServerWriteTransaction, cand: &mut Vec<Entry<EntryInvalid, EntryNew>>, ce: &CreateEvent) -> (r: Result<(), OperationError>)
        ensures r is Ok ==> hook_ran(*old(qs), *final(qs), P_GIDNUMBER()) { unimplemented!() }
    #[verifier::external_body] pub fn pre_modify(qs: &mut QueryServerWriteTransaction, pre_cand: &[Arc<EntrySealedCommitted>], cand: &mut Vec<Entry<EntryInvalid, EntryCommitted>>, me: &ModifyEvent) -> (r: Result<(), OperationError>)
        ensures r is Ok ==> hook_ran(*old(qs), *final(qs), P_GIDNUMBER()) { unimplemented!() }
    #[verifier::external_body] pub fn pre_batch_modify(qs: &mut QueryServerWriteTransaction, pre_cand: &[Arc<EntrySealedCommitted>], cand: &mut Vec<Entry<EntryInvalid, EntryCommitted>>, me: &BatchModifyEvent) -> (r: Result<(), OperationError>)
        ensures r is Ok ==> hook_ran(*old(qs), *final(qs), P_GIDNUMBER()) { unimplemented!() }
} }
pub mod domain { use super::*; pub struct Domain; impl Domain {
    #[verifier::external_body] pub fn pre_create_transform(qs: &mut QueryServerWriteTransaction, cand: &mut Vec<Entry<EntryInvalid, EntryNew>>, ce: &CreateEvent) -> (r: Result<(), OperationError>)
        ensures r is Ok ==> hook_ran(*old(qs), *final(qs), P_DOMAIN()) { unimplemented!() }
    #[verifier::external_body] pub fn pre_modify(qs: &mut QueryServerWriteTransaction, pre_cand: &[Arc<EntrySealedCommitted>], cand: &mut Vec<Entry<EntryInvalid, EntryCommitted>>, me: &ModifyEvent) -> (r: Result<(), OperationError>)
        ensures r is Ok ==> hook_ran(*old(qs), *final(qs), P_DOMAIN()) { unimplemented!() }
    #[verifier::external_body] pub fn pre_batch_modify(qs: &mut QueryServerWriteTransaction, pre_cand: &[Arc<EntrySealedCommitted>], cand: &mut Vec<Entry<EntryInvalid, EntryCommitted>>, me: &BatchModifyEvent) -> (r: Result<(), OperationError>)
        ensures r is Ok ==> hook_ran(*old(qs), *final(qs), P_DOMAIN()) { unimplemented!() }
} }
pub mod spn { use super::*; pub struct Spn; impl Spn {
    #[verifier::external_body] pub fn pre_create_transform(qs: &mut QueryServerWriteTransaction, cand: &mut Vec<Entry<EntryInvalid, EntryNew>>, ce: &CreateEvent) -> (r: Result<(), OperationError>)
        ensures r is Ok ==> hook_ran(*old(qs), *final(qs), P_SPN()) { unimplemented!() }
    #[verifier::external_body] pub fn pre_modify(qs: &mut QueryServerWriteTransaction, pre_cand: &[Arc<EntrySealedCommitted>], cand: &mut Vec<Entry<EntryInvalid, EntryCommitted>>, me: &ModifyEvent) -> (r: Result<(), OperationError>)
        ensures r is Ok ==> hook_ran(*old(qs), *final(qs), P_SPN()) { unimplemented!() }
    #[verifier::external_body] pub fn post_modify(qs: &mut QueryServerWriteTransaction, pre_cand: &[Arc<Entry<EntrySealed, EntryCommitted>>], cand: &[Entry<EntrySealed, EntryCommitted>], me: &ModifyEvent) -> (r: Result<(), OperationError>)
        ensures r is Ok ==> hook_ran(*old(qs), *final(qs), P_SPN()) { unimplemented!() }
    #[verifier::external_body] pub fn pre_batch_modify(qs: &mut QueryServerWriteTransaction, pre_cand: &[Arc<EntrySealedCommitted>], cand: &mut Vec<Entry<EntryInvalid, EntryCommitted>>, me: &BatchModifyEvent) -> (r: Result<(), OperationError>)
        ensures r is Ok ==> hook_ran(*old(qs), *final(qs), P_SPN()) { unimplemented!() }
    #[verifier::external_body] pub fn post_batch_modify(qs: &mut QueryServerWriteTransaction, pre_cand: &[Arc<Entry<EntrySealed, EntryCommitted>>], cand: &[Entry<EntrySealed, EntryCommitted>], me: &BatchModifyEvent) -> (r: Result<(), OperationError>)
        ensures r is Ok ==> hook_ran(*old(qs), *final(qs), P_SPN()) { unimplemented!() }
    #[verifier::external_body] pub fn post_repl_incremental(qs: &mut QueryServerWriteTransaction, pre_cand: &[Arc<EntrySealedCommitted>], cand: &[EntrySealedCommitted], conflict_uuids: &BTreeSet<Uuid>) -> (r: Result<(), OperationError>)
        ensures r is Ok ==> hook_ran(*old(qs), *final(qs), P_SPN()) { unimplemented!() }
} }
pub mod default_values { use super::*; pub struct DefaultValues; impl DefaultValues {
    #[verifier::external_body] pub fn pre_create_transform(qs: &mut QueryServerWriteTransaction, cand: &mut Vec<Entry<EntryInvalid, EntryNew>>, ce: &CreateEvent) -> (r: Result<(), OperationError>)
        ensures r is Ok ==> hook_ran(*old(qs), *final(qs), P_DEFAULT_VALUES()) { unimplemented!() }
    #[verifier::external_body] pub fn pre_modify(qs: &mut QueryServerWriteTransaction, pre_cand: &[Arc<EntrySealedCommitted>], cand: &mut Vec<Entry<EntryInvalid, EntryCommitted>>, me: &ModifyEvent) -> (r: Result<(), OperationError>)
        ensures r is Ok ==> hook_ran(*old(qs), *final(qs), P_DEFAULT_VALUES()) { unimplemented!() }
    #[verifier::external_body] pub fn pre_batch_modify(qs: &mut QueryServerWriteTransaction, pre_cand: &[Arc<EntrySealedCommitted>], cand: &mut Vec<Entry<EntryInvalid, EntryCommitted>>, me: &BatchModifyEvent) -> (r: Result<(), OperationError>)
        ensures r is Ok ==> hook_ran(*old(qs), *final(qs), P_DEFAULT_VALUES()) { unimplemented!() }
} }
pub mod namehistory { use super::*; pub struct NameHistory; impl NameHistory {
    #[verifier::external_body] pub fn pre_create_transform(qs: &mut QueryServerWriteTransaction, cand: &mut Vec<Entry<EntryInvalid, EntryNew>>, ce: &CreateEvent) -> (r: Result<(), OperationError>)
        ensures r is Ok ==> hook_ran(*old(qs), *final(qs), P_NAMEHISTORY()) { unimplemented!() }
    #[verifier::external_body] pub fn pre_modify(qs: &mut QueryServerWriteTransaction, pre_cand: &[Arc<EntrySealedCommitted>], cand: &mut Vec<Entry<EntryInvalid, EntryCommitted>>, me: &ModifyEvent) -> (r: Result<(), OperationError>)
        ensures r is Ok ==> hook_ran(*old(qs), *final(qs), P_NAMEHISTORY()) { unimplemented!() }
    #[verifier::external_body] pub fn pre_batch_modify(qs: &mut QueryServerWriteTransaction, pre_cand: &[Arc<EntrySealedCommitted>], cand: &mut Vec<Entry<EntryInvalid, EntryCommitted>>, me: &BatchModifyEvent) -> (r: Result<(), OperationError>)
        ensures r is Ok ==> hook_ran(*old(qs), *final(qs), P_NAMEHISTORY()) { unimplemented!() }
} }
pub mod hmac_name_unique { use super::*; pub struct HmacNameUnique; impl HmacNameUnique {
    #[verifier::external_body] pub fn pre_create_transform(qs: &mut QueryServerWriteTransaction, cand: &mut Vec<Entry<EntryInvalid, EntryNew>>, ce: &CreateEvent) -> (r: Result<(), OperationError>)
        ensures r is Ok ==> hook_ran(*old(qs), *final(qs), P_HMAC_NAME_UNIQUE()) { unimplemented!() }
    #[verifier::external_body] pub fn pre_modify(qs: &mut QueryServerWriteTransaction, pre_cand: &[Arc<EntrySealedCommitted>], cand: &mut Vec<Entry<EntryInvalid, EntryCommitted>>, me: &ModifyEvent) -> (r: Result<(), OperationError>)
        ensures r is Ok ==> hook_ran(*old(qs), *final(qs), P_HMAC_NAME_UNIQUE()) { unimplemented!() }
    #[verifier::external_body] pub fn pre_batch_modify(qs: &mut QueryServerWriteTransaction, pre_cand: &[Arc<EntrySealedCommitted>], cand: &mut Vec<Entry<EntryInvalid, EntryCommitted>>, me: &BatchModifyEvent) -> (r: Result<(), OperationError>)
        ensures r is Ok ==> hook_ran(*old(qs), *final(qs), P_HMAC_NAME_UNIQUE()) { unimplemented!() }
} }
pub mod attrunique { use super::*; pub struct AttrUnique; impl AttrUnique {
    #[verifier::external_body] pub fn pre_create_transform(qs: &mut QueryServerWriteTransaction, cand: &mut Vec<Entry<EntryInvalid, EntryNew>>, ce: &CreateEvent) -> (r: Result<(), OperationError>)
        ensures r is Ok ==> hook_ran(*old(qs), *final(qs), P_ATTRUNIQUE()) { unimplemented!() }
    #[verifier::external_body] pub fn pre_modify(qs: &mut QueryServerWriteTransaction, pre_cand: &[Arc<EntrySealedCommitted>], cand: &mut Vec<Entry<EntryInvalid, EntryCommitted>>, me: &ModifyEvent) -> (r: Result<(), OperationError>)
        ensures r is Ok ==> hook_ran(*old(qs), *final(qs), P_ATTRUNIQUE()) { unimplemented!() }
    #[verifier::external_body] pub fn pre_batch_modify(qs: &mut QueryServerWriteTransaction, pre_cand: &[Arc<EntrySealedCommitted>], cand: &mut Vec<Entry<EntryInvalid, EntryCommitted>>, me: &BatchModifyEvent) -> (r: Result<(), OperationError>)
        ensures r is Ok ==> hook_ran(*old(qs), *final(qs), P_ATTRUNIQUE()) { unimplemented!() }
    #[verifier::external_body] pub fn pre_repl_refresh(qs: &mut QueryServerWriteTransaction, cand: &[EntryRefreshNew]) -> (r: Result<(), OperationError>)
        ensures r is Ok ==> hook_ran(*old(qs), *final(qs), P_ATTRUNIQUE()) { unimplemented!() }
    #[verifier::external_body] pub fn post_repl_incremental_conflict(qs: &mut QueryServerWriteTransaction, cand: &[(EntrySealedCommitted, Arc<EntrySealedCommitted>)], conflict_uuids: &mut BTreeSet<Uuid>) -> (r: Result<(), OperationError>)
        ensures r is Ok ==> hook_ran(*old(qs), *final(qs), P_ATTRUNIQUE()) { unimplemented!() }
} }
pub mod refint { use super::*; pub struct ReferentialIntegrity; impl ReferentialIntegrity {
    #[verifier::external_body] pub fn post_create(qs: &mut QueryServerWriteTransaction, cand: &[Entry<EntrySealed, EntryCommitted>], ce: &CreateEvent) -> (r: Result<(), OperationError>)
        ensures r is Ok ==> hook_ran(*old(qs), *final(qs), P_REFINT()) { unimplemented!() }
    #[verifier::external_body] pub fn post_modify(qs: &mut QueryServerWriteTransaction, pre_cand: &[Arc<Entry<EntrySealed, EntryCommitted>>], cand: &[Entry<EntrySealed, EntryCommitted>], me: &ModifyEvent) -> (r: Result<(), OperationError>)
        ensures r is Ok ==> hook_ran(*old(qs), *final(qs), P_REFINT()) { unimplemented!() }
    #[verifier::external_body] pub fn post_batch_modify(qs: &mut QueryServerWriteTransaction, pre_cand: &[Arc<Entry<EntrySealed, EntryCommitted>>], cand: &[Entry<EntrySealed, EntryCommitted>], me: &BatchModifyEvent) -> (r: Result<(), OperationError>)
        ensures r is Ok ==> hook_ran(*old(qs), *final(qs), P_REFINT()) { unimplemented!() }
    #[verifier::external_body] pub fn post_delete(qs: &mut QueryServerWriteTransaction, cand: &[Entry<EntrySealed, EntryCommitted>], de: &DeleteEvent) -> (r: Result<(), OperationError>)
        ensures r is Ok ==> hook_ran(*old(qs), *final(qs), P_REFINT()) { unimplemented!() }
    #[verifier::external_body] pub fn post_repl_refresh(qs: &mut QueryServerWriteTransaction, cand: &[EntrySealedCommitted]) -> (r: Result<(), OperationError>)
        ensures r is Ok ==> hook_ran(*old(qs), *final(qs), P_REFINT()) { unimplemented!() }
    #[verifier::external_body] pub fn post_repl_incremental_conflict(qs: &mut QueryServerWriteTransaction, cand: &[(EntrySealedCommitted, Arc<EntrySealedCommitted>)], conflict_uuids: &mut BTreeSet<Uuid>) -> (r: Result<(), OperationError>)
        ensures r is Ok ==> hook_ran(*old(qs), *final(qs), P_REFINT()) { unimplemented!() }
    #[verifier::external_body] pub fn post_repl_incremental(qs: &mut QueryServerWriteTransaction, pre_cand: &[Arc<EntrySealedCommitted>], cand: &[EntrySealedCommitted], conflict_uuids: &BTreeSet<Uuid>) -> (r: Result<(), OperationError>)
        ensures r is Ok ==> hook_ran(*old(qs), *final(qs), P_REFINT()) { unimplemented!() }
} }
pub mod memberof { use super::*; pub struct MemberOf; impl MemberOf {
    #[verifier::external_body] pub fn post_create(qs: &mut QueryServerWriteTransaction, cand: &[Entry<EntrySealed, EntryCommitted>], ce: &CreateEvent) -> (r: Result<(), OperationError>)
        ensures r is Ok ==> hook_ran(*old(qs), *final(qs), P_MEMBEROF()) { unimplemented!() }
    #[verifier::external_body] pub fn post_modify(qs: &mut QueryServerWriteTransaction, pre_cand: &[Arc<Entry<EntrySealed, EntryCommitted>>], cand: &[Entry<EntrySealed, EntryCommitted>], me: &ModifyEvent) -> (r: Result<(), OperationError>)
        ensures r is Ok ==> hook_ran(*old(qs), *final(qs), P_MEMBEROF()) { unimplemented!() }
    #[verifier::external_body] pub fn post_batch_modify(qs: &mut QueryServerWriteTransaction, pre_cand: &[Arc<Entry<EntrySealed, EntryCommitted>>], cand: &[Entry<EntrySealed, EntryCommitted>], me: &BatchModifyEvent) -> (r: Result<(), OperationError>)
        ensures r is Ok ==> hook_ran(*old(qs), *final(qs), P_MEMBEROF()) { unimplemented!() }
    #[verifier::external_body] pub fn pre_delete(qs: &mut QueryServerWriteTransaction, cand: &mut Vec<Entry<EntryInvalid, EntryCommitted>>, de: &DeleteEvent) -> (r: Result<(), OperationError>)
        ensures r is Ok ==> hook_ran(*old(qs), *final(qs), P_MEMBEROF()) { unimplemented!() }
    #[verifier::external_body] pub fn post_delete(qs: &mut QueryServerWriteTransaction, cand: &[Entry<EntrySealed, EntryCommitted>], de: &DeleteEvent) -> (r: Result<(), OperationError>)
        ensures r is Ok ==> hook_ran(*old(qs), *final(qs), P_MEMBEROF()) { unimplemented!() }
    #[verifier::external_body] pub fn post_repl_refresh(qs: &mut QueryServerWriteTransaction, cand: &[EntrySealedCommitted]) -> (r: Result<(), OperationError>)
        ensures r is Ok ==> hook_ran(*old(qs), *final(qs), P_MEMBEROF()) { unimplemented!() }
    #[verifier::external_body] pub fn post_repl_incremental(qs: &mut QueryServerWriteTransaction, pre_cand: &[Arc<EntrySealedCommitted>], cand: &[EntrySealedCommitted], conflict_uuids: &BTreeSet<Uuid>) -> (r: Result<(), OperationError>)
        ensures r is Ok ==> hook_ran(*old(qs), *final(qs), P_MEMBEROF()) { unimplemented!() }
} }
pub mod session { use super::*; pub struct SessionConsistency; impl SessionConsistency {
    #[verifier::external_body] pub fn pre_modify(qs: &mut QueryServerWriteTransaction, pre_cand: &[Arc<EntrySealedCommitted>], cand: &mut Vec<Entry<EntryInvalid, EntryCommitted>>, me: &ModifyEvent) -> (r: Result<(), OperationError>)
        ensures r is Ok ==> hook_ran(*old(qs), *final(qs), P_SESSION()) { unimplemented!() }
    #[verifier::external_body] pub fn pre_batch_modify(qs: &mut QueryServerWriteTransaction, pre_cand: &[Arc<EntrySealedCommitted>], cand: &mut Vec<Entry<EntryInvalid, EntryCommitted>>, me: &BatchModifyEvent) -> (r: Result<(), OperationError>)
        ensures r is Ok ==> hook_ran(*old(qs), *final(qs), P_SESSION()) { unimplemented!() }
} }
pub struct Plugins;
impl Plugins {
//@extract run_pre_create_transform
//@extract run_post_create
//@extract run_pre_modify
//@extract run_post_modify
//@extract run_pre_batch_modify
//@extract run_post_batch_modify
//@extract run_pre_delete
//@extract run_post_delete
//@extract run_pre_repl_refresh
//@extract run_post_repl_refresh
//@extract run_post_repl_incremental_conflict
//@extract run_post_repl_incremental
}
}
fn main(){}
