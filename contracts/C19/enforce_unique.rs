use vstd::prelude::*;
use core::cmp::Ordering;
use vstd::std_specs::iter::IteratorSpec;
verus! {
//@include shims/uuid.rs
//@include shims/kvx_btreemap.rs
//@include shims/std_option.rs
#[derive(PartialEq, Eq)] pub struct AttrString { pub o: u64 }
//@extract Attribute
impl Clone for Attribute { #[verifier::external_body] fn clone(&self) -> (r: Self) ensures r == *self { unimplemented!() } }
// PartialValue: the one constructor used plus an opaque rest
pub enum PartialValue { Uuid(Uuid), Other(u64) }
impl Clone for PartialValue { #[verifier::external_body] fn clone(&self) -> (r: Self) ensures r == *self { unimplemented!() } }
//@extract FC
impl Clone for FC { #[verifier::external_body] fn clone(&self) -> (r: Self) ensures r == *self { unimplemented!() } }
//@extract f_and
//@extract f_or
//@extract f_andnot
pub enum OperationError { AttributeUniqueness(Vec<Attribute>), KG006DatastructureCorruption, InvalidEntryState, Backend }
// an entry in any state: opaque
#[verifier::external_body] #[verifier::reject_recursive_types(V)] #[verifier::reject_recursive_types(S)]
pub struct Entry<V, S> { p: core::marker::PhantomData<(V, S)> }

// ---- what "holds the value" means, and the database's answer ----
pub type Ava = (Attribute, PartialValue);
// the uuids of the live (not recycled / tombstoned) candidates that carry value `key.1` in attribute `key.0`, one per carrying entry
pub uninterp spec fn holders<V, S>(cand: Seq<Entry<V, S>>, key: Ava) -> Seq<Uuid>;
// get_cand_attr_set (iterator pipeline with try_for_each and the BTreeMap entry API: outside the dialect) — ASSUMED to compute exactly
// that table for the schema's unique attributes
#[verifier::external_body]
pub fn get_cand_attr_set<V, S>(cand: &[Entry<V, S>], uniqueattrs: &Vec<Attribute>) -> (r: Result<BTreeMap<Ava, Vec<Uuid>>, OperationError>)
    ensures r matches Ok(m) ==> (forall|k: Ava| #[trigger] m@.contains_key(k) <==> (uniqueattrs@.contains(k.0) && holders(cand@, k).len() > 0))
                             && (forall|k: Ava| #[trigger] m@.contains_key(k) ==> m@[k]@ == holders(cand@, k)) { unimplemented!() }
// BTreeMap::into_iter (std documentation): every pair of the map
#[verifier::external_body]
pub fn kvx_btree_into_vec(m: BTreeMap<Ava, Vec<Uuid>>) -> (v: Vec<(Ava, Vec<Uuid>)>)
    ensures forall|k: Ava| m@.contains_key(k) <==> exists|i: int| 0 <= i < v@.len() && (#[trigger] v@[i]).0 == k,
            forall|i: int| 0 <= i < v@.len() ==> m@.contains_key((#[trigger] v@[i]).0) && m@[v@[i].0] == v@[i].1 { unimplemented!() }
// Filter::new_ignore_hidden(fc) = filter!(fc): the query `fc` restricted to live entries
pub struct Filter { pub fc: FC }
pub fn kvx_filter(fc: FC) -> (r: Filter) ensures r.fc == fc { Filter { fc } }
pub struct Db { pub o: int }
// "some live entry of the database matches fc" — the meaning of the filter language is C01 / C02; here only: an OR matches iff a term does
pub uninterp spec fn exists_fc(db: Db, fc: FC) -> bool;
#[verifier::external_body] pub proof fn axiom_exists_or(db: Db, l: Vec<FC>)
    ensures exists_fc(db, FC::Or(l)) <==> exists|i: int| 0 <= i < l@.len() && exists_fc(db, #[trigger] l@[i]) { }
pub struct Schema { pub o: u8 }
impl Schema {
    pub uninterp spec fn unique(&self) -> Seq<Attribute>;
    #[verifier::external_body] pub fn get_attributes_unique(&self) -> (r: &Vec<Attribute>) ensures r@ == self.unique() { unimplemented!() }
}
pub struct QueryServerWriteTransaction { pub o: u8 }
impl QueryServerWriteTransaction {
    pub uninterp spec fn db(&self) -> Db;
    pub uninterp spec fn schema(&self) -> Schema;
    #[verifier::external_body] pub fn get_schema(&self) -> (r: &Schema) ensures *r == self.schema() { unimplemented!() }
    #[verifier::external_body] pub fn internal_exists(&mut self, f: &Filter) -> (r: Result<bool, OperationError>)
        ensures final(self).db() == old(self).db(), final(self).schema() == old(self).schema(), r matches Ok(b) ==> b == exists_fc(old(self).db(), f.fc) { unimplemented!() }
    #[verifier::external_body] pub fn internal_search(&mut self, f: Filter) -> (r: Result<Vec<Entry<u8, u8>>, OperationError>)
        ensures final(self).db() == old(self).db(), final(self).schema() == old(self).schema() { unimplemented!() }
}
impl<V, S> Entry<V, S> { #[verifier::external_body] pub fn get_display_id(&self) -> (r: u64) { unimplemented!() } }

// "another live entry holds `key`": the query enforce_unique asks per value
pub open spec fn other_holder_fc(key: Ava, me: Uuid, l: Vec<FC>) -> bool {
    l@.len() == 2 && l@[0] == FC::Eq(key.0, key.1) && (l@[1] matches FC::AndNot(b) && *b == FC::Eq(Attribute::Uuid, PartialValue::Uuid(me)))
}
// loop 1 bookkeeping: a processed row either went to cand_attr (exactly one holder) or made err_attr non-empty (several holders)
pub open spec fn unique_row_done(k: Ava, uuids: Seq<Uuid>, cand_attr: Seq<(Ava, Uuid)>, err_attr: Seq<Attribute>) -> bool {
    uuids.len() >= 1 && (uuids.len() == 1 ==> exists|n: int| 0 <= n < cand_attr.len() && #[trigger] cand_attr[n] == (k, uuids[0])) && (uuids.len() > 1 ==> err_attr.len() > 0)
}
// ---- the statement (C19, one request against one database) ----
pub open spec fn unique_ok<V, S>(db: Db, uq: Seq<Attribute>, cand: Seq<Entry<V, S>>) -> bool {
    forall|k: Ava| uq.contains(k.0) ==> {
        &&& (#[trigger] holders(cand, k)).len() <= 1                                               // no two candidates share the value
        &&& holders(cand, k).len() == 1 ==> exists|l: Vec<FC>| #[trigger] other_holder_fc(k, holders(cand, k)[0], l) && !exists_fc(db, FC::And(l))   // nor does any other live entry: the query `attr = v and not uuid = holder` is empty
    }
}

//@extract enforce_unique
// the plugin hooks that run before every create / modify / batch modify / refresh
pub struct CreateEvent { pub o: u8 } pub struct ModifyEvent { pub o: u8 } pub struct BatchModifyEvent { pub o: u8 }
pub struct EntryInvalid { pub o: u8 } pub struct EntryNew { pub o: u8 } pub struct EntryCommitted { pub o: u8 } pub struct EntrySealed { pub o: u8 } pub struct EntryRefresh { pub o: u8 }
pub type EntrySealedCommitted = Entry<EntrySealed, EntryCommitted>;
pub type EntryRefreshNew = Entry<EntryRefresh, EntryNew>;
pub struct Arc<T> { pub v: T }
pub struct AttrUnique;
impl AttrUnique {
//@extract pre_create_transform
//@extract pre_modify
//@extract pre_batch_modify
//@extract pre_repl_refresh
}
}
fn main(){}
