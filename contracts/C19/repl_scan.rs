use vstd::prelude::*;
use core::cmp::Ordering;
verus! {
//@include shims/uuid.rs
pub enum OperationError { InvalidEntryState, Backend }
pub struct Attribute { pub o: u64 }
pub struct EntrySealedCommitted { pub o: int }
pub struct Arc<T> { pub v: T }
#[verifier::external_body] #[verifier::reject_recursive_types(T)] pub struct BTreeSet<T> { p: core::marker::PhantomData<T> }
pub struct Schema { pub o: u8 }
impl Schema { #[verifier::external_body] pub fn get_attributes_unique(&self) -> (r: &Vec<Attribute>) { unimplemented!() } }
pub struct QueryServerWriteTransaction { pub o: int }
impl QueryServerWriteTransaction { #[verifier::external_body] pub fn get_schema(&self) -> (r: &'static Schema) { unimplemented!() } }
pub struct CandAttrSet { pub o: int }
impl CandAttrSet { #[verifier::external_body] pub fn is_empty(&self) -> (r: bool) { unimplemented!() } }
// `cand.iter().map(|(e, _)| e)`: the after-state of every candidate pair, in order (std)
#[verifier::external_body] pub fn kvx_after_states<'a>(cand: &'a [(EntrySealedCommitted, Arc<EntrySealedCommitted>)]) -> (r: Vec<&'a EntrySealedCommitted>)
    ensures r@.len() == cand@.len(), forall|k: int| 0 <= k < cand@.len() ==> *(#[trigger] r@[k]) == cand@[k].0, scans_all(r@, cand@) { unimplemented!() }
// an additional `.filter(..)` adapter on that iterator (not in the current source): some subsequence (std)
#[verifier::external_body] pub fn kvx_filter_unknown<T>(v: Vec<T>) -> (r: Vec<T>)
    ensures forall|k: int| 0 <= k < r@.len() ==> exists|j: int| 0 <= j < v@.len() && #[trigger] r@[k] == #[trigger] v@[j] { unimplemented!() }
// C19 after replication: the uniqueness scan (get_cand_attr_set: the table value -> uuids, unit enforce_unique's stand-in) must be given
// EVERY entry the incremental apply wrote — also the survivors of a uuid conflict, which can collide on a unique attribute like any other
pub open spec fn scans_all(given: Seq<&EntrySealedCommitted>, cand: Seq<(EntrySealedCommitted, Arc<EntrySealedCommitted>)>) -> bool {
    forall|k: int| 0 <= k < cand.len() ==> exists|j: int| 0 <= j < given.len() && *(#[trigger] given[j]) == (#[trigger] cand[k]).0
}
#[verifier::external_body] pub fn get_cand_attr_set(Ghost(cand): Ghost<Seq<(EntrySealedCommitted, Arc<EntrySealedCommitted>)>>, given: Vec<&EntrySealedCommitted>, uniqueattrs: &Vec<Attribute>) -> (r: Result<CandAttrSet, OperationError>)
    requires scans_all(given@, cand) { unimplemented!() }
pub struct AttrUnique;
impl AttrUnique {
//@extract post_repl_incremental_conflict
}
}
fn main(){}
