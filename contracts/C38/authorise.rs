use vstd::prelude::*;
use core::cmp::Ordering;
macro_rules! event_enabled { ($($t:tt)*) => { kvx_event_enabled() }; }
verus! {
//@include shims/duration.rs
//@include shims/duration_ops.rs
//@include shims/uuid.rs
//@include shims/offsetdatetime.rs
//@include shims/time_ops.rs
//@include shims/std_option.rs
// std functions only used by the prompt / logging code paths (not part of C38): accepted without a specification
pub assume_specification<T: PartialEq>[ <[T]>::contains ](s: &[T], x: &T) -> bool;
pub assume_specification<T: Clone>[ <T as std::borrow::ToOwned>::to_owned ](t: &T) -> T;
#[verifier::external_body] #[verifier::reject_recursive_types(B)] pub struct KvxUnspecIter<B> { p: core::marker::PhantomData<B> }
impl<B> KvxUnspecIter<B> { #[verifier::external_body] pub fn collect(self) -> (r: Vec<B>) { unimplemented!() } }
pub trait KvxFilterMapUnspec<'b, T: 'b>: Sized { fn kvx_filter_map_unspec<B, F: Fn(&'b T) -> Option<B>>(self, f: F) -> KvxUnspecIter<B>; }
impl<'b, T> KvxFilterMapUnspec<'b, T> for core::slice::Iter<'b, T> {
    #[verifier::external_body] fn kvx_filter_map_unspec<B, F: Fn(&'b T) -> Option<B>>(self, f: F) -> KvxUnspecIter<B> { unimplemented!() } }
// `event_enabled!(Level::DEBUG)` (tracing): whether debug logging is on — an unspecified boolean
#[verifier::external_body] pub fn kvx_event_enabled() -> bool { unimplemented!() }
impl OffsetDateTime {
    // time::OffsetDateTime - core::time::Duration and truncation to whole seconds: only used for the re-authentication prompt
    // window (not part of C38); unspecified
    #[verifier::external_body] pub fn truncate_to_second(self) -> (r: OffsetDateTime) { unimplemented!() }
}
impl vstd::std_specs::ops::SubSpecImpl<Duration> for OffsetDateTime {
    open spec fn obeys_sub_spec() -> bool { false }
    open spec fn sub_req(self, rhs: Duration) -> bool { true }
    open spec fn sub_spec(self, rhs: Duration) -> OffsetDateTime { arbitrary() }
}
impl core::ops::Sub<Duration> for OffsetDateTime { type Output = OffsetDateTime;
    #[verifier::external_body] fn sub(self, rhs: Duration) -> (r: OffsetDateTime) { unimplemented!() } }

pub const UUID_ANONYMOUS: Uuid = Uuid(@@constexpr:UUID_ANONYMOUS:uuid!\("([0-9a-f-]+)"\):uuidhex@@);
pub const OAUTH2_OIDC_MAX_AGE_CLAMP: i64 = 3600;

// ---- url::Url / url::Host: opaque, compared as values; scheme and host are uninterpreted observers ----
#[verifier::external_body] pub struct Url { _p: u8 }
impl vstd::std_specs::cmp::PartialEqSpecImpl for Url { open spec fn obeys_eq_spec() -> bool { true } open spec fn eq_spec(&self, other: &Url) -> bool { *self == *other } }
impl PartialEq for Url { #[verifier::external_body] fn eq(&self, other: &Url) -> (r: bool) { unimplemented!() } }
#[verifier::external_body] pub struct Ipv4Addr { _p: u8 }
#[verifier::external_body] pub struct Ipv6Addr { _p: u8 }
pub enum Host<S> { Domain(S), Ipv4(Ipv4Addr), Ipv6(Ipv6Addr) }
impl Ipv4Addr { pub uninterp spec fn loopback(&self) -> bool; #[verifier::external_body] pub fn is_loopback(&self) -> (r: bool) ensures r == self.loopback() { unimplemented!() } }
impl Ipv6Addr { pub uninterp spec fn loopback(&self) -> bool; #[verifier::external_body] pub fn is_loopback(&self) -> (r: bool) ensures r == self.loopback() { unimplemented!() } }
impl Url {
    pub uninterp spec fn scheme_spec(&self) -> Seq<char>;
    pub uninterp spec fn host_spec(&self) -> Option<Host<Seq<char>>>;
    #[verifier::external_body] pub fn scheme(&self) -> (r: &str) ensures r@ == self.scheme_spec() { unimplemented!() }
    #[verifier::external_body] pub fn host(&self) -> (r: Option<Host<&str>>)
        ensures (r is Some) == (self.host_spec() is Some),
            r matches Some(h) ==> (match (h, self.host_spec()->Some_0) {
                (Host::Domain(d), Host::Domain(s)) => d@ == s,
                (Host::Ipv4(a), Host::Ipv4(b)) => a == b,
                (Host::Ipv6(a), Host::Ipv6(b)) => a == b,
                _ => false }) { unimplemented!() }
    #[verifier::external_body] pub fn as_str(&self) -> (r: &str) { unimplemented!() }
    #[verifier::external_body] pub fn clone(&self) -> (r: Url) ensures r == *self { unimplemented!() }
}
// std HashSet<Url> / BTreeSet<String> / BTreeMap viewed as sets and maps (documented std semantics: ASSUMED)
#[verifier::external_body] #[verifier::reject_recursive_types(K)] pub struct HashSet<K> { p: core::marker::PhantomData<K> }
impl<K> View for HashSet<K> { type V = Set<K>; uninterp spec fn view(&self) -> Set<K>; }
impl<K> HashSet<K> { #[verifier::external_body] pub fn contains(&self, k: &K) -> (r: bool) ensures r == self@.contains(*k) { unimplemented!() } }
#[verifier::external_body] #[verifier::reject_recursive_types(K)] pub struct BTreeSet<K> { p: core::marker::PhantomData<K> }
impl<K> View for BTreeSet<K> { type V = Set<K>; uninterp spec fn view(&self) -> Set<K>; }
pub trait KvxStrKey { spec fn as_string(&self) -> String; }
impl KvxStrKey for str { uninterp spec fn as_string(&self) -> String; }
impl KvxStrKey for String { open spec fn as_string(&self) -> String { *self } }
impl<K> BTreeSet<K> {
    #[verifier::external_body] pub fn default() -> (r: BTreeSet<K>) ensures r@ == Set::<K>::empty() { unimplemented!() }
    #[verifier::external_body] pub fn is_empty(&self) -> (r: bool) ensures r == (self@ =~= Set::<K>::empty()) { unimplemented!() }
    #[verifier::external_body] pub fn is_subset(&self, o: &BTreeSet<K>) -> (r: bool) ensures r == self@.subset_of(o@) { unimplemented!() }
    #[verifier::external_body] pub fn insert(&mut self, k: K) -> (r: bool) ensures final(self)@ == old(self)@.insert(k) { unimplemented!() }
    #[verifier::external_body] pub fn eq(&self, o: &BTreeSet<K>) -> (r: bool) ensures r == (self@ =~= o@) { unimplemented!() }
    #[verifier::external_body] pub fn clone(&self) -> (r: BTreeSet<K>) ensures r@ == self@ { unimplemented!() }
}
impl BTreeSet<String> {
    #[verifier::external_body] pub fn contains<Q: ?Sized + KvxStrKey>(&self, k: &Q) -> (r: bool) ensures r == self@.contains(k.as_string()) { unimplemented!() }
}
#[verifier::external_body] #[verifier::reject_recursive_types(K)] #[verifier::reject_recursive_types(V)] pub struct BTreeMap<K, V> { p: core::marker::PhantomData<(K, V)> }
impl<K, V> View for BTreeMap<K, V> { type V = Map<K, V>; uninterp spec fn view(&self) -> Map<K, V>; }

// ---- the identity (server/identity.rs): uninterpreted observers ----
pub struct Identity { _p: u8 }
#[derive(PartialEq, Eq)]
pub struct IdentityId { pub o: u64 }
impl vstd::std_specs::cmp::PartialEqSpecImpl for IdentityId { open spec fn obeys_eq_spec() -> bool { true } open spec fn eq_spec(&self, other: &IdentityId) -> bool { self.o == other.o } }
impl Identity {
    pub uninterp spec fn uuid(&self) -> Uuid;
    pub uninterp spec fn memberof(&self) -> Set<Uuid>;
    #[verifier::external_body] pub fn get_uuid(&self) -> (r: Uuid) ensures r == self.uuid() { unimplemented!() }
    #[verifier::external_body] pub fn is_memberof(&self, g: Uuid) -> (r: bool) ensures r == self.memberof().contains(g) { unimplemented!() }
    #[verifier::external_body] pub fn last_verified_at(&self) -> (r: Option<OffsetDateTime>) { unimplemented!() }
    pub uninterp spec fn session_id(&self) -> Uuid;
    pub uninterp spec fn origin_id(&self) -> IdentityId;
    #[verifier::external_body] pub fn get_session_id(&self) -> (r: Uuid) ensures r == self.session_id() { unimplemented!() }
    #[verifier::external_body] pub fn get_event_origin_id(&self) -> (r: IdentityId) ensures r == self.origin_id() { unimplemented!() }
    #[verifier::external_body] pub fn get_oauth2_consent_scopes(&self, rs: Uuid) -> (r: Option<&BTreeSet<String>>) { unimplemented!() }
}

pub enum OperationError { SerdeJsonError, CryptographyError, Backend, InvalidState, InvalidSessionState, InvalidRequestState, NotAuthenticated }
// opaque field types of the extracted structs
pub mod serde_json { pub mod value { pub struct Value { pub o: u8 } } }
pub struct Origin { pub o: u8 }
pub struct ClaimValue { pub o: u8 }
pub struct SignatureAlgo { pub o: u8 }
pub struct Arc<T> { pub v: T }
impl<T> core::ops::Deref for Arc<T> { type Target = T; fn deref(&self) -> (r: &T) ensures *r == self.v { &self.v } }
// ---- token sealing (compact_jwt / key objects): an abstraction of authenticated encryption. The compact string determines the
// payload (per payload type) and the key it was sealed with; decryption succeeds only with that key. ASSUMED. ----
#[derive(PartialEq, Eq)]
pub struct KeyObject { pub id: u64 }
pub struct Jwe { _p: u8 }
pub struct JweBuilderS { _p: u8 }
pub struct JweCompactS { _p: u8 }
pub struct JweBuilder;
pub struct JweCompact;
pub struct JweSerdeError { pub o: u8 }
pub struct JweCryptoError { pub o: u8 }
pub uninterp spec fn sealed_payload<T>(s: Seq<char>) -> Option<T>;
pub uninterp spec fn sealed_key(s: Seq<char>) -> Option<u64>;
pub uninterp spec fn was_sealed(s: Seq<char>) -> bool;                  // the string is a compact token this server produced (completeness of parsing / decryption is stated for those only)          // the key object (by id) or, with None, the server's consent key
impl Jwe { pub uninterp spec fn payload<T>(&self) -> T;
    #[verifier::external_body] pub fn from_json<U>(&self) -> (r: Result<U, JweSerdeError>) ensures r matches Ok(t) ==> (t == self.payload::<U>() && self.sealed_as::<U>()), (self.genuine() && self.sealed_as::<U>()) ==> r is Ok { unimplemented!() }
    pub uninterp spec fn genuine(&self) -> bool; }
impl JweBuilderS { pub uninterp spec fn payload<T>(&self) -> T;
    #[verifier::external_body] pub fn build(self) -> (r: Jwe) ensures r.payload::<TokenExchangeCode>() == self.payload::<TokenExchangeCode>(), r.payload::<ConsentToken>() == self.payload::<ConsentToken>(), r.payload::<Oauth2TokenType>() == self.payload::<Oauth2TokenType>() { unimplemented!() } }
impl JweCompactS { pub uninterp spec fn payload<T>(&self) -> T; pub uninterp spec fn key(&self) -> Option<u64>;
    #[verifier::external_body] pub fn to_string(&self) -> (r: String)
        ensures sealed_payload::<TokenExchangeCode>(r@) == Some(self.payload::<TokenExchangeCode>()), sealed_payload::<ConsentToken>(r@) == Some(self.payload::<ConsentToken>()),
                sealed_payload::<Oauth2TokenType>(r@) == Some(self.payload::<Oauth2TokenType>()), sealed_key(r@) == self.key(), was_sealed(r@) { unimplemented!() }
    pub uninterp spec fn genuine(&self) -> bool; }
impl JweBuilder { #[verifier::external_body] pub fn into_json<T>(t: &T) -> (r: Result<JweBuilderS, JweSerdeError>) ensures r matches Ok(b) ==> b.payload::<T>() == *t { unimplemented!() } }
impl JweCompact { // parsing the compact form: payload and key are whatever was sealed into that string
    #[verifier::external_body] pub fn from_str(s: &str) -> (r: Result<JweCompactS, JweSerdeError>)
        ensures r matches Ok(c) ==> (c.key() == sealed_key(s@)
            && (sealed_payload::<TokenExchangeCode>(s@) matches Some(x) ==> c.payload::<TokenExchangeCode>() == x)
            && (sealed_payload::<ConsentToken>(s@) matches Some(x) ==> c.payload::<ConsentToken>() == x)
            && (sealed_payload::<Oauth2TokenType>(s@) matches Some(x) ==> c.payload::<Oauth2TokenType>() == x)),
            // a string that was never sealed with a payload of that type does not decrypt to one (authenticity)
            r matches Ok(c) ==> c.sealed_as::<TokenExchangeCode>() == (sealed_payload::<TokenExchangeCode>(s@) is Some),
            r matches Ok(c) ==> c.sealed_as::<ConsentToken>() == (sealed_payload::<ConsentToken>(s@) is Some),
            r matches Ok(c) ==> c.sealed_as::<Oauth2TokenType>() == (sealed_payload::<Oauth2TokenType>(s@) is Some),
            was_sealed(s@) ==> (r matches Ok(c) && c.genuine()) { unimplemented!() } }
impl JweCompactS { pub uninterp spec fn sealed_as<T>(&self) -> bool; }
impl KeyObject {
    #[verifier::external_body] pub fn jwe_a128gcm_encrypt(&self, jwe: &Jwe, ct: Duration) -> (r: Result<JweCompactS, JweCryptoError>)
        ensures r matches Ok(c) ==> (c.key() == Some(self.id) && c.payload::<TokenExchangeCode>() == jwe.payload::<TokenExchangeCode>() && c.payload::<Oauth2TokenType>() == jwe.payload::<Oauth2TokenType>()) { unimplemented!() }
    // decryption succeeds only for a token sealed with this very key object, and yields the sealed payload
    #[verifier::external_body] pub fn jwe_decrypt(&self, c: &JweCompactS) -> (r: Result<Jwe, JweCryptoError>)
        ensures r matches Ok(j) ==> (c.key() == Some(self.id)
            && j.payload::<TokenExchangeCode>() == c.payload::<TokenExchangeCode>() && j.payload::<Oauth2TokenType>() == c.payload::<Oauth2TokenType>()
            && j.sealed_as::<TokenExchangeCode>() == c.sealed_as::<TokenExchangeCode>() && j.sealed_as::<Oauth2TokenType>() == c.sealed_as::<Oauth2TokenType>()),
            (c.genuine() && c.key() == Some(self.id)) ==> (r matches Ok(j) && j.genuine()) { unimplemented!() } }
impl Jwe { pub uninterp spec fn sealed_as<T>(&self) -> bool; }
pub struct JweA128GCMEncipher;
pub struct JweA128KWEncipher { pub o: u8 }
impl JweA128KWEncipher {
    #[verifier::external_body] pub fn encipher<E>(&self, jwe: &Jwe) -> (r: Result<JweCompactS, JweCryptoError>) ensures r matches Ok(c) ==> (c.key() is None && c.payload::<ConsentToken>() == jwe.payload::<ConsentToken>()) { unimplemented!() }
    #[verifier::external_body] pub fn decipher(&self, c: &JweCompactS) -> (r: Result<Jwe, JweCryptoError>) ensures r matches Ok(j) ==> (c.key() is None && j.payload::<ConsentToken>() == c.payload::<ConsentToken>() && j.sealed_as::<ConsentToken>() == c.sealed_as::<ConsentToken>()) { unimplemented!() } }
// ---- real protocol types extracted from /repo ----
//@extract ResponseType
//@extract ResponseMode
//@extract CodeChallengeMethod
//@extract PkceRequest
//@extract Prompt
//@extract AuthorisationRequestOidc
//@extract AuthorisationRequest
//@extract SupportedResponseMode
//@extract Oauth2Error
//@extract AuthoriseResponse
//@extract AuthorisePermitSuccess
//@extract AuthorisationRequestContext
//@extract CtSecret
//@extract OauthRSType
//@extract Oauth2RS
//@extract TokenExchangeCode
//@extract ConsentToken
//@extract Oauth2TokenType
//@extract OAuth2SessionContext
//@extract AccessTokenType
//@extract AccessTokenResponse
//@extract PkceS256Secret
pub struct IssuedTokenType { pub o: u8 }
// ---- statement of C38 ----
// "a PKCE S256 challenge is present whenever the client requires one": public clients always, basic clients when enabled
pub open spec fn pkce_required(o: &Oauth2RS) -> bool { match o.type_ { OauthRSType::Basic { enable_pkce, .. } => enable_pkce, OauthRSType::Public { .. } => true } }
// a loopback URI: the host is a loopback IP address or the name "localhost"
pub open spec fn host_local(h: Host<&str>) -> bool { match h { Host::Ipv4(ip) => ip.loopback(), Host::Ipv6(ip) => ip.loopback(), Host::Domain(d) => d@ == "localhost"@ } }
pub open spec fn host_local_s(h: Host<Seq<char>>) -> bool { match h { Host::Ipv4(ip) => ip.loopback(), Host::Ipv6(ip) => ip.loopback(), Host::Domain(d) => d == "localhost"@ } }
pub open spec fn uri_is_loopback(u: &Url) -> bool { u.host_spec() matches Some(h) && host_local_s(h) }
impl AuthorisationRequest {
//@extract get_response_mode
}
impl OauthRSType {
//@extract allow_localhost_redirect
//@extract allow_localhost_redirect_could_be_possible
}
impl Oauth2RS {
//@extract is_basic
//@extract require_pkce
//@extract enable_consent_prompt
}
// ---- the registered clients (Oauth2RSInner::rs_set_get looks the lower-cased client id up): a stand-in map ----
pub struct Oauth2RSInner { pub origin: Url, pub consent_key: JweA128KWEncipher, pub rs: u8 }
impl Oauth2RSInner {
    pub uninterp spec fn client(&self, id: Seq<char>) -> Option<Oauth2RS>;
    #[verifier::external_body] pub fn rs_set_get(&self, client_id: &str) -> (r: Option<&Oauth2RS>)
        ensures (r is Some) == (self.client(client_id@) is Some), r is Some ==> *r->Some_0 == self.client(client_id@)->Some_0 { unimplemented!() }
}
pub struct Oauth2ResourceServersReadTransaction { pub inner: Oauth2RSInner }
pub struct IdmServerProxyReadTransaction { pub oauth2rs: Oauth2ResourceServersReadTransaction }

//@extract host_is_local
//@extract check_is_loopback

// ---- scopes: "the user holds every requested scope through the client's scope maps"; "granted = requested plus supplementary
// scopes the user holds, and nothing else" ----
pub open spec fn held(m: Map<Uuid, BTreeSet<String>>, ident: &Identity, s: String) -> bool {
    exists|u: Uuid| #[trigger] m.contains_key(u) && ident.memberof().contains(u) && m[u]@.contains(s)
}
// BTreeSet<String>::iter() / .cloned(): the members
#[verifier::external_body] pub struct KvxSetIter<'a> { p: core::marker::PhantomData<&'a String> }
impl<'a> KvxSetIter<'a> { pub uninterp spec fn set(&self) -> Set<String>;
    #[verifier::external_body] pub fn cloned(self) -> (r: KvxSetIter<'a>) ensures r.set() == self.set() { unimplemented!() }
    // collect::<BTreeSet<String>>(): the same members
    #[verifier::external_body] pub fn collect(self) -> (r: BTreeSet<String>) ensures r@ == self.set() { unimplemented!() }
    // map(f).collect::<Vec<String>>() is only used to print the scopes in a debug message: unspecified
    #[verifier::external_body] pub fn map<F: Fn(&'a String) -> String>(self, f: F) -> (r: KvxStrVecSrc) { unimplemented!() }
    #[verifier::external_body] pub fn filter<F: Fn(&&'a String) -> bool>(self, g: Ghost<spec_fn(String) -> bool>, f: F) -> (r: KvxSetFilter<'a>)
        requires forall|s: &&'a String| #[trigger] f.requires((s,)), forall|s: &&'a String, o: bool| #[trigger] f.ensures((s,), o) ==> o == g@(**s)
        ensures forall|s: String| #[trigger] r.kept().contains(s) <==> (self.set().contains(s) && g@(s)) { unimplemented!() } }
pub struct KvxStrVecSrc { pub o: u8 }
impl KvxStrVecSrc { #[verifier::external_body] pub fn collect(self) -> (r: Vec<String>) { unimplemented!() } }
pub struct KvxSetIntoIter { pub s: Ghost<Set<String>> }
impl KvxSetIntoIter { #[verifier::external_body] pub fn collect(self) -> (r: BTreeSet<String>) ensures r@ == self.s@ { unimplemented!() }
    #[verifier::external_body] pub fn chain<'a>(self, o: KvxSetIter<'a>) -> (r: KvxSetIntoIter) ensures r.s@ == self.s@.union(o.set()) { unimplemented!() } }
// `set.iter().filter(f).collect::<BTreeSet<&String>>()`: the members for which f holds (std documentation), through f's checked contract
#[verifier::external_body] pub struct KvxSetFilter<'a> { p: core::marker::PhantomData<&'a String> }
impl<'a> KvxSetFilter<'a> { pub uninterp spec fn kept(&self) -> Set<String>;
    #[verifier::external_body] pub fn collect(self) -> (r: BTreeSet<&'a String>) ensures forall|s: String| #![trigger r@.contains(&s)] #![trigger self.kept().contains(s)] r@.contains(&s) <==> self.kept().contains(s), (r@ =~= Set::<&'a String>::empty()) == (self.kept() =~= Set::<String>::empty()) { unimplemented!() } }
impl BTreeSet<String> { #[verifier::external_body] pub fn into_iter(self) -> (r: KvxSetIntoIter) ensures r.s@ == self@ { unimplemented!() } }
impl BTreeSet<String> { #[verifier::external_body] pub fn iter(&self) -> (r: KvxSetIter<'_>) ensures r.set() == self@ { unimplemented!() } }
pub assume_specification<T>[ bool::then_some ](b: bool, t: T) -> (r: Option<T>)
    ensures r == (if b { Some(t) } else { None::<T> });
// `map.iter().filter_map(f).flatten().cloned().[chain(extra)].collect::<BTreeSet<String>>()` over a BTreeMap<Uuid, BTreeSet<String>>:
// the union of the sets f keeps (std documentation), stated in both directions through a ghost predicate that f's CHECKED contract
// must equal
#[verifier::external_body] pub struct KvxUnion<'a> { p: core::marker::PhantomData<&'a String> }
impl<'a> KvxUnion<'a> { pub uninterp spec fn outs(&self) -> Set<String>;
    #[verifier::external_body] pub fn flatten(self) -> (r: KvxUnion<'a>) ensures r.outs() == self.outs() { unimplemented!() }
    #[verifier::external_body] pub fn cloned(self) -> (r: KvxUnion<'a>) ensures r.outs() == self.outs() { unimplemented!() }
    #[verifier::external_body] pub fn chain(self, o: KvxSetIter<'a>) -> (r: KvxUnion<'a>) ensures r.outs() == self.outs().union(o.set()) { unimplemented!() }
    #[verifier::external_body] pub fn collect(self) -> (r: BTreeSet<String>) ensures r@ == self.outs() { unimplemented!() } }
impl BTreeMap<Uuid, BTreeSet<String>> {
    #[verifier::external_body] pub fn kvx_filter_map<'a, F: Fn((&'a Uuid, &'a BTreeSet<String>)) -> Option<KvxSetIter<'a>>>(&'a self, g: Ghost<spec_fn(Uuid) -> bool>, f: F) -> (r: KvxUnion<'a>)
        requires forall|u: &'a Uuid, m: &'a BTreeSet<String>| #[trigger] f.requires(((u, m),)),
                 forall|u: &'a Uuid, m: &'a BTreeSet<String>, o: Option<KvxSetIter<'a>>| #[trigger] f.ensures(((u, m),), o) ==> ((o is Some) == g@(*u) && (o is Some ==> o->Some_0.set() == m@)),
        ensures forall|s: String| #[trigger] r.outs().contains(s) <==> exists|u: Uuid| #[trigger] self@.contains_key(u) && g@(u) && self@[u]@.contains(s) { unimplemented!() }
}
// `req_scopes.cloned().unwrap_or_default()`
#[verifier::external_body] pub fn kvx_cloned_or_default(o: Option<&BTreeSet<String>>) -> (r: BTreeSet<String>)
    ensures r@ == (match o { Some(s) => s@, None => Set::<String>::empty() }) { unimplemented!() }
// validate_scopes (regex OAUTHSCOPE_RE on every requested scope): unspecified here
#[verifier::external_body] pub fn validate_scopes(req_scopes: &BTreeSet<String>) -> (r: Result<(), Oauth2Error>) { unimplemented!() }
//@extract process_requested_scopes_for_identity
pub const OAUTH2_SCOPE_OPENID: &'static str = "openid";
pub const OAUTH2_SCOPE_EMAIL: &'static str = "email";
pub const OAUTH2_SCOPE_SSH_PUBLICKEYS: &'static str = "ssh_publickeys";
// "the redirect URI exactly matches one registered for the client (or is a loopback URI for a public client that allows it, or a
// registered app URI)"
pub open spec fn redirect_ok(o: &Oauth2RS, u: &Url) -> bool {
    o.redirect_uris@.contains(*u)
    || (uri_is_loopback(u) && (o.type_ matches OauthRSType::Public { allow_localhost_redirect } && allow_localhost_redirect))
    || o.opaque_origins@.contains(*u)
}
pub open spec fn scopes_ok(o: &Oauth2RS, ident: &Identity, requested: Set<String>, granted: Set<String>) -> bool {
    &&& forall|s: String| #[trigger] requested.contains(s) ==> held(o.scope_maps@, ident, s)
    &&& forall|s: String| #[trigger] granted.contains(s) ==> (requested.contains(s) || held(o.sup_scope_maps@, ident, s))
}
pub open spec fn pkce_ok(o: &Oauth2RS, req: &AuthorisationRequest) -> bool {
    pkce_required(o) ==> (req.pkce_request matches Some(p) && p.code_challenge_method is S256)
}
// everything C38 demands before a code (or a consent token that leads to one) is handed out
pub open spec fn authorised(this: &IdmServerProxyReadTransaction, maybe_ident: Option<&Identity>, req: &AuthorisationRequest, granted: Set<String>) -> bool {
    &&& this.oauth2rs.inner.client(req.client_id@) matches Some(o)
        && redirect_ok(&o, &req.redirect_uri) && pkce_ok(&o, req)
        && (maybe_ident matches Some(ident) && ident.uuid() != UUID_ANONYMOUS && scopes_ok(&o, ident, req.scope@, granted))
}
impl IdmServerProxyReadTransaction {
//@extract check_oauth2_authorisation
}
// ---- redeeming the consent token ----
pub struct QsWrite { pub o: u8 }
pub struct IdmServerProxyWriteTransaction { pub oauth2rs: Oauth2ResourceServersReadTransaction, pub qs_write: QsWrite }
impl IdmServerProxyWriteTransaction {
    // R3: recording the consent on the account (internal_modify of oauth2_consent_scope_map) is redirected to an unspecified stand-in
    #[verifier::external_body] pub fn kvx_record_consent(&mut self, rs: Uuid, scopes: &BTreeSet<String>, account: Uuid) -> (r: Result<(), OperationError>)
        ensures final(self).oauth2rs == old(self).oauth2rs { unimplemented!() }
//@extract check_oauth2_authorise_permit
}
// ---- C39: redeeming the code ----
// `a.as_ref() == b.as_slice()` on byte strings: equality of the contents
#[verifier::external_body] pub fn kvx_bytes_eq(a: &[u8], b: &[u8]) -> (r: bool) ensures r == (a@ == b@) { unimplemented!() }
// statement of C39, code redemption: "only at the client it was issued for, before it expires, with the same redirect URI and, when a
// PKCE challenge was recorded, with a verifier hashing to it"
pub open spec fn exchange_ok(o: &Oauth2RS, code: Seq<char>, redirect: &Url, verifier: Option<&str>, ct: Duration, resp: &AccessTokenResponse) -> bool {
    &&& sealed_key(code) == Some(o.key_object.v.id)
    &&& sealed_payload::<TokenExchangeCode>(code) matches Some(x)
        && x.expiry > ct.secs
        && *redirect == x.redirect_uri
        && (x.code_challenge matches Some(ch) ==> (verifier matches Some(v) && ch@ == sha256(v@)))
        && (x.code_challenge is None ==> !pkce_required(o))
        && response_scopes(resp) == x.scopes@ && response_account(resp) == x.account_uuid && response_client(resp) == o.uuid
}
// statement of C39, refresh: "a refresh never grants scopes beyond the original grant, reuse of an already-rotated refresh token revokes
// the session, and tokens whose session or account has been revoked or has expired are rejected"
pub open spec fn refresh_ok(this: &IdmServerProxyWriteTransaction, o: &Oauth2RS, tok: Seq<char>, ct: Duration, resp: &AccessTokenResponse) -> bool {
    &&& sealed_key(tok) == Some(o.key_object.v.id)
    &&& sealed_payload::<Oauth2TokenType>(tok) matches Some(Oauth2TokenType::Refresh { scopes, parent_session_id, session_id, exp, uuid, iat, nbf, nonce, auth_time })
        && exp > ct.secs as i64
        && (account_session_valid(this, uuid, session_id, parent_session_id, iat, ct) matches Some(e)
            && (e.oauth2_sessions() matches Some(m) && m.contains_key(session_id) && iat >= m[session_id].issued_at.unix_ns / 1_000_000_000))
        && response_scopes(resp).subset_of(scopes@) && response_account(resp) == uuid && response_client(resp) == o.uuid
}
pub open spec fn refresh_replayed(this: &IdmServerProxyWriteTransaction, o: &Oauth2RS, tok: Seq<char>, ct: Duration) -> Option<(Uuid, Uuid)> {
    if was_sealed(tok) && !this.backend_failed() && sealed_key(tok) == Some(o.key_object.v.id) {
        match sealed_payload::<Oauth2TokenType>(tok) {
            Some(Oauth2TokenType::Refresh { scopes, parent_session_id, session_id, exp, uuid, iat, nbf, nonce, auth_time }) =>
                if exp > ct.secs as i64 && (account_session_valid(this, uuid, session_id, parent_session_id, iat, ct) matches Some(e)
                    && (e.oauth2_sessions() matches Some(m) && m.contains_key(session_id) && iat < m[session_id].issued_at.unix_ns / 1_000_000_000)) { Some((uuid, session_id)) } else { None },
            _ => None,
        }
    } else { None }
}
// SHA-256 as an uninterpreted function; PkceS256Secret::to_challenge computes it over the verifier's bytes (sha2 crate: ASSUMED)
pub uninterp spec fn sha256(bytes: Seq<char>) -> Seq<u8>;
pub struct Sha256Output { pub b: Vec<u8> }
impl Sha256Output { pub fn as_slice(&self) -> (r: &[u8]) ensures r@ == self.b@ { self.b.as_slice() } }
impl vstd::std_specs::convert::FromSpecImpl<String> for PkceS256Secret {
    open spec fn obeys_from_spec() -> bool { true }
    open spec fn from_spec(v: String) -> PkceS256Secret { PkceS256Secret { secret: v } }
}
impl From<String> for PkceS256Secret {
//@extract pkce_from
}
impl PkceS256Secret {
    #[verifier::external_body] pub fn to_challenge(&self) -> (r: Sha256Output) ensures r.b@ == sha256(self.secret@) { unimplemented!() }
//@extract pkce_verify
}
impl Uuid { #[verifier::external_body] pub fn new_v4() -> (r: Uuid) { unimplemented!() } }
// what generate_access_token_response seals into the tokens it returns (its body — signing, session creation — is not covered here)
pub uninterp spec fn response_scopes(r: &AccessTokenResponse) -> Set<String>;
pub uninterp spec fn response_account(r: &AccessTokenResponse) -> Uuid;
pub uninterp spec fn response_client(r: &AccessTokenResponse) -> Uuid;
impl IdmServerProxyWriteTransaction {
    #[verifier::external_body] pub fn generate_access_token_response(&mut self, o2rs: &Oauth2RS, ct: Duration, scopes: BTreeSet<String>, parent_session_id: Option<Uuid>, session_id: Uuid, session_ctx: OAuth2SessionContext) -> (r: Result<AccessTokenResponse, Oauth2Error>)
        ensures r matches Ok(resp) ==> (response_scopes(&resp) == scopes@ && response_account(&resp) == session_ctx.account_uuid && response_client(&resp) == o2rs.uuid),
                final(self).oauth2rs == old(self).oauth2rs { unimplemented!() }
//@extract check_oauth2_token_exchange_authorization_code
}
// ---- C39: refresh ----
pub enum Attribute { OAuth2Session, Other }
pub struct Oauth2Session { pub issued_at: OffsetDateTime }
impl OffsetDateTime { pub fn unix_timestamp(&self) -> (r: i64) ensures r as int == self.unix_ns / 1_000_000_000 no_unwind { proof { assume(false); } 0 } }
#[verifier::external_body] pub struct KvxSessMap { _p: u8 }
impl KvxSessMap { pub uninterp spec fn map(&self) -> Map<Uuid, Oauth2Session>;
    #[verifier::external_body] pub fn get(&self, k: &Uuid) -> (r: Option<&Oauth2Session>) ensures (r is Some) == self.map().contains_key(*k), r is Some ==> *r->Some_0 == self.map()[*k] { unimplemented!() } }
pub struct EntrySealedCommitted { _p: u8 }
impl EntrySealedCommitted { pub uninterp spec fn oauth2_sessions(&self) -> Option<Map<Uuid, Oauth2Session>>;
    #[verifier::external_body] pub fn get_ava_as_oauth2session_map(&self, a: Attribute) -> (r: Option<&KvxSessMap>)
        ensures (r is Some) == (self.oauth2_sessions() is Some), r is Some ==> r->Some_0.map() == self.oauth2_sessions()->Some_0 { unimplemented!() } }
// check_oauth2_account_uuid_valid (idm/server.rs): account and session still valid at ct — an uninterpreted predicate of the database
// state here; the function itself is under contract in unit account_valid if present
pub uninterp spec fn account_session_valid(this: &IdmServerProxyWriteTransaction, uuid: Uuid, session_id: Uuid, parent: Option<Uuid>, iat: i64, ct: Duration) -> Option<EntrySealedCommitted>;
impl IdmServerProxyWriteTransaction {
    pub uninterp spec fn revoked(&self) -> Set<(Uuid, Uuid)>;
    pub uninterp spec fn backend_failed(&self) -> bool;            // the database lookup behind the validity check failed (an Err, not a verdict)      // (account, oauth2 session) pairs whose removal was issued in this transaction
    #[verifier::external_body] pub fn check_oauth2_account_uuid_valid(&mut self, uuid: Uuid, session_id: Uuid, parent_session_id: Option<Uuid>, iat: i64, ct: Duration) -> (r: Result<Option<Arc<EntrySealedCommitted>>, OperationError>)
        ensures final(self).oauth2rs == old(self).oauth2rs, final(self).revoked() == old(self).revoked(),
            r matches Ok(Some(e)) ==> account_session_valid(old(self), uuid, session_id, parent_session_id, iat, ct) == Some(e.v),
            r matches Ok(None) ==> account_session_valid(old(self), uuid, session_id, parent_session_id, iat, ct) is None,
            r is Err ==> old(self).backend_failed() { unimplemented!() }
    // R3: `internal_modify(uuid = account, Removed(oauth2_session, Refer(session)))` — the removal of that session is issued
    #[verifier::external_body] pub fn kvx_revoke_oauth2_session(&mut self, uuid: Uuid, session_id: Uuid) -> (r: Result<(), OperationError>)
        ensures final(self).oauth2rs == old(self).oauth2rs, r is Ok ==> final(self).revoked() == old(self).revoked().insert((uuid, session_id)) { unimplemented!() }
//@extract check_oauth2_token_refresh
}
}
fn main(){}
