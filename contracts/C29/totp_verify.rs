use vstd::prelude::*;
use core::cmp::Ordering;
verus! {
pub mod lemmas { use vstd::prelude::*;
  pub broadcast proof fn lemma_div_ge1(a: u64, b: u64) by (nonlinear_arith) requires a >= b, b > 0 ensures #[trigger] (a / b) >= 1 {}
}
pub mod code { use vstd::prelude::*; use core::cmp::Ordering; broadcast use super::lemmas::lemma_div_ge1;
//@include shims/duration.rs
//@include shims/duration_ops.rs
pub const TOTP_DEFAULT_STEP: u64 = @@const:TOTP_DEFAULT_STEP@@;
//@extract TotpError
//@extract TotpDigits
//@extract TotpAlgo
//@extract Totp

// ---- specification from the statement of C29 (RFC 6238 over RFC 4226 over RFC 2104) ----
// HMAC (RFC 2104) with the token's hash, for ANY key length: uninterpreted (cryptography is assumed, key handling is not)
pub uninterp spec fn hmac(algo: TotpAlgo, key: Seq<u8>, msg: Seq<u8>) -> Seq<u8>;
pub uninterp spec fn enc64(n: u64) -> Seq<u8>;     // 8-byte big-endian encoding of the counter
// RFC 4226 §5.3 dynamic truncation followed by reduction to the digit count: uninterpreted here; the real Totp::digest is proved
// equal to the RFC formula over all HMAC outputs by the Kani unit totp_digest_kani
pub uninterp spec fn dt(h: Seq<u8>, digits: TotpDigits) -> u32;
// the RFC 6238 code of time step `counter`
pub open spec fn rfc_code(t: &Totp, counter: u64) -> u32 { dt(hmac(t.algo, t.secret@, enc64(counter)), t.digits) }

// ---- stand-ins for the hmac crate (crypto_glue re-exports): ASSUMED to implement RFC 2104 for every key length ----
pub struct InvalidLength;
#[verifier::external_body] pub struct KvxMac { p: u8 }
impl KvxMac { pub uninterp spec fn algo(&self) -> TotpAlgo; pub uninterp spec fn key(&self) -> Seq<u8>; pub uninterp spec fn msg(&self) -> Seq<u8>; }
#[verifier::external_body] pub struct KvxMacOut { p: u8 }
impl KvxMacOut { pub uninterp spec fn bytes(&self) -> Seq<u8>;
    #[verifier::external_body] pub fn into_bytes(self) -> (r: KvxMacOut) ensures r.bytes() == self.bytes() { unimplemented!() }
    #[verifier::external_body] pub fn to_vec(&self) -> (r: Vec<u8>) ensures r@ == self.bytes() { unimplemented!() } }
impl KvxMac {
    #[verifier::external_body] pub fn update(&mut self, d: &[u8]) ensures final(self).algo() == old(self).algo(), final(self).key() == old(self).key(), final(self).msg() == old(self).msg() + d@ { unimplemented!() }
    #[verifier::external_body] pub fn finalize(self) -> (r: KvxMacOut) ensures r.bytes() == hmac(self.algo(), self.key(), self.msg()) { unimplemented!() }
}
pub struct HmacSha1; pub struct HmacSha256; pub struct HmacSha512;
impl HmacSha1 { #[verifier::external_body] pub fn new_from_slice(key: &[u8]) -> (r: Result<KvxMac, InvalidLength>)
    ensures r matches Ok(m) && m.algo() == TotpAlgo::Sha1 && m.key() == key@ && m.msg() == Seq::<u8>::empty() { unimplemented!() } }
impl HmacSha256 { #[verifier::external_body] pub fn new_from_slice(key: &[u8]) -> (r: Result<KvxMac, InvalidLength>)
    ensures r matches Ok(m) && m.algo() == TotpAlgo::Sha256 && m.key() == key@ && m.msg() == Seq::<u8>::empty() { unimplemented!() } }
impl HmacSha512 { #[verifier::external_body] pub fn new_from_slice(key: &[u8]) -> (r: Result<KvxMac, InvalidLength>)
    ensures r matches Ok(m) && m.algo() == TotpAlgo::Sha512 && m.key() == key@ && m.msg() == Seq::<u8>::empty() { unimplemented!() } }
// R3: u64::to_be_bytes (const-generic return type: no Verus specification can be attached)
#[verifier::external_body] pub fn shim_u64_to_be_bytes(n: u64) -> (r: [u8; 8]) ensures r@ == enc64(n) { unimplemented!() }
pub assume_specification<T, E>[ Result::<T, E>::unwrap_or ](r: Result<T, E>, d: T) -> (o: T)
    ensures o == (match r { Ok(v) => v, Err(_) => d });

impl TotpAlgo {
//@extract algo_digest
}
impl Totp {
    // Totp::digest: `self.algo.digest(&self.secret, counter)?` followed by dynamic truncation. Its contract is the composition of
    //   (a) TotpAlgo::digest's contract, proved below on the real text, and
    //   (b) "Totp::digest == dt(whatever TotpAlgo::digest returned)", proved on the real crate by Kani (unit totp_digest_kani)
    #[verifier::external_body]
    pub fn digest(&self, counter: u64) -> (r: Result<u32, TotpError>) ensures r == Ok::<u32, TotpError>(rfc_code(self, counter)) { unimplemented!() }
//@extract do_totp_duration_from_epoch
//@extract verify
}
}
}
fn main(){}
