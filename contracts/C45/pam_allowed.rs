use vstd::prelude::*;
use core::cmp::Ordering;
use std::sync::Arc;
verus! {
//@include shims/uuid.rs
//@include shims/kvx_btreemap.rs
//@include shims/std_option.rs
pub struct XKeyId { pub o: u8 }
pub struct Value { pub o: u8 }
pub struct SystemTime { pub o: u64 }
impl SystemTime { #[verifier::external_body] pub fn now() -> (r: SystemTime) { unimplemented!() } }
pub enum Id { Name(String), Gid(u32) }
// an id as a value (two Strings with the same characters denote the same account)
pub enum IdKey { Name(Seq<char>), Gid(u32) }
pub open spec fn id_key(id: Id) -> IdKey { match id { Id::Name(s) => IdKey::Name(s@), Id::Gid(g) => IdKey::Gid(g) } }
#[verifier::external_body] pub fn kvx_to_string(s: &str) -> (r: String) ensures r@ == s@ { unimplemented!() }
pub struct PamServiceInfo { pub o: u8 }
#[derive(Clone, Copy, PartialEq, Eq)] pub enum ProviderOrigin { System, Kanidm, Other }
// the record of a directory user as the resolver holds it (real structs)
//@extract GroupToken
//@extract UserToken
pub enum IdpError { Transport, Other }
// ---- the system (non-directory) provider: answers only for accounts of /etc/passwd ----
pub struct SystemProvider { pub o: u8 }
impl SystemProvider {
    pub uninterp spec fn answer(&self, id: IdKey) -> Option<bool>;
    #[verifier::external_body] pub fn authorise(&self, id: &Id) -> (r: Option<bool>) ensures r == self.answer(id_key(*id)) { unimplemented!() }
}
// ---- a directory provider (dyn IdProvider): unix_user_authorise carries the contract proved in unit unix_authorise ----
pub struct Client { pub o: u8 }
impl Client {
    // token.valid && the user is in one of this host's allowed-login groups (unit unix_authorise proves exactly this of the real function)
    pub uninterp spec fn admits(&self, t: UserToken) -> bool;
    #[verifier::external_body] pub fn unix_user_authorise(&self, t: &UserToken) -> (r: Result<Option<bool>, IdpError>)
        ensures r matches Ok(Some(true)) ==> self.admits(*t) { unimplemented!() }
}
pub struct ClientMap { pub o: u8 }
impl ClientMap {
    pub uninterp spec fn of(&self, p: ProviderOrigin) -> Option<Arc<Client>>;
    #[verifier::external_body] pub fn get(&self, p: &ProviderOrigin) -> (r: Option<&Arc<Client>>)
        ensures r is Some == self.of(*p) is Some, r matches Some(c) ==> Some(*c) == self.of(*p) { unimplemented!() }
}
pub struct Resolver { pub system_provider: SystemProvider, pub client_ids: ClientMap }
impl Resolver {
    // "the user's current account record": what get_usertoken (cache lookup, refresh when expired) returns for that id now
    pub uninterp spec fn current_record(&self, id: IdKey) -> Option<UserToken>;
    #[verifier::external_body] pub fn get_usertoken(&self, id: &Id, now: SystemTime) -> (r: Result<Option<UserToken>, ()>)
        ensures r matches Ok(t) ==> t == self.current_record(id_key(*id)) { unimplemented!() }
    // the statement of C45 for one login decision
    pub open spec fn login_justified(&self, id: IdKey) -> bool {
        self.system_provider.answer(id) == Some(true) || (self.system_provider.answer(id) is None && self.directory_admits(id))
    }
    pub open spec fn directory_admits(&self, id: IdKey) -> bool {
        match self.current_record(id) {
            Some(t) => match self.client_ids.of(t.provider) { Some(c) => c.admits(t), None => false },
            None => false,
        }
    }
//@extract pam_account_allowed
}
}
fn main(){}
