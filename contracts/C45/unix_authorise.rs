use vstd::prelude::*;
use core::cmp::Ordering;
verus! {
//@include shims/uuid.rs
//@include shims/kvx_btreemap.rs
// uuid::Uuid::hyphenated().to_string(): the canonical 8-4-4-4-12 text of the uuid — an uninterpreted function of the uuid
pub uninterp spec fn uuid_hyphenated(u: Uuid) -> String;
pub struct Hyphenated { pub u: Uuid }
impl Uuid { pub fn hyphenated(&self) -> (r: Hyphenated) ensures r.u == *self { Hyphenated { u: *self } } }
impl Hyphenated { #[verifier::external_body] pub fn to_string(&self) -> (r: String) ensures r == uuid_hyphenated(self.u) { unimplemented!() } }
// opaque field types of the token structs
pub struct ProviderOrigin { pub o: u8 }
pub struct XKeyId { pub o: u8 }
pub struct Value { pub o: u8 }
pub struct CacheState { pub o: u8 }
pub struct KanidmClient { pub o: u8 }
pub struct HmacS256Key { pub o: u8 }
pub struct CryptoPolicy { pub o: u8 }
pub struct Id { pub o: u8 }
pub struct HashMap<K, V> { pub k: Option<K>, pub v: Option<V> }
// std BTreeSet<String>, viewed as a set (documented std semantics: ASSUMED)
#[verifier::external_body] #[verifier::reject_recursive_types(K)] pub struct BTreeSet<K> { p: core::marker::PhantomData<K> }
impl<K> View for BTreeSet<K> { type V = Set<K>; uninterp spec fn view(&self) -> Set<K>; }
#[verifier::external_body] #[verifier::reject_recursive_types(K)] pub struct KvxIntersection<'a, K> { p: core::marker::PhantomData<&'a K> }
impl<'a, K> KvxIntersection<'a, K> { pub uninterp spec fn set(&self) -> Set<K>;
    // Iterator::count on the intersection: its cardinality; only zero / non-zero is specified
    #[verifier::external_body] pub fn count(self) -> (r: usize) ensures (r == 0) == (self.set() =~= Set::<K>::empty()) { unimplemented!() } }
impl<K> BTreeSet<K> {
    #[verifier::external_body] pub fn is_empty(&self) -> (r: bool) ensures r == (self@ =~= Set::<K>::empty()) { unimplemented!() }
    #[verifier::external_body] pub fn contains(&self, k: &K) -> (r: bool) ensures r == self@.contains(*k) { unimplemented!() }
    #[verifier::external_body] pub fn intersection<'a>(&'a self, o: &'a BTreeSet<K>) -> (r: KvxIntersection<'a, K>) ensures r.set() == self@.intersect(o@) { unimplemented!() }
}
// `slice.iter().flat_map(f).collect::<BTreeSet<_>>()` with f returning a fixed-size array: exactly the elements of the arrays f returns
// (std documentation), stated in both directions through a ghost function that f's checked contract must equal
#[verifier::external_body] #[verifier::reject_recursive_types(B)] pub struct KvxFlat<B> { p: core::marker::PhantomData<B> }
impl<B> KvxFlat<B> { pub uninterp spec fn outs(&self) -> Set<B>;
    #[verifier::external_body] pub fn collect(self) -> (r: BTreeSet<B>) ensures r@ == self.outs() { unimplemented!() } }
pub open spec fn kvx_all_in<B>(s: Seq<B>, set: Set<B>) -> bool { forall|j: int| 0 <= j < s.len() ==> set.contains(#[trigger] s[j]) }
#[verifier::external_body] pub fn kvx_flat_map_vec<T, B, const N: usize, F: Fn(&T) -> [B; N]>(v: &Vec<T>, g: Ghost<spec_fn(T) -> Seq<B>>, f: F) -> (r: KvxFlat<B>)
    requires forall|i: int| 0 <= i < v@.len() ==> f.requires((&#[trigger] v@[i],)),
             forall|x: &T, o: [B; N]| #[trigger] f.ensures((x,), o) ==> o@ == g@(*x),
    ensures forall|b: B| #[trigger] r.outs().contains(b) ==> exists|i: int| 0 <= i < v@.len() && g@(#[trigger] v@[i]).contains(b),
            forall|i: int| 0 <= i < v@.len() ==> kvx_all_in(g@(#[trigger] v@[i]), r.outs()) { unimplemented!() }
// tokio::sync::Mutex read sequentially (D4): lock() hands out the protected value
pub struct Mutex<T> { pub v: T }
pub struct MutexGuard<'a, T> { pub m: &'a Mutex<T> }
impl<T> Mutex<T> { pub fn lock(&self) -> (r: MutexGuard<'_, T>) ensures r.m == self { MutexGuard { m: self } } }
impl<'a, T> core::ops::Deref for MutexGuard<'a, T> { type Target = T; fn deref(&self) -> (r: &T) ensures *r == self.m.v { &self.m.v } }

// ---- real types extracted from /repo ----
//@extract IdpError
//@extract GroupToken
//@extract UserToken
//@extract KanidmProviderInternal
//@extract KanidmProvider

// ---- statement of C45 ----
// "belongs, by name or UUID, to at least one group in the host's allowed-login list"
pub open spec fn group_keys(g: GroupToken) -> Seq<String> { seq![g.name, uuid_hyphenated(g.uuid)] }
pub open spec fn in_allowed_group(t: &UserToken, allow: Set<String>) -> bool {
    exists|i: int| 0 <= i < t.groups@.len() && (allow.contains((#[trigger] t.groups@[i]).name) || allow.contains(uuid_hyphenated(t.groups@[i].uuid)))
}
impl KanidmProvider {
//@extract unix_user_authorise
}
// "an empty list admits no directory users" is a consequence of the contract
pub proof fn lemma_empty_list_admits_nobody(t: &UserToken, allow: Set<String>)
    requires allow =~= Set::<String>::empty()
    ensures !in_allowed_group(t, allow)
{}
}
fn main() {}
