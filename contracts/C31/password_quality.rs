use vstd::prelude::*;
use vstd::string::StringSliceAdditionalSpecFns;
verus! {
// the code's own constants (libs/crypto), substituted from the source text on every run
pub const PW_MAX_LENGTH_NIST: u32 = @@const:PW_MAX_LENGTH_NIST@@;
pub const PW_SFA_MIN_LENGTH_NIST: u32 = @@const:PW_SFA_MIN_LENGTH_NIST@@;

// ---- string observers: uninterpreted (no byte-level reasoning about str in this Verus) ----
pub uninterp spec fn bytes(s: &str) -> nat;          // str::len: number of UTF-8 bytes
// R3: str::len redirected (vstd's own specification of str::len says nothing about non-ASCII strings)
#[verifier::external_body] pub fn kvx_str_len(s: &str) -> (r: usize) ensures r == bytes(s) { unimplemented!() }
pub uninterp spec fn graphemes(s: &str) -> nat;      // utils::utf8_len = number of extended grapheme clusters
pub uninterp spec fn lower(s: &str) -> Seq<char>;    // str::to_lowercase
pub assume_specification[ str::to_lowercase ](s: &str) -> (r: String) ensures r@ == lower(s);
// other case / whitespace foldings of std: each is its OWN uninterpreted function — none of them is the Unicode lower-casing
// the badlist is stored under (so substituting one for to_lowercase is seen by the contract)
pub uninterp spec fn ascii_lower(s: &str) -> Seq<char>;
pub uninterp spec fn upper(s: &str) -> Seq<char>;
pub uninterp spec fn ascii_upper(s: &str) -> Seq<char>;
pub assume_specification[ str::to_ascii_lowercase ](s: &str) -> (r: String) ensures r@ == ascii_lower(s);
pub assume_specification[ str::to_uppercase ](s: &str) -> (r: String) ensures r@ == upper(s);
pub assume_specification[ str::to_ascii_uppercase ](s: &str) -> (r: String) ensures r@ == ascii_upper(s);
#[verifier::external_body] pub fn utf8_len(value: &str) -> (r: usize) ensures r == graphemes(value) { unimplemented!() }
// R3: str::contains (generic over Pattern) redirected; substring tests play no role in the property
#[verifier::external_body] pub fn kvx_str_contains(hay: &str, needle: &str) -> (r: bool) { unimplemented!() }

// ---- the system password badlist (QueryServer::pw_badlist(): &HashSet<String>), observed as a set of lower-case strings ----
#[verifier::external_body] pub struct KvxBadlist { p: u8 }
impl KvxBadlist {
    pub uninterp spec fn has(&self, s: Seq<char>) -> bool;
    #[verifier::external_body] pub fn contains(&self, s: &String) -> (r: bool) ensures r == self.has(s@) { unimplemented!() }
}
pub struct QsTxn { pub badlist: KvxBadlist }
impl QsTxn { pub fn pw_badlist(&self) -> (r: &KvxBadlist) ensures *r == self.badlist { &self.badlist } }

// ---- zxcvbn stand-in: entropy scoring is an opaque oracle ----
#[derive(PartialEq, Eq, PartialOrd, Ord, Clone, Copy)]
pub enum Score { Zero, One, Two, Three, Four }
impl vstd::std_specs::cmp::PartialEqSpecImpl for Score { open spec fn obeys_eq_spec() -> bool { false } uninterp spec fn eq_spec(&self, o: &Score) -> bool; }
impl vstd::std_specs::cmp::PartialOrdSpecImpl for Score { open spec fn obeys_partial_cmp_spec() -> bool { false } uninterp spec fn partial_cmp_spec(&self, o: &Score) -> Option<core::cmp::Ordering>; }
impl vstd::std_specs::cmp::OrdSpecImpl for Score { open spec fn obeys_cmp_spec() -> bool { false } uninterp spec fn cmp_spec(&self, o: &Score) -> core::cmp::Ordering; }
pub mod zxcvbn { pub mod feedback {
    pub enum Suggestion { UseAFewWordsAvoidCommonPhrases, NoNeedForSymbolsDigitsOrUppercaseLetters, AddAnotherWordOrTwo, CapitalizationDoesntHelpVeryMuch,
        AllUppercaseIsAlmostAsEasyToGuessAsAllLowercase, ReversedWordsArentMuchHarderToGuess, PredictableSubstitutionsDontHelpVeryMuch,
        UseALongerKeyboardPatternWithMoreTurns, AvoidRepeatedWordsAndCharacters, AvoidSequences, AvoidRecentYears, AvoidYearsThatAreAssociatedWithYou,
        AvoidDatesAndYearsThatAreAssociatedWithYou }
    pub enum Warning { StraightRowsOfKeysAreEasyToGuess, ShortKeyboardPatternsAreEasyToGuess, RepeatsLikeAaaAreEasyToGuess,
        RepeatsLikeAbcAbcAreOnlySlightlyHarderToGuess, ThisIsATop10Password, ThisIsATop100Password, ThisIsACommonPassword,
        ThisIsSimilarToACommonlyUsedPassword, SequencesLikeAbcAreEasyToGuess, RecentYearsAreEasyToGuess, AWordByItselfIsEasyToGuess,
        DatesAreOftenEasyToGuess, NamesAndSurnamesByThemselvesAreEasyToGuess, CommonNamesAndSurnamesAreEasyToGuess }
    #[derive(Clone, Copy)] pub struct Feedback { pub o: u8 }
    // the iterator pipeline suggestions().iter().map(f).chain(warning().map(g)).collect() only builds the error payload:
    // stand-ins with the same method names, no specification
    pub struct KvxSugg { pub o: u8 }
    pub struct KvxIter { pub o: u8 }
    #[verifier::external_body] #[verifier::reject_recursive_types(T)] pub struct KvxMapped<T> { p: core::marker::PhantomData<T> }
    impl Feedback {
        #[verifier::external_body] pub fn suggestions(&self) -> (r: KvxSugg) { unimplemented!() }
        #[verifier::external_body] pub fn warning(&self) -> (r: Option<Warning>) { unimplemented!() }
    }
    impl KvxSugg { #[verifier::external_body] pub fn iter(&self) -> (r: KvxIter) { unimplemented!() } }
    impl KvxIter { #[verifier::external_body] pub fn map<T, F: Fn(&Suggestion) -> T>(self, f: F) -> (r: KvxMapped<T>) { unimplemented!() } }
    impl<T> KvxMapped<T> {
        #[verifier::external_body] pub fn chain(self, o: Option<T>) -> (r: KvxMapped<T>) { unimplemented!() }
        #[verifier::external_body] pub fn collect(self) -> (r: Vec<T>) { unimplemented!() }
    }
} }
pub struct Entropy { pub o: u8 }
impl Entropy {
    #[verifier::external_body] pub fn score(&self) -> (r: Score) { unimplemented!() }
    #[verifier::external_body] pub fn feedback(&self) -> (r: Option<&zxcvbn::feedback::Feedback>) { unimplemented!() }
}
#[verifier::external_body] pub fn zxcvbn(cleartext: &str, related: &[&str]) -> (r: Entropy) { unimplemented!() }
pub assume_specification<T, E, F: FnOnce(&E)>[ Result::<T, E>::inspect_err ](r: Result<T, E>, f: F) -> (o: Result<T, E>)
    ensures o == r;
pub assume_specification<T: Clone, E>[ Result::<&T, E>::cloned ](r: Result<&T, E>) -> (o: Result<T, E>) ensures r is Ok == o is Ok;

//@extract PasswordFeedback
//@extract PasswordQuality
pub enum OperationError { PasswordQuality(Vec<PasswordFeedback>), InvalidState, Other }
pub struct ResolvedAccountPolicy { pub pw_min_length: u32, pub pw_max_length: u32 }
impl ResolvedAccountPolicy {
    pub fn pw_min_length(&self) -> (r: u32) ensures r == self.pw_min_length { self.pw_min_length }
    pub fn pw_max_length(&self) -> (r: u32) ensures r == self.pw_max_length { self.pw_max_length }
}

// ---- specification from the statement of C31 ----
// the target account's effective minimum password length (graphemes), as resolved from its account policies: NOT an input of the
// POSIX path's check — which is finding F7
pub uninterp spec fn effective_min_length() -> nat;
pub open spec fn f7_known_gap() -> bool { true }
pub open spec fn badlisted(b: &KvxBadlist, cleartext: &str) -> bool { b.has(lower(cleartext)) }

pub struct IdmServerCredUpdateTransaction { pub qs_read: QsTxn }
impl IdmServerCredUpdateTransaction {
//@extract cu_check_password_quality
}
pub struct IdmServerProxyWriteTransaction { pub qs_write: QsTxn }
impl IdmServerProxyWriteTransaction {
//@extract posix_check_password_quality
}
}
fn main(){}
