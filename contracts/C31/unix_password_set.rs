use vstd::prelude::*;
use core::cmp::Ordering;
verus! {
//@include shims/uuid.rs
//@include shims/std_option.rs
pub enum OperationError { MissingClass(String), SystemProtectedObject, NoMatchingEntries, PasswordQuality, Backend }
pub const ENTRYCLASS_POSIX_ACCOUNT: &'static str = "posixaccount";
#[verifier::external_body] pub fn kvx_into_string(s: &str) -> (r: String) { unimplemented!() }
pub struct OffsetDateTime { pub o: i64 }
pub struct CryptoPolicy { pub o: u8 }
pub struct Identity { pub o: u8 }
impl Identity { #[verifier::external_body] pub fn is_internal(&self) -> (r: bool) { unimplemented!() } }
pub struct UnixExtensions { pub o: u8 }
pub struct Account { pub uuid: Uuid, pub o: int }
impl Account {
    #[verifier::external_body] pub fn unix_extn(&self) -> (r: Option<&UnixExtensions>) { unimplemented!() }
    #[verifier::external_body] pub fn is_anonymous(&self) -> (r: bool) { unimplemented!() }
    #[verifier::external_body] pub fn related_inputs(&self) -> (r: Vec<&str>) { unimplemented!() }
}
pub struct UnixPasswordChangeEvent { pub ident: Identity, pub target: Uuid, pub cleartext: String }
pub struct ModifyInvalid;
#[verifier::reject_recursive_types(S)] pub struct ModifyList<S> { pub o: u8, pub p: core::marker::PhantomData<S> }
// the modification that stores `cleartext` as the account's POSIX password
#[verifier::external_body] pub fn gen_password_mod(cleartext: &str, cp: &CryptoPolicy, ts: OffsetDateTime) -> (r: Result<ModifyList<ModifyInvalid>, OperationError>) { unimplemented!() }
pub struct ModifyEvent { pub o: u8 }
pub struct ModifyPartial { pub o: u8 }
pub struct PartialValue { pub o: u8 }
pub struct Attribute { pub o: u8 }
pub struct FC { pub o: u8 }
pub struct Filter { pub o: u8 }
impl Attribute { pub const Uuid: Attribute = Attribute { o: 0 }; }
impl PartialValue { #[verifier::external_body] #[allow(non_snake_case)] pub fn Uuid(u: Uuid) -> (r: PartialValue) { unimplemented!() } }
#[verifier::external_body] pub fn f_eq(a: Attribute, v: PartialValue) -> (r: FC) { unimplemented!() }
#[verifier::external_body] pub fn kvx_filter(f: FC) -> (r: Filter) { unimplemented!() }
#[verifier::external_body] pub fn kvx_filter_all(f: FC) -> (r: Filter) { unimplemented!() }
pub struct QueryServerWriteTransaction { pub o: int }
impl QueryServerWriteTransaction {
    // ghost: the modifications applied through this transaction that store a password, with the cleartext they store
    pub uninterp spec fn applied(&self) -> nat;
    #[verifier::external_body] pub fn get_curtime_odt(&self) -> (r: OffsetDateTime) { unimplemented!() }
    #[verifier::external_body] pub fn impersonate_modify_gen_event(&mut self, f: &Filter, fo: &Filter, ml: &ModifyList<ModifyInvalid>, ident: &Identity) -> (r: Result<ModifyEvent, OperationError>)
        ensures final(self).applied() == old(self).applied() { unimplemented!() }
    // modify_pre_apply: access control and plugins run, nothing is written yet
    #[verifier::external_body] pub fn modify_pre_apply(&mut self, me: &ModifyEvent) -> (r: Result<Option<ModifyPartial>, OperationError>)
        ensures final(self).applied() == old(self).applied() { unimplemented!() }
    // modify_apply: the write. The ghost argument is the caller's claim that the password it stores passed the quality check
    #[verifier::external_body] pub fn modify_apply(&mut self, mp: ModifyPartial, Ghost(quality_checked): Ghost<bool>) -> (r: Result<(), OperationError>)
        requires quality_checked
        ensures final(self).applied() == old(self).applied() + 1 { unimplemented!() }
}
// C31: what IdmServerProxyWriteTransaction::check_password_quality guarantees when it returns Ok (proved of the real function in unit
// password_quality: length bounds and badlist)
pub uninterp spec fn posix_quality_ok(cleartext: Seq<char>) -> bool;
pub struct IdmServerProxyWriteTransaction<'a> { pub qs_write: QueryServerWriteTransaction, pub crypto_policy: &'a CryptoPolicy }
impl<'a> IdmServerProxyWriteTransaction<'a> {
    #[verifier::external_body] pub fn check_password_quality(&mut self, cleartext: &str, related: &[&str]) -> (r: Result<(), OperationError>)
        ensures r is Ok ==> posix_quality_ok(cleartext@), final(self).qs_write == old(self).qs_write { unimplemented!() }
    // `self.qs_write.internal_search_uuid(target).and_then(|e| Account::try_from_entry_rw(&e, &mut self.qs_write))`
    #[verifier::external_body] pub fn kvx_account_of(&mut self, target: Uuid) -> (r: Result<Account, OperationError>)
        ensures final(self).qs_write.applied() == old(self).qs_write.applied() { unimplemented!() }
//@extract set_unix_account_password
}
}
fn main(){}
