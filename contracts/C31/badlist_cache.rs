use vstd::prelude::*;
use core::cmp::Ordering;
use std::sync::Arc;
verus! {
//@include shims/uuid.rs
pub enum OperationError { NoMatchingEntries, Backend }
pub const UUID_SYSTEM_CONFIG: Uuid = Uuid(@@constexpr:UUID_SYSTEM_CONFIG:uuid!\("([0-9a-f-]+)"\):uuidhex@@);
#[derive(Clone, Copy)] pub struct AttrString { pub o: u64 }
//@extract Attribute
// ---- std::collections::HashSet<String>, observed as the set of its strings ----
#[verifier::external_body] #[verifier::reject_recursive_types(T)] pub struct HashSet<T> { p: core::marker::PhantomData<T> }
impl<T> HashSet<T> {
    pub uninterp spec fn strs(&self) -> Set<Seq<char>>;
    #[verifier::external_body] pub fn default() -> (r: HashSet<T>) ensures r.strs() == Set::<Seq<char>>::empty() { unimplemented!() }
}
// ---- the iterator over an attribute's iutf8 values ----
#[verifier::external_body] pub struct StrIter<'a> { p: core::marker::PhantomData<&'a str> }
impl<'a> StrIter<'a> {
    pub uninterp spec fn items(&self) -> Set<Seq<char>>;
    // Iterator::filter / take / skip: some of the strings (an upper bound only: which ones is the predicate's business, so a
    // collected set that must equal the stored one cannot be proved through them)
    #[verifier::external_body] pub fn filter<P: FnMut(&&'a str) -> bool>(self, p: P) -> (r: StrIter<'a>) ensures r.items().subset_of(self.items()) { unimplemented!() }
    #[verifier::external_body] pub fn take(self, n: usize) -> (r: StrIter<'a>) ensures r.items().subset_of(self.items()) { unimplemented!() }
    #[verifier::external_body] pub fn skip(self, n: usize) -> (r: StrIter<'a>) ensures r.items().subset_of(self.items()) { unimplemented!() }
}
// `it.map(str::to_string).collect::<HashSet<_>>()`: every string the iterator yields, and nothing else
#[verifier::external_body] pub fn kvx_collect_strings<'a>(it: StrIter<'a>) -> (r: HashSet<String>) ensures r.strs() == it.items() { unimplemented!() }
// ---- entries: an attribute's values as a set of strings ----
pub struct EntrySealedCommitted { pub o: int }
impl EntrySealedCommitted {
    pub uninterp spec fn vals(&self, a: Attribute) -> Set<Seq<char>>;
    // Entry::get_ava_iter_iutf8: Some(iterator over the values) when the attribute is present (as iutf8), None otherwise
    #[verifier::external_body] pub fn get_ava_iter_iutf8<'a>(&'a self, a: Attribute) -> (r: Option<StrIter<'a>>)
        ensures r is None ==> self.vals(a) == Set::<Seq<char>>::empty(), r matches Some(it) ==> it.items() == self.vals(a) { unimplemented!() }
    #[verifier::external_body] pub fn get_ava_iter_iname<'a>(&'a self, a: Attribute) -> (r: Option<StrIter<'a>>)
        ensures r is None ==> self.vals(a) == Set::<Seq<char>>::empty(), r matches Some(it) ==> it.items() == self.vals(a) { unimplemented!() }
}
// ---- the database as a write transaction sees it (ghost): uuid -> entry ----
pub struct Db { pub o: int }
pub uninterp spec fn entry_of(db: Db, u: Uuid) -> EntrySealedCommitted;
// the statement's "system password badlist": the values of badlist_password on the system configuration entry
pub open spec fn stored_badlist(db: Db) -> Set<Seq<char>> { entry_of(db, UUID_SYSTEM_CONFIG).vals(Attribute::BadlistPassword) }
pub open spec fn stored_denied(db: Db) -> Set<Seq<char>> { entry_of(db, UUID_SYSTEM_CONFIG).vals(Attribute::DeniedName) }
pub struct SystemConfig { pub denied_names: HashSet<String>, pub pw_badlist: HashSet<String> }
pub struct CowCellWriteTxn { pub v: SystemConfig }
impl CowCellWriteTxn {
    #[verifier::external_body] pub fn get_mut(&mut self) -> (r: &mut SystemConfig) ensures *r == old(self).v, final(self).v == *final(r) { unimplemented!() }
}
pub struct BackendWriteTransaction { pub o: u8 }
impl BackendWriteTransaction { pub uninterp spec fn db(&self) -> Db; }
pub struct QueryServerWriteTransaction { pub system_config: CowCellWriteTxn, pub be_txn: BackendWriteTransaction }
impl QueryServerWriteTransaction {
    pub open spec fn db(&self) -> Db { self.be_txn.db() }
    // internal_search_uuid: the entry with that uuid in this transaction's view; changes nothing
    #[verifier::external_body] pub fn internal_search_uuid(&mut self, u: Uuid) -> (r: Result<Arc<EntrySealedCommitted>, OperationError>)
        ensures r matches Ok(e) ==> *e == entry_of(old(self).db(), u), final(self).be_txn == old(self).be_txn, final(self).system_config == old(self).system_config { unimplemented!() }
    // what the password-quality checks consult (QueryServerTransaction::pw_badlist, units password_quality)
    pub open spec fn pw_badlist_view(&self) -> Set<Seq<char>> { self.system_config.v.pw_badlist.strs() }
//@extract get_sc_password_badlist
//@extract get_sc_denied_names
//@extract reload_system_config
}
}
fn main(){}
