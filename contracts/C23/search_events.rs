use vstd::prelude::*;
use core::cmp::Ordering;
verus! {
//@include shims/uuid.rs
//@include shims/std_option.rs
pub enum OperationError { SchemaViolation(SchemaError), EmptyRequest, Backend }
pub struct SchemaError { pub o: u8 }
pub struct AttrString { pub o: u64 }
//@extract Attribute
pub enum PartialValue { Uuid(Uuid), Other(u64) }
#[derive(Clone)] pub struct Identity { pub id: u64 }
// filters: opaque, carrying as ghost data the query they were built from and which visibility wrapper was applied
pub struct FilterInvalid; pub struct FilterValid;
pub struct Query { pub o: int }
#[verifier::external_body] #[verifier::reject_recursive_types(S)] pub struct Filter<S> { p: core::marker::PhantomData<S> }
impl<S> Filter<S> {
    pub uninterp spec fn src(&self) -> Query;                 // the query as asked
    pub uninterp spec fn hides_deleted(&self) -> bool;        // wrapped by into_ignore_hidden: matches no tombstone and no recycled entry (contracts/C23/hidden_wrapper)
    pub uninterp spec fn recycled_only(&self) -> bool;        // wrapped by into_recycled: matches recycled entries only
}
pub struct Schema { pub o: u8 }
pub struct ProtoFilter { pub o: u8 }
pub struct SearchRequest { pub filter: ProtoFilter }
pub struct FC { pub o: u64 }
#[verifier::external_body] pub fn f_self() -> (r: FC) { unimplemented!() }
#[verifier::external_body] pub fn f_eq(a: Attribute, v: PartialValue) -> (r: FC) { unimplemented!() }
pub uninterp spec fn query_of_fc(fc: FC) -> Query;
#[verifier::external_body] pub fn kvx_filter_all(fc: FC) -> (r: Filter<FilterInvalid>) ensures r.src() == query_of_fc(fc), !r.hides_deleted(), !r.recycled_only() { unimplemented!() }      // filter_all!(fc) = Filter::new(fc): no wrapper
impl Filter<FilterInvalid> {
    #[verifier::external_body] pub fn from_ro(ident: &Identity, f: &ProtoFilter, qs: &mut QueryServerReadTransaction) -> (r: Result<Filter<FilterInvalid>, OperationError>)
        ensures r matches Ok(x) ==> !x.hides_deleted() && !x.recycled_only() { unimplemented!() }
    #[verifier::external_body] pub fn validate(&self, s: &Schema) -> (r: Result<Filter<FilterValid>, SchemaError>)
        ensures r matches Ok(x) ==> x.src() == self.src() && x.hides_deleted() == self.hides_deleted() && x.recycled_only() == self.recycled_only() { unimplemented!() }
}
impl Filter<FilterValid> {
    #[verifier::external_body] pub fn clone(&self) -> (r: Filter<FilterValid>) ensures r == *self { unimplemented!() }
    // contracts/C23/hidden_wrapper proves what the two wrappers do to the set of matching entries
    #[verifier::external_body] pub fn into_ignore_hidden(self) -> (r: Filter<FilterValid>) ensures r.src() == self.src(), r.hides_deleted(), r.recycled_only() == self.recycled_only() { unimplemented!() }
    #[verifier::external_body] pub fn into_recycled(self) -> (r: Filter<FilterValid>) ensures r.src() == self.src(), r.recycled_only(), r.hides_deleted() == self.hides_deleted() { unimplemented!() }
}
pub struct QueryServerReadTransaction { pub o: u8 }
impl QueryServerReadTransaction { #[verifier::external_body] pub fn get_schema(&self) -> (r: &Schema) { unimplemented!() } }
#[verifier::external_body] #[verifier::reject_recursive_types(T)] pub struct BTreeSet<T> { p: core::marker::PhantomData<T> }
impl<T> BTreeSet<T> { #[verifier::external_body] pub fn is_empty(&self) -> (r: bool) { unimplemented!() } }
// attribute-name normalisation of the requested attribute list (iterator pipeline over the schema; irrelevant to visibility)
#[verifier::external_body] pub fn kvx_norm_attrs(attrs: Option<&[String]>, qs: &QueryServerReadTransaction) -> (r: Option<BTreeSet<Attribute>>) { unimplemented!() }
//@extract SearchEvent
// the statement (C23, last sentence; C26): what a search event may return with respect to deleted entries
pub open spec fn visibility_ok(ev: &SearchEvent) -> bool {
    ev.filter.src() == ev.filter_orig.src() && (ev.filter.hides_deleted() || ev.filter.recycled_only())
}
impl SearchEvent {
//@extract se_from_message
//@extract se_from_internal_message
//@extract se_from_internal_recycle_message
//@extract se_from_whoami_request
//@extract se_from_target_uuid_request
}
}
fn main(){}
