use vstd::prelude::*;
use core::cmp::Ordering;
use vstd::std_specs::iter::IteratorSpec;
macro_rules! btreeset { ($($e:expr),+ $(,)?) => { BTreeSet::kvx_from_array([$($e),+]) }; }
verus! {
//@include shims/duration.rs
//@include shims/uuid.rs
//@include shims/offsetdatetime.rs
#[derive(Clone, PartialEq, Eq)]
pub struct AttrString { pub o: u64 }
// ---- real enums extracted from /repo ----
//@extract Attribute
//@extract EntryClass
//@extract InternalRole
//@extract IdentType
//@extract AccessScope
//@extract Identity
//@include shims/access_common.rs
//@include shims/access_identity.rs
pub const UUID_ANONYMOUS: Uuid = Uuid(@@constexpr:UUID_ANONYMOUS:uuid!\("([0-9a-f-]+)"\):uuidhex@@);
impl Identity {
//@extract access_scope
}
//@include shims/access_statics.rs
//@extract AccessControlReceiverCondition
//@extract AccessControlTargetCondition
// access profiles for search (server/access/profiles.rs): the attribute list is viewed as a sequence
#[verifier::external_body] pub struct KvxAttrVec { p: u8 }
impl View for KvxAttrVec { type V = Seq<Attribute>; uninterp spec fn view(&self) -> Seq<Attribute>; }
#[verifier::external_body] pub struct KvxAttrIter<'a> { p: core::marker::PhantomData<&'a Attribute> }
impl<'a> KvxAttrIter<'a> { pub uninterp spec fn items(&self) -> Seq<Attribute>; #[verifier::external_body] pub fn cloned(self) -> (r: KvxAttrIter<'a>) ensures r.items() == self.items() { unimplemented!() } }
impl KvxAttrVec { #[verifier::external_body] pub fn iter(&self) -> (r: KvxAttrIter<'_>) ensures r.items() == self@ { unimplemented!() } }
pub struct AccessControlSearch { pub acp: AccessControlProfile, pub attrs: KvxAttrVec }
pub struct AccessControlSearchResolved<'a> { pub acp: &'a AccessControlSearch, pub receiver_condition: AccessControlReceiverCondition, pub target_condition: AccessControlTargetCondition }
//@extract AccessSrchResult
//@extract SearchResult
// R3: Iterator::filter_map (provided trait method) redirected; `.flatten().collect()` are inherent methods of the stand-in result.
// Specification (from the std documentation, soundness direction only): every collected attribute comes from an iterator that the
// closure returned as Some(..) for some element of the slice.
#[verifier::external_body] pub struct KvxFm<'a> { p: core::marker::PhantomData<&'a Attribute> }
impl<'a> KvxFm<'a> {
    pub uninterp spec fn parts(&self) -> Seq<Seq<Attribute>>;      // the item sequences of the iterators the closure produced
    #[verifier::external_body] pub fn flatten(self) -> (r: KvxFm<'a>) ensures r.parts() == self.parts() { unimplemented!() }
    #[verifier::external_body] pub fn collect(self) -> (r: BTreeSet<Attribute>)
        ensures forall|a: Attribute| #[trigger] r@.contains(a) ==> exists|p: int, j: int| 0 <= p < self.parts().len() && 0 <= j < self.parts()[p].len() && self.parts()[p][j] == a { unimplemented!() }
}
pub trait KvxFilterMap<'a, T: 'a>: Sized {
    #[verifier::prophetic] spec fn kvx_items(&self) -> Seq<&'a T>;
    fn kvx_filter_map<F: Fn(&'a T) -> Option<KvxAttrIter<'a>>>(self, f: F) -> (r: KvxFm<'a>)
        requires forall|i: int| 0 <= i < self.kvx_items().len() ==> f.requires((#[trigger] self.kvx_items()[i],)),
        ensures self.kvx_items().len() >= 0,
                forall|p: int| 0 <= p < r.parts().len() ==> exists|i: int, it: KvxAttrIter<'a>| 0 <= i < self.kvx_items().len() && #[trigger] f.ensures((self.kvx_items()[i],), Some(it)) && it.items() == #[trigger] r.parts()[p];
}
impl<'a, T> KvxFilterMap<'a, T> for core::slice::Iter<'a, T> {
    #[verifier::prophetic] open spec fn kvx_items(&self) -> Seq<&'a T> { self.remaining() }
    #[verifier::external_body] fn kvx_filter_map<F: Fn(&'a T) -> Option<KvxAttrIter<'a>>>(self, f: F) -> (r: KvxFm<'a>) { unimplemented!() }
}

// ---- specification from the statement of C23 ----
pub open spec fn receiver_ok(c: AccessControlReceiverCondition, i: &Identity, e: &EntrySealedCommitted) -> bool {
    match c {
        AccessControlReceiverCondition::GroupChecked => true,
        AccessControlReceiverCondition::EntryManager => e.refers(Attribute::EntryManagedBy) matches Some(m)
            && ((i.memberof() matches Some(g) && !g.disjoint(m)) || m.contains(i.uuid())),
    }
}
pub open spec fn target_ok(c: AccessControlTargetCondition, e: &EntrySealedCommitted) -> bool { match c { AccessControlTargetCondition::Scope(f) => e.matches_filter(&f) } }
// a read grant of attribute `a` on entry `e` for identity `i`: a profile whose receiver and target both match and that lists `a`
pub open spec fn acp_grants_read(acps: Seq<AccessControlSearchResolved>, i: &Identity, e: &EntrySealedCommitted, a: Attribute) -> bool {
    exists|k: int, j: int| 0 <= k < acps.len() && receiver_ok(acps[k].receiver_condition, i, e) && target_ok(acps[k].target_condition, e)
        && 0 <= j < acps[k].acp.attrs@.len() && #[trigger] acps[k].acp.attrs@[j] == a
}

pub assume_specification<T, U>[ Option::<T>::zip ](a: Option<T>, b: Option<U>) -> (r: Option<(T, U)>)
    ensures r == (match (a, b) { (Some(x), Some(y)) => Some((x, y)), _ => None });
// built-in visibility rules (the statement names OAuth2 client visibility for users holding its scopes)
pub open spec fn user_entry(i: &Identity) -> Option<&EntrySealedCommitted> { match i.origin { IdentType::User(u) => Some(&u.entry.v), _ => None } }
pub open spec fn oauth2_visible(i: &Identity, e: &EntrySealedCommitted) -> bool {
    has_class(e, EntryClass::OAuth2ResourceServer) && (e.scopemap_groups() matches Some(g) && i.memberof() matches Some(m) && !g.disjoint(m))
}
pub open spec fn application_visible(i: &Identity, e: &EntrySealedCommitted) -> bool {
    has_class(e, EntryClass::Application) && (e.refer(Attribute::LinkedGroup) matches Some(g) && i.memberof() matches Some(m) && m.contains(g))
}
pub open spec fn sync_account_visible(i: &Identity, e: &EntrySealedCommitted) -> bool {
    user_entry(i) matches Some(u) && has_class(u, EntryClass::SyncObject) && has_class(u, EntryClass::Account) && has_class(e, EntryClass::SyncAccount)
        && u.refer(Attribute::SyncParentUuid) == Some(e.uuid())
}
pub open spec fn has_class(e: &EntrySealedCommitted, ec: EntryClass) -> bool { e.classes() matches Some(c) && c.contains(ec_string(ec)) }
pub open spec fn builtin_rule_applies(i: &Identity, e: &EntrySealedCommitted) -> bool { oauth2_visible(i, e) || application_visible(i, e) || sync_account_visible(i, e) }

//@extract search_filter_entry
//@extract search_oauth2_filter_entry
//@extract search_applications_filter_entry
//@extract search_sync_account_filter_entry
//@extract apply_search_access

//@include shims/access_resolve.rs
// ---- the drivers: search_related_acp / filter_entries (access/mod.rs) ----
// AccessControlSearch.attrs is a BTreeSet<Attribute>; `is_disjoint` against the requested attribute set
impl KvxAttrVec { #[verifier::external_body] pub fn is_disjoint(&self, o: &BTreeSet<Attribute>) -> (r: bool) ensures r == self@.to_set().disjoint(o@) { unimplemented!() } }
// Filter::get_attr_set (filter.rs): the attributes named by the terms of the original filter — uninterpreted observer here; the real FilterComp::get_attr_set is under contract in unit attr_set
impl Filter<FilterValid> { pub uninterp spec fn attr_set(&self) -> Set<Attribute>;
    #[verifier::external_body] pub fn get_attr_set(&self) -> (r: BTreeSet<Attribute>) ensures r@ == self.attr_set() { unimplemented!() } }
// statement level: a read grant "whose receiver and target both match that identity and that entry", over the profile state itself
pub open spec fn entry_manager_matches(i: &Identity, e: &EntrySealedCommitted) -> bool {
    e.refers(Attribute::EntryManagedBy) matches Some(m) && ((i.memberof() matches Some(g) && !g.disjoint(m)) || m.contains(i.uuid()))
}
pub open spec fn search_profile_matches(acp: &AccessControlProfile, ident: &Identity, e: &EntrySealedCommitted) -> bool {
    &&& (receiver_matches_user(&acp.receiver, ident) || (acp.receiver is EntryManager && entry_manager_matches(ident, e)))
    &&& (acp.target matches AccessControlTarget::Scope(f) && e.matches_filter(&resolved_filter(f, ident)))
}
pub open spec fn state_grants_read(st: Seq<AccessControlSearch>, i: &Identity, e: &EntrySealedCommitted, a: Attribute) -> bool {
    exists|k: int, j: int| 0 <= k < st.len() && search_profile_matches(&st[k].acp, i, e) && 0 <= j < st[k].attrs@.len() && #[trigger] st[k].attrs@[j] == a
}
pub open spec fn related_search_ok(state: Seq<AccessControlSearch>, ident: &Identity, r: &AccessControlSearchResolved) -> bool {
    exists|i: int| 0 <= i < state.len() && *r.acp == #[trigger] state[i] && conditions_resolved(ident, &state[i].acp.receiver, &state[i].acp.target, r.receiver_condition, r.target_condition)
}
pub proof fn lemma_search_lift(st: Seq<AccessControlSearch>, acps: Seq<AccessControlSearchResolved>, i: &Identity, e: &EntrySealedCommitted)
    requires forall|k: int| 0 <= k < acps.len() ==> related_search_ok(st, i, &#[trigger] acps[k])
    ensures forall|a: Attribute| acp_grants_read(acps, i, e, a) ==> state_grants_read(st, i, e, a)
{
    assert forall|a: Attribute| acp_grants_read(acps, i, e, a) implies state_grants_read(st, i, e, a) by {
        let (k, j) = choose|k: int, j: int| 0 <= k < acps.len() && receiver_ok(acps[k].receiver_condition, i, e) && target_ok(acps[k].target_condition, e)
            && 0 <= j < acps[k].acp.attrs@.len() && #[trigger] acps[k].acp.attrs@[j] == a;
        assert(related_search_ok(st, i, &acps[k]));
        let q = choose|q: int| 0 <= q < st.len() && *acps[k].acp == #[trigger] st[q] && conditions_resolved(i, &st[q].acp.receiver, &st[q].acp.target, acps[k].receiver_condition, acps[k].target_condition);
        assert(search_profile_matches(&st[q].acp, i, e));
        assert(st[q].attrs@[j] == a);
    }
}
//@extract related_search_step
#[verifier::external_body] pub fn kvx_related_search<'b>(state: &'b Vec<AccessControlSearch>, ident: &Identity, ident_memberof: Option<&BTreeSet<Uuid>>, cache: &mut ResolveFilterCacheReadTxn<'_>) -> (r: Vec<AccessControlSearchResolved<'b>>)
    requires ident_memberof is Some == ident.memberof() is Some, ident_memberof matches Some(m) ==> m@ == ident.memberof()->Some_0
    ensures forall|k: int| 0 <= k < r@.len() ==> related_search_ok(state@, ident, &#[trigger] r@[k]) { unimplemented!() }
// `vec.into_iter().filter(f).collect::<Vec<_>>()`: the elements of the vector for which f returned true, in order (std documentation)
#[verifier::external_body] #[verifier::reject_recursive_types(T)] pub struct KvxFiltered<T> { p: core::marker::PhantomData<T> }
impl<T> KvxFiltered<T> { pub uninterp spec fn kept(&self) -> Seq<T>;
    #[verifier::external_body] pub fn collect(self) -> (r: Vec<T>) ensures r@ == self.kept() { unimplemented!() } }
#[verifier::external_body] pub fn kvx_into_filter<T, F: Fn(&T) -> bool>(v: Vec<T>, f: F) -> (r: KvxFiltered<T>)
    requires forall|i: int| 0 <= i < v@.len() ==> f.requires((&#[trigger] v@[i],))
    ensures forall|k: int| 0 <= k < r.kept().len() ==> v@.contains(#[trigger] r.kept()[k]) && f.ensures((&r.kept()[k],), true),
            forall|i: int| 0 <= i < v@.len() && f.ensures((&#[trigger] v@[i],), true) && !f.ensures((&v@[i],), false) ==> r.kept().contains(v@[i]) { unimplemented!() }
pub struct AcpTxn<'a> { pub search: Vec<AccessControlSearch>, pub cache: &'a u8 }
impl<'a> AcpTxn<'a> {
    pub fn get_search(&self) -> (r: &Vec<AccessControlSearch>) ensures *r == self.search { &self.search }
    #[verifier::external_body] pub fn get_acp_resolve_filter_cache(&self) -> (r: &mut ResolveFilterCacheReadTxn<'a>) { unimplemented!() }
//@extract search_related_acp
//@extract filter_entries
}
}
fn main(){}
