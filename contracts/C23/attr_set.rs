use vstd::prelude::*;
verus! {
#[derive(Clone, Copy)] pub struct AttrString { pub o: u64 }
#[derive(Copy)]
//@extract Attribute
impl Clone for Attribute { fn clone(&self) -> (r: Attribute) ensures r == *self { *self } }
pub struct PartialValue { pub o: u64 }
//@extract FilterComp
#[verifier::external_body] #[verifier::reject_recursive_types(T)] pub struct BTreeSet<T> { p: core::marker::PhantomData<T> }
impl<T> View for BTreeSet<T> { type V = Set<T>; uninterp spec fn view(&self) -> Set<T>; }
impl<T> BTreeSet<T> {
    #[verifier::external_body] pub fn insert(&mut self, x: T) -> (r: bool) ensures final(self)@ == old(self)@.insert(x) { unimplemented!() }
}
// C23: access control inspects "the attributes the filter uses": an attribute is used when any term of the filter names it —
// under And / Or / Inclusion and under AndNot alike (a negated term over an unreadable attribute is a value oracle otherwise)
pub open spec fn mentions(f: FilterComp, a: Attribute) -> bool decreases f {
    match f {
        FilterComp::Or(l) => exists|i: int| 0 <= i < l@.len() && mentions(#[trigger] l@[i], a),
        FilterComp::And(l) => exists|i: int| 0 <= i < l@.len() && mentions(#[trigger] l@[i], a),
        FilterComp::Inclusion(l) => exists|i: int| 0 <= i < l@.len() && mentions(#[trigger] l@[i], a),
        FilterComp::AndNot(b) => mentions(*b, a),
        FilterComp::Eq(x, _) => x == a,
        FilterComp::Cnt(x, _) => x == a,
        FilterComp::Stw(x, _) => x == a,
        FilterComp::Enw(x, _) => x == a,
        FilterComp::LessThan(x, _) => x == a,
        FilterComp::Pres(x) => x == a,
        FilterComp::Invalid(x) => x == a,
        FilterComp::SelfUuid => a == Attribute::Uuid,
    }
}
pub open spec fn some_mentions(l: Seq<FilterComp>, a: Attribute) -> bool { exists|i: int| 0 <= i < l.len() && mentions(#[trigger] l[i], a) }
pub open spec fn adds_mentions(before: Set<Attribute>, after: Set<Attribute>, f: FilterComp) -> bool {
    forall|a: Attribute| #[trigger] after.contains(a) <==> (before.contains(a) || mentions(f, a))
}
// `vs.iter().for_each(|f| f.get_attr_set(r_set))`: the function's own contract for each element, in order (structural induction)
#[verifier::external_body] pub fn kvx_each_attr_set(vs: &Vec<FilterComp>, r_set: &mut BTreeSet<Attribute>)
    ensures forall|a: Attribute| #[trigger] final(r_set)@.contains(a) <==> (old(r_set)@.contains(a) || some_mentions(vs@, a)) { unimplemented!() }
impl FilterComp {
//@extract attr_step
//@extract fc_get_attr_set
}
}
fn main(){}
