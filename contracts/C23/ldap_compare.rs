use vstd::prelude::*;
use core::cmp::Ordering;
verus! {
//@include shims/duration.rs
//@include shims/uuid.rs
pub enum OperationError { InvalidRequestState, SchemaViolation(SchemaError), Backend }
pub struct SchemaError { pub o: u8 }
pub struct Source { pub o: u8 }
// ---- ldap3_proto types (external crate): stand-ins with the variants / fields used ----
pub enum LdapFilter { And(Vec<LdapFilter>), Or(Vec<LdapFilter>), Not(Box<LdapFilter>), Equality(String, String), Present(String) }
impl LdapFilter { #[verifier::external_body] pub fn clone(&self) -> (r: LdapFilter) ensures r == *self { unimplemented!() } }
pub enum LdapResultCode { NoSuchObject, Other }
pub struct LdapMsg { pub kind: LdapMsgKind }
pub enum LdapMsgKind { CompareTrue, CompareFalse, Error }
pub struct CompareRequest { pub entry: String, pub atype: String, pub val: String }
impl CompareRequest {
    #[verifier::external_body] pub fn gen_compare_true(&self) -> (r: LdapMsg) ensures r.kind is CompareTrue { unimplemented!() }
    #[verifier::external_body] pub fn gen_compare_false(&self) -> (r: LdapMsg) ensures r.kind is CompareFalse { unimplemented!() }
    #[verifier::external_body] pub fn gen_error(&self, c: LdapResultCode, m: String) -> (r: LdapMsg) ensures r.kind is Error { unimplemented!() }
}
// regex captures of the request DN: named groups "attr" and "val"
#[verifier::external_body] pub struct Regex { _p: u8 }
#[verifier::external_body] pub struct Captures<'a> { p: core::marker::PhantomData<&'a str> }
#[verifier::external_body] pub struct Match<'a> { p: core::marker::PhantomData<&'a str> }
impl Regex { #[verifier::external_body] pub fn captures<'a>(&self, s: &'a str) -> (r: Option<Captures<'a>>) { unimplemented!() } }
impl<'a> Captures<'a> { #[verifier::external_body] pub fn name(&self, n: &str) -> (r: Option<Match<'a>>) { unimplemented!() } }
impl<'a> Match<'a> { #[verifier::external_body] pub fn as_str(&self) -> (r: &'a str) { unimplemented!() } }
// ---- real enums extracted from /repo ----
pub struct AttrString { pub o: u64 }
//@extract Attribute
impl Attribute { #[verifier::external_body] pub fn to_string(&self) -> (r: String) { unimplemented!() } }
//@extract LdapSession
//@extract LdapBoundToken
#[derive(Clone, Copy)] pub struct UserAuthToken { pub o: u8 }
#[derive(Clone, Copy)] pub struct ApiToken { pub o: u8 }
pub struct LdapSearchResultEntry { pub o: u8 }
//@extract LdapServer
// ---- filters and events: a filter carries (as ghost data) the LDAP filter it was built from and whether the hidden-entry wrapper
// was applied; the identity is opaque ----
#[derive(Clone)] pub struct Identity { pub id: u64 }
impl Identity { #[verifier::external_body] pub fn clone(&self) -> (r: Identity) ensures r == *self { unimplemented!() } }
pub struct FilterInvalid; pub struct FilterValid;
#[verifier::external_body] #[verifier::reject_recursive_types(S)] pub struct Filter<S> { p: core::marker::PhantomData<S> }
impl<S> Filter<S> { pub uninterp spec fn src(&self) -> LdapFilter; pub uninterp spec fn who(&self) -> Identity; pub uninterp spec fn hidden_wrapped(&self) -> bool; }
pub struct Schema { pub o: u8 }
pub struct QueryServerReadTransaction { pub o: u8 }
impl Filter<FilterInvalid> {
    // Filter::from_ldap_ro: translates the LDAP filter for that identity (C41 for the SCIM twin; the translation itself is not covered)
    #[verifier::external_body] pub fn from_ldap_ro(ident: &Identity, f: &LdapFilter, qs: &mut QueryServerReadTransaction) -> (r: Result<Filter<FilterInvalid>, OperationError>)
        ensures r matches Ok(x) ==> (x.src() == *f && x.who() == *ident && !x.hidden_wrapped()), final(qs).db() == old(qs).db() { unimplemented!() }
    #[verifier::external_body] pub fn validate(&self, s: &Schema) -> (r: Result<Filter<FilterValid>, SchemaError>)
        ensures r matches Ok(x) ==> (x.src() == self.src() && x.who() == self.who() && x.hidden_wrapped() == self.hidden_wrapped()) { unimplemented!() }
}
impl Filter<FilterValid> {
    #[verifier::external_body] pub fn clone(&self) -> (r: Filter<FilterValid>) ensures r == *self { unimplemented!() }
    // into_ignore_hidden: AND NOT (tombstone OR recycled) around the same filter
    #[verifier::external_body] pub fn into_ignore_hidden(self) -> (r: Filter<FilterValid>) ensures r.src() == self.src() && r.who() == self.who() && r.hidden_wrapped() { unimplemented!() }
}
//@extract ExistsEvent
// the front-end protocol for access-checked queries (C23): the filter that is EXECUTED must be the ACI-checked original filter plus
// only the hidden-entry wrapper, built for the event's own identity — otherwise terms escape the "caller can read this attribute" test
pub open spec fn event_well_formed(ee: &ExistsEvent) -> bool {
    ee.filter.src() == ee.filter_orig.src() && ee.filter.hidden_wrapped() && !ee.filter_orig.hidden_wrapped()
    && ee.filter.who() == ee.ident && ee.filter_orig.who() == ee.ident
}
// the database snapshot a read transaction works on (ghost): none of the operations below changes it
pub struct Db { pub o: int }
pub uninterp spec fn exists_sem(db: Db, ident: Identity, f: LdapFilter) -> bool;        // QueryServerTransaction::exists: access-checked existence
pub uninterp spec fn session_ident(db: Db, s: LdapSession) -> Identity;                  // validate_ldap_session: unit ldap_identity (C40)
impl QueryServerReadTransaction {
    pub uninterp spec fn db(&self) -> Db;
    #[verifier::external_body] pub fn exists(&mut self, ee: &ExistsEvent) -> (r: Result<bool, OperationError>)
        requires event_well_formed(ee)
        ensures r matches Ok(b) ==> b == exists_sem(old(self).db(), ee.ident, ee.filter_orig.src()), final(self).db() == old(self).db() { unimplemented!() }
    #[verifier::external_body] pub fn get_schema(&self) -> (r: &Schema) { unimplemented!() }
}
pub struct IdmServerProxyReadTransaction { pub qs_read: QueryServerReadTransaction }
impl IdmServerProxyReadTransaction {
    // here only: the identity is a function of the bound session and the snapshot
    #[verifier::external_body] pub fn validate_ldap_session(&mut self, s: &LdapSession, source: Source, ct: Duration) -> (r: Result<Identity, OperationError>)
        ensures r matches Ok(i) ==> i == session_ident(old(self).qs_read.db(), *s), final(self).qs_read.db() == old(self).qs_read.db() { unimplemented!() }
}
pub struct IdmServer { pub o: u8 }
impl IdmServer { #[verifier::external_body] pub fn proxy_read(&self) -> (r: Result<IdmServerProxyReadTransaction, OperationError>) { unimplemented!() } }
#[verifier::external_body] pub fn duration_from_epoch_now() -> (r: Duration) { unimplemented!() }
// the schema / access-control classes hidden from LDAP
pub open spec fn is_hidden_class_filter(f: LdapFilter) -> bool {
    f matches LdapFilter::Not(b) && (*b matches LdapFilter::Or(l) && l@.len() == 3)
}
pub open spec fn compare_filter(f: LdapFilter, cr: &CompareRequest) -> bool {
    f matches LdapFilter::And(l) && l@.len() == 3 && (l@[1] matches LdapFilter::Equality(a, v) && a@ == cr.atype@ && v@ == cr.val@) && is_hidden_class_filter(l@[2])
}
pub open spec fn entry_filter(f: LdapFilter) -> bool {
    f matches LdapFilter::And(l) && l@.len() == 2 && is_hidden_class_filter(l@[1])
}
impl LdapServer {
//@extract do_compare
}
}
fn main(){}
