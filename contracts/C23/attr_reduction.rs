use vstd::prelude::*;
verus! {
#[derive(Clone, Copy)] pub struct AttrString { pub o: u64 }
//@extract Attribute
#[verifier::external_body] #[verifier::reject_recursive_types(T)] pub struct BTreeSet<T> { p: core::marker::PhantomData<T> }
impl<T> View for BTreeSet<T> { type V = Set<T>; uninterp spec fn view(&self) -> Set<T>; }
impl<T> BTreeSet<T> {
    #[verifier::external_body] pub fn default() -> (r: BTreeSet<T>) ensures r@ == Set::<T>::empty() { unimplemented!() }
    #[verifier::external_body] pub fn clone(&self) -> (r: BTreeSet<T>) ensures r@ == self@ { unimplemented!() }
}
// `requested & &allowed` (BitAnd of BTreeSet references: set intersection)
#[verifier::external_body] pub fn kvx_set_and(a: &BTreeSet<Attribute>, b: &BTreeSet<Attribute>) -> (r: BTreeSet<Attribute>) ensures r@ == a@.intersect(b@) { unimplemented!() }
pub struct Identity { pub o: int }
pub struct Filter { pub o: u8 }
// event::SearchEvent: the fields read here
pub struct SearchEvent { pub ident: Identity, pub attrs: Option<BTreeSet<Attribute>>, pub effective_access_check: bool }
pub struct EntrySealedCommitted { pub o: int }
pub struct Arc<T> { pub v: T }
pub struct AccessEffectivePermission { pub o: u8 }
// the entry as released to the caller: which attributes it shows
pub struct EntryReducedCommitted { pub o: int }
impl EntryReducedCommitted { pub uninterp spec fn shown(&self) -> Set<Attribute>; pub uninterp spec fn of(&self) -> EntrySealedCommitted; }
impl Arc<EntrySealedCommitted> {
    // Entry::reduce_attributes: only the attributes of the given set survive
    #[verifier::external_body] pub fn reduce_attributes(&self, allowed: &BTreeSet<Attribute>, eff: Option<Box<AccessEffectivePermission>>) -> (r: EntryReducedCommitted)
        ensures r.shown().subset_of(allowed@), r.of() == self.v { unimplemented!() }
}
pub struct AccessControlSearchResolved { pub o: u8 }
pub enum SearchResult { Deny, Grant, Allow(BTreeSet<Attribute>) }
// what apply_search_access grants on that entry (unit search_access proves the real function against the profiles): the set of
// attributes the caller may read, or nothing
pub uninterp spec fn readable(ident: Identity, acps: Seq<AccessControlSearchResolved>, e: EntrySealedCommitted) -> Option<Set<Attribute>>;
#[verifier::external_body] pub fn apply_search_access(ident: &Identity, acps: &Vec<AccessControlSearchResolved>, e: &Arc<EntrySealedCommitted>) -> (r: SearchResult)
    ensures r matches SearchResult::Allow(s) ==> readable(*ident, acps@, e.v) == Some(s@) { unimplemented!() }
pub struct DoEffectiveCheck { pub o: u8 }
pub struct AccessControls { pub o: u8 }
impl AccessControls {
    // the effective-permission report attached to a result (not an attribute of the entry)
    #[verifier::external_body] pub fn kvx_effective(&self, c: &Option<DoEffectiveCheck>, ident: &Identity, e: &Arc<EntrySealedCommitted>, acps: &Vec<AccessControlSearchResolved>) -> (r: Option<Box<AccessEffectivePermission>>) { unimplemented!() }
//@extract reduce_step
}
}
fn main(){}
