use vstd::prelude::*;
use core::cmp::Ordering;
verus! {
//@include shims/duration.rs
//@include shims/uuid.rs
//@include shims/kvx_btreemap.rs
//@include shims/std_option.rs
#[derive(Clone, Copy)] pub struct AttrString { pub o: u64 }
#[derive(Copy)]
//@extract Attribute
impl Clone for Attribute { fn clone(&self) -> (r: Attribute) ensures r == *self { *self } }
// change ids: Cid (ts, s_uuid) and its wire form; `cid.into()` converts a &Cid
pub struct Cid { pub ts: Duration, pub s_uuid: Uuid }
pub struct ReplCidV1 { pub ts: Duration, pub s_uuid: Uuid }
pub open spec fn wire_cid(c: Cid) -> ReplCidV1 { ReplCidV1 { ts: c.ts, s_uuid: c.s_uuid } }
impl Cid { pub fn into(&self) -> (r: ReplCidV1) ensures r == wire_cid(*self) { ReplCidV1 { ts: self.ts, s_uuid: self.s_uuid } } }
//@extract ReplCidRange
// value sets and their stored form
pub struct DbValueSetV2 { pub o: int }
pub struct ValueSet { pub o: int }
impl ValueSet {
    pub uninterp spec fn empty(&self) -> bool;
    pub uninterp spec fn stored(&self) -> DbValueSetV2;
    #[verifier::external_body] pub fn is_empty(&self) -> (r: bool) ensures r == self.empty() { unimplemented!() }
    #[verifier::external_body] pub fn to_db_valueset_v2(&self) -> (r: DbValueSetV2) ensures r == self.stored() { unimplemented!() }
}
//@extract ReplAttrStateV1
pub struct SchemaReadTransaction { pub o: u8 }
impl SchemaReadTransaction {
    pub uninterp spec fn replicated(&self, a: Attribute) -> bool;
    #[verifier::external_body] pub fn is_replicated(&self, a: &Attribute) -> (r: bool) ensures r == self.replicated(*a) { unimplemented!() }
}
// ---- C08: "which attribute states travel". For an attribute whose change is to be supplied, its change id ALWAYS travels; its
// value travels when it has a non-empty live value, otherwise the state is sent without a value (that is how a purge replicates) ----
pub open spec fn state_of(live: Map<Attribute, ValueSet>, a: Attribute, c: Cid) -> ReplAttrStateV1 {
    ReplAttrStateV1 { cid: wire_cid(c), attr: if live.contains_key(a) && !live[a].empty() { Some(live[a].stored()) } else { None } }
}
// an incremental supplies the changes inside the consumer's window for that server: (ts_min, ts_max]
pub open spec fn in_window(r: Map<Uuid, ReplCidRange>, c: Cid) -> bool {
    r.contains_key(c.s_uuid) && c.ts.dle(r[c.s_uuid].ts_max) && r[c.s_uuid].ts_min.dlt(c.ts)
}
//@extract refresh_state_step
//@extract incr_state_step
}
fn main(){}
