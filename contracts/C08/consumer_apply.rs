use vstd::prelude::*;
use core::cmp::Ordering;
verus! {
//@include shims/uuid.rs
pub enum OperationError { Backend, InvalidState }
pub const DYNAMIC_RANGE_MINIMUM_UUID: Uuid = Uuid(@@constexpr:DYNAMIC_RANGE_MINIMUM_UUID:uuid!\("([0-9a-f-]+)"\):uuidhex@@);
pub struct Cid { pub ts: u64, pub s: u128 }
pub struct Schema { pub o: int }
// ---- the entry states an incremental apply moves through: opaque values; what the per-entry operations compute is named by
// uninterpreted functions (merge_state itself: units merge_state / merge_attr of C08; validate_repl, resolve_add_conflict: not under contract) ----
pub struct ReplIncrementalEntryV1 { pub o: int }
pub struct EntryIncrementalNew { pub o: int }
pub struct EntryIncrementalCommitted { pub o: int }
pub struct EntryValidCommitted { pub o: int }
pub struct EntrySealedCommitted { pub o: int }
pub struct EntrySealedNew { pub o: int }
pub struct Arc<T> { pub v: T }
impl<T> Arc<T> { pub fn as_ref(&self) -> (r: &T) ensures *r == self.v { &self.v } }
pub uninterp spec fn sp_rehydrate(w: ReplIncrementalEntryV1) -> Result<EntryIncrementalNew, OperationError>;
pub uninterp spec fn sp_is_conflict(c: EntryIncrementalNew, d: EntrySealedCommitted) -> bool;
pub uninterp spec fn sp_resolve(cid: Cid, c: EntryIncrementalNew, d: EntrySealedCommitted) -> (Option<EntrySealedNew>, EntryIncrementalCommitted);
pub uninterp spec fn sp_merge(c: EntryIncrementalNew, d: EntrySealedCommitted, schema: Schema, trim: Cid) -> EntryIncrementalCommitted;
pub uninterp spec fn sp_validate(e: EntryIncrementalCommitted, schema: Schema) -> EntryValidCommitted;
pub uninterp spec fn sp_seal(e: EntryValidCommitted, schema: Schema) -> EntrySealedCommitted;
impl EntryIncrementalNew {
    #[verifier::external_body] pub fn rehydrate(w: ReplIncrementalEntryV1) -> (r: Result<EntryIncrementalNew, OperationError>) ensures r == sp_rehydrate(w) { unimplemented!() }
    #[verifier::external_body] pub fn is_add_conflict(&self, db: &EntrySealedCommitted) -> (r: bool) ensures r == sp_is_conflict(*self, *db) { unimplemented!() }
    #[verifier::external_body] pub fn resolve_add_conflict(&self, cid: &Cid, db: &EntrySealedCommitted) -> (r: (Option<EntrySealedNew>, EntryIncrementalCommitted)) ensures r == sp_resolve(*cid, *self, *db) { unimplemented!() }
    #[verifier::external_body] pub fn merge_state(&self, db: &EntrySealedCommitted, schema: &Schema, trim: &Cid) -> (r: EntryIncrementalCommitted) ensures r == sp_merge(*self, *db, *schema, *trim) { unimplemented!() }
}
impl EntryIncrementalCommitted { #[verifier::external_body] pub fn validate_repl(self, schema: &Schema) -> (r: EntryValidCommitted) ensures r == sp_validate(self, *schema) { unimplemented!() } }
impl EntryValidCommitted { #[verifier::external_body] pub fn seal(self, schema: &Schema) -> (r: EntrySealedCommitted) ensures r == sp_seal(self, *schema) { unimplemented!() } }
impl EntrySealedCommitted {
    pub uninterp spec fn uuid(&self) -> Uuid;
    #[verifier::external_body] pub fn get_uuid(&self) -> (r: Uuid) ensures r == self.uuid() { unimplemented!() }
}
impl Arc<EntrySealedCommitted> { pub fn get_uuid(&self) -> (r: Uuid) ensures r == self.v.uuid() { self.v.get_uuid() } }
#[verifier::external_body] #[verifier::reject_recursive_types(T)] pub struct BTreeSet<T> { p: core::marker::PhantomData<T> }
impl<T> View for BTreeSet<T> { type V = Set<T>; uninterp spec fn view(&self) -> Set<T>; }
impl<T> BTreeSet<T> { #[verifier::external_body] pub fn new() -> (r: BTreeSet<T>) ensures r@ == Set::<T>::empty() { unimplemented!() } }

// ---- C08 / C09: what one incremental apply must write. For every incoming entry i (after rehydration), paired with the database
// entry (or stub) incremental_prepare returned for it:
//   * a uuid (add) conflict: the survivor decided by resolve_add_conflict is written over the database entry, and the conflict copy it
//     may produce is created;
//   * otherwise: the merge of the incoming state with the database entry (merge_state, with this server's schema and trim point),
//     schema-checked (validate_repl turns an invalid result into a conflict, it never drops it) and sealed, is written over the database entry.
// Nothing is skipped: not a tombstone, not an entry that is "unchanged", not one that became a conflict. ----
pub open spec fn want(c: EntryIncrementalNew, d: Arc<EntrySealedCommitted>, cid: Cid, schema: Schema, trim: Cid) -> (EntrySealedCommitted, Arc<EntrySealedCommitted>) {
    if sp_is_conflict(c, d.v) { (sp_seal(sp_validate(sp_resolve(cid, c, d.v).1, schema), schema), d) }
    else { (sp_seal(sp_validate(sp_merge(c, d.v, schema, trim), schema), schema), d) }
}
pub open spec fn upd_has(upd: Seq<(EntrySealedCommitted, Arc<EntrySealedCommitted>)>, p: (EntrySealedCommitted, Arc<EntrySealedCommitted>)) -> bool {
    exists|k: int| 0 <= k < upd.len() && #[trigger] upd[k] == p
}
pub open spec fn new_has(create: Seq<EntrySealedNew>, n: EntrySealedNew) -> bool { exists|k: int| 0 <= k < create.len() && #[trigger] create[k] == n }
pub open spec fn from_some(ctx: Seq<EntryIncrementalNew>, db: Seq<Arc<EntrySealedCommitted>>, cid: Cid, schema: Schema, trim: Cid, p: (EntrySealedCommitted, Arc<EntrySealedCommitted>)) -> bool {
    exists|i: int| 0 <= i < ctx.len() && i < db.len() && p == #[trigger] want(ctx[i], db[i], cid, schema, trim)
}
pub open spec fn applied_ok(ctx: Seq<EntryIncrementalNew>, db: Seq<Arc<EntrySealedCommitted>>, cid: Cid, schema: Schema, trim: Cid,
                            upd: Seq<(EntrySealedCommitted, Arc<EntrySealedCommitted>)>, create: Seq<EntrySealedNew>) -> bool {
    // every incoming entry is written
    &&& forall|i: int| 0 <= i < ctx.len() && i < db.len() ==> upd_has(upd, #[trigger] want(ctx[i], db[i], cid, schema, trim))
    // the conflict copies are created
    &&& forall|i: int| 0 <= i < ctx.len() && i < db.len() && sp_is_conflict(#[trigger] ctx[i], db[i].v) ==>
            (sp_resolve(cid, ctx[i], db[i].v).0 matches Some(n) ==> new_has(create, n))
    // and nothing else is written
    &&& forall|k: int| 0 <= k < upd.len() ==> from_some(ctx, db, cid, schema, trim, #[trigger] upd[k])
}
// the uuid-conflict survivors outside the system range are reported to the plugins as conflicts
pub open spec fn conflicts_reported(ctx: Seq<EntryIncrementalNew>, db: Seq<Arc<EntrySealedCommitted>>, s: Set<Uuid>) -> bool {
    forall|i: int| 0 <= i < ctx.len() && i < db.len() && sp_is_conflict(#[trigger] ctx[i], db[i].v) && db[i].v.uuid().0 >= DYNAMIC_RANGE_MINIMUM_UUID.0 ==> s.contains(db[i].v.uuid())
}

// ---- the transaction: the fields this function reads, a ghost record of what it handed to the backend ----
pub struct BackendWriteTransaction { pub o: int }
pub struct Plugins;
pub struct QueryServerWriteTransaction { pub be_txn: BackendWriteTransaction, pub schema: Schema, pub cid: Cid, pub trim: Cid }
impl QueryServerWriteTransaction {
    pub fn get_cid(&self) -> (r: &Cid) ensures *r == self.cid { &self.cid }
    pub fn trim_cid(&self) -> (r: &Cid) ensures *r == self.trim { &self.trim }
}
impl BackendWriteTransaction {
    // incremental_prepare: one database entry (or a fresh stub) per incoming entry, in order (be/mod.rs; not under contract)
    #[verifier::external_body] pub fn incremental_prepare(&mut self, ctx: &Vec<EntryIncrementalNew>) -> (r: Result<Vec<Arc<EntrySealedCommitted>>, OperationError>)
        ensures r matches Ok(v) ==> v@.len() == ctx@.len() { unimplemented!() }
    // incremental_apply(updates, creates). The ghost arguments are the incoming entries and the prepared database entries:
    // the call must show that what it writes is exactly what C08 / C09 need written (applied_ok)
    #[verifier::external_body] pub fn incremental_apply(&mut self, Ghost(ctx): Ghost<Seq<EntryIncrementalNew>>, Ghost(db): Ghost<Seq<Arc<EntrySealedCommitted>>>, Ghost(cid): Ghost<Cid>, Ghost(schema): Ghost<Schema>, Ghost(trim): Ghost<Cid>,
            upd: &Vec<(EntrySealedCommitted, Arc<EntrySealedCommitted>)>, create: Vec<EntrySealedNew>) -> (r: Result<(), OperationError>)
        requires applied_ok(ctx, db, cid, schema, trim, upd@, create@) { unimplemented!() }
}
// the plugin entry points after the write (C16 / C17 / C19 hooks run inside them; not under contract here). Ghost arguments as above:
// the hooks must be shown the entries that were written — all of them, before and after, in matching order — and the conflict uuids
pub open spec fn unzipped(all: Seq<(EntrySealedCommitted, Arc<EntrySealedCommitted>)>, pre: Seq<Arc<EntrySealedCommitted>>, cand: Seq<EntrySealedCommitted>) -> bool {
    pre.len() == all.len() && cand.len() == all.len() && forall|k: int| 0 <= k < all.len() ==> #[trigger] all[k] == (cand[k], pre[k])
}
#[verifier::external_body] pub fn kvx_run_post_repl_incremental_conflict(Ghost(ctx): Ghost<Seq<EntryIncrementalNew>>, Ghost(db): Ghost<Seq<Arc<EntrySealedCommitted>>>,
        qs: &mut QueryServerWriteTransaction, cand: &[(EntrySealedCommitted, Arc<EntrySealedCommitted>)], conflict_uuids: &mut BTreeSet<Uuid>) -> (r: Result<(), OperationError>)
    requires conflicts_reported(ctx, db, old(conflict_uuids)@)
    ensures final(qs).cid == old(qs).cid, final(qs).schema == old(qs).schema, final(qs).trim == old(qs).trim,
            old(conflict_uuids)@.subset_of(final(conflict_uuids)@) { unimplemented!() }
#[verifier::external_body] pub fn kvx_run_post_repl_incremental(Ghost(all): Ghost<Seq<(EntrySealedCommitted, Arc<EntrySealedCommitted>)>>, Ghost(ctx): Ghost<Seq<EntryIncrementalNew>>, Ghost(db): Ghost<Seq<Arc<EntrySealedCommitted>>>,
        qs: &mut QueryServerWriteTransaction, pre: &[Arc<EntrySealedCommitted>], cand: &[EntrySealedCommitted], conflict_uuids: &BTreeSet<Uuid>) -> (r: Result<(), OperationError>)
    requires unzipped(all, pre@, cand@), conflicts_reported(ctx, db, conflict_uuids@) { unimplemented!() }

// ---- R5 stand-ins for the iterator pipelines, each stated through the converted closure's OWN postcondition (call_ensures) ----
// `ctx_entries.into_iter().map(EntryIncrementalNew::rehydrate).collect::<Result<Vec<_>, _>>()`: Ok holds the results in order
#[verifier::external_body] pub fn kvx_rehydrate_all(w: Vec<ReplIncrementalEntryV1>) -> (r: Result<Vec<EntryIncrementalNew>, OperationError>)
    ensures r matches Ok(v) ==> v@.len() == w@.len() && forall|k: int| 0 <= k < w@.len() ==> sp_rehydrate(#[trigger] w@[k]) == Ok::<EntryIncrementalNew, OperationError>(v@[k]) { unimplemented!() }
pub open spec fn pair_at(v: Seq<(&EntryIncrementalNew, Arc<EntrySealedCommitted>)>, c: EntryIncrementalNew, d: Arc<EntrySealedCommitted>) -> bool {
    exists|k: int| 0 <= k < v.len() && *(#[trigger] v[k]).0 == c && v[k].1 == d
}
pub open spec fn pair_from(ctx: Seq<EntryIncrementalNew>, db: Seq<Arc<EntrySealedCommitted>>, p: (&EntryIncrementalNew, Arc<EntrySealedCommitted>), side: bool) -> bool {
    exists|i: int| 0 <= i < ctx.len() && i < db.len() && *p.0 == #[trigger] ctx[i] && p.1 == db[i] && call_ensures(conflict_step, (&p,), side)
}
// `ctx_entries.iter().zip(db_entries).partition(conflict_step)`: a pair goes left when the step answers true, right when false (std)
#[verifier::external_body] pub fn kvx_partition<'a>(ctx: &'a Vec<EntryIncrementalNew>, db: Vec<Arc<EntrySealedCommitted>>) -> (r: (Vec<(&'a EntryIncrementalNew, Arc<EntrySealedCommitted>)>, Vec<(&'a EntryIncrementalNew, Arc<EntrySealedCommitted>)>))
    ensures forall|i: int| 0 <= i < ctx@.len() && i < db@.len() && !call_ensures(conflict_step, (&(&ctx@[i], db@[i]),), false) ==> pair_at(r.0@, #[trigger] ctx@[i], db@[i]),
            forall|i: int| 0 <= i < ctx@.len() && i < db@.len() && !call_ensures(conflict_step, (&(&ctx@[i], db@[i]),), true) ==> pair_at(r.1@, #[trigger] ctx@[i], db@[i]),
            forall|k: int| 0 <= k < r.0@.len() ==> pair_from(ctx@, db@, #[trigger] r.0@[k], true),
            forall|k: int| 0 <= k < r.1@.len() ==> pair_from(ctx@, db@, #[trigger] r.1@[k], false) { unimplemented!() }
// `conflicts.into_iter().map(resolve_step)`: one result per element, in order (std)
#[verifier::external_body] pub fn kvx_map_resolve<'a>(v: Vec<(&'a EntryIncrementalNew, Arc<EntrySealedCommitted>)>, qs: &QueryServerWriteTransaction) -> (r: Vec<(Option<EntrySealedNew>, (EntryIncrementalCommitted, Arc<EntrySealedCommitted>))>)
    ensures r@.len() == v@.len(), forall|k: int| 0 <= k < v@.len() ==> call_ensures(resolve_step, (qs, #[trigger] v@[k]), r@[k]) { unimplemented!() }
// `.unzip()`
#[verifier::external_body] pub fn kvx_unzip<A, B>(v: Vec<(A, B)>) -> (r: (Vec<A>, Vec<B>))
    ensures r.0@.len() == v@.len(), r.1@.len() == v@.len(), forall|k: int| 0 <= k < v@.len() ==> #[trigger] v@[k] == (r.0@[k], r.1@[k]) { unimplemented!() }
// `conflict_update.iter().filter_map(uuid_step).collect::<BTreeSet<_>>()`
pub open spec fn only_answer(p: (EntryIncrementalCommitted, Arc<EntrySealedCommitted>), u: Uuid) -> bool {
    forall|o: Option<Uuid>| call_ensures(uuid_step, (&p,), o) ==> o == Some(u)
}
#[verifier::external_body] pub fn kvx_conflict_uuids(v: &Vec<(EntryIncrementalCommitted, Arc<EntrySealedCommitted>)>) -> (r: BTreeSet<Uuid>)
    ensures forall|k: int, u: Uuid| 0 <= k < v@.len() && #[trigger] only_answer(v@[k], u) ==> r@.contains(u) { unimplemented!() }
// `conflict_create.into_iter().flatten().collect()`: the Some values, in order
#[verifier::external_body] pub fn kvx_flatten(v: Vec<Option<EntrySealedNew>>) -> (r: Vec<EntrySealedNew>)
    ensures forall|k: int| 0 <= k < v@.len() ==> ((#[trigger] v@[k]) matches Some(n) ==> new_has(r@, n)) { unimplemented!() }
// `proceed.into_iter().map(merge_step).collect()`
#[verifier::external_body] pub fn kvx_map_merge<'a>(v: Vec<(&'a EntryIncrementalNew, Arc<EntrySealedCommitted>)>, qs: &QueryServerWriteTransaction) -> (r: Vec<(EntryIncrementalCommitted, Arc<EntrySealedCommitted>)>)
    ensures r@.len() == v@.len(), forall|k: int| 0 <= k < v@.len() ==> call_ensures(merge_step, (qs, #[trigger] v@[k]), r@[k]) { unimplemented!() }
// `a.into_iter().chain(b).collect::<Vec<_>>()`: concatenation
#[verifier::external_body] pub fn kvx_chain<T>(a: Vec<T>, b: Vec<T>) -> (r: Vec<T>) ensures r@ == a@ + b@ { unimplemented!() }
// `all_updates.into_iter().map(validate_step).collect::<Vec<_>>()`
#[verifier::external_body] pub fn kvx_map_validate(v: Vec<(EntryIncrementalCommitted, Arc<EntrySealedCommitted>)>, qs: &QueryServerWriteTransaction) -> (r: Vec<(EntrySealedCommitted, Arc<EntrySealedCommitted>)>)
    ensures r@.len() == v@.len(), forall|k: int| 0 <= k < v@.len() ==> call_ensures(validate_step, (qs, #[trigger] v@[k]), r@[k]) { unimplemented!() }
pub assume_specification<T, E, F: FnOnce(&E)>[ Result::<T, E>::inspect_err ](r: Result<T, E>, f: F) -> (o: Result<T, E>)
    ensures o == r;
// an adapter `.filter(f)` whose closure is not under contract: some subsequence of the input (std)
#[verifier::external_body] pub fn kvx_filter_unknown<T>(v: Vec<T>) -> (r: Vec<T>)
    ensures forall|k: int| 0 <= k < r@.len() ==> exists|j: int| 0 <= j < v@.len() && #[trigger] r@[k] == #[trigger] v@[j] { unimplemented!() }
//@extract conflict_step
//@extract resolve_step
//@extract uuid_step
//@extract merge_step
//@extract validate_step
impl Plugins {
//@extract run_pre_repl_incremental
}
impl QueryServerWriteTransaction {
//@extract consumer_incremental_apply_entries
}
}
fn main(){}
