use vstd::prelude::*;
use core::cmp::Ordering;
use vstd::std_specs::iter::IteratorSpec;
verus! {
//@include shims/uuid.rs
//@include shims/kvx_btreemap.rs
//@include shims/std_option.rs
// names (class names, attribute custom names): AttrString is an opaque string whose content is `name()`
#[verifier::external_body] #[derive(PartialEq, Eq)] pub struct AttrString { _p: u8 }
impl AttrString {
    pub uninterp spec fn name(&self) -> Seq<char>;
    #[verifier::external_body] pub fn as_str(&self) -> (r: &str) ensures r@ == self.name() { unimplemented!() }
    #[verifier::external_body] pub fn to_string(&self) -> (r: String) ensures r@ == self.name() { unimplemented!() }
}
//@extract Attribute
impl Clone for Attribute { #[verifier::external_body] fn clone(&self) -> (r: Self) ensures r == *self { unimplemented!() } }
impl Attribute { #[verifier::external_body] pub fn to_string(&self) -> (r: String) { unimplemented!() } }
//@extract SyntaxType
impl vstd::std_specs::cmp::PartialEqSpecImpl for SyntaxType { open spec fn obeys_eq_spec() -> bool { true } open spec fn eq_spec(&self, o: &SyntaxType) -> bool { *self == *o } }   // derived PartialEq of a field-less enum
//@extract Replicated
//@extract SchemaAttribute
//@extract SchemaClass
//@extract SchemaError
pub enum EntryClass { Conflict, Recycled, ExtensibleObject }
pub struct PartialValue { pub o: u64 }
pub uninterp spec fn class_pv(c: EntryClass) -> PartialValue;
#[verifier::external_body] pub fn kvx_class_pv(c: EntryClass) -> (r: PartialValue) ensures r == class_pv(c) { unimplemented!() }

// ---- value sets: opaque; the per-syntax validity check (ValueSetT::validate) is an uninterpreted predicate ----
#[verifier::external_body] pub struct ValueSet { _p: u8 }
impl ValueSet {
    pub uninterp spec fn count(&self) -> nat;
    pub uninterp spec fn syn(&self) -> SyntaxType;
    pub uninterp spec fn valid_for(&self, sa: SchemaAttribute) -> bool;
    pub uninterp spec fn has(&self, pv: PartialValue) -> bool;
    pub uninterp spec fn iutf8(&self) -> Option<Set<Seq<char>>>;
    #[verifier::external_body] pub fn len(&self) -> (r: usize) ensures r == self.count() { unimplemented!() }
    #[verifier::external_body] pub fn syntax(&self) -> (r: SyntaxType) ensures r == self.syn() { unimplemented!() }
    #[verifier::external_body] pub fn validate(&self, sa: &SchemaAttribute) -> (r: bool) ensures r == self.valid_for(*sa) { unimplemented!() }
    #[verifier::external_body] pub fn contains(&self, pv: &PartialValue) -> (r: bool) ensures r == self.has(*pv) { unimplemented!() }
}


// ---- std collections / iterator adaptors used by Entry::validate: stand-ins specified through the closures' own (checked) contracts ----
// BTreeSet<String> (the entry's class names) viewed as a set of names
#[verifier::external_body] pub struct NameSet { _p: u8 }
impl NameSet {
    pub uninterp spec fn names(&self) -> Set<Seq<char>>;
    #[verifier::external_body] pub fn contains(&self, s: &str) -> (r: bool) ensures r == self.names().contains(s@) { unimplemented!() }
}
// HashMap<AttrString, SchemaClass> / HashMap<Attribute, SchemaAttribute> viewed as finite maps (std documentation)
#[verifier::external_body] pub struct ClassMap { _p: u8 }
impl ClassMap {
    pub uninterp spec fn map(&self) -> Map<Seq<char>, SchemaClass>;
    #[verifier::external_body] pub fn get(&self, s: &str) -> (r: Option<&SchemaClass>)
        ensures r is Some == self.map().contains_key(s@), r is Some ==> *r->Some_0 == self.map()[s@] { unimplemented!() }
}
#[verifier::external_body] pub struct AttrMap { _p: u8 }
impl AttrMap {
    pub uninterp spec fn map(&self) -> Map<Attribute, SchemaAttribute>;
    #[verifier::external_body] pub fn get(&self, a: &Attribute) -> (r: Option<&SchemaAttribute>)
        ensures r is Some == self.map().contains_key(*a), r is Some ==> *r->Some_0 == self.map()[*a] { unimplemented!() }
}
pub struct KvxSchema { pub o: u8 }
impl KvxSchema {
    pub uninterp spec fn classes(&self) -> Map<Seq<char>, SchemaClass>;
    pub uninterp spec fn attributes(&self) -> Map<Attribute, SchemaAttribute>;
    #[verifier::external_body] pub fn get_classes(&self) -> (r: &ClassMap) ensures r.map() == self.classes() { unimplemented!() }
    #[verifier::external_body] pub fn get_attributes(&self) -> (r: &AttrMap) ensures r.map() == self.attributes() { unimplemented!() }
}
impl ValueSet {
    #[verifier::external_body] pub fn as_iutf8_set(&self) -> (r: Option<&NameSet>)
        ensures r is Some == self.iutf8() is Some, r is Some ==> r->Some_0.names() == self.iutf8()->Some_0 { unimplemented!() }
}
// a borrowing iterator over a Vec, `chain`, and the collectors (std documentation)
#[verifier::external_body] #[verifier::reject_recursive_types(T)] pub struct KvxIter<'a, T> { p: core::marker::PhantomData<&'a T> }
impl<'a, T> KvxIter<'a, T> {
    pub uninterp spec fn seq(&self) -> Seq<T>;
    #[verifier::external_body] pub fn chain(self, o: KvxIter<'a, T>) -> (r: KvxIter<'a, T>) ensures r.seq() == self.seq() + o.seq() { unimplemented!() }
    #[verifier::external_body] pub fn collect(self) -> (r: Vec<&'a T>) ensures r@.len() == self.seq().len(), forall|i: int| 0 <= i < r@.len() ==> *(#[trigger] r@[i]) == self.seq()[i] { unimplemented!() }
}
#[verifier::external_body] pub fn kvx_iter<'a, T>(v: &'a Vec<T>) -> (r: KvxIter<'a, T>) ensures r.seq() == v@ { unimplemented!() }
// flattening of per-class attribute / class-name lists: membership in both directions
pub open spec fn in_flat<C, T>(cs: Seq<&C>, g: spec_fn(C) -> Seq<T>, x: T) -> bool { exists|i: int| 0 <= i < cs.len() && g(*#[trigger] cs[i]).contains(x) }
// classes.iter().flat_map(f1)[.map(f2)].collect(): f1's CHECKED contract must say which list it yields for a class (ghost g, a named
// constant); the result holds exactly the members of those lists [mapped through f2, whose own contract describes each image]
#[verifier::external_body]
pub fn kvx_flat_collect<'a, C, T: 'a, F: Fn(&&'a C) -> KvxIter<'a, T>>(v: &Vec<&'a C>, g: Ghost<spec_fn(C) -> Seq<T>>, f: F) -> (r: Vec<&'a T>)
    requires forall|c: &&C| #[trigger] f.requires((c,)), forall|c: &&C, it: KvxIter<'a, T>| f.ensures((c,), it) ==> it.seq() == g@(**c),
    ensures forall|x: T| #[trigger] in_flat(v@, g@, x) ==> exists|i: int| 0 <= i < r@.len() && *(#[trigger] r@[i]) == x,
            forall|i: int| 0 <= i < r@.len() ==> in_flat(v@, g@, *(#[trigger] r@[i])) { unimplemented!() }
#[verifier::external_body]
pub fn kvx_flat_try_map_vec<'a, C, T: 'a, U, E, F: Fn(&&'a C) -> KvxIter<'a, T>, F2: Fn(&'a T) -> Result<U, E>>(v: &Vec<&'a C>, g: Ghost<spec_fn(C) -> Seq<T>>, f: F, f2: F2) -> (r: Result<Vec<U>, E>)
    requires forall|c: &&C| #[trigger] f.requires((c,)), forall|c: &&C, it: KvxIter<'a, T>| f.ensures((c,), it) ==> it.seq() == g@(**c), forall|t: &T| #[trigger] f2.requires((t,)),
    ensures r matches Ok(out) ==> (forall|x: T| #[trigger] in_flat(v@, g@, x) ==> exists|i: int| 0 <= i < out@.len() && f2.ensures((&x,), Ok(#[trigger] out@[i]))),
            r matches Err(e) ==> exists|x: T| in_flat(v@, g@, x) && f2.ensures((&x,), Err(e)) { unimplemented!() }
// supplements_classes.iter().any(f)
#[verifier::external_body] pub fn kvx_any<T, F: Fn(&T) -> bool>(s: &Vec<T>, f: F) -> (r: bool)
    requires forall|i: int| 0 <= i < s@.len() ==> f.requires((&#[trigger] s@[i],)),
    ensures r ==> exists|i: int| 0 <= i < s@.len() && f.ensures((&#[trigger] s@[i],), true),
            !r ==> forall|i: int| 0 <= i < s@.len() ==> f.ensures((&#[trigger] s@[i],), false) { unimplemented!() }
// self.attrs.iter().try_for_each(f)
#[verifier::external_body] pub fn kvx_try_for_each_attr<E, F: Fn((&Attribute, &ValueSet)) -> Result<(), E>>(m: &BTreeMap<Attribute, ValueSet>, f: F) -> (r: Result<(), E>)
    requires forall|p: (&Attribute, &ValueSet)| #[trigger] f.requires((p,)),
    ensures r is Ok ==> forall|a: Attribute| #[trigger] m@.contains_key(a) ==> f.ensures(((&a, &m@[a]),), Ok(())),
            r matches Err(e) ==> exists|a: Attribute| m@.contains_key(a) && f.ensures(((&a, &m@[a]),), Err(e)) { unimplemented!() }
// error reporting only: the names of a list of classes
#[verifier::external_body] pub fn kvx_name_list(v: &Vec<&AttrString>) -> (r: Vec<String>) { unimplemented!() }

// ---- the statement's per-attribute clause: single-valued attributes hold one value, every value valid for its syntax ----
pub open spec fn ava_ok(sa: SchemaAttribute, vs: ValueSet) -> bool {
    (sa.multivalue || vs.count() <= 1) && sa.syntax == vs.syn() && vs.valid_for(sa)
}

impl SchemaAttribute {
//@extract validate_ava
}

// MayMap: the `Map<&Attribute, &SchemaAttribute>` collected for the non-extensible case (R3 type redirect)
#[verifier::external_body] pub struct MayMap<'a> { p: core::marker::PhantomData<&'a u8> }
impl<'a> MayMap<'a> {
    pub uninterp spec fn map(&self) -> Map<Attribute, SchemaAttribute>;
    #[verifier::external_body] pub fn get(&self, a: &Attribute) -> (r: Option<&'a SchemaAttribute>)
        ensures r is Some == self.map().contains_key(*a), r is Some ==> *r->Some_0 == self.map()[*a] { unimplemented!() }
}
#[verifier::external_body]
pub fn kvx_flat_try_map_may<'a, C, E, F: Fn(&&'a C) -> KvxIter<'a, Attribute>, F2: Fn(&'a Attribute) -> Result<(&'a Attribute, &'a SchemaAttribute), E>>(v: &Vec<&'a C>, g: Ghost<spec_fn(C) -> Seq<Attribute>>, f: F, f2: F2) -> (r: Result<MayMap<'a>, E>)
    requires forall|c: &&C| #[trigger] f.requires((c,)), forall|c: &&C, it: KvxIter<'a, Attribute>| f.ensures((c,), it) ==> it.seq() == g@(**c), forall|t: &Attribute| #[trigger] f2.requires((t,)),
    ensures r matches Ok(m) ==> (forall|a: Attribute| #![trigger m.map().contains_key(a)] #![trigger in_flat(v@, g@, a)] m.map().contains_key(a) <==> in_flat(v@, g@, a))
                             && (forall|a: Attribute| #[trigger] m.map().contains_key(a) ==> exists|kk: &Attribute, vv: &SchemaAttribute| *kk == a && *vv == m.map()[a] && #[trigger] f2.ensures((&a,), Ok((kk, vv)))),
            r matches Err(e) ==> exists|x: Attribute| in_flat(v@, g@, x) && f2.ensures((&x,), Err(e)) { unimplemented!() }
#[verifier::external_body] pub fn kvx_string_copy(s: &String) -> (r: String) ensures r@ == s@ { unimplemented!() }

// ---- for_each over the entry's class names (closure captures two &mut Vecs: closure-converted, R5) ----
pub open spec fn derefs(v: Seq<&SchemaClass>) -> Seq<SchemaClass> { v.map_values(|r: &SchemaClass| *r) }
pub open spec fn strs(v: Seq<String>) -> Seq<Seq<char>> { v.map_values(|x: String| x@) }
pub type ClassAcc = (Seq<SchemaClass>, Seq<Seq<char>>);
pub open spec fn class_step_spec(sc: Map<Seq<char>, SchemaClass>, st: ClassAcc, s: Seq<char>) -> ClassAcc {
    if sc.contains_key(s) { (st.0.push(sc[s]), st.1) } else { (st.0, st.1.push(s)) }
}
pub open spec fn class_fold(sc: Map<Seq<char>, SchemaClass>, ord: Seq<Seq<char>>) -> ClassAcc decreases ord.len() {
    if ord.len() == 0 { (Seq::empty(), Seq::empty()) } else { class_step_spec(sc, class_fold(sc, ord.drop_last()), ord.last()) }
}
// BTreeSet::iter().for_each(step): the step applied once to every element, in the set's order (std documentation)
#[verifier::external_body]
pub fn kvx_for_each_class<'a>(ec: &NameSet, sc: &'a ClassMap, classes: &mut Vec<&'a SchemaClass>, invalid: &mut Vec<String>)
    requires old(classes)@.len() == 0, old(invalid)@.len() == 0,
    ensures exists|ord: Seq<Seq<char>>| ord.to_set() == ec.names() && (derefs(final(classes)@), strs(final(invalid)@)) == #[trigger] class_fold(sc.map(), ord) { unimplemented!() }
pub proof fn lemma_class_fold(sc: Map<Seq<char>, SchemaClass>, ord: Seq<Seq<char>>)
    ensures class_fold(sc, ord).1.len() == 0 ==> forall|n: Seq<char>| ord.contains(n) ==> sc.contains_key(n),
            forall|n: Seq<char>| ord.contains(n) && sc.contains_key(n) ==> class_fold(sc, ord).0.contains(#[trigger] sc[n]),
            forall|c: SchemaClass| #[trigger] class_fold(sc, ord).0.contains(c) ==> exists|n: Seq<char>| ord.contains(n) && sc.contains_key(n) && sc[n] == c,
    decreases ord.len()
{
    if ord.len() > 0 {
        let p = ord.drop_last(); let l = ord.last();
        lemma_class_fold(sc, p);
        assert forall|n: Seq<char>| ord.contains(n) implies (p.contains(n) || n == l) by { let i = choose|i: int| 0 <= i < ord.len() && ord[i] == n; if i < p.len() { assert(p[i] == n); } }
        assert forall|n: Seq<char>| p.contains(n) implies ord.contains(n) by { let i = choose|i: int| 0 <= i < p.len() && p[i] == n; assert(ord[i] == n); }
        assert(ord.contains(l)) by { assert(ord[ord.len() - 1] == l); }
        let a = class_fold(sc, p); let b = class_fold(sc, ord);
        if sc.contains_key(l) {
            assert(b.0 == a.0.push(sc[l]));
            assert(b.0[b.0.len() - 1] == sc[l]);
            assert forall|c: SchemaClass| a.0.contains(c) implies b.0.contains(c) by { let i = choose|i: int| 0 <= i < a.0.len() && a.0[i] == c; assert(b.0[i] == c); }
            assert forall|c: SchemaClass| b.0.contains(c) implies (a.0.contains(c) || c == sc[l]) by { let i = choose|i: int| 0 <= i < b.0.len() && b.0[i] == c; if i < a.0.len() { assert(a.0[i] == c); } }
        } else {
            assert(b.1.len() > 0);
        }
    }
}
// excludes: for_each pushing every excluded class that is present
pub open spec fn excl_count(names: Set<Seq<char>>, v: Seq<&AttrString>) -> nat decreases v.len() {
    if v.len() == 0 { 0 } else { excl_count(names, v.drop_last()) + (if names.contains(v.last().name()) { 1nat } else { 0nat }) }
}
#[verifier::external_body]
pub fn kvx_for_each_excl(v: &Vec<&AttrString>, ec: &NameSet, invalid: &mut Vec<String>)
    requires old(invalid)@.len() == 0,
    ensures final(invalid)@.len() == excl_count(ec.names(), v@) { unimplemented!() }
pub proof fn lemma_excl_count(names: Set<Seq<char>>, v: Seq<&AttrString>)
    ensures excl_count(names, v) == 0 ==> forall|i: int| 0 <= i < v.len() ==> !names.contains((#[trigger] v[i]).name()),
    decreases v.len()
{
    if v.len() > 0 { lemma_excl_count(names, v.drop_last()); assert forall|i: int| 0 <= i < v.len() && excl_count(names, v) == 0 implies !names.contains((#[trigger] v[i]).name()) by { if i < v.len() - 1 { assert(v.drop_last()[i] == v[i]); } } }
}

// ---- entries ----
pub type Eattrs = BTreeMap<Attribute, ValueSet>;   // entry.rs: `use std::collections::BTreeMap as Map`
//@extract EntryValid
//@extract Entry
pub struct EntryChangeState { pub o: u8 }
pub struct Cid { pub o: u8 }
pub trait KvxAsAttr { spec fn attr(&self) -> Attribute; fn kvx_as_ref(&self) -> (r: &Attribute) ensures *r == self.attr(); }
impl KvxAsAttr for Attribute { open spec fn attr(&self) -> Attribute { *self } fn kvx_as_ref(&self) -> (r: &Attribute) { self } }
impl KvxAsAttr for &Attribute { open spec fn attr(&self) -> Attribute { **self } fn kvx_as_ref(&self) -> (r: &Attribute) { *self } }
impl<VALID, STATE> Entry<VALID, STATE> {
//@extract get_ava_set
//@extract attribute_pres
//@extract attribute_equality
}

// ---- the statement (C15), for one entry against one schema ----
pub open spec fn has_class(attrs: Map<Attribute, ValueSet>, c: EntryClass) -> bool { attrs.contains_key(Attribute::Class) && attrs[Attribute::Class].has(class_pv(c)) }
pub open spec fn class_names(attrs: Map<Attribute, ValueSet>) -> Set<Seq<char>> { attrs[Attribute::Class].iutf8()->Some_0 }
pub open spec fn must_of(c: SchemaClass) -> Seq<Attribute> { c.systemmust@ + c.must@ }
pub open spec fn may_of(c: SchemaClass) -> Seq<Attribute> { c.systemmust@ + c.must@ + c.systemmay@ + c.may@ }
pub open spec fn supp_of(c: SchemaClass) -> Seq<AttrString> { c.systemsupplements@ + c.supplements@ }
pub open spec fn excl_of(c: SchemaClass) -> Seq<AttrString> { c.systemexcludes@ + c.excludes@ }
pub open spec fn must_of_fn() -> spec_fn(SchemaClass) -> Seq<Attribute> { |c: SchemaClass| must_of(c) }
pub open spec fn may_of_fn() -> spec_fn(SchemaClass) -> Seq<Attribute> { |c: SchemaClass| may_of(c) }
pub open spec fn supp_of_fn() -> spec_fn(SchemaClass) -> Seq<AttrString> { |c: SchemaClass| supp_of(c) }
pub open spec fn excl_of_fn() -> spec_fn(SchemaClass) -> Seq<AttrString> { |c: SchemaClass| excl_of(c) }
pub open spec fn schema_wf(sa: Map<Attribute, SchemaAttribute>) -> bool { forall|a: Attribute| #[trigger] sa.contains_key(a) ==> sa[a].name == a }
// the clauses of the statement, one predicate each (closed: the function's proof assembles them through the lemmas below)
pub closed spec fn known_ok(names: Set<Seq<char>>, sc: Map<Seq<char>, SchemaClass>) -> bool { forall|n: Seq<char>| names.contains(n) ==> #[trigger] sc.contains_key(n) }
pub closed spec fn must_ok(attrs: Map<Attribute, ValueSet>, names: Set<Seq<char>>, sc: Map<Seq<char>, SchemaClass>) -> bool {
    forall|n: Seq<char>, a: Attribute| names.contains(n) && sc.contains_key(n) && #[trigger] must_of(sc[n]).contains(a) ==> attrs.contains_key(a) }
pub closed spec fn allowed_ok(attrs: Map<Attribute, ValueSet>, names: Set<Seq<char>>, sc: Map<Seq<char>, SchemaClass>) -> bool {
    forall|a: Attribute| #[trigger] attrs.contains_key(a) ==> exists|n: Seq<char>| names.contains(n) && sc.contains_key(n) && #[trigger] may_of(sc[n]).contains(a) }
pub closed spec fn no_phantom_ok(attrs: Map<Attribute, ValueSet>, sa: Map<Attribute, SchemaAttribute>) -> bool { forall|a: Attribute| #[trigger] attrs.contains_key(a) ==> sa.contains_key(a) && !sa[a].phantom }
pub closed spec fn values_ok(attrs: Map<Attribute, ValueSet>, sa: Map<Attribute, SchemaAttribute>) -> bool { forall|a: Attribute| #[trigger] attrs.contains_key(a) ==> sa.contains_key(a) && ava_ok(sa[a], attrs[a]) }
pub closed spec fn supp_ok(names: Set<Seq<char>>, sc: Map<Seq<char>, SchemaClass>) -> bool {
    (forall|n: Seq<char>| names.contains(n) && sc.contains_key(n) ==> #[trigger] supp_of(sc[n]).len() == 0)
    || exists|n: Seq<char>, i: int| names.contains(n) && sc.contains_key(n) && 0 <= i < supp_of(sc[n]).len() && names.contains((#[trigger] supp_of(sc[n])[i]).name()) }
pub closed spec fn excl_ok(names: Set<Seq<char>>, sc: Map<Seq<char>, SchemaClass>) -> bool {
    forall|n: Seq<char>, i: int| names.contains(n) && sc.contains_key(n) && 0 <= i < excl_of(sc[n]).len() ==> !names.contains((#[trigger] excl_of(sc[n])[i]).name()) }
pub open spec fn entry_conforms(attrs: Map<Attribute, ValueSet>, sc: Map<Seq<char>, SchemaClass>, sa: Map<Attribute, SchemaAttribute>) -> bool {
    let names = class_names(attrs);
    &&& attrs.contains_key(Attribute::Class) && attrs[Attribute::Class].iutf8() is Some
    &&& known_ok(names, sc)                                                                 // every class is known to the schema
    &&& !has_class(attrs, EntryClass::Recycled) ==> must_ok(attrs, names, sc)               // every required attribute is present (softened in the recycle bin)
    &&& !has_class(attrs, EntryClass::ExtensibleObject) ==> allowed_ok(attrs, names, sc)    // only allowed attributes ...
    &&& has_class(attrs, EntryClass::ExtensibleObject) ==> no_phantom_ok(attrs, sa)         // ... extensible objects excepted, which may not carry phantom attributes
    &&& values_ok(attrs, sa)                                                                // single-valued attributes hold one value, every value valid for its syntax
    &&& supp_ok(names, sc)                                                                  // one supplementing class present when any is declared
    &&& excl_ok(names, sc)                                                                  // no excluded class present
}
// the meaning of the clauses, for readers and for lemmas about them (C15's statement, item by item)
pub proof fn lemma_clauses_mean(attrs: Map<Attribute, ValueSet>, names: Set<Seq<char>>, sc: Map<Seq<char>, SchemaClass>, sa: Map<Attribute, SchemaAttribute>)
    ensures known_ok(names, sc) == (forall|n: Seq<char>| names.contains(n) ==> #[trigger] sc.contains_key(n)),
            must_ok(attrs, names, sc) == (forall|n: Seq<char>, a: Attribute| names.contains(n) && sc.contains_key(n) && #[trigger] must_of(sc[n]).contains(a) ==> attrs.contains_key(a)),
            allowed_ok(attrs, names, sc) == (forall|a: Attribute| #[trigger] attrs.contains_key(a) ==> exists|n: Seq<char>| names.contains(n) && sc.contains_key(n) && #[trigger] may_of(sc[n]).contains(a)),
            values_ok(attrs, sa) == (forall|a: Attribute| #[trigger] attrs.contains_key(a) ==> sa.contains_key(a) && ava_ok(sa[a], attrs[a])),
            no_phantom_ok(attrs, sa) == (forall|a: Attribute| #[trigger] attrs.contains_key(a) ==> sa.contains_key(a) && !sa[a].phantom),
            excl_ok(names, sc) == (forall|n: Seq<char>, i: int| names.contains(n) && sc.contains_key(n) && 0 <= i < excl_of(sc[n]).len() ==> !names.contains((#[trigger] excl_of(sc[n])[i]).name())),
{ }

// proof bookkeeping: the resolved class list `classes` and the entry's class names denote the same classes
#[verifier::opaque] pub open spec fn link_fwd(classes: Seq<&SchemaClass>, names: Set<Seq<char>>, sc: Map<Seq<char>, SchemaClass>) -> bool {
    forall|n: Seq<char>| #[trigger] names.contains(n) ==> sc.contains_key(n) && exists|i: int| 0 <= i < classes.len() && *(#[trigger] classes[i]) == sc[n]
}
#[verifier::opaque] pub open spec fn link_bwd(classes: Seq<&SchemaClass>, names: Set<Seq<char>>, sc: Map<Seq<char>, SchemaClass>) -> bool {
    forall|i: int| 0 <= i < classes.len() ==> exists|n: Seq<char>| names.contains(n) && sc.contains_key(n) && sc[n] == *(#[trigger] classes[i])
}
pub proof fn lemma_link(classes: Seq<&SchemaClass>, names: Set<Seq<char>>, sc: Map<Seq<char>, SchemaClass>, ord: Seq<Seq<char>>, inv: Seq<Seq<char>>)
    requires ord.to_set() == names, (derefs(classes), inv) == class_fold(sc, ord), inv.len() == 0
    ensures link_fwd(classes, names, sc), link_bwd(classes, names, sc)
{
    reveal(link_fwd); reveal(link_bwd);
    lemma_class_fold(sc, ord);
    let d = derefs(classes);
    assert forall|n: Seq<char>| #[trigger] names.contains(n) implies sc.contains_key(n) && exists|i: int| 0 <= i < classes.len() && *(#[trigger] classes[i]) == sc[n] by {
        assert(ord.to_set().contains(n)); assert(ord.contains(n));
        assert(d.contains(sc[n]));
        let i = choose|i: int| 0 <= i < d.len() && d[i] == sc[n];
        assert(*classes[i] == sc[n]);
    }
    assert forall|i: int| 0 <= i < classes.len() implies exists|n: Seq<char>| names.contains(n) && sc.contains_key(n) && sc[n] == *(#[trigger] classes[i]) by {
        assert(d[i] == *classes[i]); assert(d.contains(*classes[i]));
        let n = choose|n: Seq<char>| ord.contains(n) && sc.contains_key(n) && sc[n] == *classes[i];
        assert(ord.to_set().contains(n));
    }
}
// membership of a per-class list item in the flattening, from the name side
pub proof fn lemma_in_flat<T>(classes: Seq<&SchemaClass>, names: Set<Seq<char>>, sc: Map<Seq<char>, SchemaClass>, g: spec_fn(SchemaClass) -> Seq<T>, n: Seq<char>, x: T)
    requires link_fwd(classes, names, sc), names.contains(n), g(sc[n]).contains(x)
    ensures in_flat(classes, g, x)
{ reveal(link_fwd); let i = choose|i: int| 0 <= i < classes.len() && *(#[trigger] classes[i]) == sc[n]; assert(g(*classes[i]).contains(x)); }
pub proof fn lemma_from_flat<T>(classes: Seq<&SchemaClass>, names: Set<Seq<char>>, sc: Map<Seq<char>, SchemaClass>, g: spec_fn(SchemaClass) -> Seq<T>, x: T)
    requires link_bwd(classes, names, sc), in_flat(classes, g, x)
    ensures exists|n: Seq<char>| names.contains(n) && sc.contains_key(n) && g(sc[n]).contains(x)
{ reveal(link_bwd); let i = choose|i: int| 0 <= i < classes.len() && g(*#[trigger] classes[i]).contains(x); let n = choose|n: Seq<char>| names.contains(n) && sc.contains_key(n) && sc[n] == *classes[i]; assert(g(sc[n]).contains(x)); }


pub proof fn lemma_known(classes: Seq<&SchemaClass>, names: Set<Seq<char>>, sc: Map<Seq<char>, SchemaClass>)
    requires link_fwd(classes, names, sc) ensures known_ok(names, sc) { reveal(link_fwd); }
pub proof fn lemma_supp_none(classes: Seq<&SchemaClass>, names: Set<Seq<char>>, sc: Map<Seq<char>, SchemaClass>, supp: Seq<&AttrString>)
    requires link_fwd(classes, names, sc), supp.len() == 0,
             forall|x: AttrString| #[trigger] in_flat(classes, supp_of_fn(), x) ==> exists|i: int| 0 <= i < supp.len() && *(#[trigger] supp[i]) == x,
    ensures supp_ok(names, sc)
{
    assert forall|n: Seq<char>| names.contains(n) && sc.contains_key(n) implies #[trigger] supp_of(sc[n]).len() == 0 by {
        if supp_of(sc[n]).len() > 0 { let x = supp_of(sc[n])[0]; assert(supp_of(sc[n]).contains(x)); lemma_in_flat(classes, names, sc, supp_of_fn(), n, x); assert(in_flat(classes, supp_of_fn(), x)); }
    }
}
pub proof fn lemma_supp_some(classes: Seq<&SchemaClass>, names: Set<Seq<char>>, sc: Map<Seq<char>, SchemaClass>, supp: Seq<&AttrString>, i: int)
    requires link_bwd(classes, names, sc), 0 <= i < supp.len(), in_flat(classes, supp_of_fn(), *supp[i]), names.contains(supp[i].name()),
    ensures supp_ok(names, sc)
{
    let x = *supp[i];
    lemma_from_flat(classes, names, sc, supp_of_fn(), x);
    let n = choose|n: Seq<char>| names.contains(n) && sc.contains_key(n) && supp_of_fn()(sc[n]).contains(x);
    let j = choose|j: int| 0 <= j < supp_of(sc[n]).len() && supp_of(sc[n])[j] == x;
    assert(names.contains((#[trigger] supp_of(sc[n])[j]).name()));
}
pub proof fn lemma_excl(classes: Seq<&SchemaClass>, names: Set<Seq<char>>, sc: Map<Seq<char>, SchemaClass>, excl: Seq<&AttrString>)
    requires link_fwd(classes, names, sc), excl_count(names, excl) == 0,
             forall|x: AttrString| #[trigger] in_flat(classes, excl_of_fn(), x) ==> exists|i: int| 0 <= i < excl.len() && *(#[trigger] excl[i]) == x,
    ensures excl_ok(names, sc)
{
    lemma_excl_count(names, excl);
    assert forall|n: Seq<char>, j: int| names.contains(n) && sc.contains_key(n) && 0 <= j < excl_of(sc[n]).len() implies !names.contains((#[trigger] excl_of(sc[n])[j]).name()) by {
        let x = excl_of(sc[n])[j]; assert(excl_of(sc[n]).contains(x));
        lemma_in_flat(classes, names, sc, excl_of_fn(), n, x);
        let i = choose|i: int| 0 <= i < excl.len() && *(#[trigger] excl[i]) == x;
        assert(!names.contains(excl[i].name()));
    }
}
pub proof fn lemma_must(classes: Seq<&SchemaClass>, names: Set<Seq<char>>, sc: Map<Seq<char>, SchemaClass>, sa: Map<Attribute, SchemaAttribute>, attrs: Map<Attribute, ValueSet>, must: Seq<&SchemaAttribute>)
    requires link_fwd(classes, names, sc), schema_wf(sa),
             forall|a: Attribute| #[trigger] in_flat(classes, must_of_fn(), a) ==> sa.contains_key(a) && exists|i: int| 0 <= i < must.len() && *(#[trigger] must[i]) == sa[a],
             forall|j: int| 0 <= j < must.len() ==> attrs.contains_key((#[trigger] must[j]).name),
    ensures must_ok(attrs, names, sc)
{
    assert forall|n: Seq<char>, a: Attribute| names.contains(n) && sc.contains_key(n) && #[trigger] must_of(sc[n]).contains(a) implies attrs.contains_key(a) by {
        lemma_in_flat(classes, names, sc, must_of_fn(), n, a);
        let i = choose|i: int| 0 <= i < must.len() && *(#[trigger] must[i]) == sa[a];
        assert(must[i].name == a);
    }
}
pub proof fn lemma_allowed(classes: Seq<&SchemaClass>, names: Set<Seq<char>>, sc: Map<Seq<char>, SchemaClass>, attrs: Map<Attribute, ValueSet>, may: Map<Attribute, SchemaAttribute>)
    requires link_bwd(classes, names, sc), forall|a: Attribute| #[trigger] may.contains_key(a) ==> in_flat(classes, may_of_fn(), a), forall|a: Attribute| #[trigger] attrs.contains_key(a) ==> may.contains_key(a),
    ensures allowed_ok(attrs, names, sc)
{
    assert forall|a: Attribute| #[trigger] attrs.contains_key(a) implies exists|n: Seq<char>| names.contains(n) && sc.contains_key(n) && #[trigger] may_of(sc[n]).contains(a) by {
        assert(may.contains_key(a));
        lemma_from_flat(classes, names, sc, may_of_fn(), a);
        let n = choose|n: Seq<char>| names.contains(n) && sc.contains_key(n) && may_of_fn()(sc[n]).contains(a);
        assert(may_of(sc[n]).contains(a));
    }
}
pub proof fn lemma_values(attrs: Map<Attribute, ValueSet>, sa: Map<Attribute, SchemaAttribute>)
    requires forall|a: Attribute| #[trigger] attrs.contains_key(a) ==> sa.contains_key(a) && ava_ok(sa[a], attrs[a]) ensures values_ok(attrs, sa) { }
pub proof fn lemma_no_phantom(attrs: Map<Attribute, ValueSet>, sa: Map<Attribute, SchemaAttribute>)
    requires forall|a: Attribute| #[trigger] attrs.contains_key(a) ==> sa.contains_key(a) && !sa[a].phantom ensures no_phantom_ok(attrs, sa) { }

//@extract class_step
//@extract excl_step
impl<STATE> Entry<EntryValid, STATE> {
//@extract entry_validate
}

}
fn main(){}
