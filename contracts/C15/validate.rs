use vstd::prelude::*;
use core::cmp::Ordering;
use vstd::std_specs::iter::IteratorSpec;
verus! {
//@include shims/uuid.rs
//@include shims/kvx_btreemap.rs
//@include shims/std_option.rs
// names (class names, attribute custom names): AttrString is an opaque string whose content is `name()`
#[verifier::external_body] #[derive(PartialEq, Eq)] pub struct AttrString { _p: u8 }
impl AttrString {
    pub uninterp spec fn name(&self) -> Seq<char>;
    #[verifier::external_body] pub fn as_str(&self) -> (r: &str) ensures r@ == self.name() { unimplemented!() }
    #[verifier::external_body] pub fn to_string(&self) -> (r: String) ensures r@ == self.name() { unimplemented!() }
}
//@extract Attribute
impl Clone for Attribute { #[verifier::external_body] fn clone(&self) -> (r: Self) ensures r == *self { unimplemented!() } }
impl Attribute { #[verifier::external_body] pub fn to_string(&self) -> (r: String) { unimplemented!() } }
//@extract SyntaxType
impl vstd::std_specs::cmp::PartialEqSpecImpl for SyntaxType { open spec fn obeys_eq_spec() -> bool { true } open spec fn eq_spec(&self, o: &SyntaxType) -> bool { *self == *o } }   // derived PartialEq of a field-less enum
//@extract Replicated
//@extract SchemaAttribute
//@extract SchemaClass
//@extract SchemaError
pub enum EntryClass { Conflict, Recycled, ExtensibleObject }
pub struct PartialValue { pub o: u64 }
pub uninterp spec fn class_pv(c: EntryClass) -> PartialValue;
#[verifier::external_body] pub fn kvx_class_pv(c: EntryClass) -> (r: PartialValue) ensures r == class_pv(c) { unimplemented!() }

// ---- value sets: opaque; the per-syntax validity check (ValueSetT::validate) is an uninterpreted predicate ----
#[verifier::external_body] pub struct ValueSet { _p: u8 }
impl ValueSet {
    pub uninterp spec fn count(&self) -> nat;
    pub uninterp spec fn syn(&self) -> SyntaxType;
    pub uninterp spec fn valid_for(&self, sa: SchemaAttribute) -> bool;
    pub uninterp spec fn has(&self, pv: PartialValue) -> bool;
    pub uninterp spec fn iutf8(&self) -> Option<Set<Seq<char>>>;
    #[verifier::external_body] pub fn len(&self) -> (r: usize) ensures r == self.count() { unimplemented!() }
    #[verifier::external_body] pub fn syntax(&self) -> (r: SyntaxType) ensures r == self.syn() { unimplemented!() }
    #[verifier::external_body] pub fn validate(&self, sa: &SchemaAttribute) -> (r: bool) ensures r == self.valid_for(*sa) { unimplemented!() }
    #[verifier::external_body] pub fn contains(&self, pv: &PartialValue) -> (r: bool) ensures r == self.has(*pv) { unimplemented!() }
}


// ---- std collections / iterator adaptors used by Entry::validate: stand-ins specified through the closures' own (checked) contracts ----
// BTreeSet<String> (the entry's class names) viewed as a set of names
#[verifier::external_body] pub struct NameSet { _p: u8 }
impl NameSet {
    pub uninterp spec fn names(&self) -> Set<Seq<char>>;
    #[verifier::external_body] pub fn contains(&self, s: &str) -> (r: bool) ensures r == self.names().contains(s@) { unimplemented!() }
}
// HashMap<AttrString, SchemaClass> / HashMap<Attribute, SchemaAttribute> viewed as finite maps (std documentation)
#[verifier::external_body] pub struct ClassMap { _p: u8 }
impl ClassMap {
    pub uninterp spec fn map(&self) -> Map<Seq<char>, SchemaClass>;
    #[verifier::external_body] pub fn get(&self, s: &str) -> (r: Option<&SchemaClass>)
        ensures r is Some == self.map().contains_key(s@), r is Some ==> *r->Some_0 == self.map()[s@] { unimplemented!() }
}
#[verifier::external_body] pub struct AttrMap { _p: u8 }
impl AttrMap {
    pub uninterp spec fn map(&self) -> Map<Attribute, SchemaAttribute>;
    #[verifier::external_body] pub fn get(&self, a: &Attribute) -> (r: Option<&SchemaAttribute>)
        ensures r is Some == self.map().contains_key(*a), r is Some ==> *r->Some_0 == self.map()[*a] { unimplemented!() }
}
pub struct KvxSchema { pub o: u8 }
impl KvxSchema {
    pub uninterp spec fn classes(&self) -> Map<Seq<char>, SchemaClass>;
    pub uninterp spec fn attributes(&self) -> Map<Attribute, SchemaAttribute>;
    #[verifier::external_body] pub fn get_classes(&self) -> (r: &ClassMap) ensures r.map() == self.classes() { unimplemented!() }
    #[verifier::external_body] pub fn get_attributes(&self) -> (r: &AttrMap) ensures r.map() == self.attributes() { unimplemented!() }
}
impl ValueSet {
    #[verifier::external_body] pub fn as_iutf8_set(&self) -> (r: Option<&NameSet>)
        ensures r is Some == self.iutf8() is Some, r is Some ==> r->Some_0.names() == self.iutf8()->Some_0 { unimplemented!() }
}
// a borrowing iterator over a Vec, `chain`, and the collectors (std documentation)
#[verifier::external_body] #[verifier::reject_recursive_types(T)] pub struct KvxIter<'a, T> { p: core::marker::PhantomData<&'a T> }
impl<'a, T> KvxIter<'a, T> {
    pub uninterp spec fn seq(&self) -> Seq<T>;
    #[verifier::external_body] pub fn chain(self, o: KvxIter<'a, T>) -> (r: KvxIter<'a, T>) ensures r.seq() == self.seq() + o.seq() { unimplemented!() }
    #[verifier::external_body] pub fn collect(self) -> (r: Vec<&'a T>) ensures r@.len() == self.seq().len(), forall|i: int| 0 <= i < r@.len() ==> *(#[trigger] r@[i]) == self.seq()[i] { unimplemented!() }
    // .map(f).collect::<Result<Vec<_>, _>>() / ::<Result<BTreeMap<_, _>, _>>(): f is applied to every item; the first error is returned
    #[verifier::external_body] pub fn kvx_try_map_vec<U, E, F: Fn(&'a T) -> Result<U, E>>(self, f: F) -> (r: Result<Vec<U>, E>)
        requires forall|t: &T| #[trigger] f.requires((t,)),
        ensures r matches Ok(v) ==> (v@.len() == self.seq().len() && forall|i: int| 0 <= i < v@.len() ==> f.ensures((&#[trigger] self.seq()[i],), Ok(v@[i]))),
                r matches Err(e) ==> exists|i: int| 0 <= i < self.seq().len() && f.ensures((&#[trigger] self.seq()[i],), Err(e)) { unimplemented!() }
    #[verifier::external_body] pub fn kvx_try_map_map<V, E, F: Fn(&'a T) -> Result<(&'a T, V), E>>(self, f: F) -> (r: Result<BTreeMap<&'a T, V>, E>)
        requires forall|t: &T| #[trigger] f.requires((t,)),
        ensures r matches Ok(m) ==> (forall|k: &T| #[trigger] m@.contains_key(k) <==> self.seq().contains(*k))
                                 && (forall|k: &T| #[trigger] m@.contains_key(k) ==> exists|i: int| 0 <= i < self.seq().len() && self.seq()[i] == *k && f.ensures((&#[trigger] self.seq()[i],), Ok((k, m@[k])))),
                r matches Err(e) ==> exists|i: int| 0 <= i < self.seq().len() && f.ensures((&#[trigger] self.seq()[i],), Err(e)) { unimplemented!() }
}
#[verifier::external_body] pub fn kvx_iter<'a, T>(v: &'a Vec<T>) -> (r: KvxIter<'a, T>) ensures r.seq() == v@ { unimplemented!() }
// flattening of per-class attribute / class-name lists: membership in both directions
pub open spec fn in_flat<C, T>(cs: Seq<&C>, g: spec_fn(C) -> Seq<T>, x: T) -> bool { exists|i: int| 0 <= i < cs.len() && g(*#[trigger] cs[i]).contains(x) }
// classes.iter().flat_map(f)  — f's CHECKED contract must say which list it yields for a class (ghost g); the result holds exactly the
// members of those lists
#[verifier::external_body]
pub fn kvx_flat_map<'a, C, T, F: Fn(&&'a C) -> KvxIter<'a, T>>(v: &Vec<&'a C>, g: Ghost<spec_fn(C) -> Seq<T>>, f: F) -> (r: KvxIter<'a, T>)
    requires forall|c: &&C| #[trigger] f.requires((c,)), forall|c: &&C, it: KvxIter<'a, T>| f.ensures((c,), it) ==> it.seq() == g@(**c),
    ensures forall|x: T| #[trigger] r.seq().contains(x) <==> in_flat(v@, g@, x) { unimplemented!() }
// supplements_classes.iter().any(f)
#[verifier::external_body] pub fn kvx_any<T, F: Fn(&T) -> bool>(s: &Vec<T>, f: F) -> (r: bool)
    requires forall|i: int| 0 <= i < s@.len() ==> f.requires((&#[trigger] s@[i],)),
    ensures r ==> exists|i: int| 0 <= i < s@.len() && f.ensures((&#[trigger] s@[i],), true),
            !r ==> forall|i: int| 0 <= i < s@.len() ==> f.ensures((&#[trigger] s@[i],), false) { unimplemented!() }
// self.attrs.iter().try_for_each(f)
#[verifier::external_body] pub fn kvx_try_for_each_attr<E, F: Fn((&Attribute, &ValueSet)) -> Result<(), E>>(m: &BTreeMap<Attribute, ValueSet>, f: F) -> (r: Result<(), E>)
    requires forall|p: (&Attribute, &ValueSet)| #[trigger] f.requires((p,)),
    ensures r is Ok ==> forall|a: Attribute| #[trigger] m@.contains_key(a) ==> f.ensures(((&a, &m@[a]),), Ok(())),
            r matches Err(e) ==> exists|a: Attribute| m@.contains_key(a) && f.ensures(((&a, &m@[a]),), Err(e)) { unimplemented!() }
// error reporting only: the names of a list of classes
#[verifier::external_body] pub fn kvx_names(v: &Vec<&AttrString>) -> (r: Vec<String>) { unimplemented!() }

// ---- the statement's per-attribute clause: single-valued attributes hold one value, every value valid for its syntax ----
pub open spec fn ava_ok(sa: SchemaAttribute, vs: ValueSet) -> bool {
    (sa.multivalue || vs.count() <= 1) && sa.syntax == vs.syn() && vs.valid_for(sa)
}

impl SchemaAttribute {
//@extract validate_ava
}

// MayMap: the `Map<&Attribute, &SchemaAttribute>` collected for the non-extensible case (R3 type redirect)
#[verifier::external_body] pub struct MayMap<'a> { p: core::marker::PhantomData<&'a u8> }
impl<'a> MayMap<'a> {
    pub uninterp spec fn map(&self) -> Map<Attribute, SchemaAttribute>;
    #[verifier::external_body] pub fn get(&self, a: &Attribute) -> (r: Option<&'a SchemaAttribute>)
        ensures r is Some == self.map().contains_key(*a), r is Some ==> *r->Some_0 == self.map()[*a] { unimplemented!() }
}
impl<'a> KvxIter<'a, Attribute> {
    // .map(f).collect::<Result<Map<&Attribute, &SchemaAttribute>, _>>()
    #[verifier::external_body] pub fn kvx_try_map_may<E, F: Fn(&'a Attribute) -> Result<(&'a Attribute, &'a SchemaAttribute), E>>(self, f: F) -> (r: Result<MayMap<'a>, E>)
        requires forall|t: &Attribute| #[trigger] f.requires((t,)),
        ensures r matches Ok(m) ==> (forall|k: Attribute| #[trigger] m.map().contains_key(k) <==> self.seq().contains(k))
                                 && (forall|k: Attribute| #[trigger] m.map().contains_key(k) ==> exists|kk: &Attribute, vv: &SchemaAttribute| *kk == k && *vv == m.map()[k] && f.ensures((&k,), Ok((kk, vv)))),
                r matches Err(e) ==> exists|i: int| 0 <= i < self.seq().len() && f.ensures((&#[trigger] self.seq()[i],), Err(e)) { unimplemented!() }
}
#[verifier::external_body] pub fn kvx_string_copy(s: &String) -> (r: String) ensures r@ == s@ { unimplemented!() }
pub assume_specification<T, E, F: FnOnce() -> E>[ Option::<T>::ok_or_else ](o: Option<T>, f: F) -> (r: Result<T, E>)
    requires o is None ==> f.requires(()),
    ensures o matches Some(x) ==> r == Ok::<T, E>(x), o is None ==> (r is Err && f.ensures((), r->Err_0));

// ---- for_each over the entry's class names (closure captures two &mut Vecs: closure-converted, R5) ----
pub open spec fn derefs(v: Seq<&SchemaClass>) -> Seq<SchemaClass> { v.map_values(|r: &SchemaClass| *r) }
pub open spec fn strs(v: Seq<String>) -> Seq<Seq<char>> { v.map_values(|x: String| x@) }
pub type ClassAcc = (Seq<SchemaClass>, Seq<Seq<char>>);
pub open spec fn class_step_spec(sc: Map<Seq<char>, SchemaClass>, st: ClassAcc, s: Seq<char>) -> ClassAcc {
    if sc.contains_key(s) { (st.0.push(sc[s]), st.1) } else { (st.0, st.1.push(s)) }
}
pub open spec fn class_fold(sc: Map<Seq<char>, SchemaClass>, ord: Seq<Seq<char>>) -> ClassAcc decreases ord.len() {
    if ord.len() == 0 { (Seq::empty(), Seq::empty()) } else { class_step_spec(sc, class_fold(sc, ord.drop_last()), ord.last()) }
}
// BTreeSet::iter().for_each(step): the step applied once to every element, in the set's order (std documentation)
#[verifier::external_body]
pub fn kvx_for_each_class<'a>(ec: &NameSet, sc: &'a ClassMap, classes: &mut Vec<&'a SchemaClass>, invalid: &mut Vec<String>)
    requires old(classes)@.len() == 0, old(invalid)@.len() == 0,
    ensures exists|ord: Seq<Seq<char>>| ord.to_set() == ec.names() && (derefs(final(classes)@), strs(final(invalid)@)) == #[trigger] class_fold(sc.map(), ord) { unimplemented!() }
pub proof fn lemma_class_fold(sc: Map<Seq<char>, SchemaClass>, ord: Seq<Seq<char>>)
    ensures class_fold(sc, ord).1.len() == 0 ==> forall|n: Seq<char>| ord.contains(n) ==> sc.contains_key(n),
            forall|n: Seq<char>| ord.contains(n) && sc.contains_key(n) ==> class_fold(sc, ord).0.contains(#[trigger] sc[n]),
            forall|c: SchemaClass| #[trigger] class_fold(sc, ord).0.contains(c) ==> exists|n: Seq<char>| ord.contains(n) && sc.contains_key(n) && sc[n] == c,
    decreases ord.len()
{
    if ord.len() > 0 {
        let p = ord.drop_last(); let l = ord.last();
        lemma_class_fold(sc, p);
        assert forall|n: Seq<char>| ord.contains(n) implies (p.contains(n) || n == l) by { let i = choose|i: int| 0 <= i < ord.len() && ord[i] == n; if i < p.len() { assert(p[i] == n); } }
        assert forall|n: Seq<char>| p.contains(n) implies ord.contains(n) by { let i = choose|i: int| 0 <= i < p.len() && p[i] == n; assert(ord[i] == n); }
        assert(ord.contains(l)) by { assert(ord[ord.len() - 1] == l); }
        let a = class_fold(sc, p); let b = class_fold(sc, ord);
        if sc.contains_key(l) {
            assert(b.0 == a.0.push(sc[l]));
            assert(b.0[b.0.len() - 1] == sc[l]);
            assert forall|c: SchemaClass| a.0.contains(c) implies b.0.contains(c) by { let i = choose|i: int| 0 <= i < a.0.len() && a.0[i] == c; assert(b.0[i] == c); }
            assert forall|c: SchemaClass| b.0.contains(c) implies (a.0.contains(c) || c == sc[l]) by { let i = choose|i: int| 0 <= i < b.0.len() && b.0[i] == c; if i < a.0.len() { assert(a.0[i] == c); } }
        } else {
            assert(b.1.len() > 0);
        }
    }
}
// excludes: for_each pushing every excluded class that is present
pub open spec fn excl_count(names: Set<Seq<char>>, v: Seq<&AttrString>) -> nat decreases v.len() {
    if v.len() == 0 { 0 } else { excl_count(names, v.drop_last()) + (if names.contains(v.last().name()) { 1nat } else { 0nat }) }
}
#[verifier::external_body]
pub fn kvx_for_each_excl(v: &Vec<&AttrString>, ec: &NameSet, invalid: &mut Vec<String>)
    requires old(invalid)@.len() == 0,
    ensures final(invalid)@.len() == excl_count(ec.names(), v@) { unimplemented!() }
pub proof fn lemma_excl_count(names: Set<Seq<char>>, v: Seq<&AttrString>)
    ensures excl_count(names, v) == 0 ==> forall|i: int| 0 <= i < v.len() ==> !names.contains((#[trigger] v[i]).name()),
    decreases v.len()
{
    if v.len() > 0 { lemma_excl_count(names, v.drop_last()); assert forall|i: int| 0 <= i < v.len() && excl_count(names, v) == 0 implies !names.contains((#[trigger] v[i]).name()) by { if i < v.len() - 1 { assert(v.drop_last()[i] == v[i]); } } }
}

// ---- entries ----
//@extract EntryValid
//@extract Entry
pub struct EntryChangeState { pub o: u8 }
pub struct Cid { pub o: u8 }
pub trait KvxAsAttr { spec fn attr(&self) -> Attribute; fn kvx_as_ref(&self) -> (r: &Attribute) ensures *r == self.attr(); }
impl KvxAsAttr for Attribute { open spec fn attr(&self) -> Attribute { *self } fn kvx_as_ref(&self) -> (r: &Attribute) { self } }
impl KvxAsAttr for &Attribute { open spec fn attr(&self) -> Attribute { **self } fn kvx_as_ref(&self) -> (r: &Attribute) { *self } }
impl<VALID, STATE> Entry<VALID, STATE> {
//@extract get_ava_set
//@extract attribute_pres
//@extract attribute_equality
}

// ---- the statement (C15), for one entry against one schema ----
pub open spec fn has_class(attrs: Map<Attribute, ValueSet>, c: EntryClass) -> bool { attrs.contains_key(Attribute::Class) && attrs[Attribute::Class].has(class_pv(c)) }
pub open spec fn class_names(attrs: Map<Attribute, ValueSet>) -> Set<Seq<char>> { attrs[Attribute::Class].iutf8()->Some_0 }
pub open spec fn must_of(c: SchemaClass) -> Seq<Attribute> { c.systemmust@ + c.must@ }
pub open spec fn may_of(c: SchemaClass) -> Seq<Attribute> { c.systemmust@ + c.must@ + c.systemmay@ + c.may@ }
pub open spec fn supp_of(c: SchemaClass) -> Seq<AttrString> { c.systemsupplements@ + c.supplements@ }
pub open spec fn excl_of(c: SchemaClass) -> Seq<AttrString> { c.systemexcludes@ + c.excludes@ }
pub open spec fn schema_wf(sa: Map<Attribute, SchemaAttribute>) -> bool { forall|a: Attribute| #[trigger] sa.contains_key(a) ==> sa[a].name == a }
pub open spec fn entry_conforms(attrs: Map<Attribute, ValueSet>, sc: Map<Seq<char>, SchemaClass>, sa: Map<Attribute, SchemaAttribute>) -> bool {
    let names = class_names(attrs);
    &&& attrs.contains_key(Attribute::Class) && attrs[Attribute::Class].iutf8() is Some
    // every class is known to the schema
    &&& forall|n: Seq<char>| names.contains(n) ==> #[trigger] sc.contains_key(n)
    // every required attribute is present (softened for entries in the recycle bin)
    &&& !has_class(attrs, EntryClass::Recycled) ==> forall|n: Seq<char>, a: Attribute| names.contains(n) && sc.contains_key(n) && #[trigger] must_of(sc[n]).contains(a) ==> attrs.contains_key(a)
    // only allowed attributes (extensible objects excepted, which may not carry phantom attributes)
    &&& !has_class(attrs, EntryClass::ExtensibleObject) ==> forall|a: Attribute| #[trigger] attrs.contains_key(a) ==> exists|n: Seq<char>| names.contains(n) && sc.contains_key(n) && #[trigger] may_of(sc[n]).contains(a)
    &&& has_class(attrs, EntryClass::ExtensibleObject) ==> forall|a: Attribute| #[trigger] attrs.contains_key(a) ==> sa.contains_key(a) && !sa[a].phantom
    // single-valued attributes hold one value, every value valid for its syntax
    &&& forall|a: Attribute| #[trigger] attrs.contains_key(a) ==> sa.contains_key(a) && ava_ok(sa[a], attrs[a])
    // class structure: one supplementing class present when any is declared; no excluded class present
    &&& ((forall|n: Seq<char>| names.contains(n) && sc.contains_key(n) ==> #[trigger] supp_of(sc[n]).len() == 0)
         || exists|n: Seq<char>, i: int| names.contains(n) && sc.contains_key(n) && 0 <= i < supp_of(sc[n]).len() && names.contains((#[trigger] supp_of(sc[n])[i]).name()))
    &&& forall|n: Seq<char>, i: int| names.contains(n) && sc.contains_key(n) && 0 <= i < excl_of(sc[n]).len() ==> !names.contains((#[trigger] excl_of(sc[n])[i]).name())
}

//@extract class_step
//@extract excl_step
impl<STATE> Entry<EntryValid, STATE> {
//@extract entry_validate
}

}
fn main(){}
