use vstd::prelude::*;
use core::cmp::Ordering;
verus! {
//@include shims/uuid.rs
// the uuid crate: parse_str accepts every textual form of a uuid (hyphenated, simple, braced, urn); lengths of the two plain forms
pub uninterp spec fn uuid_text(s: Seq<char>) -> bool;
impl Uuid { #[verifier::external_body] pub fn parse_str(s: &str) -> (r: Result<Uuid, ()>) ensures r is Ok == uuid_text(s@) { unimplemented!() } }
pub mod uuid { pub mod fmt {
    pub struct Hyphenated; impl Hyphenated { pub const LENGTH: usize = 36; }
    pub struct Simple; impl Simple { pub const LENGTH: usize = 32; }
} }
// regex / denied-name tables: opaque predicates of the string
pub struct Regex { pub o: u8 }
pub uninterp spec fn iname_re(s: Seq<char>) -> bool;
pub uninterp spec fn denied_name(s: Seq<char>) -> bool;
impl Regex { #[verifier::external_body] pub fn is_match(&self, s: &str) -> (r: bool) ensures r == iname_re(s@) { unimplemented!() } }
pub struct NameSet { pub o: u8 }
impl NameSet { #[verifier::external_body] pub fn contains(&self, s: &str) -> (r: bool) ensures r == denied_name(s@) { unimplemented!() } }
pub struct KvxStatics { pub iname_re: Regex, pub disallowed: NameSet }
#[verifier::external_body] pub fn kvx_statics() -> (r: &'static KvxStatics) { unimplemented!() }
// C15, syntax rule of iname: a name is never a uuid in any textual form (names and uuids share lookup paths), matches the name
// pattern and is not a denied name
pub open spec fn iname_valid(s: Seq<char>) -> bool { !uuid_text(s) && iname_re(s) && !denied_name(s) }
pub struct Value;
impl Value {
//@extract validate_iname
}
}
fn main(){}
