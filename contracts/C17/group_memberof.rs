use vstd::prelude::*;
use core::cmp::Ordering;
verus! {
//@include shims/uuid.rs
//@include shims/std_option.rs
pub enum OperationError { Backend, Other }
pub struct AttrString { pub o: u64 }
//@extract Attribute
pub enum EntryClass { Group, MemberOf, Other(u64) }
pub struct Value { pub o: u64 }
#[verifier::external_body] pub fn kvx_class_value(c: EntryClass) -> (r: Value) { unimplemented!() }
pub enum PartialValue { Class(EntryClass), Refer(Uuid), Uuid(Uuid), Other(u64) }
#[verifier::external_body] pub fn kvx_class_pv(c: EntryClass) -> (r: PartialValue) ensures r == PartialValue::Class(c) { unimplemented!() }
// In this unit `Vec` is a stand-in viewed as a sequence (shadows std Vec)
#[verifier::external_body] #[verifier::accept_recursive_types(T)] pub struct Vec<T> { p: core::marker::PhantomData<T> }
impl<T> View for Vec<T> { type V = Seq<T>; uninterp spec fn view(&self) -> Seq<T>; }
#[verifier::external_body] #[verifier::reject_recursive_types(T)] pub struct KvxIter<'a, T> { p: core::marker::PhantomData<&'a T> }
impl<T> Vec<T> { #[verifier::external_body] pub fn iter(&self) -> (r: KvxIter<'_, T>) ensures r.seq() == self@ { unimplemented!() } }
// a stream of uuids, as a set (what ValueSetRefer::from_iter collects)
pub trait KvxUuids: Sized { spec fn uuids(&self) -> Set<Uuid>; }
#[verifier::external_body] pub struct KvxMapped { _p: u8 }
impl KvxUuids for KvxMapped { uninterp spec fn uuids(&self) -> Set<Uuid>; }
#[verifier::external_body] pub struct KvxSetIter<'a> { p: core::marker::PhantomData<&'a u8> }
impl<'a> KvxSetIter<'a> { pub uninterp spec fn set(&self) -> Set<Uuid>; }
#[verifier::external_body] pub struct KvxOptIters<'a> { p: core::marker::PhantomData<&'a u8> }
impl<'a> KvxOptIters<'a> {
    pub uninterp spec fn sets(&self) -> Seq<Option<Set<Uuid>>>;
    // .flatten().copied(): every uuid of every yielded set
    #[verifier::external_body] pub fn flatten(self) -> (r: KvxMapped)
        ensures forall|u: Uuid| #[trigger] r.uuids().contains(u) <==> exists|i: int| 0 <= i < self.sets().len() && (#[trigger] self.sets()[i]) is Some && self.sets()[i]->Some_0.contains(u) { unimplemented!() }
}
impl KvxMapped { pub uninterp spec fn outs(&self) -> Seq<Uuid>;
    pub fn copied(self) -> (r: KvxMapped) ensures r == self { self } }
// some outcome allowed by the closure's contract for item x is the i-th yielded option
pub open spec fn fm_agrees<'a, T: 'a, F: Fn(&'a T) -> Option<KvxSetIter<'a>>>(f: F, x: T, s: Option<Set<Uuid>>) -> bool {
    exists|o: Option<KvxSetIter<'a>>| #[trigger] f.ensures((&x,), o) && (o is Some) == (s is Some) && (o is Some ==> o->Some_0.set() == s->Some_0)
}
impl<'a, T: 'a> KvxIter<'a, T> {
    pub uninterp spec fn seq(&self) -> Seq<T>;
    // .map(f) with f: &T -> Uuid: f is called once per item; the stream yields what it returned
    #[verifier::external_body] pub fn map<F: Fn(&'a T) -> Uuid>(self, f: F) -> (r: KvxMapped)
        requires forall|t: &T| #[trigger] f.requires((t,)),
        ensures r.outs().len() == self.seq().len(), forall|i: int| 0 <= i < self.seq().len() ==> f.ensures((&self.seq()[i],), #[trigger] r.outs()[i]),
                forall|u: Uuid| #[trigger] r.uuids().contains(u) <==> r.outs().contains(u) { unimplemented!() }
    // .filter_map(f) with f: &T -> Option<iterator over a set of uuids>
    #[verifier::external_body] pub fn filter_map<F: Fn(&'a T) -> Option<KvxSetIter<'a>>>(self, f: F) -> (r: KvxOptIters<'a>)
        requires forall|t: &T| #[trigger] f.requires((t,)),
        ensures r.sets().len() == self.seq().len(),
                forall|i: int| 0 <= i < self.seq().len() ==> fm_agrees(f, self.seq()[i], #[trigger] r.sets()[i]) { unimplemented!() }
}
// reference value sets (Box<ValueSetRefer> and its `dyn ValueSetT` form are one stand-in type here)
pub struct ValueSet { pub set: Ghost<Set<Uuid>> }
#[verifier::external_body] pub struct UuidSet { _p: u8 }
impl UuidSet { pub uninterp spec fn set(&self) -> Set<Uuid>; #[verifier::external_body] pub fn iter(&self) -> (r: KvxSetIter<'_>) ensures r.set() == self.set() { unimplemented!() } }
impl ValueSet {
    pub open spec fn view(&self) -> Set<Uuid> { self.set@ }
    #[verifier::external_body] pub fn clone(&self) -> (r: ValueSet) ensures r.view() == self.view() { unimplemented!() }
    #[verifier::external_body] pub fn merge(&mut self, o: &ValueSet) -> (r: Result<(), OperationError>) ensures r is Ok ==> final(self).view() == old(self).view().union(o.view()) { unimplemented!() }
    #[verifier::external_body] pub fn as_refer_set(&self) -> (r: Option<&UuidSet>) ensures r is Some, r->Some_0.set() == self.view() { unimplemented!() }
}
pub struct ValueSetRefer;
impl ValueSetRefer {
    // ValueSetRefer::from_iter: None for an empty stream, otherwise the set of its items
    #[verifier::external_body] pub fn from_iter<I: KvxUuids>(it: I) -> (r: Option<ValueSet>)
        ensures r is None <==> it.uuids() =~= Set::<Uuid>::empty(), r is Some ==> r->Some_0.view() == it.uuids() { unimplemented!() }
}
// entries
pub struct Group { pub uuid: Uuid, pub mo: Option<ValueSet> }          // a group as returned by the search: its uuid and its own memberof
impl Group {
    pub fn get_uuid(&self) -> (r: Uuid) ensures r == self.uuid { self.uuid }
    #[verifier::external_body] pub fn get_ava_set(&self, a: Attribute) -> (r: Option<&ValueSet>) ensures a is MemberOf ==> ((r is Some) == (self.mo is Some) && (r is Some ==> r->Some_0.view() == self.mo->Some_0.view())) { unimplemented!() }
}
pub struct Arc<T> { pub v: T }
impl<T> core::ops::Deref for Arc<T> { type Target = T; fn deref(&self) -> (r: &T) ensures *r == self.v { &self.v } }
pub struct EntryInvalidCommitted { pub o: u8 }
impl EntryInvalidCommitted {
    pub uninterp spec fn mo(&self) -> Set<Uuid>;          // values of memberof (empty when absent)
    pub uninterp spec fn dmo(&self) -> Set<Uuid>;         // values of directmemberof
    #[verifier::external_body] pub fn add_ava_if_not_exist(&mut self, a: Attribute, v: Value) ensures final(self).mo() == old(self).mo(), final(self).dmo() == old(self).dmo() { unimplemented!() }
    #[verifier::external_body] pub fn purge_ava(&mut self, a: Attribute)
        ensures final(self).mo() == (if a is MemberOf { Set::<Uuid>::empty() } else { old(self).mo() }), final(self).dmo() == (if a is DirectMemberOf { Set::<Uuid>::empty() } else { old(self).dmo() }) { unimplemented!() }
    #[verifier::external_body] pub fn set_ava_set(&mut self, a: &Attribute, v: ValueSet)
        ensures final(self).mo() == (if *a is MemberOf { v.view() } else { old(self).mo() }), final(self).dmo() == (if *a is DirectMemberOf { v.view() } else { old(self).dmo() }) { unimplemented!() }
}
//@extract FC
//@extract f_eq
//@extract f_and
//@extract f_or
// f_and!([..]) / f_or!([..]) = f_and / f_or of the array's elements
#[verifier::external_body] pub fn kvx_f_and_arr<const N: usize>(vs: [FC; N]) -> (r: FC) ensures r matches FC::And(l) && l@ == vs@ { unimplemented!() }
#[verifier::external_body] pub fn kvx_f_or_arr<const N: usize>(vs: [FC; N]) -> (r: FC) ensures r matches FC::Or(l) && l@ == vs@ { unimplemented!() }
pub struct Filter { pub fc: FC }
pub fn kvx_filter(fc: FC) -> (r: Filter) ensures r.fc == fc { Filter { fc } }        // filter!(fc): live entries only
pub struct Db { pub o: int }
// the live entries matching a filter, as groups (search returns exactly the matching entries: C01)
pub uninterp spec fn matching(db: Db, fc: FC) -> Seq<Arc<Group>>;
// the query the statement describes: live groups that list `u` as member or dynamic member
pub open spec fn is_member_query(fc: FC, u: Uuid) -> bool {
    fc matches FC::And(l) && l@.len() == 2 && l@[0] == FC::Eq(Attribute::Class, PartialValue::Class(EntryClass::Group))
    && (l@[1] matches FC::Or(m) && m@.len() == 2 && m@[0] == FC::Eq(Attribute::Member, PartialValue::Refer(u)) && m@[1] == FC::Eq(Attribute::DynMember, PartialValue::Refer(u)))
}
pub struct QueryServerWriteTransaction { pub o: u8 }
impl QueryServerWriteTransaction {
    pub uninterp spec fn db(&self) -> Db;
    #[verifier::external_body] pub fn internal_search(&mut self, f: Filter) -> (r: Result<Vec<Arc<Group>>, OperationError>)
        ensures final(self).db() == old(self).db(), r matches Ok(v) ==> v@ == matching(old(self).db(), f.fc) { unimplemented!() }
}
pub open spec fn step_ok(db: Db, uuid: Uuid, t: &EntryInvalidCommitted) -> bool {
    exists|fc: FC| #[trigger] is_member_query(fc, uuid)
        && (forall|u: Uuid| #[trigger] t.dmo().contains(u) <==> in_dmo(matching(db, fc), u))
        && (forall|u: Uuid| #[trigger] t.mo().contains(u) <==> (in_dmo(matching(db, fc), u) || inherited(matching(db, fc), u)))
}
pub open spec fn opt_has(o: Option<ValueSet>, u: Uuid) -> bool { o is Some && o->Some_0.view().contains(u) }
// ---- the statement (C17), one recomputation step for one entry ----
pub open spec fn in_dmo(gs: Seq<Arc<Group>>, u: Uuid) -> bool { exists|i: int| 0 <= i < gs.len() && (#[trigger] gs[i]).v.uuid == u }
pub open spec fn inherited(gs: Seq<Arc<Group>>, u: Uuid) -> bool { exists|i: int| 0 <= i < gs.len() && (#[trigger] gs[i]).v.mo is Some && gs[i].v.mo->Some_0.view().contains(u) }

//@extract do_group_memberof
}
fn main(){}
