use vstd::prelude::*;
use core::cmp::Ordering;
verus! {
//@include shims/uuid.rs
pub enum OperationError { Backend }
#[derive(Clone, Copy)] pub struct AttrString { pub o: u64 }
//@extract Attribute
// a value set, compared as the code compares it (Option<&ValueSet> equality is value-set equality)
pub struct ValueSet { pub o: int }
pub struct UuidSet { pub o: int }
impl UuidSet { pub uninterp spec fn is_superset(&self, o: &UuidSet) -> bool; }   // only inside debug_assert! (dead under release semantics)
pub struct OptVs<'a> { pub v: Option<&'a ValueSet> }
pub struct Entry { pub o: int }
impl Entry {
    pub uninterp spec fn ava(&self, a: Attribute) -> Option<ValueSet>;
    #[verifier::external_body] pub fn get_ava_set(&self, a: Attribute) -> (r: Option<&ValueSet>)
        ensures r is Some == self.ava(a) is Some, r matches Some(x) ==> Some(*x) == self.ava(a) { unimplemented!() }
    #[verifier::external_body] pub fn get_ava_refer(&self, a: Attribute) -> (r: Option<&UuidSet>) { unimplemented!() }
}
// Option<&ValueSet> != Option<&ValueSet>: value-set inequality (PartialEq of ValueSet compares contents)
#[verifier::external_body] pub fn kvx_vs_ne(a: Option<&ValueSet>, b: Option<&ValueSet>) -> (r: bool)
    ensures r == !((a is None && b is None) || (a matches Some(x) && b matches Some(y) && *x == *y)) { unimplemented!() }
pub struct Arc<T> { pub v: T }
impl Arc<Entry> {
    pub fn get_ava_set(&self, a: Attribute) -> (r: Option<&ValueSet>) ensures r is Some == self.v.ava(a) is Some, r matches Some(x) ==> Some(*x) == self.v.ava(a) { self.v.get_ava_set(a) }
    pub fn get_ava_refer(&self, a: Attribute) -> (r: Option<&UuidSet>) { self.v.get_ava_refer(a) }
}
// C17: an entry whose recomputed memberof OR directmemberof differs from the stored one must be written back
pub open spec fn mo_changed(pre: Arc<Entry>, tgte: Entry) -> bool {
    pre.v.ava(Attribute::MemberOf) != tgte.ava(Attribute::MemberOf) || pre.v.ava(Attribute::DirectMemberOf) != tgte.ava(Attribute::DirectMemberOf)
}
//@extract writeback_step
}
fn main(){}
