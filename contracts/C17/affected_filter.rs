use vstd::prelude::*;
verus! {
pub enum EntryClass { Group, Other }
pub enum PartialValue { Class(EntryClass), Other }
impl vstd::std_specs::convert::FromSpecImpl<EntryClass> for PartialValue { open spec fn obeys_from_spec() -> bool { true } open spec fn from_spec(v: EntryClass) -> PartialValue { PartialValue::Class(v) } }
impl From<EntryClass> for PartialValue { fn from(v: EntryClass) -> (r: PartialValue) { PartialValue::Class(v) } }
pub enum Attribute { Class, Other }
pub struct EntrySealedCommitted { pub o: int }
impl EntrySealedCommitted {
    pub uninterp spec fn is_group(&self) -> bool;
    #[verifier::external_body] pub fn attribute_equality(&self, a: Attribute, v: &PartialValue) -> (r: bool)
        ensures (a is Class && *v == PartialValue::Class(EntryClass::Group)) ==> r == self.is_group() { unimplemented!() }
}
pub struct Arc<T> { pub v: T }
impl Arc<EntrySealedCommitted> {
    pub fn attribute_equality(&self, a: Attribute, v: &PartialValue) -> (r: bool)
        ensures (a is Class && *v == PartialValue::Class(EntryClass::Group)) ==> r == self.v.is_group() { self.v.attribute_equality(a, v) }
}
//@extract group_pair_step
}
fn main(){}
