use vstd::prelude::*;
use core::cmp::Ordering;
use vstd::std_specs::iter::IteratorSpec;
verus! {
//@include shims/uuid.rs
pub enum OperationError { Backend }
pub struct Identity { pub o: u8 }
pub enum EntryClass { Group, DynGroup, Other }
pub enum PartialValue { Class(EntryClass), Other }
impl vstd::std_specs::convert::FromSpecImpl<EntryClass> for PartialValue { open spec fn obeys_from_spec() -> bool { true } open spec fn from_spec(v: EntryClass) -> PartialValue { PartialValue::Class(v) } }
impl From<EntryClass> for PartialValue { fn from(v: EntryClass) -> (r: PartialValue) { PartialValue::Class(v) } }
pub enum Attribute { Class, Member, DynMember, Other }
// sets of uuids, and the two things `affected_uuids.extend(..)` is given
#[verifier::external_body] #[verifier::reject_recursive_types(T)] pub struct BTreeSet<T> { p: core::marker::PhantomData<T> }
impl<T> View for BTreeSet<T> { type V = Set<T>; uninterp spec fn view(&self) -> Set<T>; }
pub trait KvxUuids { spec fn uuid_set(&self) -> Set<Uuid>; }
impl<'a> KvxUuids for &'a BTreeSet<Uuid> { open spec fn uuid_set(&self) -> Set<Uuid> { (**self)@ } }
#[verifier::external_body] pub struct KvxSymDiff<'a> { p: core::marker::PhantomData<&'a u8> }
impl<'a> KvxSymDiff<'a> { pub uninterp spec fn set(&self) -> Set<Uuid>; }
impl<'a> KvxUuids for KvxSymDiff<'a> { open spec fn uuid_set(&self) -> Set<Uuid> { self.set() } }
pub open spec fn sym_diff(a: Set<Uuid>, b: Set<Uuid>) -> Set<Uuid> { a.difference(b).union(b.difference(a)) }
impl BTreeSet<Uuid> {
    #[verifier::external_body] pub fn symmetric_difference<'a>(&'a self, o: &'a BTreeSet<Uuid>) -> (r: KvxSymDiff<'a>) ensures r.set() == sym_diff(self@, o@) { unimplemented!() }
    #[verifier::external_body] pub fn extend<S: KvxUuids>(&mut self, s: S) ensures final(self)@ == old(self)@.union(s.uuid_set()) { unimplemented!() }
}
// entries: class group, liveness, and the two member attributes as sets (empty when the attribute is absent)
pub struct EntrySealedCommitted { pub o: int }
impl EntrySealedCommitted {
    pub uninterp spec fn uuid(&self) -> Uuid;
    pub uninterp spec fn is_group(&self) -> bool;
    pub uninterp spec fn is_dyngroup(&self) -> bool;
    pub uninterp spec fn live(&self) -> bool;
    pub uninterp spec fn members(&self) -> Set<Uuid>;
    pub uninterp spec fn dynmembers(&self) -> Set<Uuid>;
    #[verifier::external_body] pub fn get_uuid(&self) -> (r: Uuid) ensures r == self.uuid() { unimplemented!() }
    #[verifier::external_body] pub fn attribute_equality(&self, a: Attribute, v: &PartialValue) -> (r: bool)
        ensures (a is Class && *v == PartialValue::Class(EntryClass::Group)) ==> r == self.is_group(),
                (a is Class && *v == PartialValue::Class(EntryClass::DynGroup)) ==> r == self.is_dyngroup() { unimplemented!() }
    // get_ava_as_refuuid(a): an iterator over the uuids that attribute refers to, None when the attribute is absent
    #[verifier::external_body] pub fn get_ava_as_refuuid(&self, a: Attribute) -> (r: Option<KvxRefIter>)
        ensures a is Member ==> iter_is(r, self.members()), a is DynMember ==> iter_is(r, self.dynmembers()) { unimplemented!() }
    #[verifier::external_body] pub fn mask_recycled_ts(&self) -> (r: Option<&EntrySealedCommitted>) ensures r is Some == self.live() { unimplemented!() }
    #[verifier::external_body] pub fn get_ava_refer(&self, a: Attribute) -> (r: Option<&BTreeSet<Uuid>>)
        ensures a is Member ==> ((r matches Some(s) ==> s@ == self.members()) && (r is None ==> self.members() =~= Set::<Uuid>::empty())),
                a is DynMember ==> ((r matches Some(s) ==> s@ == self.dynmembers()) && (r is None ==> self.dynmembers() =~= Set::<Uuid>::empty())) { unimplemented!() }
}
#[verifier::external_body] pub struct KvxRefIter { p: u8 }
impl KvxRefIter { pub uninterp spec fn set(&self) -> Set<Uuid>; }
pub open spec fn iter_is(r: Option<KvxRefIter>, s: Set<Uuid>) -> bool { (r matches Some(it) ==> it.set() == s) && (r is None ==> s =~= Set::<Uuid>::empty()) }
// the answer yields at least the uuids of s (more is harmless: more entries are re-evaluated)
pub open spec fn iter_covers(r: Option<KvxRefIter>, s: Set<Uuid>) -> bool { (r matches Some(it) ==> s.subset_of(it.set())) && (r is None ==> s =~= Set::<Uuid>::empty()) }
pub struct Arc<T> { pub v: T }
impl Arc<EntrySealedCommitted> {
    pub fn attribute_equality(&self, a: Attribute, v: &PartialValue) -> (r: bool) ensures (a is Class && *v == PartialValue::Class(EntryClass::Group)) ==> r == self.v.is_group() { self.v.attribute_equality(a, v) }
    pub fn mask_recycled_ts(&self) -> (r: Option<&EntrySealedCommitted>) ensures r is Some == self.v.live() { self.v.mask_recycled_ts() }
    pub fn get_ava_refer(&self, a: Attribute) -> (r: Option<&BTreeSet<Uuid>>)
        ensures a is Member ==> ((r matches Some(s) ==> s@ == self.v.members()) && (r is None ==> self.v.members() =~= Set::<Uuid>::empty())),
                a is DynMember ==> ((r matches Some(s) ==> s@ == self.v.dynmembers()) && (r is None ==> self.v.dynmembers() =~= Set::<Uuid>::empty())) { self.v.get_ava_refer(a) }
}
// ---- C17: memberof depends on the LIVE groups that list an entry. The entries whose memberof must be recomputed after a modify
// are those whose effective membership of some group changed: the symmetric difference of the group's effective member sets
// before and after, where a group that is not live has no effective members ----
pub open spec fn eff_members(e: EntrySealedCommitted) -> Set<Uuid> { if e.live() { e.members() } else { Set::<Uuid>::empty() } }
pub open spec fn eff_dynmembers(e: EntrySealedCommitted) -> Set<Uuid> { if e.live() { e.dynmembers() } else { Set::<Uuid>::empty() } }
pub open spec fn pair_covered(pre: EntrySealedCommitted, post: EntrySealedCommitted, affected: Set<Uuid>) -> bool {
    sym_diff(eff_members(pre), eff_members(post)).subset_of(affected) && sym_diff(eff_dynmembers(pre), eff_dynmembers(post)).subset_of(affected)
}
pub open spec fn affected_ok(pre: Seq<Arc<EntrySealedCommitted>>, post: Seq<EntrySealedCommitted>, affected: Set<Uuid>) -> bool {
    forall|i: int| 0 <= i < post.len() && i < pre.len() && ((#[trigger] post[i]).is_group() || pre[i].v.is_group()) ==> pair_covered(pre[i].v, post[i], affected)
}
pub struct QueryServerWriteTransaction { pub o: int }
// dynamic groups first (C18): the uuids they report as affected
#[verifier::external_body] pub fn kvx_dyngroup_post_modify(qs: &mut QueryServerWriteTransaction, pre: &[Arc<EntrySealedCommitted>], cand: &[EntrySealedCommitted], ident: &Identity, force: bool) -> (r: Result<BTreeSet<Uuid>, OperationError>) { unimplemented!() }
// `cand.iter().map(|post| post.get_uuid()).chain(dyngroup_change).collect()`
#[verifier::external_body] pub fn kvx_initial_affected(cand: &[EntrySealedCommitted], dyn_change: BTreeSet<Uuid>) -> (r: BTreeSet<Uuid>) { unimplemented!() }
// `pre_cand.iter().zip(cand.iter()).filter(group_pair_step)`: every pair for which the filter step's own postcondition rules out
// the answer `false` is in the list (std documentation of filter)
#[verifier::external_body] pub fn kvx_group_pairs<'a>(pre: &'a [Arc<EntrySealedCommitted>], cand: &'a [EntrySealedCommitted]) -> (r: Vec<(&'a Arc<EntrySealedCommitted>, &'a EntrySealedCommitted)>)
    ensures forall|i: int| 0 <= i < cand@.len() && i < pre@.len() && !call_ensures(group_pair_step, (&(&pre@[i], &cand@[i]),), false) ==> pair_in(r@, pre@[i], cand@[i]) { unimplemented!() }
pub open spec fn pair_in(v: Seq<(&Arc<EntrySealedCommitted>, &EntrySealedCommitted)>, p: Arc<EntrySealedCommitted>, c: EntrySealedCommitted) -> bool {
    exists|k: int| 0 <= k < v.len() && *(#[trigger] v[k]).0 == p && *v[k].1 == c
}
// apply_memberof(qs, affected): the fixpoint over the affected uuids (not under contract). The ghost arguments are the operation's
// before / after entries: the call must show that the affected set covers every effective membership change
#[verifier::external_body] pub fn apply_memberof(qs: &mut QueryServerWriteTransaction, affected: BTreeSet<Uuid>, Ghost(pre): Ghost<Seq<Arc<EntrySealedCommitted>>>, Ghost(post): Ghost<Seq<EntrySealedCommitted>>) -> (r: Result<(), OperationError>)
    requires affected_ok(pre, post, affected@) { unimplemented!() }
// ---- delete: a deleted group no longer gives its members anything, so every member and dynamic member of a deleted (dyn) group is affected ----
pub open spec fn deleted_ok(cand: Seq<EntrySealedCommitted>, affected: Set<Uuid>) -> bool {
    forall|i: int| 0 <= i < cand.len() ==> ((#[trigger] cand[i]).is_group() ==> cand[i].members().subset_of(affected)) && (cand[i].is_dyngroup() ==> cand[i].dynmembers().subset_of(affected))
}
// what the two filter_map closures answered for each deleted entry (pure functions: some answer exists and satisfies the step's contract)
pub uninterp spec fn ran_grp(s: Seq<EntrySealedCommitted>) -> Seq<Option<KvxRefIter>>;
pub uninterp spec fn ran_dyn(s: Seq<EntrySealedCommitted>) -> Seq<Option<KvxRefIter>>;
// `cand.iter().filter_map(del_group_step).flatten().chain(cand.iter().filter_map(del_dyn_step).flatten()).collect()`: every uuid of
// every iterator either closure answered (std: filter_map / flatten / chain / collect)
#[verifier::external_body] pub fn kvx_delete_affected(cand: &[EntrySealedCommitted]) -> (r: BTreeSet<Uuid>)
    ensures ran_grp(cand@).len() == cand@.len(), ran_dyn(cand@).len() == cand@.len(),
            forall|i: int| #![trigger ran_grp(cand@)[i]] 0 <= i < cand@.len() ==> call_ensures(del_group_step, (&cand@[i],), ran_grp(cand@)[i]) && (ran_grp(cand@)[i] matches Some(it) ==> it.set().subset_of(r@)),
            forall|i: int| #![trigger ran_dyn(cand@)[i]] 0 <= i < cand@.len() ==> call_ensures(del_dyn_step, (&cand@[i],), ran_dyn(cand@)[i]) && (ran_dyn(cand@)[i] matches Some(it) ==> it.set().subset_of(r@)) { unimplemented!() }
// the single-pass shape (one closure for both kinds; contract variant): every uuid of every iterator that closure answered
#[verifier::external_body] pub fn kvx_delete_affected_one(cand: &[EntrySealedCommitted]) -> (r: BTreeSet<Uuid>)
    ensures ran_grp(cand@).len() == cand@.len(),
            forall|i: int| #![trigger ran_grp(cand@)[i]] 0 <= i < cand@.len() ==> call_ensures(del_group_step, (&cand@[i],), ran_grp(cand@)[i]) && (ran_grp(cand@)[i] matches Some(it) ==> it.set().subset_of(r@)) { unimplemented!() }
#[verifier::external_body] pub fn apply_memberof_deleted(qs: &mut QueryServerWriteTransaction, affected: BTreeSet<Uuid>, Ghost(cand): Ghost<Seq<EntrySealedCommitted>>) -> (r: Result<(), OperationError>)
    requires deleted_ok(cand, affected@) { unimplemented!() }
pub struct DeleteEvent { pub o: u8 }
//@extract group_pair_step
//@extract del_group_step
//@extract del_dyn_step
pub struct MemberOf;
impl MemberOf {
//@extract post_modify_inner
//@extract post_delete
}
}
fn main(){}
