#![feature(allocator_api)]
use vstd::prelude::*;
use core::num::NonZeroU8;
use vstd::std_specs::iter::IteratorSpec;
verus! {
//@include shims/filter_sem.rs
pub enum OperationError { InvalidState, Backend, ResourceLimit }
// idlset::v2::IDLBitRange viewed as the set of entry ids it holds (ASSUMED: C03 / the idlset crate)
#[verifier::external_body] pub struct IDLBitRange { _p: u8 }
impl View for IDLBitRange { type V = Set<u64>; uninterp spec fn view(&self) -> Set<u64>; }
impl IDLBitRange {
    #[verifier::external_body] pub fn new() -> (r: IDLBitRange) ensures r@ == Set::<u64>::empty() { unimplemented!() }
    #[verifier::external_body] pub fn is_empty(&self) -> (r: bool) ensures r == (self@ == Set::<u64>::empty()) { unimplemented!() }
    #[verifier::external_body] pub fn below_threshold(&self, t: usize) -> (r: bool) { unimplemented!() }
    #[verifier::external_body] pub fn len(&self) -> (r: usize) { unimplemented!() }
    #[verifier::external_body] pub fn andnot(self, o: IDLBitRange) -> (r: IDLBitRange) ensures r@ == self@.difference(o@) { unimplemented!() }
}
impl Clone for IDLBitRange { #[verifier::external_body] fn clone(&self) -> (r: IDLBitRange) ensures r@ == self@ { unimplemented!() } }
impl vstd::std_specs::ops::BitOrSpecImpl<IDLBitRange> for IDLBitRange {
    open spec fn obeys_bitor_spec() -> bool { false }
    open spec fn bitor_req(self, rhs: IDLBitRange) -> bool { true }
    open spec fn bitor_spec(self, rhs: IDLBitRange) -> IDLBitRange { arbitrary() }
}
impl core::ops::BitOr for IDLBitRange { type Output = IDLBitRange;
    #[verifier::external_body] fn bitor(self, o: IDLBitRange) -> (r: IDLBitRange) ensures r@ == self@.union(o@) { unimplemented!() } }
impl vstd::std_specs::ops::BitAndSpecImpl<IDLBitRange> for IDLBitRange {
    open spec fn obeys_bitand_spec() -> bool { false }
    open spec fn bitand_req(self, rhs: IDLBitRange) -> bool { true }
    open spec fn bitand_spec(self, rhs: IDLBitRange) -> IDLBitRange { arbitrary() }
}
impl core::ops::BitAnd for IDLBitRange { type Output = IDLBitRange;
    #[verifier::external_body] fn bitand(self, o: IDLBitRange) -> (r: IDLBitRange) ensures r@ == self@.intersect(o@) { unimplemented!() } }

// ---- real types extracted from /repo ----
//@extract IndexType
//@extract IdList
//@extract FilterPlan
impl FilterResolved {
//@extract is_andnot
}

pub type Db = Map<u64, EntryView>;
// the ids of the stored entries the filter matches
#[verifier::opaque]
pub open spec fn matches(db: Db, f: FilterResolved) -> Set<u64> { db.dom().filter(|id: u64| sem(f, db[id])) }
// the precision invariant: what each kind of candidate list promises about the filter it was computed for
pub open spec fn ok_for(c: IdList, s: Set<u64>) -> bool {
    match c { IdList::AllIds => true, IdList::Partial(x) => s.subset_of(x@), IdList::PartialThreshold(x) => s.subset_of(x@), IdList::Indexed(x) => x@ =~= s }
}
pub open spec fn idl_ok(db: Db, f: FilterResolved, r: IdList) -> bool { ok_for(r, matches(db, f)) }

// ---- shapes outside the claim ----
// Inclusion is an internal-only term (refint existence queries); its per-entry meaning is `false`
pub open spec fn no_incl(f: FilterResolved) -> bool
    decreases f
{
    match f {
        FilterResolved::Or(l, _) => forall|i: int| 0 <= i < l@.len() ==> no_incl(#[trigger] l@[i]),
        FilterResolved::And(l, _) => forall|i: int| 0 <= i < l@.len() ==> no_incl(#[trigger] l@[i]),
        FilterResolved::Inclusion(_, _) => false,
        FilterResolved::AndNot(b, _) => no_incl(*b),
        _ => true,
    }
}
// known finding F1: an AndNot that is not a direct term of an And with at least one positive term is answered Indexed(empty)
pub open spec fn placed(f: FilterResolved, under_and: bool) -> bool
    decreases f
{
    match f {
        FilterResolved::Or(l, _) => forall|i: int| 0 <= i < l@.len() ==> placed(#[trigger] l@[i], false),
        FilterResolved::And(l, _) => (exists|i: int| 0 <= i < l@.len() && !((#[trigger] l@[i]) is AndNot))
            && forall|i: int| 0 <= i < l@.len() ==> placed(#[trigger] l@[i], true),
        FilterResolved::AndNot(b, _) => under_and && placed(*b, false),
        _ => true,
    }
}
pub open spec fn f1_exempt(f: FilterResolved) -> bool { !placed(f, false) }

// ---- the candidate-set algebra of filter2idl, as recursive set expressions over `matches` ----
pub open spec fn inner(f: FilterResolved) -> FilterResolved { match f { FilterResolved::AndNot(b, _) => *b, _ => f } }
// Or: union of the terms seen so far
pub open spec fn seen_union(db: Db, l: Seq<FilterResolved>, n: int) -> Set<u64>
    decreases n
{ if n <= 0 { Set::empty() } else { seen_union(db, l, n - 1).union(matches(db, l[n - 1])) } }
// And, positive terms: intersection of the first n positive terms
pub open spec fn cand1(db: Db, rem: Seq<&FilterResolved>, n: int) -> Set<u64>
    decreases n
{ if n <= 0 { db.dom() } else { cand1(db, rem, n - 1).intersect(matches(db, *rem[n - 1])) } }
// And, then the first m negated terms removed
pub open spec fn cand2(db: Db, rem: Seq<&FilterResolved>, an: Seq<&FilterResolved>, m: int) -> Set<u64>
    decreases m
{ if m <= 0 { cand1(db, rem, rem.len() as int) } else { cand2(db, rem, an, m - 1).difference(matches(db, inner(*an[m - 1]))) } }
// `l.iter().partition(is_andnot)`: an is exactly the AndNot terms of l, rem the others
pub open spec fn part_ok(l: Seq<FilterResolved>, an: Seq<&FilterResolved>, rem: Seq<&FilterResolved>) -> bool {
    &&& (forall|i: int| 0 <= i < an.len() ==> (*#[trigger] an[i] is AndNot) && l.contains(*an[i]))
    &&& (forall|i: int| 0 <= i < rem.len() ==> !(*#[trigger] rem[i] is AndNot) && l.contains(*rem[i]))
    &&& (forall|j: int| 0 <= j < l.len() ==> an.contains(&#[trigger] l[j]) || rem.contains(&l[j]))
}

pub proof fn lemma_matches_in_dom(db: Db, f: FilterResolved)
    ensures matches(db, f).subset_of(db.dom())
{ reveal(matches); }
pub proof fn lemma_matches_char(db: Db, f: FilterResolved)
    ensures forall|id: u64| #[trigger] matches(db, f).contains(id) <==> (db.dom().contains(id) && sem(f, db[id]))
{ reveal(matches); }
pub proof fn lemma_seen_union_char(db: Db, l: Seq<FilterResolved>, n: int)
    requires 0 <= n <= l.len()
    ensures forall|id: u64| #[trigger] seen_union(db, l, n).contains(id) <==> (db.dom().contains(id) && exists|i: int| 0 <= i < n && sem(#[trigger] l[i], db[id]))
    decreases n
{
    if n > 0 {
        lemma_seen_union_char(db, l, n - 1);
        lemma_matches_char(db, l[n - 1]);
        assert forall|id: u64| #[trigger] seen_union(db, l, n).contains(id) <==> (db.dom().contains(id) && exists|i: int| 0 <= i < n && sem(#[trigger] l[i], db[id])) by {
            assert(seen_union(db, l, n) == seen_union(db, l, n - 1).union(matches(db, l[n - 1])));
            if seen_union(db, l, n).contains(id) {
                if matches(db, l[n - 1]).contains(id) { assert(sem(l[n - 1], db[id])); } else { assert(seen_union(db, l, n - 1).contains(id)); }
            }
            if db.dom().contains(id) && exists|i: int| 0 <= i < n && sem(#[trigger] l[i], db[id]) {
                let i = choose|i: int| 0 <= i < n && sem(#[trigger] l[i], db[id]);
                if i == n - 1 { assert(matches(db, l[n - 1]).contains(id)); } else { assert(sem(l[i], db[id])); assert(seen_union(db, l, n - 1).contains(id)); }
            }
        }
    }
}
pub proof fn lemma_or_done(db: Db, l: Vec<FilterResolved>, x: Option<NonZeroU8>)
    ensures matches(db, FilterResolved::Or(l, x)) =~= seen_union(db, l@, l@.len() as int)
{
    let f = FilterResolved::Or(l, x);
    lemma_matches_char(db, f);
    lemma_seen_union_char(db, l@, l@.len() as int);
    assert forall|id: u64| matches(db, f).contains(id) <==> seen_union(db, l@, l@.len() as int).contains(id) by {
        reveal_with_fuel(sem, 2);
        let e = db[id];
        assert(f matches FilterResolved::Or(ll, _) && ll == l);
        assert(sem(f, e) == (exists|i: int| 0 <= i < l@.len() && sem(#[trigger] l@[i], e)));
    }
}
pub proof fn lemma_cand1_char(db: Db, rem: Seq<&FilterResolved>, n: int)
    requires 0 <= n <= rem.len()
    ensures forall|id: u64| #[trigger] cand1(db, rem, n).contains(id) <==> (db.dom().contains(id) && forall|i: int| 0 <= i < n ==> sem(*#[trigger] rem[i], db[id]))
    decreases n
{
    if n > 0 {
        lemma_cand1_char(db, rem, n - 1);
        lemma_matches_char(db, *rem[n - 1]);
        assert forall|id: u64| #[trigger] cand1(db, rem, n).contains(id) <==> (db.dom().contains(id) && forall|i: int| 0 <= i < n ==> sem(*#[trigger] rem[i], db[id])) by {
            assert(cand1(db, rem, n) == cand1(db, rem, n - 1).intersect(matches(db, *rem[n - 1])));
            if cand1(db, rem, n).contains(id) {
                assert(cand1(db, rem, n - 1).contains(id) && matches(db, *rem[n - 1]).contains(id));
                assert forall|i: int| 0 <= i < n implies sem(*#[trigger] rem[i], db[id]) by { if i == n - 1 { } else { } }
            }
            if db.dom().contains(id) && forall|i: int| 0 <= i < n ==> sem(*#[trigger] rem[i], db[id]) {
                assert(sem(*rem[n - 1], db[id]));
                assert(cand1(db, rem, n - 1).contains(id));
            }
        }
    } else {
        assert(cand1(db, rem, n) == db.dom());
    }
}
pub proof fn lemma_cand2_char(db: Db, rem: Seq<&FilterResolved>, an: Seq<&FilterResolved>, m: int)
    requires 0 <= m <= an.len()
    ensures forall|id: u64| #[trigger] cand2(db, rem, an, m).contains(id) <==> (db.dom().contains(id)
        && (forall|i: int| 0 <= i < rem.len() ==> sem(*#[trigger] rem[i], db[id]))
        && (forall|i: int| 0 <= i < m ==> !sem(inner(*#[trigger] an[i]), db[id])))
    decreases m
{
    if m > 0 {
        lemma_cand2_char(db, rem, an, m - 1);
        lemma_matches_char(db, inner(*an[m - 1]));
        assert forall|id: u64| #[trigger] cand2(db, rem, an, m).contains(id) <==> (db.dom().contains(id)
            && (forall|i: int| 0 <= i < rem.len() ==> sem(*#[trigger] rem[i], db[id]))
            && (forall|i: int| 0 <= i < m ==> !sem(inner(*#[trigger] an[i]), db[id]))) by {
            assert(cand2(db, rem, an, m) == cand2(db, rem, an, m - 1).difference(matches(db, inner(*an[m - 1]))));
            if cand2(db, rem, an, m).contains(id) {
                assert(cand2(db, rem, an, m - 1).contains(id) && !matches(db, inner(*an[m - 1])).contains(id));
                assert forall|i: int| 0 <= i < m implies !sem(inner(*#[trigger] an[i]), db[id]) by { if i == m - 1 { } else { } }
            }
            if db.dom().contains(id) && (forall|i: int| 0 <= i < rem.len() ==> sem(*#[trigger] rem[i], db[id])) && (forall|i: int| 0 <= i < m ==> !sem(inner(*#[trigger] an[i]), db[id])) {
                assert(!sem(inner(*an[m - 1]), db[id]));
                assert(cand2(db, rem, an, m - 1).contains(id));
            }
        }
    } else {
        lemma_cand1_char(db, rem, rem.len() as int);
        assert(cand2(db, rem, an, m) == cand1(db, rem, rem.len() as int));
    }
}
// every entry matching the And is in every intermediate candidate set
pub proof fn lemma_and_below(db: Db, l: Vec<FilterResolved>, x: Option<NonZeroU8>, an: Seq<&FilterResolved>, rem: Seq<&FilterResolved>, n: int, m: int)
    requires part_ok(l@, an, rem), 0 <= n <= rem.len(), 0 <= m <= an.len()
    ensures matches(db, FilterResolved::And(l, x)).subset_of(cand1(db, rem, n)), matches(db, FilterResolved::And(l, x)).subset_of(cand2(db, rem, an, m))
{
    let f = FilterResolved::And(l, x);
    lemma_matches_char(db, f);
    lemma_cand1_char(db, rem, n);
    lemma_cand2_char(db, rem, an, m);
    assert forall|id: u64| matches(db, f).contains(id) implies cand1(db, rem, n).contains(id) && cand2(db, rem, an, m).contains(id) by {
        reveal_with_fuel(sem, 2);
        let e = db[id];
        assert(f matches FilterResolved::And(ll, _) && ll == l);
        assert(sem(f, e) == (forall|j: int| 0 <= j < l@.len() ==> sem(#[trigger] l@[j], e)));
        assert forall|i: int| 0 <= i < rem.len() implies sem(*#[trigger] rem[i], db[id]) by {
            assert(l@.contains(*rem[i]));
            let j = choose|j: int| 0 <= j < l@.len() && l@[j] == *rem[i];
            assert(sem(l@[j], db[id]));
        }
        assert forall|i: int| 0 <= i < m implies !sem(inner(*#[trigger] an[i]), db[id]) by {
            assert(l@.contains(*an[i]));
            let j = choose|j: int| 0 <= j < l@.len() && l@[j] == *an[i];
            assert(sem(l@[j], db[id]));
            assert(*an[i] is AndNot);
        }
    }
}
// after all positive terms and all negated terms, the candidate expression is exactly the And's matches
pub proof fn lemma_and_done(db: Db, l: Vec<FilterResolved>, x: Option<NonZeroU8>, an: Seq<&FilterResolved>, rem: Seq<&FilterResolved>)
    requires part_ok(l@, an, rem)
    ensures matches(db, FilterResolved::And(l, x)) =~= cand2(db, rem, an, an.len() as int)
{
    let f = FilterResolved::And(l, x);
    lemma_matches_char(db, f);
    lemma_and_below(db, l, x, an, rem, rem.len() as int, an.len() as int);
    lemma_cand2_char(db, rem, an, an.len() as int);
    assert forall|id: u64| cand2(db, rem, an, an.len() as int).contains(id) implies matches(db, f).contains(id) by {
        assert forall|j: int| 0 <= j < l@.len() implies sem(#[trigger] l@[j], db[id]) by {
            if an.contains(&l@[j]) {
                let i = choose|i: int| 0 <= i < an.len() && an[i] == &l@[j];
                assert(!sem(inner(*an[i]), db[id]));
                assert(*an[i] is AndNot);
            } else {
                assert(rem.contains(&l@[j]));
                let i = choose|i: int| 0 <= i < rem.len() && rem[i] == &l@[j];
                assert(sem(*rem[i], db[id]));
            }
        }
        reveal_with_fuel(sem, 2);
        let e = db[id];
        assert(f matches FilterResolved::And(ll, _) && ll == l);
        assert(sem(f, e) == (forall|j: int| 0 <= j < l@.len() ==> sem(#[trigger] l@[j], e)));
    }
}
pub proof fn lemma_cand1_one(db: Db, rem: Seq<&FilterResolved>)
    requires rem.len() >= 1
    ensures cand1(db, rem, 1) =~= matches(db, *rem[0])
{
    lemma_matches_in_dom(db, *rem[0]);
    assert(cand1(db, rem, 0) == db.dom());
}
// AndNot is complement, Invalid matches nothing (used by the arms that answer without an index read)
pub proof fn lemma_invalid_empty(db: Db, a: Attribute)
    ensures matches(db, FilterResolved::Invalid(a)) =~= Set::<u64>::empty()
{ reveal(matches); }
// ordering terms only match entries where the attribute is present (Entry: lessthan on a missing attribute is false)
#[verifier::external_body]
pub proof fn axiom_lt_implies_pres(a: Attribute, v: PartialValue, e: EntryView)
    ensures leaf_lt(a, v, e) ==> leaf_pres(a, e) {}
pub proof fn lemma_lt_in_pres(db: Db, a: Attribute, v: PartialValue, x: Option<NonZeroU8>, y: Option<NonZeroU8>)
    ensures matches(db, FilterResolved::LessThan(a, v, x)).subset_of(matches(db, FilterResolved::Pres(a, y)))
{
    lemma_matches_char(db, FilterResolved::LessThan(a, v, x)); lemma_matches_char(db, FilterResolved::Pres(a, y));
    assert forall|id: u64| matches(db, FilterResolved::LessThan(a, v, x)).contains(id) implies matches(db, FilterResolved::Pres(a, y)).contains(id) by {
        axiom_lt_implies_pres(a, v, db[id]);
    }
}

// the terms handed to the recursive calls satisfy the same preconditions (no Inclusion, AndNot only as a term of an And)
pub proof fn lemma_placed_pos(f: FilterResolved)
    requires !(f is AndNot)
    ensures placed(f, true) == placed(f, false)
{}
pub proof fn lemma_has_pos(l: Vec<FilterResolved>, x: Option<NonZeroU8>, an: Seq<&FilterResolved>, rem: Seq<&FilterResolved>)
    requires part_ok(l@, an, rem)
    ensures placed(FilterResolved::And(l, x), false) ==> rem.len() >= 1
{
    let f = FilterResolved::And(l, x);
    if placed(f, false) {
        assert(f matches FilterResolved::And(ll, _) && ll == l);
        let i = choose|i: int| 0 <= i < l@.len() && !((#[trigger] l@[i]) is AndNot);
        if an.contains(&l@[i]) { let k = choose|k: int| 0 <= k < an.len() && an[k] == &l@[i]; assert(*an[k] is AndNot); }
    }
}
pub proof fn lemma_pos_term_ok(l: Vec<FilterResolved>, x: Option<NonZeroU8>, an: Seq<&FilterResolved>, rem: Seq<&FilterResolved>, i: int)
    requires part_ok(l@, an, rem), 0 <= i < rem.len()
    ensures no_incl(FilterResolved::And(l, x)) ==> no_incl(*rem[i]), placed(FilterResolved::And(l, x), false) ==> placed(*rem[i], false)
{
    let f = FilterResolved::And(l, x);
    assert(f matches FilterResolved::And(ll, _) && ll == l);
    assert(l@.contains(*rem[i]));
    let j = choose|j: int| 0 <= j < l@.len() && l@[j] == *rem[i];
    if no_incl(f) { assert(no_incl(l@[j])); }
    if placed(f, false) { assert(placed(l@[j], true)); lemma_placed_pos(l@[j]); }
}
pub proof fn lemma_neg_term_ok(l: Vec<FilterResolved>, x: Option<NonZeroU8>, an: Seq<&FilterResolved>, rem: Seq<&FilterResolved>, i: int)
    requires part_ok(l@, an, rem), 0 <= i < an.len()
    ensures no_incl(FilterResolved::And(l, x)) ==> no_incl(inner(*an[i])), placed(FilterResolved::And(l, x), false) ==> placed(inner(*an[i]), false)
{
    let f = FilterResolved::And(l, x);
    assert(f matches FilterResolved::And(ll, _) && ll == l);
    assert(l@.contains(*an[i]));
    let j = choose|j: int| 0 <= j < l@.len() && l@[j] == *an[i];
    assert(l@[j] is AndNot);
    if no_incl(f) { assert(no_incl(l@[j])); }
    if placed(f, false) { assert(placed(l@[j], true)); }
}

// ---- the index layer (IdlArcSqliteTransaction::get_idl): index reads are ASSUMED exact (that is C03) ----
// utils::trigraph_iter: the 3-, 2- and 1-grapheme windows of the key, as an uninterpreted function of the key text
pub uninterp spec fn trigraphs(key: Seq<char>) -> Seq<Seq<char>>;
// R3: `trigraph_iter(&key)` (an `impl Iterator<Item = &str>`) is redirected to the same keys collected in a vector, iterated with .iter()
#[verifier::external_body] pub fn kvx_trigraphs<'a>(value: &'a str) -> (r: Vec<&'a str>)
    ensures r@.len() == trigraphs(value@).len(), forall|i: int| 0 <= i < r@.len() ==> (#[trigger] r@[i])@ == trigraphs(value@)[i] { unimplemented!() }
pub const FILTER_SUBSTR_TEST_THRESHOLD: usize = @@const:FILTER_SUBSTR_TEST_THRESHOLD@@;
pub trait IdlArcSqliteTransaction {
    spec fn db(&self) -> Db;
    spec fn has_index(&self, attr: Attribute, itype: IndexType) -> bool;
    fn get_idl(&mut self, attr: &Attribute, itype: IndexType, idx_key: &str) -> (r: Result<Option<IDLBitRange>, OperationError>)
        ensures final(self).db() == old(self).db(),
            r matches Ok(Some(idl)) ==> (itype is Equality ==> forall|v: PartialValue, x: Option<NonZeroU8>| v.eq_key() == idx_key@ ==>
                 idl@ =~= #[trigger] matches(old(self).db(), FilterResolved::Eq(*attr, v, x))),
            r matches Ok(Some(idl)) ==> (itype is Presence ==> forall|x: Option<NonZeroU8>|
                 idl@ =~= #[trigger] matches(old(self).db(), FilterResolved::Pres(*attr, x))),
            // substring index: the list of a trigraph key holds (at least) every entry matched by a substring term whose key contains
            // that trigraph — a superset, never exact
            r matches Ok(Some(idl)) ==> (itype is SubString ==> forall|v: PartialValue, x: Option<NonZeroU8>| v.sub_key() is Some && trigraphs(v.sub_key()->Some_0).contains(idx_key@) ==>
                 (#[trigger] matches(old(self).db(), FilterResolved::Cnt(*attr, v, x))).subset_of(idl@)),
            r matches Ok(Some(idl)) ==> (itype is SubString ==> forall|v: PartialValue, x: Option<NonZeroU8>| v.sub_key() is Some && trigraphs(v.sub_key()->Some_0).contains(idx_key@) ==>
                 (#[trigger] matches(old(self).db(), FilterResolved::Stw(*attr, v, x))).subset_of(idl@)),
            r matches Ok(Some(idl)) ==> (itype is SubString ==> forall|v: PartialValue, x: Option<NonZeroU8>| v.sub_key() is Some && trigraphs(v.sub_key()->Some_0).contains(idx_key@) ==>
                 (#[trigger] matches(old(self).db(), FilterResolved::Enw(*attr, v, x))).subset_of(idl@)),
            // None means the index table itself is missing (not: the key is absent) — a property of (attribute, index type)
            r matches Ok(o) ==> (o is None) == !old(self).has_index(*attr, itype),
            final(self).has_index(*attr, itype) == old(self).has_index(*attr, itype);
}
#[verifier::external_body] pub struct IdlLayer { _p: u8 }
impl IdlArcSqliteTransaction for IdlLayer {
    uninterp spec fn db(&self) -> Db;
    uninterp spec fn has_index(&self, attr: Attribute, itype: IndexType) -> bool;
    #[verifier::external_body]
    fn get_idl(&mut self, attr: &Attribute, itype: IndexType, idx_key: &str) -> (r: Result<Option<IDLBitRange>, OperationError>) { unimplemented!() }
}
// `slice.iter().partition(f)` into two vectors of references (std documentation): the first holds exactly the elements for which f
// returned true, the second the others
#[verifier::external_body]
pub fn kvx_partition_vec<'a, T, F: Fn(&&'a T) -> bool>(v: &'a Vec<T>, f: F) -> (r: (Vec<&'a T>, Vec<&'a T>))
    requires forall|x: &&'a T| f.requires((x,)),
    ensures
        forall|i: int| 0 <= i < r.0@.len() ==> f.ensures((&#[trigger] r.0@[i],), true) && v@.contains(*r.0@[i]),
        forall|i: int| 0 <= i < r.1@.len() ==> f.ensures((&#[trigger] r.1@[i],), false) && v@.contains(*r.1@[i]),
        forall|j: int| 0 <= j < v@.len() ==> r.0@.contains(&#[trigger] v@[j]) || r.1@.contains(&v@[j]),
        r.0@.len() + r.1@.len() == v@.len(),
{ unimplemented!() }

pub struct Backend { pub idl: IdlLayer }
impl Backend {
    pub fn get_idlayer(&mut self) -> (r: &mut IdlLayer)
        ensures *r == old(self).idl, final(self).idl == *final(r),
    { &mut self.idl }
//@extract filter2idl_sub
//@extract filter2idl
}

// ---- search / exists: how the candidate list is used ----
//@extract Limits
//@extract Filter
//@extract FilterValidResolved
impl Filter<FilterValidResolved> {
//@extract to_inner
}
pub const FILTER_SEARCH_TEST_THRESHOLD: usize = @@const:FILTER_SEARCH_TEST_THRESHOLD@@;
pub const FILTER_EXISTS_TEST_THRESHOLD: usize = @@const:FILTER_EXISTS_TEST_THRESHOLD@@;
// a stored entry as the backend hands it out: its id and its content; entry_match_no_index is the reference per-entry test
// (Entry::entry_match_no_index_inner has exactly the arms of `sem`; that correspondence is ASSUMED, see not_covered)
#[verifier::external_body] #[verifier::reject_recursive_types(T)] pub struct Arc<T> { p: core::marker::PhantomData<T> }
pub struct EntrySealedCommitted { _p: u8 }
impl Arc<EntrySealedCommitted> {
    pub uninterp spec fn id(&self) -> u64;
    pub uninterp spec fn content(&self) -> EntryView;
    #[verifier::external_body] pub fn entry_match_no_index(&self, filt: &Filter<FilterValidResolved>) -> (r: bool)
        ensures r == sem(filt.state.inner, self.content()) { unimplemented!() }
}
// the entries are those of the ghost database, each id at most once
pub open spec fn loaded_from(db: Db, v: Seq<Arc<EntrySealedCommitted>>) -> bool {
    &&& forall|i: int| 0 <= i < v.len() ==> db.dom().contains((#[trigger] v[i]).id()) && v[i].content() == db[v[i].id()]
    &&& forall|i: int, j: int| 0 <= i < v.len() && 0 <= j < v.len() && i != j ==> (#[trigger] v[i]).id() != (#[trigger] v[j]).id()
}
pub open spec fn ids_of(v: Seq<Arc<EntrySealedCommitted>>) -> Set<u64> { v.map_values(|e: Arc<EntrySealedCommitted>| e.id()).to_set() }
impl IdlLayer {
    // IdlArcSqliteTransaction::get_identry: loads exactly the stored entries whose id is in the list (all of them for AllIds) — ASSUMED
    #[verifier::external_body] pub fn get_identry(&mut self, idl: &IdList) -> (r: Result<Vec<Arc<EntrySealedCommitted>>, OperationError>)
        ensures final(self).db() == old(self).db(),
            r matches Ok(v) ==> loaded_from(old(self).db(), v@) && ids_of(v@) =~= (match *idl {
                IdList::AllIds => old(self).db().dom(),
                IdList::Partial(s) => s@.intersect(old(self).db().dom()),
                IdList::PartialThreshold(s) => s@.intersect(old(self).db().dom()),
                IdList::Indexed(s) => s@.intersect(old(self).db().dom()) }) { unimplemented!() }
}
// `vec.into_iter().filter(f).collect::<Vec<_>>()`: the elements for which f returned true, in order, each kept at most as often as it
// occurred (std documentation), through the closure's checked contract
#[verifier::external_body] #[verifier::reject_recursive_types(T)] pub struct KvxFiltered<T> { p: core::marker::PhantomData<T> }
impl<T> KvxFiltered<T> { pub uninterp spec fn kept(&self) -> Seq<T>;
    #[verifier::external_body] pub fn collect(self) -> (r: Vec<T>) ensures r@ == self.kept() { unimplemented!() } }
pub open spec fn is_subseq_by<T>(k: Seq<T>, v: Seq<T>, idx: Seq<int>) -> bool {
    &&& idx.len() == k.len()
    &&& forall|a: int| 0 <= a < k.len() ==> 0 <= #[trigger] idx[a] < v.len() && v[idx[a]] == k[a]
    &&& forall|a: int, b: int| 0 <= a < b < k.len() ==> idx[a] < idx[b]
}
#[verifier::external_body] pub fn kvx_into_filter<T, F: Fn(&T) -> bool>(v: Vec<T>, f: F) -> (r: KvxFiltered<T>)
    requires forall|i: int| 0 <= i < v@.len() ==> f.requires((&#[trigger] v@[i],))
    ensures exists|idx: Seq<int>| #[trigger] is_subseq_by(r.kept(), v@, idx),
            forall|a: int| 0 <= a < r.kept().len() ==> f.ensures((&#[trigger] r.kept()[a],), true),
            forall|i: int| 0 <= i < v@.len() ==> f.ensures((&#[trigger] v@[i],), false) || r.kept().contains(v@[i]) { unimplemented!() }
// the ids of the kept entries are the loaded ids that match, and they are still pairwise distinct
pub proof fn lemma_filtered_ids(db: Db, f: FilterResolved, v: Seq<Arc<EntrySealedCommitted>>, k: Seq<Arc<EntrySealedCommitted>>)
    requires loaded_from(db, v), exists|idx: Seq<int>| #[trigger] is_subseq_by(k, v, idx),
        forall|a: int| 0 <= a < k.len() ==> sem(f, (#[trigger] k[a]).content()),
        forall|i: int| 0 <= i < v.len() ==> !sem(f, (#[trigger] v[i]).content()) || k.contains(v[i]),
    ensures loaded_from(db, k), ids_of(k) =~= ids_of(v).intersect(matches(db, f))
{
    lemma_matches_char(db, f);
    let idx = choose|idx: Seq<int>| #[trigger] is_subseq_by(k, v, idx);
    assert forall|a: int| 0 <= a < k.len() implies db.dom().contains((#[trigger] k[a]).id()) && k[a].content() == db[k[a].id()] by {
        assert(v[idx[a]] == k[a]);
    }
    assert forall|a: int, b: int| 0 <= a < k.len() && 0 <= b < k.len() && a != b implies (#[trigger] k[a]).id() != (#[trigger] k[b]).id() by {
        assert(v[idx[a]] == k[a] && v[idx[b]] == k[b]);
        if a < b { assert(idx[a] < idx[b]); } else { assert(idx[b] < idx[a]); }
    }
    let kv = k.map_values(|e: Arc<EntrySealedCommitted>| e.id());
    let vv = v.map_values(|e: Arc<EntrySealedCommitted>| e.id());
    assert forall|id: u64| ids_of(k).contains(id) <==> (ids_of(v).contains(id) && matches(db, f).contains(id)) by {
        if ids_of(k).contains(id) {
            let a = choose|a: int| 0 <= a < kv.len() && kv[a] == id;
            assert(k[a].id() == id);
            assert(v[idx[a]] == k[a]);
            assert(vv[idx[a]] == id);
            assert(sem(f, k[a].content()));
        }
        if ids_of(v).contains(id) && matches(db, f).contains(id) {
            let i = choose|i: int| 0 <= i < vv.len() && vv[i] == id;
            assert(v[i].id() == id && v[i].content() == db[id]);
            assert(k.contains(v[i]));
            let a = choose|a: int| 0 <= a < k.len() && k[a] == v[i];
            assert(kv[a] == id);
        }
    }
}
pub assume_specification<T, A: core::alloc::Allocator>[ Vec::<T, A>::shrink_to_fit ](v: &mut Vec<T, A>)
    ensures final(v)@ == old(v)@;
impl Backend {
//@extract search
//@extract exists
}
}
fn main(){}
