use vstd::prelude::*;
use core::cmp::Ordering;
verus! {
//@include shims/filter_sem.rs
pub struct NonZeroU8 { pub o: u8 }
// an entry as the per-entry matcher sees it: the leaf tests are the value-set comparisons (uninterpreted, the same predicates `sem` uses)
pub struct Entry { pub v: EntryView }
impl Entry {
    #[verifier::external_body] pub fn attribute_equality(&self, a: &Attribute, v: &PartialValue) -> (r: bool) ensures r == leaf_eq(*a, *v, self.v) { unimplemented!() }
    #[verifier::external_body] pub fn attribute_substring(&self, a: &Attribute, v: &PartialValue) -> (r: bool) ensures r == leaf_cnt(*a, *v, self.v) { unimplemented!() }
    #[verifier::external_body] pub fn attribute_startswith(&self, a: &Attribute, v: &PartialValue) -> (r: bool) ensures r == leaf_stw(*a, *v, self.v) { unimplemented!() }
    #[verifier::external_body] pub fn attribute_endswith(&self, a: &Attribute, v: &PartialValue) -> (r: bool) ensures r == leaf_enw(*a, *v, self.v) { unimplemented!() }
    #[verifier::external_body] pub fn attribute_pres(&self, a: &Attribute) -> (r: bool) ensures r == leaf_pres(*a, self.v) { unimplemented!() }
    #[verifier::external_body] pub fn attribute_lessthan(&self, a: &Attribute, v: &PartialValue) -> (r: bool) ensures r == leaf_lt(*a, *v, self.v) { unimplemented!() }
//@extract entry_match_no_index_inner
}
// l.iter().any(f) / l.iter().all(f) (std documentation) through the closure's own contract
#[verifier::external_body] pub fn kvx_any<T, F: Fn(&T) -> bool>(s: &Vec<T>, f: F) -> (r: bool)
    requires forall|i: int| 0 <= i < s@.len() ==> f.requires((&#[trigger] s@[i],)),
    ensures r ==> exists|i: int| 0 <= i < s@.len() && f.ensures((&#[trigger] s@[i],), true),
            !r ==> forall|i: int| 0 <= i < s@.len() ==> f.ensures((&#[trigger] s@[i],), false) { unimplemented!() }
#[verifier::external_body] pub fn kvx_all<T, F: Fn(&T) -> bool>(s: &Vec<T>, f: F) -> (r: bool)
    requires forall|i: int| 0 <= i < s@.len() ==> f.requires((&#[trigger] s@[i],)),
    ensures r ==> forall|i: int| 0 <= i < s@.len() ==> f.ensures((&#[trigger] s@[i],), true),
            !r ==> exists|i: int| 0 <= i < s@.len() && f.ensures((&#[trigger] s@[i],), false) { unimplemented!() }
}
fn main(){}
