use vstd::prelude::*;
use core::cmp::Ordering;
use std::collections::BTreeSet;
use vstd::std_specs::cmp::OrdSpec;
verus! {
//@include shims/duration.rs
//@include shims/duration_ops.rs
//@include shims/duration_sub.rs
//@include shims/uuid.rs
//@include shims/offsetdatetime.rs
//@include shims/time_ops.rs
pub mod time { pub use super::OffsetDateTime; }
pub assume_specification<T: Ord>[ core::cmp::min::<T> ](a: T, b: T) -> (r: T)
    ensures r == a || r == b, T::obeys_cmp_spec() ==> ((a.cmp_spec(&b) is Greater ==> r == b) && (!(a.cmp_spec(&b) is Greater) ==> r == a));
pub assume_specification<T: Ord>[ core::cmp::max::<T> ](a: T, b: T) -> (r: T)
    ensures r == a || r == b, T::obeys_cmp_spec() ==> ((a.cmp_spec(&b) is Greater ==> r == a) && (!(a.cmp_spec(&b) is Greater) ==> r == b));
impl Uuid { #[verifier::external_body] pub fn new_v4() -> (r: Uuid) { unimplemented!() } }
// the code's own constants, substituted from the source text on every run
pub const DEFAULT_AUTH_SESSION_LIMITED_EXPIRY: u32 = @@const:DEFAULT_AUTH_SESSION_LIMITED_EXPIRY@@;
pub const MAXIMUM_AUTH_PRIVILEGE_EXPIRY: u32 = @@const:MAXIMUM_AUTH_PRIVILEGE_EXPIRY@@;

// ---- real protocol / server enums and the token struct, extracted from /repo ----
//@extract UatPurpose
//@extract UserAuthToken
//@extract ApiTokenPurpose
//@extract SessionScope
//@extract AuthType
//@extract AccessScope
//@extract AuthIntent
#[derive(Clone, Copy, PartialEq, Eq, PartialOrd, Ord)]
pub enum UiHint { A, B }

// ---- stand-ins for what the functions touch but the property does not speak about ----
pub enum OperationError { SessionExpired, NoMatchingEntries, AU0004UserAuthTokenInvalid, AU0005DelayedProcessFailure, AU0006CredentialMayNotReauthenticate, AU0007UserAuthTokenInvalid, Other }
#[verifier::external_body] pub struct AttestationCaList { p: u8 }
//@extract CredentialType
//@extract ResolvedAccountPolicy
impl ResolvedAccountPolicy {
//@extract rap_privilege_expiry
//@extract rap_authsession_expiry
//@extract rap_limit_search_max_results
//@extract rap_limit_search_max_filter_test
}
pub struct Account { pub uuid: Uuid, pub displayname: String, pub spn: String, pub mail_primary: Option<String>, pub ui_hints: BTreeSet<UiHint> }
pub struct SessionExtMetadata { pub o: u8 }
pub enum IdentityId { User(Uuid), Other }
pub struct AuthSessionRecord { pub target_uuid: Uuid, pub session_id: Uuid, pub cred_id: Uuid, pub label: String, pub expiry: Option<OffsetDateTime>,
    pub issued_at: OffsetDateTime, pub issued_by: IdentityId, pub scope: SessionScope, pub type_: AuthType, pub ext_metadata: SessionExtMetadata }
pub enum DelayedAction { AuthSessionRecord(AuthSessionRecord), Other }
pub struct SendError { pub o: u8 }
#[verifier::external_body]
#[verifier::reject_recursive_types(T)]
pub struct UnboundedSender<T> { p: core::marker::PhantomData<T> }
impl<T> UnboundedSender<T> { #[verifier::external_body] pub fn send(&self, m: T) -> (r: Result<(), SendError>) { unimplemented!() } }
pub struct AuthIssueSession { pub o: u8 }
pub struct AuthSession { pub account: Account, pub account_policy: ResolvedAccountPolicy, pub issue: AuthIssueSession, pub intent: AuthIntent }

// ---- specification from the statement of C33 ----
pub open spec fn sec(n: u32) -> int { n as int * 1_000_000_000 }
// a token confers write access at `now` only through an unexpired inner privilege expiry
// (whether the expiry instant itself still counts is not decided by the statement: the property clause is inclusive, the auxiliary one strict)
pub open spec fn uat_confers_write(u: UserAuthToken, now: Duration) -> bool { u.purpose matches UatPurpose::ReadWrite { expiry: Some(e) } && now.ns() <= e.unix_ns }
pub open spec fn uat_confers_write_strict(u: UserAuthToken, now: Duration) -> bool { u.purpose matches UatPurpose::ReadWrite { expiry: Some(e) } && now.ns() < e.unix_ns }
// the inner privilege expiry of a token minted at `ct` lies within `bound` seconds of ct
pub open spec fn priv_bounded(u: UserAuthToken, ct: Duration, bound: u32) -> bool { u.purpose matches UatPurpose::ReadWrite { expiry: Some(e) } ==> e.unix_ns <= ct.ns() + sec(bound) }
pub open spec fn never_write(u: UserAuthToken) -> bool { !(u.purpose matches UatPurpose::ReadWrite { expiry: Some(_) }) }
pub open spec fn ro_auth_type(t: AuthType) -> bool { t is Anonymous || t is OAuth2Trust }
pub open spec fn time_ok(ct: Duration) -> bool { ct.wf() && ct.ns() < 0x1000_0000_0000_0000_0000_0000 }

impl Account {
//@extract to_userauthtoken
//@extract to_reissue_userauthtoken
//@extract client_cert_info_to_userauthtoken
}
impl AuthSession {
//@extract issue_uat
}
// "read-only API tokens are always read-only"; only read-write API tokens confer write access
impl vstd::std_specs::convert::FromSpecImpl<&ApiTokenPurpose> for AccessScope {
    open spec fn obeys_from_spec() -> bool { true }
    open spec fn from_spec(p: &ApiTokenPurpose) -> AccessScope { match p { ApiTokenPurpose::ReadOnly => AccessScope::ReadOnly, ApiTokenPurpose::ReadWrite => AccessScope::ReadWrite, ApiTokenPurpose::Synchronise => AccessScope::Synchronise } }
}
impl From<&ApiTokenPurpose> for AccessScope {
//@extract from_apitokenpurpose
}

// ---- process_uat_to_identity / process_apit_to_identity: stand-ins for the transaction, the entry and the limits ----
pub struct Source { pub o: u8 }
pub struct Limits { pub search_max_results: usize, pub search_max_filter_test: usize }
impl Limits {
    #[verifier::external_body] pub fn default() -> (r: Limits) { unimplemented!() }
    #[verifier::external_body] pub fn api_token() -> (r: Limits) { unimplemented!() }
}
#[verifier::external_body] pub struct EntrySealedCommitted { p: u8 }
impl EntrySealedCommitted { pub uninterp spec fn uuid(&self) -> Uuid; }
pub struct Arc<T> { pub v: T }
pub struct IdentUser { pub entry: Arc<EntrySealedCommitted> }
pub enum IdentType { User(IdentUser), Synch(Uuid), Internal(u8) }
//@extract Identity
#[verifier::external_body] pub struct QueryServerReadTransaction { p: u8 }
impl QueryServerReadTransaction {
    #[verifier::external_body] pub fn internal_search_uuid(&mut self, uuid: Uuid) -> (r: Result<Arc<EntrySealedCommitted>, OperationError>)
        ensures r matches Ok(e) ==> e.v.uuid() == uuid { unimplemented!() }
}
pub struct ApiToken { pub account_id: Uuid, pub token_id: Uuid, pub issued_at: OffsetDateTime, pub purpose: ApiTokenPurpose }
pub struct ServiceAccount {}
impl ServiceAccount {
    // contract proved on the real text in C32's unit; opaque here
    #[verifier::external_body] pub fn check_api_token_valid(ct: Duration, apit: &ApiToken, entry: &Arc<EntrySealedCommitted>) -> (r: bool) { unimplemented!() }
}
impl Account {
    #[verifier::external_body] pub fn check_user_auth_token_valid(ct: Duration, uat: &UserAuthToken, entry: &Arc<EntrySealedCommitted>) -> (r: bool) { unimplemented!() }
}
// `u64 -> usize` of the search limits (std TryInto; irrelevant to the property): redirected (R3)
pub fn kvx_try_into_usize(v: u64) -> (r: Option<usize>) { if v <= usize::MAX as u64 { Some(v as usize) } else { None } }
pub struct IdmTxn { pub qs: QueryServerReadTransaction }
impl IdmTxn {
    pub fn get_qs_txn(&mut self) -> (r: &mut QueryServerReadTransaction) { &mut self.qs }
//@extract process_uat_to_identity
//@extract process_apit_to_identity
}
impl Identity {
//@extract identity_new
}
// ---- C40: what identity an LDAP password bind maps to (idm/server.rs) ----
pub const UUID_ANONYMOUS: Uuid = Uuid(@@constexpr:UUID_ANONYMOUS:uuid!\("([0-9a-f-]+)"\):uuidhex@@);
//@extract LdapSession
impl Arc<EntrySealedCommitted> { pub fn as_ref(&self) -> (r: &EntrySealedCommitted) ensures *r == self.v { &self.v } }
impl Account {
    pub uninterp spec fn valid_at(&self, ct: Duration) -> bool;          // Account::is_within_valid_time (C32 / C49)
    #[verifier::external_body] pub fn is_within_valid_time(&self, ct: Duration) -> (r: bool) ensures r == self.valid_at(ct) { unimplemented!() }
    // the account read from an entry is that entry's account (uuid); the policy resolution is opaque
    #[verifier::external_body] pub fn try_from_entry_with_policy(e: &EntrySealedCommitted, qs: &mut QueryServerReadTransaction) -> (r: Result<(Account, ResolvedAccountPolicy), OperationError>)
        ensures r matches Ok(p) ==> p.0.uuid == e.uuid() { unimplemented!() }
}
// "a bind with a username and password only ever yields anonymous-level read rights": the identity is the anonymous entry, read-only
pub open spec fn anonymous_read_only(i: &Identity) -> bool {
    (i.origin matches IdentType::User(u) && u.entry.v.uuid() == UUID_ANONYMOUS) && i.scope is ReadOnly
}
impl IdmTxn {
//@extract process_ldap_uuid_to_identity
//@extract validate_ldap_session
}

// Lemma (layer 3): write access at time `now` through a token minted by issue_uat at `t0` implies now < t0 + bound.
pub proof fn lemma_write_needs_recent_auth(u: UserAuthToken, t0: Duration, now: Duration, bound: u32)
    requires priv_bounded(u, t0, bound), uat_confers_write(u, now),
    ensures now.ns() <= t0.ns() + sec(bound),
{}
}
fn main(){}
