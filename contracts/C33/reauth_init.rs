use vstd::prelude::*;
use core::cmp::Ordering;
verus! {
//@include shims/duration.rs
//@include shims/uuid.rs
//@include shims/kvx_btreemap.rs
//@include shims/std_option.rs
pub enum OperationError { InvalidState, SessionMayNotReauth, InvalidSessionState, Backend }
#[derive(Clone, Copy)] pub struct AttrString { pub o: u64 }
//@extract Attribute
//@extract SessionScope
pub struct AuthType { pub o: u8 }
pub struct SessionState { pub o: u8 }
// value::Session: the fields read here
pub struct Session { pub state: SessionState, pub cred_id: Uuid, pub scope: SessionScope, pub type_: AuthType }
pub struct EntrySealedCommitted { pub o: int }
impl EntrySealedCommitted { pub uninterp spec fn sessions(&self) -> Option<Map<Uuid, Session>>; }
pub struct Arc<T> { pub v: T }
impl<T> Arc<T> { pub fn new(v: T) -> (r: Arc<T>) ensures r.v == v { Arc { v } } }
impl Arc<EntrySealedCommitted> {
    pub fn as_ref(&self) -> (r: &EntrySealedCommitted) ensures *r == self.v { &self.v }
    #[verifier::external_body] pub fn get_ava_as_session_map(&self, a: Attribute) -> (r: Option<&BTreeMap<Uuid, Session>>)
        ensures a == Attribute::UserAuthTokenSession ==> ((r is Some) == (self.v.sessions() is Some) && (r matches Some(m) ==> Some(m@) == self.v.sessions())) { unimplemented!() }
}
pub struct Identity { pub session_id: Uuid, pub o: int }
impl Identity {
    pub uninterp spec fn user_entry(&self) -> Option<Arc<EntrySealedCommitted>>;
    #[verifier::external_body] pub fn get_user_entry(&self) -> (r: Option<Arc<EntrySealedCommitted>>) ensures r == self.user_entry() { unimplemented!() }
    #[verifier::external_body] pub fn get_session_id(&self) -> (r: Uuid) ensures r == self.session_id { unimplemented!() }
}
pub struct CredSoftLockPolicy { pub o: u8 }
pub struct ResolvedAccountPolicy { pub o: u8 }
pub struct Account { pub uuid: Uuid, pub o: int }
impl Account {
    #[verifier::external_body] pub fn try_from_entry_with_policy(e: &EntrySealedCommitted, qs: &mut QueryServerReadTransaction) -> (r: Result<(Account, ResolvedAccountPolicy), OperationError>) { unimplemented!() }
    #[verifier::external_body] pub fn primary_cred_uuid_and_policy(&self) -> (r: Option<(Uuid, CredSoftLockPolicy)>) { unimplemented!() }
}
pub struct QueryServerReadTransaction { pub o: int }
pub struct KeyObject { pub o: u8 }
impl QueryServerReadTransaction { #[verifier::external_body] pub fn get_domain_key_object_handle(&self) -> (r: Result<Arc<KeyObject>, OperationError>) { unimplemented!() } }
// ---- soft locks (as in unit unix_pass_auth) ----
pub struct SlockGuard { pub stepped: Ghost<Option<Duration>>, pub valid: Ghost<bool> }
impl SlockGuard {
    #[verifier::external_body] pub fn apply_time_step(&mut self, ct: Duration, exp: Option<Duration>) ensures final(self).stepped@ == Some(ct) { unimplemented!() }
    #[verifier::external_body] pub fn is_valid(&self) -> (r: bool) ensures r == self.valid@ { unimplemented!() }
}
pub struct CredSoftLockMutex { pub o: u8 }
impl CredSoftLockMutex {
    #[verifier::external_body] pub fn clone(&self) -> (r: CredSoftLockMutex) { unimplemented!() }
    #[verifier::external_body] pub fn lock(&self) -> (r: SlockGuard) ensures r.stepped@ is None { unimplemented!() }
}
pub struct CredSoftLock;
impl CredSoftLock { #[verifier::external_body] pub fn new(p: CredSoftLockPolicy) -> (r: CredSoftLock) { unimplemented!() } }
#[verifier::external_body] pub fn kvx_new_slock_mutex(l: CredSoftLock) -> (r: CredSoftLockMutex) { unimplemented!() }
pub struct SoftlockWrite { pub o: u8 }
impl SoftlockWrite {
    #[verifier::external_body] pub fn get(&self, k: &Uuid) -> (r: Option<&CredSoftLockMutex>) { unimplemented!() }
    #[verifier::external_body] pub fn insert(&mut self, k: Uuid, v: CredSoftLockMutex) -> (r: Option<CredSoftLockMutex>) { unimplemented!() }
    #[verifier::external_body] pub fn commit(self) { unimplemented!() }
}
pub struct Softlocks { pub o: u8 }
impl Softlocks { #[verifier::external_body] pub fn write(&self) -> (r: SoftlockWrite) { unimplemented!() } }
pub struct Semaphore { pub o: u8 }
pub struct Permit { pub o: u8 }
impl Semaphore { #[verifier::external_body] pub fn acquire(&self) -> (r: Permit) { unimplemented!() } }
// ---- authentication sessions ----
pub struct AuthIssueSession { pub o: u8 }
pub struct ClientAuthInfo { pub o: u8 }
pub struct ReauthRequest { pub o: u8 }
pub struct Webauthn { pub o: u8 }
pub struct OAuth2ClientProvider { pub o: u8 }
pub enum AuthState { Denied(String), Other }
//@extract AuthResult
pub struct AuthSessionData<'a> { pub account: Account, pub account_policy: ResolvedAccountPolicy, pub issue: AuthIssueSession, pub webauthn: &'a Webauthn, pub ct: Duration, pub client_auth_info: ClientAuthInfo, pub oauth2_client_provider: Option<&'a OAuth2ClientProvider> }
pub struct AuthSession { pub o: u8 }
// C33: a session can step up only if it was issued as privilege-capable, and only with the credential it was created with
pub open spec fn may_reauth(sessions: Option<Map<Uuid, Session>>, session_id: Uuid, s: &Session, cred_id: Uuid) -> bool {
    sessions matches Some(m) && m.contains_key(session_id) && m[session_id] == *s && s.scope is PrivilegeCapable && cred_id == s.cred_id
}
impl AuthSession {
    // AuthSession::new_reauth (its own contract: unit C27/handler_selection); here the protocol of its CALL: the arguments are the
    // identity's own recorded session and that session's credential
    #[verifier::external_body] pub fn new_reauth(asd: AuthSessionData<'_>, session_id: Uuid, session: &Session, cred_id: Uuid, key_object: Arc<KeyObject>, req: &ReauthRequest,
        Ghost(reauth_ok): Ghost<bool>, Ghost(lock_ok): Ghost<bool>) -> (r: (Option<AuthSession>, AuthState))
        requires reauth_ok, lock_ok { unimplemented!() }
}
pub struct Mutex<T> { pub v: T }
impl<T> Mutex<T> { pub fn new(v: T) -> (r: Mutex<T>) { Mutex { v } } }
pub struct SessionsWrite { pub o: u8 }
impl SessionsWrite {
    #[verifier::external_body] pub fn contains_key(&self, k: &Uuid) -> (r: bool) { unimplemented!() }
    #[verifier::external_body] pub fn insert(&mut self, k: Uuid, v: Arc<Mutex<AuthSession>>) -> (r: Option<Arc<Mutex<AuthSession>>>) { unimplemented!() }
    #[verifier::external_body] pub fn get(&self, k: &Uuid) -> (r: Option<&Arc<Mutex<AuthSession>>>) { unimplemented!() }
    #[verifier::external_body] pub fn commit(self) { unimplemented!() }
}
pub struct Sessions { pub o: u8 }
impl Sessions { #[verifier::external_body] pub fn write(&self) -> (r: SessionsWrite) { unimplemented!() } }
pub type Sid = [u8; 4];
#[verifier::external_body] pub fn uuid_from_duration(ct: Duration, sid: Sid) -> (r: Uuid) { unimplemented!() }
#[verifier::external_body] pub fn kvx_to_string(s: &str) -> (r: String) { unimplemented!() }
pub struct IdmServerAuthTransaction<'a> { pub qs_read: QueryServerReadTransaction, pub softlocks: Softlocks, pub session_ticket: Semaphore, pub sessions: Sessions, pub sid: Sid, pub webauthn: &'a Webauthn }
impl<'a> IdmServerAuthTransaction<'a> {
//@extract reauth_init
}
}
fn main(){}
