use vstd::prelude::*;
use core::cmp::Ordering;
verus! {
//@include shims/duration.rs
//@include shims/duration_ops.rs
//@include shims/uuid.rs

//@extract Cid

impl Cid {
//@extract new_lamport
}

// ---- layer 3: the history claim of C07, from the property clause of new_lamport alone -----
// `lam` is ANY function with the property clause of the contract above (result > max);
// begin stamps lam(clock, cid_max); commit publishes and persists it; abort drops it;
// restart reseeds cid_max from the persisted maximum with lam(clock, db_ts_max).
pub open spec fn lam_ok(lam: spec_fn(nat, nat) -> nat) -> bool { forall|t: nat, m: nat| #[trigger] lam(t, m) > m }
pub enum Ev { Begin(nat), Commit, Abort, Restart(nat) }
pub struct St { pub cid_max: nat, pub db_ts_max: nat, pub cur: Option<nat>, pub committed: Seq<nat> }
pub open spec fn step(lam: spec_fn(nat, nat) -> nat, s: St, e: Ev) -> St {
    match e {
        Ev::Begin(t) => if s.cur is None { St { cur: Some(lam(t, s.cid_max)), ..s } } else { s },
        Ev::Commit => match s.cur { Some(c) => St { cid_max: c, db_ts_max: c, cur: None, committed: s.committed.push(c) }, None => s },
        Ev::Abort => St { cur: None, ..s },
        Ev::Restart(t) => St { cid_max: lam(t, s.db_ts_max), cur: None, ..s },
    }
}
pub open spec fn run(lam: spec_fn(nat, nat) -> nat, s: St, es: Seq<Ev>) -> St decreases es.len() {
    if es.len() == 0 { s } else { step(lam, run(lam, s, es.drop_last()), es.last()) }
}
pub open spec fn inv(s: St) -> bool {
    &&& s.cid_max >= s.db_ts_max
    &&& (forall|i: int| 0 <= i < s.committed.len() ==> #[trigger] s.committed[i] <= s.db_ts_max)
    &&& (forall|i: int, j: int| 0 <= i < j < s.committed.len() ==> s.committed[i] < s.committed[j])
    &&& (s.cur matches Some(c) ==> c > s.cid_max)
}
pub proof fn lemma_step(lam: spec_fn(nat, nat) -> nat, s: St, e: Ev) requires lam_ok(lam), inv(s) ensures inv(step(lam, s, e)) {
    let s2 = step(lam, s, e);
    match e {
        Ev::Commit => { if s.cur is Some {
            let c = s.cur->Some_0;
            assert forall|i: int, j: int| 0 <= i < j < s2.committed.len() implies s2.committed[i] < s2.committed[j] by {
                if j == s.committed.len() { assert(s.committed[i] <= s.db_ts_max); }
            }
        } }
        Ev::Begin(t) => { assert(lam(t, s.cid_max) > s.cid_max); }
        Ev::Restart(t) => { assert(lam(t, s.db_ts_max) > s.db_ts_max); }
        _ => {}
    }
}
pub proof fn lemma_run(lam: spec_fn(nat, nat) -> nat, s: St, es: Seq<Ev>) requires lam_ok(lam), inv(s) ensures inv(run(lam, s, es)) decreases es.len() {
    if es.len() > 0 { lemma_run(lam, s, es.drop_last()); lemma_step(lam, run(lam, s, es.drop_last()), es.last()); }
}
// C07: from the empty server, for ANY event sequence and ANY clock values, committed change ids strictly increase
pub proof fn c07_committed_ids_strictly_increase(lam: spec_fn(nat, nat) -> nat, es: Seq<Ev>)
    requires lam_ok(lam),
    ensures ({ let s = run(lam, St { cid_max: 0, db_ts_max: 0, cur: None, committed: seq![] }, es);
               forall|i: int, j: int| 0 <= i < j < s.committed.len() ==> s.committed[i] < s.committed[j] })
{
    lemma_run(lam, St { cid_max: 0, db_ts_max: 0, cur: None, committed: seq![] }, es);
}
// the real function is such a `lam`: its property clause, lifted to time values
pub proof fn lemma_contract_gives_lam_ok(ts: Duration, max: Duration, r: Duration)
    requires ts.wf(), max.wf(), r.wf(), max.dlt(r),
    ensures r.ns() > max.ns(),
{ lemma_duration_lt_is_time_order(max, r); }
// non-vacuity: the precondition of new_lamport is satisfiable and leaves room for the result
pub proof fn witness_precondition() ensures (Duration { secs: 5, nanos: 999_999_999 }).wf() && (Duration { secs: 5, nanos: 999_999_999 }).dlt(Duration::MAX) {}
}
fn main(){}
