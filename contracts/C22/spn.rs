use vstd::prelude::*;
macro_rules! filter { ($($t:tt)*) => { KvxFilter::PresSpn }; }
macro_rules! modlist { ($($t:tt)*) => { KvxModlist::PurgeSpn }; }
use vstd::std_specs::iter::IteratorSpec;
use core::cmp::Ordering;
verus! {
//@include shims/uuid.rs
// R3: `x.into()` (&str -> String; this Verus cannot attach a specification to <String as From<&str>>::from) redirected: keeps the characters
#[verifier::external_body] pub fn kvx_string_of(s: &str) -> (r: String) ensures r@ == s@ { unimplemented!() }
#[derive(PartialEq, Eq)] pub enum Attribute { Class, Name, Spn, Uuid, DomainName, Other(u64) }
pub enum EntryClass { Group, Account, Other(u64) }
pub enum SyntaxType { SecurityPrincipalName, Utf8StringIname, Other(u64) }
impl vstd::std_specs::cmp::PartialEqSpecImpl for SyntaxType { open spec fn obeys_eq_spec() -> bool { true } open spec fn eq_spec(&self, o: &SyntaxType) -> bool { *self == *o } }
impl PartialEq for SyntaxType { fn eq(&self, o: &SyntaxType) -> (r: bool) { match (self, o) { (SyntaxType::SecurityPrincipalName, SyntaxType::SecurityPrincipalName) => true, (SyntaxType::Utf8StringIname, SyntaxType::Utf8StringIname) => true, (SyntaxType::Other(a), SyntaxType::Other(b)) => *a == *b, _ => false } } }
pub enum OperationError { InvalidEntryState, Other }
pub enum PartialValue { Class(EntryClass), Other(u64) }
impl vstd::std_specs::convert::FromSpecImpl<EntryClass> for PartialValue { open spec fn obeys_from_spec() -> bool { true } open spec fn from_spec(v: EntryClass) -> PartialValue { PartialValue::Class(v) } }
impl From<EntryClass> for PartialValue { fn from(v: EntryClass) -> (r: PartialValue) { PartialValue::Class(v) } }

// ---- value sets: `ValueSet` = Box<dyn ValueSetT> in kanidm; here an opaque value observed through its syntax and, for the SPN
// syntax, the set of (name, realm) pairs it holds ----
#[verifier::external_body] pub struct ValueSet { p: u8 }
impl ValueSet {
    pub uninterp spec fn syn(&self) -> SyntaxType;
    pub uninterp spec fn spns(&self) -> Set<(Seq<char>, Seq<char>)>;      // meaningful when syn() is SecurityPrincipalName
    pub uninterp spec fn iname_single(&self) -> Option<Seq<char>>;
    #[verifier::external_body] pub fn syntax(&self) -> (r: SyntaxType) ensures r == self.syn() { unimplemented!() }
    #[verifier::external_body] pub fn clone(&self) -> (r: ValueSet) ensures r.syn() == self.syn(), r.spns() == self.spns(), r.iname_single() == self.iname_single() { unimplemented!() }
    #[verifier::external_body] pub fn to_iname_single(&self) -> (r: Option<&str>) ensures r is Some == self.iname_single() is Some, r is Some ==> r->Some_0@ == self.iname_single()->Some_0 { unimplemented!() }
}
pub struct ValueSetSpn;
impl ValueSetSpn {
    // ValueSetSpn::new((name, realm)) -> Box<Self>, used as a ValueSet: a one-element SPN set
    #[verifier::external_body] pub fn new(u: (String, String)) -> (r: ValueSet)
        ensures r.syn() == SyntaxType::SecurityPrincipalName, r.spns() == set![(u.0@, u.1@)] { unimplemented!() }
}
// ---- entries (ASSUMED accessor contracts, read off entry.rs) ----
pub struct EntryInvalid;
#[verifier::external_body]
#[verifier::reject_recursive_types(V)]
#[verifier::reject_recursive_types(S)]
pub struct Entry<V, S> { p: core::marker::PhantomData<(V, S)> }
impl<V, S> Entry<V, S> {
    pub uninterp spec fn name(&self) -> Option<Seq<char>>;        // the single iname value of `name`, if any
    pub uninterp spec fn has_class(&self, c: EntryClass) -> bool;
    pub uninterp spec fn spn_attr(&self) -> Option<ValueSet>;     // the value set stored under `spn`, if any
    #[verifier::external_body] pub fn get_ava_single_iname(&self, a: Attribute) -> (r: Option<&str>)
        ensures a is Name ==> (r is Some == self.name() is Some) && (r is Some ==> r->Some_0@ == self.name()->Some_0) { unimplemented!() }
    #[verifier::external_body] pub fn get_ava_set(&self, a: Attribute) -> (r: Option<&ValueSet>)
        ensures a is Spn ==> (r is Some == self.spn_attr() is Some) && (r is Some ==> *r->Some_0 == self.spn_attr()->Some_0) { unimplemented!() }
    #[verifier::external_body] pub fn attribute_equality(&self, a: Attribute, v: &PartialValue) -> (r: bool)
        ensures (a is Class && v is Class) ==> r == self.has_class(v->Class_0),
                (a is Uuid && *v == PVUUID_DOMAIN_INFO) ==> r == self.is_domain_info() { unimplemented!() }
    #[verifier::external_body] pub fn set_ava_set(&mut self, a: &Attribute, vs: ValueSet)
        ensures a is Spn ==> final(self).spn_attr() == Some(vs) && final(self).name() == old(self).name() && (forall|c: EntryClass| final(self).has_class(c) == old(self).has_class(c)) { unimplemented!() }
    #[verifier::external_body] pub fn get_uuid(&self) -> (r: Option<Uuid>) { unimplemented!() }
//@extract generate_spn
}
#[verifier::external_body] pub struct QueryServerWriteTransaction { p: u8 }
impl QueryServerWriteTransaction {
    pub uninterp spec fn domain(&self) -> Seq<char>;
    #[verifier::external_body] pub fn get_domain_name(&self) -> (r: &str) ensures r@ == self.domain() { unimplemented!() }
}

// ---- specification from the statement of C22 ----
pub open spec fn is_principal<V, S>(e: &Entry<V, S>) -> bool { e.has_class(EntryClass::Group) || e.has_class(EntryClass::Account) }
// exactly one SPN, equal to name@domain
pub open spec fn spn_is_name_at_domain<V, S>(e: &Entry<V, S>, domain: Seq<char>) -> bool {
    e.name() matches Some(n) && e.spn_attr() matches Some(vs) && vs.syn() == SyntaxType::SecurityPrincipalName && vs.spns() == set![(n, domain)]
}
// ---- domain rename: post_modify_inner purges EVERY spn so that modify_inner (above) regenerates it with the new domain name ----
pub struct Arc<T> { pub v: T }
impl<T> core::ops::Deref for Arc<T> { type Target = T; fn deref(&self) -> (r: &T) ensures *r == self.v { &self.v } }
pub struct EntrySealed; #[derive(Clone, Debug)] pub struct EntryCommitted;
pub struct Value { pub o: u64 }
impl<V, S> Entry<V, S> {
    pub uninterp spec fn is_domain_info(&self) -> bool;           // uuid == UUID_DOMAIN_INFO
    pub uninterp spec fn domain_name_val(&self) -> Option<Value>;  // the single value of `domain_name`
    #[verifier::external_body] pub fn get_ava_single(&self, a: Attribute) -> (r: Option<Value>) ensures a is DomainName ==> r == self.domain_name_val() { unimplemented!() }
}
pub const PVUUID_DOMAIN_INFO: PartialValue = PartialValue::Other(1);
impl vstd::std_specs::cmp::PartialEqSpecImpl for Value { open spec fn obeys_eq_spec() -> bool { true } open spec fn eq_spec(&self, o: &Value) -> bool { *self == *o } }
impl PartialEq for Value { fn eq(&self, o: &Value) -> (r: bool) { self.o == o.o } }
// filter! / modlist! build the search filter and the modification list: here they are opaque values tagged with what they denote
pub enum KvxFilter { PresSpn, Other }
pub enum KvxModlist { PurgeSpn, Other }
// R3: `cand.iter().zip(pre_cand.iter()).find_map(f)` (zip / find_map are provided trait methods) redirected to a stand-in specified through
// the closure's own contract: Some(v) only if the closure returned Some(v) for some aligned pair; None only if it returned None for all
#[verifier::external_body]
pub fn kvx_zip_find_map<'a, A, B, R, F: Fn((&'a A, &'a B)) -> Option<R>>(a: &'a [A], b: &'a [B], f: F) -> (r: Option<R>)
    requires forall|i: int| 0 <= i < a@.len() && i < b@.len() ==> f.requires(((&#[trigger] a@[i], &b@[i]),)),
    ensures r matches Some(v) ==> exists|i: int| 0 <= i < a@.len() && i < b@.len() && f.ensures(((&#[trigger] a@[i], &b@[i]),), Some(v)),
            r is None ==> forall|i: int| 0 <= i < a@.len() && i < b@.len() ==> f.ensures(((&#[trigger] a@[i], &b@[i]),), None),
{ unimplemented!() }
impl QueryServerWriteTransaction {
    pub uninterp spec fn all_spn_purged(&self) -> bool;            // an internal_modify(spn present -> purge spn) has been issued in this transaction
    #[verifier::external_body] pub fn reload_domain_info(&mut self) -> (r: Result<(), OperationError>) ensures final(self).all_spn_purged() == old(self).all_spn_purged() { unimplemented!() }
    #[verifier::external_body] pub fn internal_modify(&mut self, f: &KvxFilter, m: &KvxModlist) -> (r: Result<(), OperationError>)
        ensures (r is Ok && *f is PresSpn && *m is PurgeSpn) ==> final(self).all_spn_purged(), !(*f is PresSpn && *m is PurgeSpn) ==> final(self).all_spn_purged() == old(self).all_spn_purged() { unimplemented!() }
}
// "the domain name changed in this operation": some modified entry is the domain-info entry and its domain_name differs from before
pub open spec fn domain_renamed(pre: &[Arc<Entry<EntrySealed, EntryCommitted>>], post: &[Entry<EntrySealed, EntryCommitted>]) -> bool {
    exists|i: int| 0 <= i < post@.len() && i < pre@.len() && (#[trigger] post@[i]).is_domain_info() && post@[i].domain_name_val() is Some && post@[i].domain_name_val() != pre@[i].v.domain_name_val()
}
#[derive(Clone, Debug)] pub struct EntryNew;
// events carry the modifications they request (the real Modify enum; the list as ModifyList::iter exposes it)
//@extract Modify
pub struct ModifyValid;
#[verifier::reject_recursive_types(S)] pub struct ModifyList<S> { pub mods: Vec<Modify>, pub p: core::marker::PhantomData<S> }
impl<S> ModifyList<S> { pub fn iter(&self) -> (r: core::slice::Iter<'_, Modify>) { self.mods.iter() } }
pub struct CreateEvent { pub o: u8 } pub struct ModifyEvent { pub modlist: ModifyList<ModifyValid> } pub struct BatchModifyEvent { pub o: u8 }
pub type EntrySealedCommitted = Entry<EntrySealed, EntryCommitted>;
pub struct Spn {}
impl Spn {
//@extract modify_inner
//@extract post_modify_inner
//@extract spn_pre_create_transform
//@extract spn_pre_modify
//@extract spn_pre_batch_modify
}
}
fn main(){}
