use vstd::prelude::*;
use core::cmp::Ordering;
verus! {
//@include shims/duration.rs
//@include shims/uuid.rs
pub enum OperationError { InvalidRequestState, ResourceLimit, Backend }
pub struct Source { pub o: u8 }
pub const STR_UUID_DOMAIN_INFO: &'static str = "00000000-0000-0000-0000-ffffff000025";
// ---- ldap3_proto types (external crate): stand-ins with the variants / fields used ----
pub enum LdapFilter { And(Vec<LdapFilter>), Or(Vec<LdapFilter>), Not(Box<LdapFilter>), Equality(String, String), Present(String) }
impl LdapFilter { #[verifier::external_body] pub fn clone(&self) -> (r: LdapFilter) ensures r == *self { unimplemented!() } }
#[derive(PartialEq, Eq)] pub enum LdapSearchScope { Base, OneLevel, Subtree, Children }
pub struct LdapMsg { pub o: u8 }
pub struct LdapSearchResultEntry { pub o: u8 }
impl LdapSearchResultEntry { #[verifier::external_body] pub fn clone(&self) -> (r: LdapSearchResultEntry) { unimplemented!() } }
pub struct SearchRequest { pub base: String, pub scope: LdapSearchScope, pub filter: LdapFilter, pub attrs: Vec<String> }
impl SearchRequest {
    #[verifier::external_body] pub fn gen_result_entry(&self, e: LdapSearchResultEntry) -> (r: LdapMsg) { unimplemented!() }
    #[verifier::external_body] pub fn gen_success(&self) -> (r: LdapMsg) { unimplemented!() }
}
#[verifier::external_body] pub struct Regex { _p: u8 }
#[verifier::external_body] pub struct Captures<'a> { p: core::marker::PhantomData<&'a str> }
#[verifier::external_body] pub struct Match<'a> { p: core::marker::PhantomData<&'a str> }
impl Regex { #[verifier::external_body] pub fn captures<'a>(&self, s: &'a str) -> (r: Option<Captures<'a>>) { unimplemented!() } }
impl<'a> Captures<'a> { #[verifier::external_body] pub fn name(&self, n: &str) -> (r: Option<Match<'a>>) { unimplemented!() } }
impl<'a> Match<'a> { #[verifier::external_body] pub fn as_str(&self) -> (r: &'a str) { unimplemented!() } }
#[derive(Clone, Copy)] pub struct AttrString { pub o: u64 }
//@extract Attribute
pub uninterp spec fn attr_name(a: Attribute) -> Seq<char>;
impl Attribute { #[verifier::external_body] pub fn to_string(&self) -> (r: String) ensures r@ == attr_name(*self) { unimplemented!() } }
//@extract LdapSession
//@extract LdapBoundToken
#[derive(Clone, Copy)] pub struct UserAuthToken { pub o: u8 }
#[derive(Clone, Copy)] pub struct ApiToken { pub o: u8 }
//@extract LdapServer
#[derive(Clone)] pub struct Identity { pub id: u64 }
#[verifier::external_body] #[verifier::reject_recursive_types(T)] pub struct BTreeSet<T> { p: core::marker::PhantomData<T> }
pub struct Entry { pub o: u8 }
pub struct Arc<T> { pub v: T }
pub struct Db { pub o: int }
pub uninterp spec fn session_ident(db: Db, s: LdapSession) -> Identity;      // validate_ldap_session: unit ldap_identity
pub struct QueryServerReadTransaction { pub o: u8 }
impl QueryServerReadTransaction {
    pub uninterp spec fn db(&self) -> Db;
    #[verifier::external_body] pub fn search_ext(&mut self, se: &SearchEvent) -> (r: Result<Vec<Entry>, OperationError>) ensures final(self).db() == old(self).db() { unimplemented!() }
}
pub struct IdmServerProxyReadTransaction { pub qs_read: QueryServerReadTransaction }
impl IdmServerProxyReadTransaction {
    #[verifier::external_body] pub fn validate_ldap_session(&mut self, s: &LdapSession, source: Source, ct: Duration) -> (r: Result<Identity, OperationError>)
        ensures r matches Ok(i) ==> i == session_ident(old(self).qs_read.db(), *s), final(self).qs_read.db() == old(self).qs_read.db() { unimplemented!() }
}
pub struct IdmServer { pub o: u8 }
impl IdmServer { #[verifier::external_body] pub fn proxy_read(&self) -> (r: Result<IdmServerProxyReadTransaction, OperationError>) { unimplemented!() } }
#[verifier::external_body] pub fn duration_from_epoch_now() -> (r: Duration) { unimplemented!() }
// ---- C40: what an LDAP search executes: the client's own filter, at most one scope term, and the term that hides schema and
// access-control entries — for the identity the bind is worth ----
pub open spec fn is_class_eq(f: LdapFilter, cls: Seq<char>) -> bool { f matches LdapFilter::Equality(a, v) && a@ == attr_name(Attribute::Class) && v@ == cls }
pub open spec fn hides_schema_and_acp(f: LdapFilter) -> bool {
    f matches LdapFilter::Not(b) && (*b matches LdapFilter::Or(l) && l@.len() == 3
        && is_class_eq(l@[0], "classtype"@) && is_class_eq(l@[1], "attributetype"@) && is_class_eq(l@[2], "access_control_profile"@))
}
pub open spec fn search_filter_ok(f: LdapFilter, sr: &SearchRequest) -> bool {
    f matches LdapFilter::And(l) && (l@.len() == 2 || l@.len() == 3) && l@[0] == sr.filter && hides_schema_and_acp(l@[l@.len() - 1])
}
pub struct SearchEvent { pub o: u8 }
impl SearchEvent {
    // SearchEvent::new_ext_impersonate_uuid (unit C23/search_events): here the protocol of its call
    #[verifier::external_body] pub fn new_ext_impersonate_uuid(qs: &mut QueryServerReadTransaction, ident: Identity, lf: &LdapFilter, attrs: Option<BTreeSet<Attribute>>,
        Ghost(sr): Ghost<&SearchRequest>, Ghost(sess): Ghost<LdapSession>) -> (r: Result<SearchEvent, OperationError>)
        requires search_filter_ok(*lf, sr), ident == session_ident(old(qs).db(), sess),
        ensures final(qs).db() == old(qs).db() { unimplemented!() }
}
// the attribute-selection block of do_search (which attributes are requested and how they map to LDAP names) and the mapping of
// result entries to LDAP messages: not part of the clause decided here
#[verifier::external_body] pub fn kvx_attr_selection(sr: &SearchRequest, max: usize) -> (r: Result<(bool, Option<BTreeSet<Attribute>>, Vec<String>), OperationError>) { unimplemented!() }
#[verifier::external_body] pub fn kvx_to_ldap_msgs(res: Vec<Entry>, qs: &mut QueryServerReadTransaction, sr: &SearchRequest, basedn: &str, all_attrs: bool, l_attrs: &Vec<String>) -> (r: Result<Vec<LdapMsg>, OperationError>) { unimplemented!() }
#[verifier::external_body] pub fn kvx_str_string(s: &str) -> (r: String) ensures r@ == s@ { unimplemented!() }
impl LdapServer {
//@extract do_search
}
}
fn main(){}
