use vstd::prelude::*;
use core::cmp::Ordering;
verus! {
//@include shims/duration.rs
//@include shims/uuid.rs
pub const UUID_ANONYMOUS: Uuid = Uuid(@@constexpr:UUID_ANONYMOUS:uuid!\("([0-9a-f-]+)"\):uuidhex@@);
pub enum OperationError { InvalidUuid, SessionExpired, NoMatchingEntries, Backend }
// opaque token payload types of LdapSession's other variants
pub struct UserAuthToken { pub o: u8 }
pub struct ApiToken { pub o: u8 }
pub enum Attribute { MemberOf, Other }
impl Uuid { #[verifier::external_body] pub fn new_v4() -> (r: Uuid) { unimplemented!() } }
// `account.spn().into()` (&str -> String)
#[verifier::external_body] pub fn kvx_string_of(s: &str) -> (r: String) ensures r@ == s@ { unimplemented!() }
// ---- real types extracted from /repo ----
//@extract LdapSession
//@extract LdapBoundToken
//@extract LdapAuthEvent
//@extract LdapApplicationAuthEvent
//@extract Application
// ---- stand-ins for the entry, the account and the transaction ----
#[verifier::external_body] #[verifier::reject_recursive_types(K)] pub struct BTreeSet<K> { p: core::marker::PhantomData<K> }
impl<K> View for BTreeSet<K> { type V = Set<K>; uninterp spec fn view(&self) -> Set<K>; }
impl<K> BTreeSet<K> { #[verifier::external_body] pub fn contains(&self, k: &K) -> (r: bool) ensures r == self@.contains(*k) { unimplemented!() } }
#[verifier::external_body] pub struct EntrySealedCommitted { p: u8 }
pub struct Arc<T> { pub v: T }
impl<T> core::ops::Deref for Arc<T> { type Target = T; fn deref(&self) -> (r: &T) ensures *r == self.v { &self.v } }
impl Arc<EntrySealedCommitted> { pub fn as_ref(&self) -> (r: &EntrySealedCommitted) ensures *r == self.v { &self.v } }
impl EntrySealedCommitted {
    pub uninterp spec fn uuid(&self) -> Uuid;
    pub uninterp spec fn memberof(&self) -> Option<Set<Uuid>>;
    #[verifier::external_body] pub fn get_ava_refer(&self, a: Attribute) -> (r: Option<&BTreeSet<Uuid>>)
        ensures a is MemberOf ==> ((r is Some) == (self.memberof() is Some) && (r is Some ==> r->Some_0@ == self.memberof()->Some_0)) { unimplemented!() }
}
pub struct QueryServerReadTransaction { pub d_info: DomainInfo }
pub struct DomainInfo { pub d_ldap_allow_unix_pw_bind: bool }
impl QueryServerReadTransaction {
    #[verifier::external_body] pub fn internal_search_uuid(&mut self, uuid: Uuid) -> (r: Result<Arc<EntrySealedCommitted>, OperationError>)
        ensures r matches Ok(e) ==> e.v.uuid() == uuid, final(self).d_info == old(self).d_info { unimplemented!() }
}
pub struct Account { pub uuid: Uuid, pub spn_s: String }
impl Account {
    pub uninterp spec fn valid_at(&self, ct: Duration) -> bool;
    pub uninterp spec fn app_pw_ok(&self, app: &Application, pw: Seq<char>) -> bool;
    #[verifier::external_body] pub fn try_from_entry_ro(e: &EntrySealedCommitted, qs: &mut QueryServerReadTransaction) -> (r: Result<Account, OperationError>)
        ensures r matches Ok(a) ==> a.uuid == e.uuid(), final(qs).d_info == old(qs).d_info { unimplemented!() }
    #[verifier::external_body] pub fn is_within_valid_time(&self, ct: Duration) -> (r: bool) ensures r == self.valid_at(ct) { unimplemented!() }
    #[verifier::external_body] pub fn is_anonymous(&self) -> (r: bool) ensures r == (self.uuid == UUID_ANONYMOUS) { unimplemented!() }
    #[verifier::external_body] pub fn spn(&self) -> (r: &str) { unimplemented!() }
    #[verifier::external_body] pub fn uuid(&self) -> (r: Uuid) ensures r == self.uuid { unimplemented!() }
    // Account::verify_application_password: Some(..) only if an application password of this account for that application verifies
    #[verifier::external_body] pub fn verify_application_password(&self, app: &Application, cleartext: &str) -> (r: Result<Option<u8>, OperationError>)
        ensures r matches Ok(Some(_)) ==> self.app_pw_ok(app, cleartext@) { unimplemented!() }
}
#[verifier::external_body] #[verifier::reject_recursive_types(K)] #[verifier::reject_recursive_types(V)] pub struct HashMap<K, V> { p: core::marker::PhantomData<(K, V)> }
impl<K, V> View for HashMap<K, V> { type V = Map<K, V>; uninterp spec fn view(&self) -> Map<K, V>; }
impl<K, V> HashMap<K, V> { #[verifier::external_body] pub fn get(&self, k: &K) -> (r: Option<&V>) ensures (r is Some) == self@.contains_key(*k), r is Some ==> *r->Some_0 == self@[*k] { unimplemented!() } }
pub struct LdapApplicationsInner { pub set: HashMap<String, Application> }
pub struct LdapApplicationsReadTransaction { pub inner: LdapApplicationsInner }
pub struct IdmServerAuthTransaction { pub qs_read: QueryServerReadTransaction, pub applications: LdapApplicationsReadTransaction }
// ---- statement of C40 (binds) ----
// "application binds require membership of the application's group": some entry with the target's uuid lists the linked group in memberof
pub open spec fn app_member(this: &IdmServerAuthTransaction, lae: &LdapApplicationAuthEvent) -> bool {
    exists|e: EntrySealedCommitted| e.uuid() == lae.target && (#[trigger] e.memberof() matches Some(m) && m.contains(this.applications.inner.set@[lae.application].linked_group))
}
impl IdmServerAuthTransaction {
    pub fn get_qs_txn(&mut self) -> (r: &mut QueryServerReadTransaction) ensures *r == old(self).qs_read, final(self).qs_read == *final(r), final(self).applications == old(self).applications { &mut self.qs_read }
    // auth_with_unix_pass (credential verification with soft-lock): Some(account) only for the target account and only if its POSIX
    // password verified — an uninterpreted predicate
    pub uninterp spec fn unix_pw_ok(&self, target: Uuid, pw: Seq<char>, ct: Duration) -> bool;
    #[verifier::external_body] pub fn auth_with_unix_pass(&mut self, target: Uuid, cleartext: &str, ct: Duration) -> (r: Result<Option<Account>, OperationError>)
        ensures r matches Ok(Some(a)) ==> (a.uuid == target && old(self).unix_pw_ok(target, cleartext@, ct)), final(self).qs_read.d_info == old(self).qs_read.d_info { unimplemented!() }
//@extract auth_ldap
//@extract application_auth_ldap
}
}
fn main(){}
