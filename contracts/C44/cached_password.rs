use vstd::prelude::*;
use core::cmp::Ordering;
verus! {
//@include shims/uuid.rs
//@include shims/kvx_btreemap.rs
//@include shims/std_option.rs
// borrowed key form `&str` for a BTreeMap<String, _>
impl KvxMapKey<String> for str { uninterp spec fn as_key(&self) -> String; }
#[verifier::external_body] pub fn kvx_key_of(s: &str) -> (r: String) ensures r == s.as_key() { unimplemented!() }
pub const KANIDM_PWV1_KEY: &'static str = "kanidm-pw-v1";
// ---- the credential cryptography, abstractly (kanidm_lib_crypto + kanidm_hsm_crypto: ASSUMED) ----
// `sealed(pw, cred, key)`: pw is the TPM-bound argon2id hash of the clear text `cred` made with the machine's HMAC key `key`
#[verifier::external_body] pub struct Password { _p: u8 }
#[verifier::external_body] pub struct DbPasswordV1 { _p: u8 }
pub struct HmacS256Key { pub id: u64 }
pub struct CryptoPolicy { pub o: u8 }
pub struct BoxedDynTpm { pub o: u8 }
pub struct TpmCtx { pub o: u8 }
pub struct CryptoError { pub o: u8 }
pub struct Value { pub o: u64 }                       // serde_json::Value
pub uninterp spec fn sealed(pw: Password, cred: Seq<char>, key: HmacS256Key) -> bool;
pub uninterp spec fn verifies(pw: Password, cred: Seq<char>, key: HmacS256Key) -> bool;
// the binding property of the scheme: a hash sealed for (cred, key) verifies no other clear text and under no other key
#[verifier::external_body] pub proof fn axiom_binding(pw: Password, c: Seq<char>, k: HmacS256Key, c2: Seq<char>, k2: HmacS256Key)
    requires sealed(pw, c, k), verifies(pw, c2, k2) ensures c2 == c && k2 == k {}
pub uninterp spec fn db_of(pw: Password) -> DbPasswordV1;
pub uninterp spec fn json_of(db: DbPasswordV1) -> Value;
impl BoxedDynTpm { #[verifier::external_body] pub fn kvx_ctx(&mut self) -> (r: &mut TpmCtx) { unimplemented!() } }
impl Password {
    #[verifier::external_body] pub fn new_argon2id_hsm(policy: &CryptoPolicy, cleartext: &str, tpm: &mut TpmCtx, key: &HmacS256Key) -> (r: Result<Password, CryptoError>)
        ensures r matches Ok(pw) ==> sealed(pw, cleartext@, *key) { unimplemented!() }
    #[verifier::external_body] pub fn to_dbpasswordv1(&self) -> (r: DbPasswordV1) ensures r == db_of(*self) { unimplemented!() }
    // TryFrom<DbPasswordV1> (C12): the stored form decodes to the password it was made from
    #[verifier::external_body] pub fn try_from(db: DbPasswordV1) -> (r: Result<Password, ()>) ensures r matches Ok(pw) ==> db == db_of(pw) { unimplemented!() }
    #[verifier::external_body] pub fn verify_ctx(&self, cleartext: &str, ctx: Option<(&mut TpmCtx, &HmacS256Key)>) -> (r: Result<bool, CryptoError>)
        ensures r matches Ok(true) ==> (ctx matches Some(c) && verifies(*self, cleartext@, *c.1)) { unimplemented!() }
}
pub mod serde_json {
    use super::*;
    pub struct Error { pub o: u8 }
    #[verifier::external_body] pub fn to_value(db: DbPasswordV1) -> (r: Result<Value, Error>) ensures r matches Ok(v) ==> v == json_of(db) { unimplemented!() }
    #[verifier::external_body] pub fn from_value<T>(v: Value) -> (r: Result<DbPasswordV1, Error>) ensures r matches Ok(db) ==> v == json_of(db) { unimplemented!() }
}
impl Value { pub fn clone(&self) -> (r: Value) ensures r == *self { Value { o: self.o } } }
pub struct ProviderOrigin { pub o: u8 }
pub type XKeyId = String;
// ---- real types extracted from /repo ----
//@extract GroupToken
//@extract UserToken
// ---- statement of C44 ----
// the token caches a credential that was sealed from clear text `cred` with key `key`
pub open spec fn caches(t: &UserToken, cred: Seq<char>, key: HmacS256Key) -> bool {
    t.extra_keys@.contains_key(KANIDM_PWV1_KEY.as_key()) && exists|pw: Password| #[trigger] sealed(pw, cred, key) && t.extra_keys@[KANIDM_PWV1_KEY.as_key()] == json_of(db_of(pw))
}
impl UserToken {
//@extract kanidm_update_cached_password
//@extract kanidm_has_offline_credentials
//@extract kanidm_check_cached_password
}
// ---- the offline authentication step of the provider (async, one await: the configuration lock; rule D4) ----
pub struct DeviceAuthorizationResponse { pub o: u8 }
pub struct CacheState { pub o: u8 }
pub struct KanidmClient { pub o: u8 }
pub struct Id { pub o: u8 }
pub struct HashMap<K, V> { pub k: Option<K>, pub v: Option<V> }
#[verifier::external_body] #[verifier::reject_recursive_types(K)] pub struct BTreeSet<K> { p: core::marker::PhantomData<K> }
pub struct Mutex<T> { pub v: T }
pub struct MutexGuard<'a, T> { pub m: &'a Mutex<T> }
impl<T> Mutex<T> { pub fn lock(&self) -> (r: MutexGuard<'_, T>) ensures r.m == self { MutexGuard { m: self } } }
impl<'a, T> core::ops::Deref for MutexGuard<'a, T> { type Target = T; fn deref(&self) -> (r: &T) ensures *r == self.m.v { &self.m.v } }
//@extract IdpError
//@extract AuthCredHandler
//@extract AuthRequest
//@extract AuthResult
//@extract PamAuthRequest
//@extract KanidmProviderInternal
//@extract KanidmProvider
impl UserToken { #[verifier::external_body] pub fn clone(&self) -> (r: UserToken) ensures r == *self { unimplemented!() } }
// C45 ("the user's current account record"): the record written back after an offline authentication is the latest one known —
// the one in the cache if there is one, else the one the session started with; an older copy must not overwrite a refreshed record
pub open spec fn latest_record(current: Option<&UserToken>, session: &UserToken) -> UserToken { match current { Some(t) => *t, None => *session } }
// kanidm_client: the server's verdict on a POSIX password — Ok(Some(token)) means the server verified it (ASSUMED)
pub struct UnixUserToken { pub o: u8 }
#[derive(PartialEq, Eq)]
pub struct StatusCode(pub u16);
impl StatusCode { pub const UNAUTHORIZED: StatusCode = StatusCode(401); pub const BAD_REQUEST: StatusCode = StatusCode(400); pub const NOT_FOUND: StatusCode = StatusCode(404); }
pub enum OperationError { NotAuthenticated, SessionExpired, NoMatchingEntries, MissingAttribute(String), MissingClass(String), InvalidAccountState(String), Other }
pub struct TransportErr { pub o: u8 }
pub enum ClientError { Transport(TransportErr), Http(StatusCode, Option<OperationError>, String), Other }
pub uninterp spec fn server_verified(account: Seq<char>, cred: Seq<char>) -> bool;
impl KanidmClient {
    #[verifier::external_body] pub fn idm_account_unix_cred_verify(&self, id: &str, cred: &str) -> (r: Result<Option<UnixUserToken>, ClientError>)
        ensures r matches Ok(Some(_)) ==> server_verified(id@, cred@) { unimplemented!() }
}
impl vstd::std_specs::convert::FromSpecImpl<UnixUserToken> for UserToken {
    open spec fn obeys_from_spec() -> bool { false }
    open spec fn from_spec(v: UnixUserToken) -> UserToken { arbitrary() }
}
impl From<UnixUserToken> for UserToken { #[verifier::external_body] fn from(v: UnixUserToken) -> (r: UserToken) { unimplemented!() } }
pub struct Receiver<T> { pub o: Option<T> }
pub mod broadcast { pub use super::Receiver; }
impl KanidmProvider {
//@extract unix_user_offline_auth_step
//@extract unix_user_online_auth_step
}
// db_of / json_of are injective (storage encoding round-trips: C12; serde_json of a struct is injective) — ASSUMED
#[verifier::external_body] pub proof fn axiom_encoding_injective(a: Password, b: Password) requires json_of(db_of(a)) == json_of(db_of(b)) ensures a == b {}
// offline acceptance implies the very clear text and key that were cached
pub proof fn lemma_offline_accepts_only_cached(t: &UserToken, cred: Seq<char>, key: HmacS256Key, cred2: Seq<char>, key2: HmacS256Key)
    requires caches(t, cred, key), accepted(t, cred2, key2)
    ensures cred2 == cred && key2 == key
{
    let pw = choose|pw: Password| #[trigger] sealed(pw, cred, key) && t.extra_keys@[KANIDM_PWV1_KEY.as_key()] == json_of(db_of(pw));
    let pw2 = choose|pw2: Password| #[trigger] verifies(pw2, cred2, key2) && t.extra_keys@[KANIDM_PWV1_KEY.as_key()] == json_of(db_of(pw2));
    axiom_encoding_injective(pw, pw2);
    axiom_binding(pw, cred, key, cred2, key2);
}
pub open spec fn accepted(t: &UserToken, cred: Seq<char>, key: HmacS256Key) -> bool {
    t.extra_keys@.contains_key(KANIDM_PWV1_KEY.as_key()) && exists|pw: Password| #[trigger] verifies(pw, cred, key) && t.extra_keys@[KANIDM_PWV1_KEY.as_key()] == json_of(db_of(pw))
}
}
fn main(){}
