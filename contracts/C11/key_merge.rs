use vstd::prelude::*;
use core::cmp::Ordering;
use std::collections::BTreeMap;
use vstd::std_specs::iter::IteratorSpec;
use vstd::std_specs::cmp::{OrdSpec, PartialOrdSpec};
verus! {
//@include shims/duration.rs
//@include shims/uuid.rs
//@extract Cid
pub open spec fn cid_lt(a: Cid, b: Cid) -> bool { a.ts.dlt(b.ts) || (a.ts == b.ts && a.s_uuid.0 < b.s_uuid.0) }
impl vstd::std_specs::cmp::PartialEqSpecImpl for Cid { open spec fn obeys_eq_spec() -> bool { true } open spec fn eq_spec(&self, o: &Cid) -> bool { self.ts == o.ts && self.s_uuid == o.s_uuid } }
impl vstd::std_specs::cmp::PartialOrdSpecImpl for Cid { open spec fn obeys_partial_cmp_spec() -> bool { true }
    open spec fn partial_cmp_spec(&self, o: &Cid) -> Option<Ordering> { if cid_lt(*self, *o) { Some(Ordering::Less) } else if *self == *o { Some(Ordering::Equal) } else { Some(Ordering::Greater) } } }
impl vstd::std_specs::cmp::OrdSpecImpl for Cid { open spec fn obeys_cmp_spec() -> bool { true }
    open spec fn cmp_spec(&self, o: &Cid) -> Ordering { if cid_lt(*self, *o) { Ordering::Less } else if *self == *o { Ordering::Equal } else { Ordering::Greater } } }
// KeyId (server/keys/mod.rs: a String newtype with derived Ord): stand-in with a total order
#[derive(Clone, Copy, PartialEq, Eq, PartialOrd, Ord)]
pub struct KeyId(pub u128);
impl vstd::std_specs::cmp::PartialEqSpecImpl for KeyId { open spec fn obeys_eq_spec() -> bool { true } open spec fn eq_spec(&self, o: &KeyId) -> bool { self.0 == o.0 } }
impl vstd::std_specs::cmp::PartialOrdSpecImpl for KeyId { open spec fn obeys_partial_cmp_spec() -> bool { true }
    open spec fn partial_cmp_spec(&self, o: &KeyId) -> Option<Ordering> { if self.0 < o.0 { Some(Ordering::Less) } else if self.0 == o.0 { Some(Ordering::Equal) } else { Some(Ordering::Greater) } } }
impl vstd::std_specs::cmp::OrdSpecImpl for KeyId { open spec fn obeys_cmp_spec() -> bool { true }
    open spec fn cmp_spec(&self, o: &KeyId) -> Ordering { if self.0 < o.0 { Ordering::Less } else if self.0 == o.0 { Ordering::Equal } else { Ordering::Greater } } }
//@extract KeyStatus
//@extract KeyUsage
// derived order of KeyStatus = declaration order Valid < Retained < Revoked
pub open spec fn srank(s: KeyStatus) -> int { match s { KeyStatus::Valid => 0, KeyStatus::Retained => 1, KeyStatus::Revoked => 2 } }
impl vstd::std_specs::cmp::PartialEqSpecImpl for KeyStatus { open spec fn obeys_eq_spec() -> bool { true } open spec fn eq_spec(&self, o: &KeyStatus) -> bool { *self == *o } }
impl vstd::std_specs::cmp::PartialOrdSpecImpl for KeyStatus { open spec fn obeys_partial_cmp_spec() -> bool { true }
    open spec fn partial_cmp_spec(&self, o: &KeyStatus) -> Option<Ordering> { if srank(*self) < srank(*o) { Some(Ordering::Less) } else if srank(*self) == srank(*o) { Some(Ordering::Equal) } else { Some(Ordering::Greater) } } }
pub struct Zeroizing<T> { pub v: T }
//@extract KeyInternalData
impl Clone for KeyInternalData { #[verifier::external_body] fn clone(&self) -> (r: Self) ensures r == *self { unimplemented!() } }

// ---- specification from the statements of C11 / C34: per key id the record with the greater status wins (Revoked is greatest) ----
pub open spec fn kpick(newer: KeyInternalData, older: KeyInternalData) -> KeyInternalData { if srank(older.status) > srank(newer.status) { older } else { newer } }
pub open spec fn kmerged(a: Map<KeyId, KeyInternalData>, b: Map<KeyId, KeyInternalData>) -> Map<KeyId, KeyInternalData> {
    Map::new(a.dom().union(b.dom()), |k: KeyId| if a.contains_key(k) && b.contains_key(k) { kpick(a[k], b[k]) } else if a.contains_key(k) { a[k] } else { b[k] })
}
// "m is a merge of a and b": same keys, every record taken from one of the two sides, its status is the greater of the two
pub open spec fn key_merged(m: Map<KeyId, KeyInternalData>, a: Map<KeyId, KeyInternalData>, b: Map<KeyId, KeyInternalData>) -> bool {
    &&& m.dom() =~= a.dom().union(b.dom())
    &&& forall|k: KeyId| #![auto] m.contains_key(k) ==> ((a.contains_key(k) && m[k] == a[k]) || (b.contains_key(k) && m[k] == b[k])) && srank(m[k].status) == srank(kmerged(a, b)[k].status)
}
pub enum OperationError { InvalidValueState }
pub trait ValueSetT {
    spec fn key_view(&self) -> Option<Map<KeyId, KeyInternalData>>;
    fn as_key_internal_map(&self) -> (r: Option<&BTreeMap<KeyId, KeyInternalData>>)
        ensures (r matches Some(m) ==> self.key_view() == Some(m@)), r is None ==> self.key_view() is None;
}
pub type ValueSet = Box<dyn ValueSetT>;
//@extract ValueSetKeyInternal
impl ValueSetT for ValueSetKeyInternal {
    open spec fn key_view(&self) -> Option<Map<KeyId, KeyInternalData>> { Some(self.map@) }
    fn as_key_internal_map(&self) -> (r: Option<&BTreeMap<KeyId, KeyInternalData>>) { Some(&self.map) }
}
// trim (BTreeMap::retain is outside the dialect): ASSUMED to remove exactly the Revoked records whose status change id is older than
// the changelog trim point, as its text says; everything else is kept unchanged
pub open spec fn ktrim_view(m: Map<KeyId, KeyInternalData>, trim_cid: Cid) -> Map<KeyId, KeyInternalData> {
    m.restrict(m.dom().filter(|k: KeyId| !(m[k].status is Revoked && cid_lt(m[k].status_cid, trim_cid))))
}
impl ValueSetKeyInternal {
    #[verifier::external_body]
    pub fn trim(&mut self, trim_cid: &Cid) ensures final(self).map@ == ktrim_view(old(self).map@, *trim_cid) { unimplemented!() }
//@extract key_repl_merge_valueset
//@extract key_merge
}
pub open spec fn mvk(m: &BTreeMap<KeyId, KeyInternalData>) -> Map<KeyId, KeyInternalData> { m@ }

// ---- layer 3: a revocation on either side survives the merge, and survives trimming until the trim point passes its change id ----
pub proof fn lemma_key_revocation_kept(a: Map<KeyId, KeyInternalData>, b: Map<KeyId, KeyInternalData>, m: Map<KeyId, KeyInternalData>, k: KeyId, trim_cid: Cid)
    requires key_merged(m, a, b), (a.contains_key(k) && a[k].status is Revoked) || (b.contains_key(k) && b[k].status is Revoked),
    ensures m.contains_key(k) && m[k].status is Revoked,
            !cid_lt(m[k].status_cid, trim_cid) ==> (ktrim_view(m, trim_cid).contains_key(k) && ktrim_view(m, trim_cid)[k].status is Revoked),
            // and a trimmed merge never turns a revoked key back into a usable one
            ktrim_view(m, trim_cid).contains_key(k) ==> ktrim_view(m, trim_cid)[k].status is Revoked,
{}
pub proof fn lemma_key_merge_idempotent_commutative(a: Map<KeyId, KeyInternalData>, b: Map<KeyId, KeyInternalData>, k: KeyId)
    ensures kmerged(a, a) =~= a, kmerged(a, b).contains_key(k) == kmerged(b, a).contains_key(k),
            kmerged(a, b).contains_key(k) ==> srank(kmerged(a, b)[k].status) == srank(kmerged(b, a)[k].status),
{}
}
fn main(){}
