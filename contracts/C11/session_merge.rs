use vstd::prelude::*;
use core::cmp::Ordering;
use std::collections::BTreeMap;
use vstd::std_specs::iter::IteratorSpec;
use vstd::std_specs::cmp::{OrdSpec, PartialOrdSpec};
verus! {
//@include shims/duration.rs
//@include shims/uuid.rs
//@include shims/offsetdatetime.rs

// ---- real types, extracted ----
//@extract Cid
// derived order of Cid = (ts, s_uuid) lexicographic (proved on the real type by kani unit cid_kani of C07)
pub open spec fn cid_lt(a: Cid, b: Cid) -> bool { a.ts.dlt(b.ts) || (a.ts == b.ts && a.s_uuid.0 < b.s_uuid.0) }
impl vstd::std_specs::cmp::PartialEqSpecImpl for Cid {
    open spec fn obeys_eq_spec() -> bool { true }
    open spec fn eq_spec(&self, o: &Cid) -> bool { self.ts == o.ts && self.s_uuid == o.s_uuid }
}
impl vstd::std_specs::cmp::PartialOrdSpecImpl for Cid {
    open spec fn obeys_partial_cmp_spec() -> bool { true }
    open spec fn partial_cmp_spec(&self, o: &Cid) -> Option<Ordering> {
        if cid_lt(*self, *o) { Some(Ordering::Less) } else if *self == *o { Some(Ordering::Equal) } else { Some(Ordering::Greater) } }
}
impl vstd::std_specs::cmp::OrdSpecImpl for Cid {
    open spec fn obeys_cmp_spec() -> bool { true }
    open spec fn cmp_spec(&self, o: &Cid) -> Ordering {
        if cid_lt(*self, *o) { Ordering::Less } else if *self == *o { Ordering::Equal } else { Ordering::Greater } }
}
//@extract SessionState
//@extract Oauth2Session
impl Clone for Oauth2Session { #[verifier::external_body] fn clone(&self) -> (r: Self) ensures r == *self { unimplemented!() } }
// Session: stand-in keeping the fields the merge reads (`state`) plus an opaque payload (label, issuer, scope, ...)
pub struct Session { pub state: SessionState, pub issued_at: OffsetDateTime, pub payload: u64 }
impl Clone for Session { #[verifier::external_body] fn clone(&self) -> (r: Self) ensures r == *self { unimplemented!() } }

// ---- specification from the statement of C11 ----
// dominance between two states of the same session: revoked dominates everything; among revocations the EARLIEST
// change id dominates; among expiries the LATER one dominates; never-expires is least.
pub open spec fn rank(s: SessionState) -> int { match s { SessionState::RevokedAt(_) => 2, SessionState::ExpiresAt(_) => 1, SessionState::NeverExpires => 0 } }
pub open spec fn dominates(a: SessionState, b: SessionState) -> bool {
    match (a, b) {
        (SessionState::RevokedAt(x), SessionState::RevokedAt(y)) => cid_lt(x, y),
        (SessionState::ExpiresAt(x), SessionState::ExpiresAt(y)) => x.unix_ns > y.unix_ns,
        _ => rank(a) > rank(b),
    }
}
pub open spec fn state_cmp_spec(a: SessionState, b: SessionState) -> Ordering {
    if dominates(a, b) { Ordering::Greater } else if dominates(b, a) { Ordering::Less } else { Ordering::Equal }
}
// the contract of `Ord for SessionState`: Verus checks the exec `cmp` / `partial_cmp` bodies against these
impl vstd::std_specs::cmp::PartialEqSpecImpl for SessionState {
    open spec fn obeys_eq_spec() -> bool { false }
    open spec fn eq_spec(&self, o: &SessionState) -> bool { *self == *o }
}
impl vstd::std_specs::cmp::PartialOrdSpecImpl for SessionState {
    open spec fn obeys_partial_cmp_spec() -> bool { true }
    open spec fn partial_cmp_spec(&self, o: &SessionState) -> Option<Ordering> { Some(state_cmp_spec(*self, *o)) }
}
impl vstd::std_specs::cmp::OrdSpecImpl for SessionState {
    open spec fn obeys_cmp_spec() -> bool { true }
    open spec fn cmp_spec(&self, o: &SessionState) -> Ordering { state_cmp_spec(*self, *o) }
}
impl PartialOrd for SessionState {
//@extract SessionState_partial_cmp
}
impl Ord for SessionState {
//@extract SessionState_cmp
}

// merged = per session id, the record whose state dominates (newer side kept on ties)
pub open spec fn pick<S>(newer: S, older: S, ns: SessionState, os: SessionState) -> S { if dominates(os, ns) { older } else { newer } }
pub open spec fn merged(a: Map<Uuid, Session>, b: Map<Uuid, Session>) -> Map<Uuid, Session> {
    Map::new(a.dom().union(b.dom()), |k: Uuid| if a.contains_key(k) && b.contains_key(k) { pick(a[k], b[k], a[k].state, b[k].state) } else if a.contains_key(k) { a[k] } else { b[k] })
}
pub open spec fn merged_o(a: Map<Uuid, Oauth2Session>, b: Map<Uuid, Oauth2Session>) -> Map<Uuid, Oauth2Session> {
    Map::new(a.dom().union(b.dom()), |k: Uuid| if a.contains_key(k) && b.contains_key(k) { pick(a[k], b[k], a[k].state, b[k].state) } else if a.contains_key(k) { a[k] } else { b[k] })
}

// state-level statement of "m is a merge of a and b": same sessions, every record taken from one of the two sides,
// and its state is the dominating one (which side's record is kept on a state tie is NOT part of C11)
pub open spec fn state_merged(m: Map<Uuid, Session>, a: Map<Uuid, Session>, b: Map<Uuid, Session>) -> bool {
    &&& m.dom() =~= a.dom().union(b.dom())
    &&& forall|k: Uuid| #![auto] m.contains_key(k) ==> ((a.contains_key(k) && m[k] == a[k]) || (b.contains_key(k) && m[k] == b[k])) && same_state(m[k].state, merged(a, b)[k].state)
}
pub open spec fn state_merged_o(m: Map<Uuid, Oauth2Session>, a: Map<Uuid, Oauth2Session>, b: Map<Uuid, Oauth2Session>) -> bool {
    &&& m.dom() =~= a.dom().union(b.dom())
    &&& forall|k: Uuid| #![auto] m.contains_key(k) ==> ((a.contains_key(k) && m[k] == a[k]) || (b.contains_key(k) && m[k] == b[k])) && same_state(m[k].state, merged_o(a, b)[k].state)
}
pub open spec fn same_state(a: SessionState, b: SessionState) -> bool { !dominates(a, b) && !dominates(b, a) }

// ---- ValueSet as a dyn trait object with a spec view of "is a session map" ----
pub enum OperationError { InvalidValueState }
pub trait ValueSetT {
    spec fn session_view(&self) -> Option<Map<Uuid, Session>>;
    spec fn oauth2_view(&self) -> Option<Map<Uuid, Oauth2Session>>;
    fn as_session_map(&self) -> (r: Option<&BTreeMap<Uuid, Session>>)
        ensures (r matches Some(m) ==> self.session_view() == Some(m@)), r is None ==> self.session_view() is None;
    fn as_oauth2session_map(&self) -> (r: Option<&BTreeMap<Uuid, Oauth2Session>>)
        ensures (r matches Some(m) ==> self.oauth2_view() == Some(m@)), r is None ==> self.oauth2_view() is None;
}
pub type ValueSet = Box<dyn ValueSetT>;
//@extract ValueSetSession
//@extract ValueSetOauth2Session
impl ValueSetT for ValueSetSession {
    open spec fn session_view(&self) -> Option<Map<Uuid, Session>> { Some(self.map@) }
    open spec fn oauth2_view(&self) -> Option<Map<Uuid, Oauth2Session>> { None }
    fn as_session_map(&self) -> (r: Option<&BTreeMap<Uuid, Session>>) { Some(&self.map) }
    fn as_oauth2session_map(&self) -> (r: Option<&BTreeMap<Uuid, Oauth2Session>>) { None }
}
impl ValueSetT for ValueSetOauth2Session {
    open spec fn session_view(&self) -> Option<Map<Uuid, Session>> { None }
    open spec fn oauth2_view(&self) -> Option<Map<Uuid, Oauth2Session>> { Some(self.map@) }
    fn as_session_map(&self) -> (r: Option<&BTreeMap<Uuid, Session>>) { None }
    fn as_oauth2session_map(&self) -> (r: Option<&BTreeMap<Uuid, Oauth2Session>>) { Some(&self.map) }
}
// trim: removes revocations older than the changelog trim point (and, for login sessions, force-trims above
// SESSION_MAXIMUM by issue time). ASSUMED contract (BTreeMap::retain + iterator pipeline are outside the dialect):
// everything that is not a revocation older than trim_cid and is kept by the size limit stays unchanged.
pub uninterp spec fn trim_view(m: Map<Uuid, Session>, trim_cid: Cid) -> Map<Uuid, Session>;
pub uninterp spec fn trim_view_o(m: Map<Uuid, Oauth2Session>, trim_cid: Cid) -> Map<Uuid, Oauth2Session>;
impl ValueSetSession {
    #[verifier::external_body]
    pub fn trim(&mut self, trim_cid: &Cid) ensures final(self).map@ == trim_view(old(self).map@, *trim_cid) { unimplemented!() }
//@extract ValueSetSession_repl_merge_valueset
//@extract ValueSetSession_merge
}
impl ValueSetOauth2Session {
    #[verifier::external_body]
    pub fn trim(&mut self, trim_cid: &Cid) ensures final(self).map@ == trim_view_o(old(self).map@, *trim_cid) { unimplemented!() }
//@extract ValueSetOauth2Session_repl_merge_valueset
}
pub open spec fn mvs(m: &BTreeMap<Uuid, Session>) -> Map<Uuid, Session> { m@ }
pub open spec fn mvo(m: &BTreeMap<Uuid, Oauth2Session>) -> Map<Uuid, Oauth2Session> { m@ }

// ---- layer 3: algebra of `merged` on the state component (order / grouping independence, idempotence, revocation kept) ----
pub proof fn lemma_dominates_strict_total(a: SessionState, b: SessionState, c: SessionState)
    ensures !dominates(a, a), dominates(a, b) ==> !dominates(b, a), dominates(a, b) && dominates(b, c) ==> dominates(a, c),
{}
pub open spec fn states(m: Map<Uuid, Session>) -> Map<Uuid, SessionState> { m.map_values(|s: Session| s.state) }
pub proof fn lemma_idempotent(a: Map<Uuid, Session>) ensures merged(a, a) =~= a {}
// the result's state for every key is the same (up to ties, which carry equal state) whichever side is "newer"
pub proof fn lemma_commutative_on_state(a: Map<Uuid, Session>, b: Map<Uuid, Session>, k: Uuid)
    requires merged(a, b).contains_key(k)
    ensures merged(b, a).contains_key(k), same_state(merged(a, b)[k].state, merged(b, a)[k].state)
{
    if a.contains_key(k) && b.contains_key(k) { lemma_dominates_strict_total(a[k].state, b[k].state, a[k].state); }
    else if a.contains_key(k) { lemma_dominates_strict_total(a[k].state, a[k].state, a[k].state); }
    else { lemma_dominates_strict_total(b[k].state, b[k].state, b[k].state); }
}
pub proof fn lemma_associative_on_state(a: Map<Uuid, Session>, b: Map<Uuid, Session>, c: Map<Uuid, Session>, k: Uuid)
    requires merged(merged(a, b), c).contains_key(k)
    ensures merged(a, merged(b, c)).contains_key(k), same_state(merged(merged(a, b), c)[k].state, merged(a, merged(b, c))[k].state)
{
    let x = merged(merged(a, b), c)[k].state; let y = merged(a, merged(b, c))[k].state;
    lemma_dominates_strict_total(x, y, x);
    if a.contains_key(k) { lemma_dominates_strict_total(a[k].state, a[k].state, a[k].state); }
    if b.contains_key(k) { lemma_dominates_strict_total(b[k].state, b[k].state, b[k].state); }
    if c.contains_key(k) { lemma_dominates_strict_total(c[k].state, c[k].state, c[k].state); }
    if a.contains_key(k) && b.contains_key(k) { lemma_dominates_strict_total(a[k].state, b[k].state, a[k].state); lemma_dominates_strict_total(b[k].state, a[k].state, b[k].state); }
    if a.contains_key(k) && c.contains_key(k) { lemma_dominates_strict_total(a[k].state, c[k].state, a[k].state); lemma_dominates_strict_total(c[k].state, a[k].state, c[k].state); }
    if b.contains_key(k) && c.contains_key(k) { lemma_dominates_strict_total(b[k].state, c[k].state, b[k].state); lemma_dominates_strict_total(c[k].state, b[k].state, c[k].state); }
    if a.contains_key(k) && b.contains_key(k) && c.contains_key(k) {
        lemma_dominates_strict_total(a[k].state, b[k].state, c[k].state); lemma_dominates_strict_total(a[k].state, c[k].state, b[k].state);
        lemma_dominates_strict_total(b[k].state, a[k].state, c[k].state); lemma_dominates_strict_total(b[k].state, c[k].state, a[k].state);
        lemma_dominates_strict_total(c[k].state, a[k].state, b[k].state); lemma_dominates_strict_total(c[k].state, b[k].state, a[k].state);
    }
}
// a session revoked on either side is revoked in the result, with the earliest revocation change id
pub proof fn lemma_revocation_kept(a: Map<Uuid, Session>, b: Map<Uuid, Session>, k: Uuid)
    requires a.contains_key(k) && a[k].state is RevokedAt || b.contains_key(k) && b[k].state is RevokedAt
    ensures merged(a, b)[k].state is RevokedAt,
        a.contains_key(k) && a[k].state is RevokedAt ==> !cid_lt(a[k].state->RevokedAt_0, merged(a, b)[k].state->RevokedAt_0),
        b.contains_key(k) && b[k].state is RevokedAt ==> !cid_lt(b[k].state->RevokedAt_0, merged(a, b)[k].state->RevokedAt_0),
{}
}
fn main(){}
